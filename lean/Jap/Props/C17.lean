import Jap.Core.Subcmd
import Jap.Lemmas.Subcmd
import Jap.Lemmas.SubcmdMore
import Jap.Lemmas.SubcmdLayer
import Jap.Lemmas.SubcmdSources
import Jap.Gen.SubcmdShape
/-!
# C17 — exactly one subcommand is selected and only its settings survive

Model: `Jap.Subcmd` (Core/Subcmd.lean), a transcription of `get_subcommands`, `handle_subcommands`, the
`get_subcommand` call of `apply_parsing_links` (`sweep`), `check_required`, `_parse_common`, the subcommand action of
the command line (`argvCall`) and the way single config sources are loaded (`loadCfgArg`, `applyDefaultCfg`).

`finalParse lay single mode p cfg` is the last stage of every parse method: `_parse_common(cfg, fail_no_subcommand=True)`
on the configuration `cfg` in which all sources have been merged.  Parser trees `p` have any depth; `lay` (what a selected
sub-parser contributes: its defaults, or its `parse_env`) is arbitrary, `layFuel` is the instance built from each
sub-parser's defaults and environment.  All theorems are by structural induction on the parser tree.

Hypotheses that appear and why:
* `wf p`: what `add_subcommands`/`add_subcommand` guarantee (a subcommand is not called like the subcommand key, names are
  distinct) and no subcommand is called "".
* `mode ≠ .none`: the final parse merges the sub-parser's defaults or environment (`defaults=True`, the default).

FULL STATEMENT (what the property asks): `finalParse lay single mode p cfg = .ok r → exactlyOne p r = true` for all `p`, `cfg`.
Since the fixes 96e4fb9 (a value under the subcommand key that is not a subcommand name is an error, the empty name
included) and adfb1a7 (a non-mapping under the selected subcommand's name is an error) it HOLDS for the code and is proved
below without any hypothesis on the configuration (`C17_exactly_one`; before the fixes it needed the hypothesis `clean`,
refuted without it by a config saying `cmd: ""`: that input is now the regression witness `C17_falsy_name_rejected`).
`clean` survives only in `C17_required`, where it says which error comes first.

Beyond the final stage the property still fails for the code where a source is loaded on its own before it is merged
(`loadCfgArg`, `applyDefaultCfg`): `get_subcommands` runs on that source alone and deletes sections that a later source
selects (`C17_early_selection_counterexample`, open finding C17-early-selection-drops-settings); what is proved is that a
source keeps its sections when it is `quiet` (`C17_source_keeps_sections_partial`).
-/
namespace Jap.Props.C17
open Jap.Subcmd

/-! ## C17_exactly_one -/

/-- on success, at every level of the selected path: `result[dest]` is a subcommand name, `result[name]` is a section,
    no other subcommand has a section; where nothing is selected there is no section -/
theorem C17_exactly_one (lay : Mode → P → Cfg) (single : Bool) (mode : Mode) (p : P) (cfg r : Cfg)
    (hwf : wf p = true) (hm : mode ≠ .none)
    (hok : finalParse lay single mode p cfg = .ok r) :
    exactlyOne p r = true := by
  obtain ⟨c1, h1, h2⟩ := parseCommon_ok lay ⟨true, single, mode⟩ true p cfg r hok
  exact (sound_P p lay single mode [] cfg c1 r hwf hm h1 h2).1

/-- one level spelled out: the key, the section, and no section of any other subcommand -/
theorem C17_exactly_one_top (lay : Mode → P → Cfg) (single : Bool) (mode : Mode) (i : Info) (h : SubHdr)
    (choices : List (String × P)) (cfg r : Cfg)
    (hwf : wf (.node i (some h) choices) = true) (hm : mode ≠ .none)
    (hok : finalParse lay single mode (.node i (some h) choices) cfg = .ok r) :
    (∃ n, lookup h.dest r = some (.str n) ∧ n ∈ names choices ∧ isSecAt n r = true ∧
        ∀ m ∈ names choices, m ≠ n → isSecAt m r = false) ∨
    (isNoneO (lookup h.dest r) = true ∧ ∀ m ∈ names choices, isSecAt m r = false) := by
  have h1 := C17_exactly_one lay single mode _ cfg r hwf hm hok
  rw [exactlyOne] at h1
  cases hl : lookup h.dest r with
  | none =>
    right
    simp only [hl, List.all_eq_true, Bool.not_eq_true'] at h1
    exact ⟨rfl, h1⟩
  | some v =>
    cases v with
    | none =>
      right
      simp only [hl, List.all_eq_true, Bool.not_eq_true'] at h1
      exact ⟨rfl, h1⟩
    | str n =>
      left
      simp only [hl, Bool.and_eq_true, List.all_eq_true, Bool.or_eq_true, beq_iff_eq, Bool.not_eq_true'] at h1
      refine ⟨n, rfl, by simpa using h1.1.1.1, h1.1.1.2, ?_⟩
      intro m hm' hne
      rcases h1.1.2 m hm' with e | e
      · exact absurd e hne
      · exact e
    | int _ => simp [hl] at h1
    | sec _ => simp [hl] at h1

/-! ## C17_complete_settings -/

/-- on success, at every level of the selected path: every setting of a parser that is not about its subcommands is
    exactly what that parser was given, and the parser of the selected subcommand `n` was given `cfg[n]` over its layer
    (`merge given layer`: the given values win) -/
theorem C17_complete_settings (lay : Mode → P → Cfg) (single : Bool) (mode : Mode) (p : P) (cfg r : Cfg)
    (hwf : wf p = true) (hm : mode ≠ .none)
    (hok : finalParse lay single mode p cfg = .ok r) :
    complete lay mode p cfg r := by
  obtain ⟨c1, h1, h2⟩ := parseCommon_ok lay ⟨true, single, mode⟩ true p cfg r hok
  exact (sound_P p lay single mode [] cfg c1 r hwf hm h1 h2).2.1

/-- the layer of a sub-parser, for its own options: its environment over its defaults (`parse_env`), resp. its defaults -/
theorem C17_layer_own_settings (fuel : Nat) (single : Bool) (mode : Mode) (q : P) (k : String) (hk : ownKey q k) :
    lookup k (layFuel fuel single mode q) = lookup k (baseOf mode q) :=
  layFuel_own fuel single mode q k hk

/-- spelled out for an option `k` of the selected sub-parser `q` under environment parsing:
    result[n][k] = the given value, else the value from q's environment, else q's default -/
theorem C17_settings_value (fuel : Nat) (single : Bool) (i : Info) (h : SubHdr) (choices : List (String × P))
    (cfg r : Cfg) (n : String) (q : P) (k : String)
    (hwf : wf (.node i (some h) choices) = true)
    (hok : finalParse (layFuel fuel single) single .env (.node i (some h) choices) cfg = .ok r)
    (hsel : lookup h.dest r = some (.str n)) (hq : findP n choices = some q) (hk : ownKey q k)
    (hg : (keysOf (secOf (lookup n cfg))).Nodup ∧ leafAt k (secOf (lookup n cfg)) = true)
    (he : (keysOf q.info.envc).Nodup ∧ leafAt k q.info.envc = true) :
    lookup k (secOf (lookup n r)) =
      match lookup k (secOf (lookup n cfg)) with
      | some v => some v
      | .none =>
        match lookup k q.info.envc with
        | some v => some v
        | .none => lookup k q.info.dflt := by
  have hc := C17_complete_settings (layFuel fuel single) single .env _ cfg r hwf (by decide) hok
  rw [complete] at hc
  have hc2 := hc.2
  simp only [hsel] at hc2
  rw [completeIn_eq, hq] at hc2
  rw [complete_own _ _ q _ _ k hc2 hk, lookup_merge_leaf k _ _ hg.1 hg.2, C17_layer_own_settings fuel single .env q k hk]
  simp only [baseOf]
  rw [lookup_merge_leaf k _ _ he.1 he.2]
  cases lookup k (secOf (lookup n cfg)) with
  | some v => rfl
  | none => cases lookup k q.info.envc <;> rfl

/-! ## C17_choice -/

/-- on success, at every level of the selected path the subcommand key of the result is what the rule gives for the
    configuration that level was given: the name stored under the key (command line, config, environment), else the
    first subcommand in declaration order that has a section; null/absent when there is neither -/
theorem C17_choice (lay : Mode → P → Cfg) (single : Bool) (mode : Mode) (p : P) (cfg r : Cfg)
    (hwf : wf p = true) (hm : mode ≠ .none)
    (hok : finalParse lay single mode p cfg = .ok r) :
    choiceOK lay mode p cfg r := by
  obtain ⟨c1, h1, h2⟩ := parseCommon_ok lay ⟨true, single, mode⟩ true p cfg r hok
  exact (sound_P p lay single mode [] cfg c1 r hwf hm h1 h2).2.2

/-- "first for which settings were given": without a name under the key, the selected subcommand has a section and
    no subcommand declared BEFORE it has one -/
theorem C17_choice_first_in_declaration_order (h : SubHdr) (ns : List String) (cfg : Cfg) (n : String)
    (he : explicitOf (lookup h.dest cfg) = .none) (hc : choice h ns cfg = some (.str n)) :
    isSecAt n cfg = true ∧ ∃ before after, ns = before ++ n :: after ∧ ∀ m ∈ before, isSecAt m cfg = false :=
  choice_first h ns cfg n he hc

/-- a name under the key wins over sections -/
theorem C17_choice_named (h : SubHdr) (ns : List String) (cfg : Cfg) (n : String)
    (hd : lookup h.dest cfg = some (.str n)) : choice h ns cfg = some (.str n) :=
  choice_explicit h ns cfg n hd

/-- the name written on the command line wins over everything the merged sources say (configs given before it on the
    command line, the environment, default config files): whole `parse_args` of the model -/
theorem C17_choice_argv (lay : Mode → P → Cfg) (single : Bool) (mode : Mode) (validate : Bool) (i : Info) (h : SubHdr)
    (choices : List (String × P)) (items : List (Bool × Cfg)) (n : String) (rest : Argv) (ns r : Cfg) (q : P)
    (hwf : wf (.node i (some h) choices) = true) (hm : mode ≠ .none) (hq : findP n choices = some q)
    (hok : parseArgs lay single mode validate (.node i (some h) choices) (.mk items (some (n, rest))) ns = .ok r) :
    lookup h.dest r = some (.str n) ∧ isSecAt n r = true :=
  argv_wins lay single mode validate i h choices items n rest ns r q hwf hm hq hok

/-! ## C17_required -/

/-- if, following the rule down the tree, a parser is reached whose subcommand is required and undeterminable, the parse
    fails with the "expected <key> to be one of" error — at any depth -/
theorem C17_required (lay : Mode → P → Cfg) (single : Bool) (mode : Mode) (p : P) (cfg : Cfg)
    (hwf : wf p = true) (hm : mode ≠ .none) (hcl : clean lay mode p cfg = true)
    (hmiss : missingReq lay mode p cfg = true) :
    ∃ key, finalParse lay single mode p cfg = .error (.nosub key) := by
  obtain ⟨key, hk⟩ := missing_P p lay ⟨true, single, mode⟩ [] cfg hwf rfl hm hcl hmiss
  refine ⟨key, ?_⟩
  unfold finalParse parseCommon
  rw [hk]
  rfl

/-- the top level spelled out: no name, no section, required → error naming the subcommand key -/
theorem C17_required_top (lay : Mode → P → Cfg) (single : Bool) (mode : Mode) (i : Info) (h : SubHdr)
    (choices : List (String × P)) (cfg : Cfg)
    (hn : isNoneO (lookup h.dest cfg) = true) (hs : ∀ m ∈ names choices, isSecAt m cfg = false) (hr : h.required = true) :
    finalParse lay single mode (.node i (some h) choices) cfg = .error (.nosub [h.dest]) := by
  have hch : choice h (names choices) cfg = .none := by
    have he : explicitOf (lookup h.dest cfg) = .none := by
      cases hl : lookup h.dest cfg with
      | none => rfl
      | some v => cases v <;> simp_all [isNoneO, explicitOf]
    have hk : subKeys (names choices) cfg = [] := by
      simp only [subKeys, List.filter_eq_nil_iff]
      intro m hm'
      simp [hs m hm']
    simp [choice, he, hk]
  unfold finalParse parseCommon
  rw [handle_node_none _ _ [] i h choices cfg hch]
  simp [hr]

/-- not required: the parse succeeds, nothing is added: no subcommand key value, no section -/
theorem C17_optional (lay : Mode → P → Cfg) (single : Bool) (mode : Mode) (i : Info) (h : SubHdr)
    (choices : List (String × P)) (cfg : Cfg)
    (hch : choice h (names choices) cfg = .none) (hr : h.required = false) :
    finalParse lay single mode (.node i (some h) choices) cfg = .ok cfg ∧
    isNoneO (lookup h.dest cfg) = true ∧ ∀ m ∈ names choices, isSecAt m cfg = false := by
  refine ⟨optional_none lay _ true true i h choices cfg hch hr, (choice_none_facts h _ cfg hch).1, ?_⟩
  intro m hm'
  have hk := (choice_none_facts h _ cfg hch).2
  cases hs : isSecAt m cfg with
  | false => rfl
  | true =>
    have : m ∈ subKeys (names choices) cfg := (mem_subKeys _ _ _).2 ⟨hm', hs⟩
    rw [hk] at this
    cases this

/-! ## settings that are not about subcommands are never touched (all flags, all configurations) -/

theorem C17_global_options_untouched (lay : Mode → P → Cfg) (fl : Flags) (validate : Bool) (p : P) (cfg r : Cfg)
    (hok : parseCommon lay fl true validate p cfg = .ok r) (k : String) (hk : ownKey p k) :
    lookup k r = lookup k cfg :=
  parseCommon_frame lay fl validate p cfg r hok k hk

/-! ## sources loaded on their own -/

/-- a config argument (`--cfg`, the config environment variable) keeps every section it holds when it does not itself
    name a subcommand or holds at most one section (`quiet`) -/
theorem C17_source_keeps_sections_partial (i : Info) (h : SubHdr) (choices : List (String × P)) (tree t : Cfg)
    (hq : quiet h (names choices) tree = true)
    (hok : loadCfgArg (.node i (some h) choices) tree = .ok t) (k : String) :
    isSecAt k t = isSecAt k tree :=
  loadCfgArg_keeps i h choices tree t hq hok k

/-- fix f6d3709 (finding 15d): loading a default config file can never fail with the required-subcommand error, whatever
    the file contains (the call passes `fail_no_subcommand=False`: `tie_sources`) -/
theorem C17_default_config_never_requires (single : Bool) (p : P) (tree cfg : Cfg) (key : List String) :
    applyDefaultCfg single p tree cfg ≠ .error (.nosub key) :=
  applyDefaultCfg_never_requires single p tree cfg key

/-! ## non-vacuity and witnesses -/

def leafP (d : Cfg) : P := .node (.basic d []) .none []

/-- a three-level tree: root (required `subcommand`) → fit (optional `cmd`, env lr=7) → sgd | adam; test -/
def exTree : P :=
  .node (.basic [("g", .int 1), ("subcommand", .none)] []) (some ⟨"subcommand", true⟩)
    [("fit", .node (.basic [("lr", .int 1), ("cmd", .none)] [("lr", .int 7)]) (some ⟨"cmd", false⟩)
        [("sgd", leafP [("m", .int 0)]), ("adam", leafP [("b", .int 9)])]),
     ("test", leafP [("k", .int 5)])]

/-- settings for two subcommands, no name: `test` is written first in the config, `fit` is declared first -/
def exCfg : Cfg :=
  [("g", .int 2), ("subcommand", .none), ("test", .sec [("k", .int 6)]), ("fit", .sec [("sgd", .sec [("m", .int 3)])])]

/-- the hypotheses of the theorems hold for it -/
example : wf exTree = true ∧ clean (layFuel 8 true) .env exTree exCfg = true := by decide

/-- and the parse gives: fit selected (declaration order), test removed, fit.lr from the environment, fit.cmd = sgd
    selected at the second level, the given m=3 over the default 0 -/
example : finalParse (layFuel 8 true) true .env exTree exCfg =
    .ok [("g", .int 2), ("subcommand", .str "fit"),
         ("fit", .sec [("lr", .int 7), ("cmd", .str "sgd"), ("sgd", .sec [("m", .int 3)])])] := by rfl

/-- a required nested subcommand that cannot be determined: error at depth 2, whatever the depth -/
example : missingReq (layFuel 8 true) .dflt
    (.node (.basic [] []) (some ⟨"subcommand", true⟩) [("a", .node (.basic [] []) (some ⟨"cmd", true⟩) [("b", leafP [])])])
    [("subcommand", .str "a")] = true := by decide

example : finalParse (layFuel 8 true) true .dflt
    (.node (.basic [] []) (some ⟨"subcommand", true⟩) [("a", .node (.basic [] []) (some ⟨"cmd", true⟩) [("b", leafP [])])])
    [("subcommand", .str "a")] = .error (.nosub ["a", "cmd"]) := by rfl

def twoP : P := .node (.basic [] []) (some ⟨"cmd", false⟩) [("a", leafP [("x", .int 1)]), ("b", leafP [("y", .int 2)])]

/-- regression witness of fix 96e4fb9 (finding C17-falsy-subcommand-name, now fixed): `cmd: ""` for an optional subcommand
    used to be accepted — the empty name stayed as the choice and the sections of BOTH subcommands survived, because the
    code tests `if subcommand` where it means `is not None` — and is now the "expected cmd to be one of …, but got" error;
    so is any other value that is not a subcommand name, required or not -/
theorem C17_falsy_name_rejected :
    finalParse (layFuel 8 true) true .dflt twoP [("cmd", .str ""), ("a", .sec [("x", .int 5)]), ("b", .sec [("y", .int 6)])]
      = .error (.badname ["cmd"])
    ∧ finalParse (layFuel 8 true) true .dflt twoP [("cmd", .str "zap"), ("a", .sec [("x", .int 5)])] = .error (.badname ["cmd"]) := by
  refine ⟨by rfl, by rfl⟩

/-- the general statement behind it: with `fail_no_subcommand`, whatever the rule selects, if it is not a subcommand name the
    call fails with that error -/
theorem C17_unknown_name_rejected (h : SubHdr) (ns : List String) (single : Bool) (mode : Mode) (pre : List String) (cfg : Cfg)
    (v : Val) (hc : choice h ns cfg = some v) (hv : validName ns v = false) :
    getSub h ns ⟨true, single, mode⟩ pre cfg = .error (.badname (pre ++ [h.dest])) :=
  getSub_fail_invalid h ns single mode pre cfg v hc hv

/-- regression witness of fix adfb1a7: a non-mapping under the selected subcommand's name is the "expected the settings …
    to be a mapping" error (it used to reach `.clone()`: AttributeError) -/
theorem C17_non_mapping_settings_rejected :
    finalParse (layFuel 8 true) true .dflt twoP [("cmd", .str "a"), ("a", .int 5)] = .error (.badsec ["a"]) := by rfl

/-- `handle_subcommands` ALONE does not establish the property: with an explicit name and ONE other section the
    section survives the call (`len(subcommand_keys) > 1` is false) … -/
theorem C17_handle_alone_counterexample :
    handle (layFuel 8 true) ⟨true, true, .dflt⟩ [] twoP [("cmd", .str "a"), ("b", .sec [("y", .int 6)])]
      = .ok [("cmd", .str "a"), ("b", .sec [("y", .int 6)]), ("a", .sec [("x", .int 1)])] := by rfl

/-- … it is the `get_subcommand` call at the head of `apply_parsing_links` that removes it -/
theorem C17_sweep_completes :
    finalParse (layFuel 8 true) true .dflt twoP [("cmd", .str "a"), ("b", .sec [("y", .int 6)])]
      = .ok [("cmd", .str "a"), ("a", .sec [("x", .int 1)])] := by rfl

def threeP : P :=
  .node (.basic [("subcommand", .none)] []) (some ⟨"subcommand", true⟩)
    [("fit", leafP [("alpha", .int 1)]), ("test", leafP [("beta", .int 2)]), ("run", leafP [("gamma", .int 3)])]

/-- open finding C17-early-selection-drops-settings: a config argument that names `test` and holds sections for `run`
    and `fit` loses both while it is loaded … -/
theorem C17_early_selection_counterexample :
    loadCfgArg threeP [("subcommand", .str "test"), ("run", .sec [("gamma", .int 30)]), ("fit", .sec [("alpha", .int 10)])]
      = .ok [("subcommand", .str "test")]
    ∧ quiet ⟨"subcommand", true⟩ ["fit", "test", "run"]
        [("subcommand", .str "test"), ("run", .sec [("gamma", .int 30)]), ("fit", .sec [("alpha", .int 10)])] = false := by
  refine ⟨by rfl, by decide⟩

/-- … so that `--cfg=<that> run` ends with the DEFAULT gamma = 3 instead of the given 30 (whole `parse_args` of the model) … -/
theorem C17_early_selection_pipeline :
    parseArgs (layFuel 8 true) true .dflt true threeP
      (.mk [(true, [("subcommand", .str "test"), ("run", .sec [("gamma", .int 30)]), ("fit", .sec [("alpha", .int 10)])])]
        (some ("run", .mk [] .none))) []
      = .ok [("subcommand", .str "run"), ("run", .sec [("gamma", .int 3)])] := by rfl

/-- … whereas with ONE extra section the given value is kept -/
theorem C17_early_selection_one_section_kept :
    parseArgs (layFuel 8 true) true .dflt true threeP
      (.mk [(true, [("subcommand", .str "test"), ("run", .sec [("gamma", .int 30)])])] (some ("run", .mk [] .none))) []
      = .ok [("subcommand", .str "run"), ("run", .sec [("gamma", .int 30)])] := by rfl

/-- the hypothesis `quiet` of the partial theorem is satisfiable by a source with several sections -/
example : quiet ⟨"subcommand", true⟩ ["fit", "test", "run"]
    [("run", .sec [("gamma", .int 30)]), ("fit", .sec [("alpha", .int 10)])] = true := by decide

/-! ## the concrete layer: names of the environment variables, order of the sources, complete settings

`layerC E fuel single ctx mode q` computes what `q.get_defaults()` / `q.parse_env()` return under the `parent_parsers`
stack `ctx` from q's option defaults, its default config files, the files of the parsers on the stack (narrowed to their
key) and the process environment `E` read BY VARIABLE NAME.  It is compared with the recorded return values of the real
sub-parsers on every run (correspondence kind "layer"). -/

/-- the variable the code reads for `dest` of the parser reached through the subcommands s1 … sn is
    PREFIX_S1__…__SN__DEST (`-` → `_` in prefix and names, `.` → `__`, upper case) … -/
theorem C17_env_names (root : List Nat) (path : List (List Nat)) (dest : List Nat) :
    envVarAt root path dest = envName root path dest :=
  envVarAt_eq root path dest

/-- … and `_load_env_vars` holds, at an option of the parser, exactly the value of THAT variable (no config variable) -/
theorem C17_env_names_read (E : Env) (penv : P → Cfg) (q : P) (k : String) (hk : ownKey q k) (hko : k ∈ q.info.options)
    (hcfg : ∀ ck, q.info.cfgKey = some ck →
      lookupE (getEnvVar (prefixAt E.root (q.info.path.map codes)) (codes ck)) E.cfgs = .none) :
    lookup k (loadEnvC E penv q) = lookupE (envName E.root (q.info.path.map codes) (codes k)) E.vals := by
  rw [(loadEnvC_own E penv q k hk hko hcfg).1, C17_env_names]

/-- the name determines the parser and the option: two variables coincide only if the normalised subcommand paths and
    dests coincide, provided no normalised subcommand name contains `__` or ends with `_` and no normalised dest
    contains `__` (the no-dunder hypothesis; e.g. subcommand `a` with option `b__c` and subcommand path `a`,`b` with
    option `c` both read APP_A__B__C) -/
theorem C17_env_names_injective (root : List Nat) (path path' : List (List Nat)) (d d' : List Nat)
    (hp : ∀ n ∈ path, word (normN n) = true) (hp' : ∀ n ∈ path', word (normN n) = true)
    (hd : lastWord (normD d) = true) (hd' : lastWord (normD d') = true)
    (h : envName root path d = envName root path' d') :
    path.map normN = path'.map normN ∧ normD d = normD d' :=
  envName_inj root path path' d d' hp hp' hd hd' h

/-- the hypothesis is needed: the collision of the comment above -/
theorem C17_env_names_dunder_collision :
    envName (codes "app") [codes "a"] (codes "b__c") = envName (codes "app") [codes "a", codes "b"] (codes "c") := by decide

/-- ORDER OF THE SOURCES WITHIN ONE LEVEL, as the code has it (`parse_env` of a sub-parser, at one of its options):
    its environment variable, else its own default config files (the LAST listed that has the option), else the files of the
    parsers on the `parent_parsers` stack narrowed to their key (a parent's section for this sub-parser; later stack
    entries over earlier ones), else the option's default -/
theorem C17_layer_order (E : Env) (fuel : Nat) (single : Bool) (ctx : Ctx) (q : P) (k : String)
    (hk : ownKey q k) (hko : k ∈ q.info.options) (hm : k ≠ "__default_config__")
    (hcfg : ∀ ck, q.info.cfgKey = some ck →
      lookupE (getEnvVar (prefixAt E.root (q.info.path.map codes)) (codes ck)) E.cfgs = .none)
    (hleaf : ∀ v, lookupE (envVarAt E.root (q.info.path.map codes) (codes k)) E.vals = some v → v.isSec = false)
    (hf : ∀ t ∈ filesOf ctx q.info.dcfs, (keysOf t).Nodup ∧ leafAt k t = true) :
    lookup k (layerC E (fuel + 1) single ctx .env q) =
      match lookupE (envName E.root (q.info.path.map codes) (codes k)) E.vals with
      | some v => some v
      | .none => pickLast k q.info.dcfs (pickLast k (filesOf ctx []) (lookup k q.info.opts)) := by
  rw [layerC_env_own E fuel single ctx q k hk hko hm hcfg hleaf hf, C17_env_names]
  have : filesOf ctx q.info.dcfs = filesOf ctx [] ++ q.info.dcfs := by simp [filesOf]
  rw [this, pickLast_append]
  cases lookupE (envName E.root (q.info.path.map codes) (codes k)) E.vals <;> rfl

/-- the same without environment parsing (`get_defaults`) -/
theorem C17_layer_order_defaults (E : Env) (fuel : Nat) (single : Bool) (ctx : Ctx) (q : P) (k : String)
    (hk : ownKey q k) (hm : k ≠ "__default_config__")
    (hf : ∀ t ∈ filesOf ctx q.info.dcfs, (keysOf t).Nodup ∧ leafAt k t = true) :
    lookup k (layerC E fuel single ctx .dflt q) =
      pickLast k q.info.dcfs (pickLast k (filesOf ctx []) (lookup k q.info.opts)) := by
  have e : layerC E fuel single ctx .dflt q = getDefaultsC single ctx q := by cases fuel <;> rfl
  rw [e, getDefaultsC_own single ctx q k hk hm hf]
  have : filesOf ctx q.info.dcfs = filesOf ctx [] ++ q.info.dcfs := by simp [filesOf]
  rw [this, pickLast_append]

/-- C17_complete_settings with the concrete layer: for an option `k` of the selected sub-parser `q`,
    result[n][k] = the given value, else the value of the variable PREFIX_…__N__K, else q's own default config files (last
    listed first), else the parent's default-config section for `n`, else the option default -/
theorem C17_complete_settings_concrete (E : Env) (fuel : Nat) (single : Bool) (i : Info) (h : SubHdr)
    (choices : List (String × P)) (cfg r : Cfg) (n : String) (q : P) (k : String)
    (hwf : wf (.node i (some h) choices) = true)
    (hok : finalParse (layC E (fuel + 1) single (.node i (some h) choices)) single .env (.node i (some h) choices) cfg = .ok r)
    (hsel : lookup h.dest r = some (.str n)) (hq : findP n choices = some q)
    (hk : ownKey q k) (hko : k ∈ q.info.options) (hm : k ≠ "__default_config__")
    (hg : (keysOf (secOf (lookup n cfg))).Nodup ∧ leafAt k (secOf (lookup n cfg)) = true)
    (hcfg : ∀ ck, q.info.cfgKey = some ck →
      lookupE (getEnvVar (prefixAt E.root (q.info.path.map codes)) (codes ck)) E.cfgs = .none)
    (hleaf : ∀ v, lookupE (envVarAt E.root (q.info.path.map codes) (codes k)) E.vals = some v → v.isSec = false)
    (hf : ∀ t ∈ filesOf [(relKey (.node i (some h) choices) q, q.info.pdcfs)] q.info.dcfs, (keysOf t).Nodup ∧ leafAt k t = true) :
    lookup k (secOf (lookup n r)) =
      match lookup k (secOf (lookup n cfg)) with
      | some v => some v
      | .none =>
        match lookupE (envName E.root (q.info.path.map codes) (codes k)) E.vals with
        | some v => some v
        | .none => pickLast k q.info.dcfs
            (pickLast k (q.info.pdcfs.map (narrow (relKey (.node i (some h) choices) q))) (lookup k q.info.opts)) := by
  have hc := C17_complete_settings (layC E (fuel + 1) single (.node i (some h) choices)) single .env _ cfg r hwf
    (by intro e; cases e) hok
  rw [complete] at hc
  have hc2 := hc.2
  simp only [hsel] at hc2
  rw [completeIn_eq, hq] at hc2
  rw [complete_own _ _ q _ _ k hc2 hk, lookup_merge_leaf k _ _ hg.1 hg.2]
  have hl := C17_layer_order E fuel single [(relKey (.node i (some h) choices) q, q.info.pdcfs)] q k hk hko hm hcfg hleaf hf
  have hfl : filesOf [(relKey (.node i (some h) choices) q, q.info.pdcfs)] [] =
      q.info.pdcfs.map (narrow (relKey (.node i (some h) choices) q)) := by simp [filesOf, lastEntry]
  rw [hfl] at hl
  show (match lookup k (secOf (lookup n cfg)) with
    | some v => some v
    | .none => lookup k (layerC E (fuel + 1) single [(relKey (.node i (some h) choices) q, q.info.pdcfs)] .env q)) = _
  rw [hl]

/-! ### non-vacuity of the concrete statements -/

def d0 : Cfg := [("fit", .sec [("beta", .int 50)])]
def fitC : P := .node { (mkInfo ["fit"] [("alpha", .int 1), ("beta", .int 2), ("gamma", .int 3), ("delta", .int 4)]
    ["alpha", "beta", "gamma", "delta"] [[("gamma", .int 60)], [("gamma", .int 61), ("delta", .int 70)]] [d0]) with } .none []
def rootC : P := .node (mkInfo [] [("subcommand", .none)] [] [d0] []) (some ⟨"subcommand", true⟩) [("fit", fitC)]
def envC : Env := ⟨codes "app", [(codes "APP_FIT__DELTA", .int 80)], []⟩

/-- fit named by the config; alpha given, beta from the parent's default-config section, gamma from the LAST own default
    config file, delta from the variable APP_FIT__DELTA (over the own file's 70) -/
example : wf rootC = true ∧ clean (layC envC 3 true rootC) .env rootC [("subcommand", .str "fit"), ("fit", .sec [("alpha", .int 9)])] = true := by
  decide

example : finalParse (layC envC 3 true rootC) true .env rootC [("subcommand", .str "fit"), ("fit", .sec [("alpha", .int 9)])] =
    .ok [("subcommand", .str "fit"),
         ("fit", .sec [("alpha", .int 9), ("beta", .int 50), ("gamma", .int 61), ("delta", .int 80),
                       ("__default_config__", .str "§list")])] := by rfl

/-! ### where the documented order (defaults < default config < environment < given) is violated -/

def d1 : Cfg := [("fit", .sec [("alpha", .int 5)])]
def fitP : P := .node (mkInfo ["fit"] [("alpha", .int 1)] ["alpha"] [] [d1]) .none []
def rootP : P := .node (mkInfo [] [("subcommand", .none)] [] [d1] []) (some ⟨"subcommand", true⟩) [("fit", fitP)]
def envNamesFit : Env := ⟨codes "app", [(codes "APP_SUBCOMMAND", .str "fit")], []⟩

/-- regression witness of fix a5d1a53 (finding C17-env-named-subcommand-resets-defaults, was open): the root's default config file
    gives fit.alpha = 5 (`get_defaults`), the variable APP_SUBCOMMAND=fit only NAMES the subcommand: the environment layer of the
    root holds the name and NO value for alpha (the environment-only `parse_env` of `fit` is copied: `layerEO`), so that,
    environment over defaults, fit.alpha = 5 survives.  Before the fix the layer held fit's plain default alpha = 1 (the COMPLETE
    `parse_env`, here `layerC … .env`, was copied) and the result was 1 -/
theorem C17_env_named_keeps_defaults :
    lookup "alpha" (secOf (lookup "fit" (getDefaultsC true [] rootP))) = some (.int 5) ∧
    lookup "subcommand" (loadEnvC envNamesFit (layerEO envNamesFit 3 true) rootP) = some (.str "fit") ∧
    lookup "alpha" (secOf (lookup "fit" (loadEnvC envNamesFit (layerEO envNamesFit 3 true) rootP))) = .none ∧
    lookup "alpha" (secOf (lookup "fit"
      (merge (loadEnvC envNamesFit (layerEO envNamesFit 3 true) rootP) (getDefaultsC true [] rootP)))) = some (.int 5) ∧
    lookup "alpha" (secOf (lookup "fit" (layerC envNamesFit 4 true [] .env rootP))) = some (.int 5) ∧
    -- what the code did before the fix:
    lookup "alpha" (secOf (lookup "fit"
      (merge (loadEnvC envNamesFit (layerC envNamesFit 3 true [] .env) rootP) (getDefaultsC true [] rootP)))) = some (.int 1) := by
  refine ⟨by rfl, by rfl, by rfl, by rfl, by rfl, by rfl⟩

def d2 : Cfg := [("fit", .sec [("gamma", .int 792)])]
def evalP : P := .node (mkInfo ["fit", "eval"] [] [] [] []) .none []
def fit2 : P := .node (mkInfo ["fit"] [("gamma", .int 85), ("cmd", .none)] ["gamma"] [] [d2]) (some ⟨"cmd", true⟩) [("eval", evalP)]
def envNamesEval : Env := ⟨codes "app", [(codes "APP_FIT__CMD", .str "eval")], []⟩

/-- regression witness of fix 00c879c (finding C17-env-default-config-leak, was open): under the stack [(fit, root)] the `parse_env`
    of `fit` handles its own subcommands with the stack [(fit, root), (eval, fit)]; only the LAST entry is used now, so the root's
    file narrowed to the section `fit` (gamma = 792, meant for `fit`) is no longer loaded for the GRANDCHILD `eval`: `fit` gets it,
    `fit.eval` does not -/
theorem C17_default_config_no_leak_witness :
    lookup "gamma" (layerC envNamesEval 3 true [("fit", [d2])] .env fit2) = some (.int 792) ∧
    lookup "cmd" (layerC envNamesEval 3 true [("fit", [d2])] .env fit2) = some (.str "eval") ∧
    lookup "gamma" (secOf (lookup "eval" (layerC envNamesEval 3 true [("fit", [d2])] .env fit2))) = .none ∧
    filesOf [("fit", [d2]), ("eval", [])] [] = [] := by
  refine ⟨by rfl, by rfl, by rfl, by rfl⟩

/-! ## session 2: the findings characterised exactly, and their complements (two of them repaired since: F50, F51)

Each open finding is stated as an EXACT condition inside the model (when, and on which key, the code deviates) together
with the complement: outside that class the sources are taken verbatim, the merged configuration is the plain precedence
fold of all sources (the fold of C04), and the final-stage theorems above (`C17_exactly_one`, `C17_complete_settings`,
`C17_choice`) apply to it. -/

/-- C17-early-selection-drops-settings, EXACT for a config argument / the config environment variable: the section `k` of
    the source survives the loading iff it is not the case that the source names a subcommand (truthy value under the key),
    holds sections of two or more subcommands, and `k` is one of them other than the named one -/
theorem C17_early_selection_exact (i : Info) (h : SubHdr) (choices : List (String × P)) (tree t : Cfg)
    (hok : loadCfgArg (.node i (some h) choices) tree = .ok t) (k : String) :
    isSecAt k t = (isSecAt k tree && !loses h (names choices) tree k) :=
  loadCfgArg_exact i h choices tree t hok k

/-- the same for every `get_subcommands` call under the single-subcommand rule (each default config file, the final stage):
    `k` is deleted iff some subcommand is selected (named, else the first with a section), two or more have sections and `k`
    is one of them other than the selected one.  For a default config file this is the early selection: the file's first
    section wins whatever a later source names -/
theorem C17_single_rule_exact (h : SubHdr) (ns : List String) (fail : Bool) (mode : Mode) (c : Cfg) (k : String) :
    isSecAt k (getSubCore h ns ⟨fail, true, mode⟩ c).cfg = (isSecAt k c && !losesSingle h ns c k) :=
  isSecAt_getSubCore_single h ns fail mode c k

/-- complement, at EVERY depth: a config source in which no level both names a subcommand and holds sections of several
    goes through `apply_config` unchanged — the whole tree, not only its top-level sections (this replaces the hypothesis
    `quiet` of `C17_source_keeps_sections_partial`, which spoke of one level, by the weakest one the code allows) -/
theorem C17_quiet_source_verbatim (p : P) (tree t : Cfg) (hok : loadCfgArg p tree = .ok t) (hq : quietDeep p tree = true) :
    t = tree :=
  loadCfgArg_verbatim p tree t hok hq

/-- the hypothesis cannot be weakened: if the top level is not quiet, some section IS lost (here: every section other than
    the named one) -/
theorem C17_not_quiet_loses (i : Info) (h : SubHdr) (choices : List (String × P)) (tree t : Cfg) (k : String)
    (hok : loadCfgArg (.node i (some h) choices) tree = .ok t)
    (hs : selectsEarly h (names choices) tree = true) (hk : k ∈ names choices) (hsec : isSecAt k tree = true)
    (hne : isStr k (explicitOf (lookup h.dest tree)) = false) :
    isSecAt k t = false := by
  rw [C17_early_selection_exact i h choices tree t hok k]
  have : k ∈ subKeys (names choices) tree := (mem_subKeys _ _ _).2 ⟨hk, hsec⟩
  simp [loses, hs, this, hne]

/-- ALL SOURCES OF ONE COMMAND LINE, ANY NUMBER, ANY ORDER: options and config arguments interleaved; when every config
    argument is quiet the configuration that reaches the final stage is the precedence fold (later over earlier) of all of
    them over the namespace handed in over defaults and environment -/
theorem C17_command_line_is_fold (p : P) (items : List (Bool × Cfg)) (c r : Cfg) (hok : applyItems p items c = .ok r)
    (hq : ∀ it ∈ items, it.1 = true → quietDeep p it.2 = true) : r = foldItems items c :=
  applyItems_fold p items c r hok hq

/-- … and a key of the fold holds the value of the LAST source that gives it, else what was below (C04's rule) -/
theorem C17_fold_value (k : String) (items : List (Bool × Cfg)) (c : Cfg)
    (h : ∀ it ∈ items, (keysOf it.2).Nodup ∧ leafAt k it.2 = true) :
    lookup k (foldItems items c) = lastLeaf k items (lookup k c) :=
  lookup_foldItems k items c h

/-- the whole `parse_args` of the model, for ANY command line (subcommand names at any depth, config arguments that are
    not quiet included), any namespace handed in, any defaults/environment: on success exactly one subcommand per level -/
theorem C17_pipeline_exactly_one (lay : Mode → P → Cfg) (single : Bool) (mode : Mode) (validate : Bool) (p : P) (av : Argv)
    (ns r : Cfg) (hwf : wf p = true) (hm : mode ≠ .none)
    (hok : parseArgs lay single mode validate p av ns = .ok r) : exactlyOne p r = true := by
  obtain ⟨c, hc⟩ := parseArgs_final lay single mode validate p av ns r hok
  obtain ⟨c1, h1, h2⟩ := parseCommon_ok lay ⟨true, single, mode⟩ validate p c r hc
  exact (sound_P p lay single mode [] c c1 r hwf hm h1 h2).1

/-- … and with quiet config arguments and no subcommand name on the command line the result is exactly-one, complete and
    chosen by the rule RELATIVE TO THE FOLD of all sources: nothing a source gives for the selected subcommand is lost -/
theorem C17_pipeline_quiet_sound (lay : Mode → P → Cfg) (single : Bool) (mode : Mode) (validate : Bool) (p : P)
    (items : List (Bool × Cfg)) (ns r : Cfg) (hwf : wf p = true) (hm : mode ≠ .none)
    (hq : ∀ it ∈ items, it.1 = true → quietDeep p it.2 = true)
    (hok : parseArgs lay single mode validate p (.mk items .none) ns = .ok r) :
    exactlyOne p r = true ∧ complete lay mode p (foldItems items (merge ns (baseOf mode p))) r ∧
      choiceOK lay mode p (foldItems items (merge ns (baseOf mode p))) r := by
  have hc := parseArgs_quiet lay single mode validate p items ns r hq hok
  obtain ⟨c1, h1, h2⟩ := parseCommon_ok lay ⟨true, single, mode⟩ validate p _ r hc
  exact sound_P p lay single mode [] _ c1 r hwf hm h1 h2

/-- the selection is the one named by the highest-precedence source that names one: the LAST item of the command line
    that holds the subcommand key, else the value below (namespace, environment, default config files) -/
theorem C17_choice_highest_precedence (lay : Mode → P → Cfg) (single : Bool) (mode : Mode) (validate : Bool) (i : Info)
    (h : SubHdr) (choices : List (String × P)) (items : List (Bool × Cfg)) (ns r : Cfg) (v : Val)
    (hwf : wf (.node i (some h) choices) = true) (hm : mode ≠ .none)
    (hq : ∀ it ∈ items, it.1 = true → quietDeep (.node i (some h) choices) it.2 = true)
    (hl : ∀ it ∈ items, (keysOf it.2).Nodup ∧ leafAt h.dest it.2 = true)
    (hv : explicitOf (lastLeaf h.dest items (lookup h.dest (merge ns (baseOf mode (.node i (some h) choices))))) = some v)
    (hok : parseArgs lay single mode validate (.node i (some h) choices) (.mk items .none) ns = .ok r) :
    lookup h.dest r = some v := by
  have hs := (C17_pipeline_quiet_sound lay single mode validate _ items ns r hwf hm hq hok).2.2
  rw [choiceOK] at hs
  have hc : choice h (names choices) (foldItems items (merge ns (baseOf mode (.node i (some h) choices)))) = some v := by
    unfold choice
    rw [C17_fold_value h.dest items _ hl, hv]
  have := hs.1
  rw [hc] at this
  exact this

/-- (iv) parsing a RESULT again (what `dump`/`save`/`print_config` write is the result: the subcommand key and the selected
    section are in it) selects the same subcommand: the name is explicit in the result, and where nothing was selected there
    is nothing to select from -/
theorem C17_reparse_same_selection (lay : Mode → P → Cfg) (single : Bool) (mode : Mode) (i : Info) (h : SubHdr)
    (choices : List (String × P)) (cfg r r' : Cfg)
    (hwf : wf (.node i (some h) choices) = true) (hm : mode ≠ .none)
    (h1 : finalParse lay single mode (.node i (some h) choices) cfg = .ok r)
    (h2 : finalParse lay single mode (.node i (some h) choices) r = .ok r') :
    (∃ n, lookup h.dest r = some (.str n) ∧ lookup h.dest r' = some (.str n)) ∨
    (isNoneO (lookup h.dest r) = true ∧ isNoneO (lookup h.dest r') = true) := by
  have hc := C17_choice lay single mode _ r r' hwf hm h2
  rw [choiceOK] at hc
  rcases C17_exactly_one_top lay single mode i h choices cfg r hwf hm h1 with ⟨n, hn, _, _, _⟩ | ⟨hnone, hsec⟩
  · left
    have := hc.1
    rw [choice_explicit h _ r n hn] at this
    exact ⟨n, hn, this⟩
  · right
    have hch : choice h (names choices) r = .none := by
      have he : explicitOf (lookup h.dest r) = .none := by
        cases hl : lookup h.dest r with
        | none => rfl
        | some v => cases v <;> simp_all [isNoneO, explicitOf]
      have hk : subKeys (names choices) r = [] := by
        simp only [subKeys, List.filter_eq_nil_iff]
        intro m hm'
        simp [hsec m hm']
      simp [choice, he, hk]
    have := hc.1
    rw [hch] at this
    exact ⟨hnone, this⟩

/-- (iv) what `dump`/`save`/`print_config` WRITE omits the subcommand key at every level (`_dump_cleanup_actions` pops it): the
    re-parse must select by "first with settings".  It selects the same subcommand because the result holds EXACTLY ONE
    section (`C17_exactly_one`), provided that defaults and environment, over which the dumped document is merged, neither
    name a subcommand nor hold a section of another one: `c` is any configuration with no name and exactly the section `n` -/
theorem C17_reparse_dump_same_selection (lay : Mode → P → Cfg) (single : Bool) (mode : Mode) (i : Info) (h : SubHdr)
    (choices : List (String × P)) (c r' : Cfg) (n : String)
    (hwf : wf (.node i (some h) choices) = true) (hm : mode ≠ .none) (hn : n ∈ names choices)
    (he : explicitOf (lookup h.dest c) = .none) (hs : ∀ m ∈ names choices, isSecAt m c = (m == n))
    (h2 : finalParse lay single mode (.node i (some h) choices) c = .ok r') :
    lookup h.dest r' = some (.str n) := by
  obtain ⟨_, _, hnd, _⟩ := wf_node i h choices hwf
  have hc := C17_choice lay single mode _ c r' hwf hm h2
  rw [choiceOK] at hc
  have := hc.1
  rw [choice_only_section h _ c n hnd hn he hs] at this
  exact this

/-- the hypothesis on defaults and environment is needed (NEW observation, real code: parse_args(['fit', '--lr=3']) with a
    default config file {test: {k: 5}}; dump gives "fit: {lr: 3}"; parse_string of it selects `test`): `get_defaults` has
    NAMED `test` while loading the file on its own, the dumped document only holds the section `fit`, a name beats a section -/
theorem C17_reparse_dump_counterexample :
    finalParse (layFuel 8 true) true .dflt twoP [("cmd", .str "b"), ("b", .sec [("y", .int 5)]), ("a", .sec [("x", .int 3)])]
      = .ok [("cmd", .str "b"), ("b", .sec [("y", .int 5)])] := by rfl

/-- the mechanism behind the former finding C17-env-named-subcommand-resets-defaults: when the subcommand variable names the
    subcommand `v`, the environment layer of the parser holds under `v` EVERY key of what `penv` returns for the named sub-parser.
    Before fix a5d1a53 `penv` was the complete `parse_env` (plain option defaults included: no default config value for `v` survived);
    now it is the environment-only one (`layerEO`, `C17_env_only_layer`), so exactly the variables' values are carried -/
theorem C17_env_named_copies_all (E : Env) (penv : P → Cfg) (q : P) (c0 : Cfg) (h : SubHdr) (v : String) (r : P) (k : String)
    (hs : q.sub = some h)
    (hv : lookupE (getEnvVar (prefixAt E.root (q.info.path.map codes)) (codes h.dest)) E.vals = some (.str v))
    (hr : findP v q.choices = some r) (hnd : (keysOf (penv r)).Nodup) (hk : k ∈ keysOf (penv r)) :
    lookup k (secOf (lookup v (envSubPart E penv q c0))) = lookup k (penv r) := by
  rw [envSubPart_named E penv q c0 h v r hs hv hr]
  exact copyUnder_all v (penv r) _ hnd k hk

/-- … complement: without the variable the branch does nothing -/
theorem C17_env_unnamed_keeps (E : Env) (penv : P → Cfg) (q : P) (c0 : Cfg)
    (hv : ∀ h, q.sub = some h →
      lookupE (getEnvVar (prefixAt E.root (q.info.path.map codes)) (codes h.dest)) E.vals = .none) :
    envSubPart E penv q c0 = c0 :=
  envSubPart_unnamed E penv q c0 hv

/-- C17-env-default-config-leak REPAIRED (fix 00c879c), for EVERY stack: under a `parent_parsers` stack `ctx ++ [(key, parent's
    files)]` the defaults of a parser at one of its options are its own files, else the parent's files narrowed to `key`, else the
    option default — whatever `ctx` holds further up (before the fix a third term `pickLast k (filesOf ctx [])`, sections meant for
    an ancestor, stood between the parent's files and the option default; the hypothesis "no file further up has the key" of the
    former `C17_no_leak` is gone) -/
theorem C17_no_leak (E : Env) (fuel : Nat) (single : Bool) (ctx : Ctx) (key : String) (pd : List Cfg) (r : P) (k : String)
    (hk : ownKey r k) (hm : k ≠ "__default_config__")
    (hf : ∀ t ∈ filesOf (ctx ++ [(key, pd)]) r.info.dcfs, (keysOf t).Nodup ∧ leafAt k t = true) :
    lookup k (layerC E fuel single (ctx ++ [(key, pd)]) .dflt r) =
      pickLast k r.info.dcfs (pickLast k (pd.map (narrow key)) (lookup k r.info.opts)) := by
  have e : layerC E fuel single (ctx ++ [(key, pd)]) .dflt r = getDefaultsC single (ctx ++ [(key, pd)]) r := by
    cases fuel <;> rfl
  rw [e, getDefaultsC_own single _ r k hk hm hf, filesOf_snoc, pickLast_append]

/-- the stack above the immediate parent is irrelevant for `get_defaults` altogether -/
theorem C17_stack_irrelevant (ctx ctx' : Ctx) (key : String) (pd own : List Cfg) :
    filesOf (ctx ++ [(key, pd)]) own = filesOf (ctx' ++ [(key, pd)]) own := by
  rw [filesOf_snoc, filesOf_snoc]

/-- C17-env-named-subcommand-resets-defaults REPAIRED (fix a5d1a53): what the subcommand branch copies for the named sub-parser is
    its ENVIRONMENT-ONLY `parse_env`, which at an option holds the value of that option's variable and nothing else: no option
    default, no default config value can be carried over the parent's defaults any more -/
theorem C17_env_only_layer (E : Env) (fuel : Nat) (single : Bool) (q : P) (k : String)
    (hk : ownKey q k) (hko : k ∈ q.info.options)
    (hcfg : ∀ ck, q.info.cfgKey = some ck →
      lookupE (getEnvVar (prefixAt E.root (q.info.path.map codes)) (codes ck)) E.cfgs = .none)
    (hleaf : ∀ v, lookupE (envVarAt E.root (q.info.path.map codes) (codes k)) E.vals = some v → v.isSec = false) :
    lookup k (layerEO E (fuel + 1) single q) = lookupE (envName E.root (q.info.path.map codes) (codes k)) E.vals := by
  rw [layerEO_own E fuel single q k hk hko hcfg hleaf, C17_env_names]

/-! ### open finding C17-env-named-inner-choice-order (appeared with repair F50) -/

def updW : P := .node (mkInfo ["items", "update"] [("alpha", .int 12)] ["alpha"] [] []) .none []
def fitW : P := .node (mkInfo ["items", "fit"] [("beta", .int 6)] ["beta"] [] []) .none []
def itemsW : P :=
  .node { (mkInfo ["items"] [("cfg", .none), ("cmd", .none)] [] [[("update", .sec [("alpha", .int 337)])]] []) with cfgKey := some "cfg" }
    (some ⟨"cmd", true⟩) [("update", updW), ("fit", fitW)]
def rootW : P := .node (mkInfo [] [("subcommand", .none)] [] [] []) (some ⟨"subcommand", true⟩) [("items", itemsW)]
def envW (named : Bool) : Env :=
  ⟨codes "app", if named then [(codes "APP_SUBCOMMAND", .str "items")] else [],
   [(codes "APP_ITEMS__CFG", [("fit", .sec [("beta", .int 813)])])]⟩

/-- `items` has a default config file with a section for `update`; its config variable gives a section for `fit`; nobody names
    the inner subcommand.  With `items` NAMED BY ITS VARIABLE the environment-only layer of `items` (`layerEO`) is handled on its
    own: the single-subcommand rule turns the lone `fit` section into the NAME cmd = fit in the root's environment layer, which
    then beats the name that `get_defaults` of `items` derives from the default config file: `fit` is selected.  With `items` named
    in the given configuration (command line, config) and the same environment, `update` is selected: the choice depends on HOW the
    outer subcommand was named.  The model agrees with the code on both (corpus cases of the same names) -/
theorem C17_env_named_inner_choice_counterexample :
    lookup "cmd" (secOf (lookup "items" (layerC (envW true) 6 true [] .env rootW))) = some (.str "fit") ∧
    lookup "cmd" (layerEO (envW true) 5 true itemsW) = some (.str "fit") ∧
    (match finalParse (layC (envW false) 6 true rootW) true .env rootW
        (merge [("subcommand", .str "items")] (layerC (envW false) 6 true [] .env rootW)) with
     | .ok c => lookup "cmd" (secOf (lookup "items" c))
     | .error _ => .none) = some (.str "update") := by
  refine ⟨by rfl, by rfl, by rfl⟩

/-! ### non-vacuity of the session-2 statements -/

def srcNamed : Cfg := [("subcommand", .str "test"), ("run", .sec [("gamma", .int 30)]), ("fit", .sec [("alpha", .int 10)])]
def srcQuiet : Cfg := [("run", .sec [("gamma", .int 30)]), ("fit", .sec [("alpha", .int 10)])]

/-- the exact condition on the witness of the finding: `run` and `fit` are lost, `test` would not be -/
example : loses ⟨"subcommand", true⟩ ["fit", "test", "run"] srcNamed "run" = true ∧
    loses ⟨"subcommand", true⟩ ["fit", "test", "run"] srcNamed "fit" = true ∧
    loses ⟨"subcommand", true⟩ ["fit", "test", "run"] srcNamed "test" = false ∧
    quietDeep threeP srcNamed = false ∧ quietDeep threeP srcQuiet = true := by decide

/-- a quiet source with two sections is loaded verbatim … -/
example : loadCfgArg threeP srcQuiet = .ok srcQuiet := by rfl

/-- … and `--cfg=<two sections> --cfg=<name run>` (two documents, the second names the subcommand) keeps the given 30:
    the fold of both documents reaches the final stage -/
example : parseArgs (layFuel 8 true) true .dflt true threeP
      (.mk [(true, srcQuiet), (true, [("subcommand", .str "run")])] .none) []
      = .ok [("subcommand", .str "run"), ("run", .sec [("gamma", .int 30)])] := by rfl

example : foldItems [(true, srcQuiet), (true, [("subcommand", .str "run")])] [("subcommand", .none)] =
    [("subcommand", .str "run"), ("run", .sec [("gamma", .int 30)]), ("fit", .sec [("alpha", .int 10)])] := by rfl

/-- the single-subcommand rule on a default config file with two sections: `run` (declared last) is lost, `fit` kept -/
example : losesSingle ⟨"subcommand", true⟩ ["fit", "test", "run"] srcQuiet "run" = true ∧
    losesSingle ⟨"subcommand", true⟩ ["fit", "test", "run"] srcQuiet "fit" = false := by decide

/-- re-parsing the result of the example above gives the same selection (and here the same result) -/
example : finalParse (layFuel 8 true) true .dflt threeP [("subcommand", .str "run"), ("run", .sec [("gamma", .int 30)])]
    = .ok [("subcommand", .str "run"), ("run", .sec [("gamma", .int 30)])] := by rfl

/-- the dumped form of a result that selected `a` (no key, one section) selects `a` again -/
example : finalParse (layFuel 8 true) true .dflt twoP [("a", .sec [("x", .int 3)])] = .ok [("a", .sec [("x", .int 3)]), ("cmd", .str "a")] := by rfl

/-- class (b) of the open finding C17-dump-reparse-selects-other: the dumped section of a sub-parser without options is empty,
    `merge_config` copies leaves only, so the section does not arrive and a required subcommand is reported missing -/
theorem C17_reparse_dump_empty_section_counterexample :
    merge [("eval", .sec [])] [("subcommand", .none)] = [("subcommand", .none)] ∧
    finalParse (layFuel 8 true) true .dflt (.node (.basic [("subcommand", .none)] []) (some ⟨"subcommand", true⟩) [("eval", leafP [])])
      (merge [("eval", .sec [])] [("subcommand", .none)]) = .error (.nosub ["subcommand"]) := by
  refine ⟨by rfl, by rfl⟩

/-- the environment-named witness: with the environment-only layer nothing is carried for alpha; with a variable for alpha, its value -/
example : lookup "alpha" (secOf (lookup "fit" (envSubPart envNamesFit (layerEO envNamesFit 3 true) rootP []))) = .none ∧
    lookup "alpha" (layerEO ⟨codes "app", [(codes "APP_FIT__ALPHA", .int 7)], []⟩ 3 true fitP) = some (.int 7) := by
  refine ⟨by rfl, by rfl⟩

/-- `C17_no_leak` on the former leak witness: for `eval` under the stack [(fit, [d2]), (eval, [])] nothing is found for gamma -/
example : pickLast "gamma" [] (pickLast "gamma" (([] : List Cfg).map (narrow "eval")) .none) = .none ∧
    filesOf ([("fit", [d2])] ++ [("eval", [])]) [] = [] := by
  refine ⟨by rfl, by rfl⟩

/-! ## ties: the regenerated shape of the code equals the statements the model transcribes

`Jap.Gen.SubcmdShape` is rewritten from /repo's working tree on every run (harness/extractors/subcmd_shape.py). -/

/-- `get_subcommands`: the settings keys in declaration order, the explicit test, the pick test and the picked index
    (`subcommand_keys[0]`: `getSubCore` takes `keys.head?`), the removal test and filter, the failure block -/
theorem tie_get_subcommands :
    Jap.Gen.SubcmdShape.keysExpr = Shape.keysExpr ∧ Jap.Gen.SubcmdShape.explicitTest = Shape.explicitTest ∧
    Jap.Gen.SubcmdShape.pickTest = Shape.pickTest ∧ Jap.Gen.SubcmdShape.pickFromEnd = false ∧ Jap.Gen.SubcmdShape.pickOffset = 0 ∧
    Jap.Gen.SubcmdShape.removeTest = Shape.removeTest ∧ Jap.Gen.SubcmdShape.removeFilter = Shape.removeFilter ∧
    Jap.Gen.SubcmdShape.singleTest = Shape.singleTest ∧ Jap.Gen.SubcmdShape.failTests = Shape.failTests ∧
    Jap.Gen.SubcmdShape.returns = Shape.returns ∧
    Jap.Gen.SubcmdShape.nameTest = Shape.nameTest ∧ Jap.Gen.SubcmdShape.nameTestBeforeFailBlock = true :=
  ⟨rfl, rfl, rfl, rfl, rfl, rfl, rfl, rfl, rfl, rfl, rfl, rfl⟩

/-- `handle_subcommands`: which layer is computed, `merge_config(given or Namespace(), layer)` (given values first:
    `mergeLayer` is `merge given layer`), the recursion with the key prefix, the settings check before the merge (`checkSettings`) -/
theorem tie_handle_subcommands :
    Jap.Gen.SubcmdShape.layerCalls = Shape.layerCalls ∧ Jap.Gen.SubcmdShape.mergeCall = Shape.mergeCall ∧
    Jap.Gen.SubcmdShape.givenFirst = true ∧ Jap.Gen.SubcmdShape.recurseCall = Shape.recurseCall ∧
    Jap.Gen.SubcmdShape.settingsCheck = Shape.settingsCheck := ⟨rfl, rfl, rfl, rfl, rfl⟩

/-- the argv action, `add_subcommand`, the head of `apply_parsing_links` (`sweep`) -/
theorem tie_argv_and_links :
    Jap.Gen.SubcmdShape.argvAction = Shape.argvAction ∧ Jap.Gen.SubcmdShape.addSubcommand = Shape.addSubcommand ∧
    Jap.Gen.SubcmdShape.applyLinksHead = Shape.applyLinksHead := ⟨rfl, rfl, rfl⟩

/-- how single sources are loaded: `apply_config` (not single, links skipped, `_fail_no_subcommand=False`: `loadCfgArg`),
    `get_defaults` (`fail_no_subcommand=False`, fix f6d3709: `applyDefaultCfg`), the defaults of `_parse_common` and
    `parse_string`, the subcommand branch of `_load_env_vars` -/
theorem tie_sources :
    Jap.Gen.SubcmdShape.applyConfigWith = Shape.applyConfigWith ∧ Jap.Gen.SubcmdShape.applyConfigKwargs = Shape.applyConfigKwargs ∧
    Jap.Gen.SubcmdShape.defaultCfgParseCommon = Shape.defaultCfgParseCommon ∧
    Jap.Gen.SubcmdShape.parseCommonFailDefault = Shape.parseCommonFailDefault ∧
    Jap.Gen.SubcmdShape.parseStringPrivate = Shape.parseStringPrivate ∧
    Jap.Gen.SubcmdShape.parseArgsParseCommonKw = Shape.parseArgsParseCommonKw ∧
    Jap.Gen.SubcmdShape.envBranch = Shape.envBranch := ⟨rfl, rfl, rfl, rfl, rfl, rfl, rfl⟩

/-- `default_env` reaches every level: the setter recurses through the property on each sub-parser (and `add_subcommand`
    copies the parent's value, `tie_argv_and_links`), so the single `mode` of the model is the mode of every parser -/
theorem tie_default_env_uniform :
    Jap.Gen.SubcmdShape.defaultEnvPropagation = Shape.defaultEnvPropagation := rfl

/-- the concrete layer: `get_env_var`, the env prefix of sub-parsers, `_get_default_config_files` (stack first, then the
    parser's own), the `parent_parsers` stack and its key, the key selection and merge of a default config file,
    environment over defaults, the three loops of `_load_env_vars` in their order -/
theorem tie_layer_sources :
    Jap.Gen.SubcmdShape.getEnvVarBody = Shape.getEnvVarBody ∧
    Jap.Gen.SubcmdShape.envPrefixOfSubcommands = Shape.envPrefixOfSubcommands ∧
    Jap.Gen.SubcmdShape.defaultConfigFilesLoops = Shape.defaultConfigFilesLoops ∧
    Jap.Gen.SubcmdShape.parentParsersContext = Shape.parentParsersContext ∧
    Jap.Gen.SubcmdShape.defaultConfigLoad = Shape.defaultConfigLoad ∧
    Jap.Gen.SubcmdShape.envOverDefaults = Shape.envOverDefaults ∧
    Jap.Gen.SubcmdShape.loadEnvVarsLoops = Shape.loadEnvVarsLoops := ⟨rfl, rfl, rfl, rfl, rfl, rfl, rfl⟩

/-- session 2: EVERY statement of `get_subcommands`, `get_subcommand`, `handle_subcommands`, `add_subcommand`,
    `add_subcommands` (complete normalised bodies, so an inserted, removed or reordered statement breaks the tie, not only an edit
    of one of the statements picked out above), the skeleton of `_load_env_vars`, and the parameter defaults -/
theorem tie_whole_bodies :
    Jap.Gen.SubcmdShape.bodyGetSubcommands = Shape.bodyGetSubcommands ∧
    Jap.Gen.SubcmdShape.bodyGetSubcommand = Shape.bodyGetSubcommand ∧
    Jap.Gen.SubcmdShape.bodyHandleSubcommands = Shape.bodyHandleSubcommands ∧
    Jap.Gen.SubcmdShape.bodyAddSubcommand = Shape.bodyAddSubcommand ∧
    Jap.Gen.SubcmdShape.bodyAddSubcommands = Shape.bodyAddSubcommands ∧
    Jap.Gen.SubcmdShape.loadEnvVarsSkeleton = Shape.loadEnvVarsSkeleton ∧
    Jap.Gen.SubcmdShape.signatures = Shape.signatures := ⟨rfl, rfl, rfl, rfl, rfl, rfl, rfl⟩

end Jap.Props.C17

import Jap.Core.Subcmd
import Jap.Lemmas.Subcmd
import Jap.Lemmas.SubcmdMore
import Jap.Gen.SubcmdShape
/-!
# C17 — exactly one subcommand is selected and only its settings survive

Model: `Jap.Subcmd` (Core/Subcmd.lean), a transcription of `get_subcommands`, `handle_subcommands`, the
`get_subcommand` call of `apply_parsing_links` (`sweep`), `check_required`, `_parse_common`, the subcommand action of
the command line (`argvCall`) and the way single config sources are loaded (`loadCfgArg`, `applyDefaultCfg`).

`finalParse lay single mode p cfg` is the last stage of every parse method: `_parse_common(cfg, fail_no_subcommand=True)`
on the configuration `cfg` in which all sources have been merged.  Parser trees `p` have any depth; `lay` (what a selected
sub-parser contributes: its defaults, or its `parse_env`) is arbitrary, `layFuel` is the instance built from each
sub-parser's defaults and environment.  All theorems are by structural induction on the parser tree.

Hypotheses that appear and why:
* `wf p`: what `add_subcommands`/`add_subcommand` guarantee (a subcommand is not called like the subcommand key, names are
  distinct) and no subcommand is called "".
* `mode ≠ .none`: the final parse merges the sub-parser's defaults or environment (`defaults=True`, the default).
* `clean lay mode p cfg`: FORCED by the code.  At every level the value under the subcommand key is null or truthy, and
  what is stored under a subcommand name is a namespace or null.  Without it the full statement is false:
  `C17_falsy_name_counterexample` (a config that says `cmd: ""` for an optional subcommand is accepted, the empty name
  is stored as the choice and the sections of ALL subcommands survive).

FULL STATEMENT (what the property asks), for the record:
  `finalParse lay single mode p cfg = .ok r → exactlyOne p r = true`   for all `p`, `cfg`.
It is proved below under `wf`, `mode ≠ .none` and `clean` (`C17_exactly_one_partial`).

Beyond the final stage the property also fails for the code where a source is loaded on its own before it is merged
(`loadCfgArg`, `applyDefaultCfg`): `get_subcommands` runs on that source alone and deletes sections that a later source
selects (`C17_early_selection_counterexample`, open finding C17-early-selection-drops-settings); what is proved is that a
source keeps its sections when it is `quiet` (`C17_source_keeps_sections_partial`).
-/
namespace Jap.Props.C17
open Jap.Subcmd

/-! ## C17_exactly_one -/

/-- on success, at every level of the selected path: `result[dest]` is a subcommand name, `result[name]` is a section,
    no other subcommand has a section; where nothing is selected there is no section -/
theorem C17_exactly_one_partial (lay : Mode → P → Cfg) (single : Bool) (mode : Mode) (p : P) (cfg r : Cfg)
    (hwf : wf p = true) (hm : mode ≠ .none) (hcl : clean lay mode p cfg = true)
    (hok : finalParse lay single mode p cfg = .ok r) :
    exactlyOne p r = true := by
  obtain ⟨c1, h1, h2⟩ := parseCommon_ok lay ⟨true, single, mode⟩ true p cfg r hok
  exact (sound_P p lay ⟨true, single, mode⟩ [] cfg c1 r hwf rfl hm hcl h1 h2).1

/-- one level spelled out: the key, the section, and no section of any other subcommand -/
theorem C17_exactly_one_top (lay : Mode → P → Cfg) (single : Bool) (mode : Mode) (i : Info) (h : SubHdr)
    (choices : List (String × P)) (cfg r : Cfg)
    (hwf : wf (.node i (some h) choices) = true) (hm : mode ≠ .none) (hcl : clean lay mode (.node i (some h) choices) cfg = true)
    (hok : finalParse lay single mode (.node i (some h) choices) cfg = .ok r) :
    (∃ n, lookup h.dest r = some (.str n) ∧ n ∈ names choices ∧ isSecAt n r = true ∧
        ∀ m ∈ names choices, m ≠ n → isSecAt m r = false) ∨
    (isNoneO (lookup h.dest r) = true ∧ ∀ m ∈ names choices, isSecAt m r = false) := by
  have h1 := C17_exactly_one_partial lay single mode _ cfg r hwf hm hcl hok
  rw [exactlyOne] at h1
  cases hl : lookup h.dest r with
  | none =>
    right
    simp only [hl, List.all_eq_true, Bool.not_eq_true'] at h1
    exact ⟨rfl, h1⟩
  | some v =>
    cases v with
    | none =>
      right
      simp only [hl, List.all_eq_true, Bool.not_eq_true'] at h1
      exact ⟨rfl, h1⟩
    | str n =>
      left
      simp only [hl, Bool.and_eq_true, List.all_eq_true, Bool.or_eq_true, beq_iff_eq, Bool.not_eq_true'] at h1
      refine ⟨n, rfl, by simpa using h1.1.1.1, h1.1.1.2, ?_⟩
      intro m hm' hne
      rcases h1.1.2 m hm' with e | e
      · exact absurd e hne
      · exact e
    | int _ => simp [hl] at h1
    | sec _ => simp [hl] at h1

/-! ## C17_complete_settings -/

/-- on success, at every level of the selected path: every setting of a parser that is not about its subcommands is
    exactly what that parser was given, and the parser of the selected subcommand `n` was given `cfg[n]` over its layer
    (`merge given layer`: the given values win) -/
theorem C17_complete_settings (lay : Mode → P → Cfg) (single : Bool) (mode : Mode) (p : P) (cfg r : Cfg)
    (hwf : wf p = true) (hm : mode ≠ .none) (hcl : clean lay mode p cfg = true)
    (hok : finalParse lay single mode p cfg = .ok r) :
    complete lay mode p cfg r := by
  obtain ⟨c1, h1, h2⟩ := parseCommon_ok lay ⟨true, single, mode⟩ true p cfg r hok
  exact (sound_P p lay ⟨true, single, mode⟩ [] cfg c1 r hwf rfl hm hcl h1 h2).2.1

/-- the layer of a sub-parser, for its own options: its environment over its defaults (`parse_env`), resp. its defaults -/
theorem C17_layer_own_settings (fuel : Nat) (single : Bool) (mode : Mode) (q : P) (k : String) (hk : ownKey q k) :
    lookup k (layFuel fuel single mode q) = lookup k (baseOf mode q) :=
  layFuel_own fuel single mode q k hk

/-- spelled out for an option `k` of the selected sub-parser `q` under environment parsing:
    result[n][k] = the given value, else the value from q's environment, else q's default -/
theorem C17_settings_value (fuel : Nat) (single : Bool) (i : Info) (h : SubHdr) (choices : List (String × P))
    (cfg r : Cfg) (n : String) (q : P) (k : String)
    (hwf : wf (.node i (some h) choices) = true)
    (hcl : clean (layFuel fuel single) .env (.node i (some h) choices) cfg = true)
    (hok : finalParse (layFuel fuel single) single .env (.node i (some h) choices) cfg = .ok r)
    (hsel : lookup h.dest r = some (.str n)) (hq : findP n choices = some q) (hk : ownKey q k)
    (hg : (keysOf (secOf (lookup n cfg))).Nodup ∧ leafAt k (secOf (lookup n cfg)) = true)
    (he : (keysOf q.info.envc).Nodup ∧ leafAt k q.info.envc = true) :
    lookup k (secOf (lookup n r)) =
      match lookup k (secOf (lookup n cfg)) with
      | some v => some v
      | .none =>
        match lookup k q.info.envc with
        | some v => some v
        | .none => lookup k q.info.dflt := by
  have hc := C17_complete_settings (layFuel fuel single) single .env _ cfg r hwf (by decide) hcl hok
  rw [complete] at hc
  have hc2 := hc.2
  simp only [hsel] at hc2
  rw [completeIn_eq, hq] at hc2
  rw [complete_own _ _ q _ _ k hc2 hk, lookup_merge_leaf k _ _ hg.1 hg.2, C17_layer_own_settings fuel single .env q k hk]
  simp only [baseOf]
  rw [lookup_merge_leaf k _ _ he.1 he.2]
  cases lookup k (secOf (lookup n cfg)) with
  | some v => rfl
  | none => cases lookup k q.info.envc <;> rfl

/-! ## C17_choice -/

/-- on success, at every level of the selected path the subcommand key of the result is what the rule gives for the
    configuration that level was given: the name stored under the key (command line, config, environment), else the
    first subcommand in declaration order that has a section; null/absent when there is neither -/
theorem C17_choice (lay : Mode → P → Cfg) (single : Bool) (mode : Mode) (p : P) (cfg r : Cfg)
    (hwf : wf p = true) (hm : mode ≠ .none) (hcl : clean lay mode p cfg = true)
    (hok : finalParse lay single mode p cfg = .ok r) :
    choiceOK lay mode p cfg r := by
  obtain ⟨c1, h1, h2⟩ := parseCommon_ok lay ⟨true, single, mode⟩ true p cfg r hok
  exact (sound_P p lay ⟨true, single, mode⟩ [] cfg c1 r hwf rfl hm hcl h1 h2).2.2

/-- "first for which settings were given": without a name under the key, the selected subcommand has a section and
    no subcommand declared BEFORE it has one -/
theorem C17_choice_first_in_declaration_order (h : SubHdr) (ns : List String) (cfg : Cfg) (n : String)
    (he : explicitOf (lookup h.dest cfg) = .none) (hc : choice h ns cfg = some (.str n)) :
    isSecAt n cfg = true ∧ ∃ before after, ns = before ++ n :: after ∧ ∀ m ∈ before, isSecAt m cfg = false :=
  choice_first h ns cfg n he hc

/-- a name under the key wins over sections -/
theorem C17_choice_named (h : SubHdr) (ns : List String) (cfg : Cfg) (n : String)
    (hd : lookup h.dest cfg = some (.str n)) : choice h ns cfg = some (.str n) :=
  choice_explicit h ns cfg n hd

/-- the name written on the command line wins over everything the merged sources say (configs given before it on the
    command line, the environment, default config files): whole `parse_args` of the model -/
theorem C17_choice_argv (lay : Mode → P → Cfg) (single : Bool) (mode : Mode) (validate : Bool) (i : Info) (h : SubHdr)
    (choices : List (String × P)) (items : List (Bool × Cfg)) (n : String) (rest : Argv) (ns r : Cfg) (q : P)
    (hwf : wf (.node i (some h) choices) = true) (hm : mode ≠ .none) (hq : findP n choices = some q)
    (hok : parseArgs lay single mode validate (.node i (some h) choices) (.mk items (some (n, rest))) ns = .ok r) :
    lookup h.dest r = some (.str n) ∧ isSecAt n r = true :=
  argv_wins lay single mode validate i h choices items n rest ns r q hwf hm hq hok

/-! ## C17_required -/

/-- if, following the rule down the tree, a parser is reached whose subcommand is required and undeterminable, the parse
    fails with the "expected <key> to be one of" error — at any depth -/
theorem C17_required (lay : Mode → P → Cfg) (single : Bool) (mode : Mode) (p : P) (cfg : Cfg)
    (hwf : wf p = true) (hm : mode ≠ .none) (hcl : clean lay mode p cfg = true)
    (hmiss : missingReq lay mode p cfg = true) :
    ∃ key, finalParse lay single mode p cfg = .error (.nosub key) := by
  obtain ⟨key, hk⟩ := missing_P p lay ⟨true, single, mode⟩ [] cfg hwf rfl hm hcl hmiss
  refine ⟨key, ?_⟩
  unfold finalParse parseCommon
  rw [hk]
  rfl

/-- the top level spelled out: no name, no section, required → error naming the subcommand key -/
theorem C17_required_top (lay : Mode → P → Cfg) (single : Bool) (mode : Mode) (i : Info) (h : SubHdr)
    (choices : List (String × P)) (cfg : Cfg)
    (hn : isNoneO (lookup h.dest cfg) = true) (hs : ∀ m ∈ names choices, isSecAt m cfg = false) (hr : h.required = true) :
    finalParse lay single mode (.node i (some h) choices) cfg = .error (.nosub [h.dest]) := by
  have hch : choice h (names choices) cfg = .none := by
    have he : explicitOf (lookup h.dest cfg) = .none := by
      cases hl : lookup h.dest cfg with
      | none => rfl
      | some v => cases v <;> simp_all [isNoneO, explicitOf]
    have hk : subKeys (names choices) cfg = [] := by
      simp only [subKeys, List.filter_eq_nil_iff]
      intro m hm'
      simp [hs m hm']
    simp [choice, he, hk]
  unfold finalParse parseCommon
  rw [handle_node_none _ _ [] i h choices cfg hch]
  simp [hr]

/-- not required: the parse succeeds, nothing is added: no subcommand key value, no section -/
theorem C17_optional (lay : Mode → P → Cfg) (single : Bool) (mode : Mode) (i : Info) (h : SubHdr)
    (choices : List (String × P)) (cfg : Cfg)
    (hch : choice h (names choices) cfg = .none) (hr : h.required = false) :
    finalParse lay single mode (.node i (some h) choices) cfg = .ok cfg ∧
    isNoneO (lookup h.dest cfg) = true ∧ ∀ m ∈ names choices, isSecAt m cfg = false := by
  refine ⟨optional_none lay _ true true i h choices cfg hch hr, (choice_none_facts h _ cfg hch).1, ?_⟩
  intro m hm'
  have hk := (choice_none_facts h _ cfg hch).2
  cases hs : isSecAt m cfg with
  | false => rfl
  | true =>
    have : m ∈ subKeys (names choices) cfg := (mem_subKeys _ _ _).2 ⟨hm', hs⟩
    rw [hk] at this
    cases this

/-! ## settings that are not about subcommands are never touched (all flags, all configurations) -/

theorem C17_global_options_untouched (lay : Mode → P → Cfg) (fl : Flags) (validate : Bool) (p : P) (cfg r : Cfg)
    (hok : parseCommon lay fl true validate p cfg = .ok r) (k : String) (hk : ownKey p k) :
    lookup k r = lookup k cfg :=
  parseCommon_frame lay fl validate p cfg r hok k hk

/-! ## sources loaded on their own -/

/-- a config argument (`--cfg`, the config environment variable) keeps every section it holds when it does not itself
    name a subcommand or holds at most one section (`quiet`) -/
theorem C17_source_keeps_sections_partial (i : Info) (h : SubHdr) (choices : List (String × P)) (tree t : Cfg)
    (hq : quiet h (names choices) tree = true)
    (hok : loadCfgArg (.node i (some h) choices) tree = .ok t) (k : String) :
    isSecAt k t = isSecAt k tree :=
  loadCfgArg_keeps i h choices tree t hq hok k

/-- fix f6d3709 (finding 15d): loading a default config file can never fail with the required-subcommand error, whatever
    the file contains (the call passes `fail_no_subcommand=False`: `tie_sources`) -/
theorem C17_default_config_never_requires (single : Bool) (p : P) (tree cfg : Cfg) (key : List String) :
    applyDefaultCfg single p tree cfg ≠ .error (.nosub key) :=
  applyDefaultCfg_never_requires single p tree cfg key

/-! ## non-vacuity and witnesses -/

def leafP (d : Cfg) : P := .node ⟨d, []⟩ .none []

/-- a three-level tree: root (required `subcommand`) → fit (optional `cmd`, env lr=7) → sgd | adam; test -/
def exTree : P :=
  .node ⟨[("g", .int 1), ("subcommand", .none)], []⟩ (some ⟨"subcommand", true⟩)
    [("fit", .node ⟨[("lr", .int 1), ("cmd", .none)], [("lr", .int 7)]⟩ (some ⟨"cmd", false⟩)
        [("sgd", leafP [("m", .int 0)]), ("adam", leafP [("b", .int 9)])]),
     ("test", leafP [("k", .int 5)])]

/-- settings for two subcommands, no name: `test` is written first in the config, `fit` is declared first -/
def exCfg : Cfg :=
  [("g", .int 2), ("subcommand", .none), ("test", .sec [("k", .int 6)]), ("fit", .sec [("sgd", .sec [("m", .int 3)])])]

/-- the hypotheses of the theorems hold for it -/
example : wf exTree = true ∧ clean (layFuel 8 true) .env exTree exCfg = true := by decide

/-- and the parse gives: fit selected (declaration order), test removed, fit.lr from the environment, fit.cmd = sgd
    selected at the second level, the given m=3 over the default 0 -/
example : finalParse (layFuel 8 true) true .env exTree exCfg =
    .ok [("g", .int 2), ("subcommand", .str "fit"),
         ("fit", .sec [("lr", .int 7), ("cmd", .str "sgd"), ("sgd", .sec [("m", .int 3)])])] := by rfl

/-- a required nested subcommand that cannot be determined: error at depth 2, whatever the depth -/
example : missingReq (layFuel 8 true) .dflt
    (.node ⟨[], []⟩ (some ⟨"subcommand", true⟩) [("a", .node ⟨[], []⟩ (some ⟨"cmd", true⟩) [("b", leafP [])])])
    [("subcommand", .str "a")] = true := by decide

example : finalParse (layFuel 8 true) true .dflt
    (.node ⟨[], []⟩ (some ⟨"subcommand", true⟩) [("a", .node ⟨[], []⟩ (some ⟨"cmd", true⟩) [("b", leafP [])])])
    [("subcommand", .str "a")] = .error (.nosub ["a", "cmd"]) := by rfl

def twoP : P := .node ⟨[], []⟩ (some ⟨"cmd", false⟩) [("a", leafP [("x", .int 1)]), ("b", leafP [("y", .int 2)])]

/-- FULL statement fails: `cmd: ""` for an optional subcommand is accepted, the empty name stays as the choice and the
    sections of both subcommands survive (the code tests `if subcommand` where it means `is not None`) -/
theorem C17_falsy_name_counterexample :
    finalParse (layFuel 8 true) true .dflt twoP [("cmd", .str ""), ("a", .sec [("x", .int 5)]), ("b", .sec [("y", .int 6)])]
      = .ok [("cmd", .str ""), ("a", .sec [("x", .int 5)]), ("b", .sec [("y", .int 6)])]
    ∧ exactlyOne twoP [("cmd", .str ""), ("a", .sec [("x", .int 5)]), ("b", .sec [("y", .int 6)])] = false
    ∧ clean (layFuel 8 true) .dflt twoP [("cmd", .str ""), ("a", .sec [("x", .int 5)]), ("b", .sec [("y", .int 6)])] = false := by
  refine ⟨by rfl, by decide, by decide⟩

/-- `handle_subcommands` ALONE does not establish the property: with an explicit name and ONE other section the
    section survives the call (`len(subcommand_keys) > 1` is false) … -/
theorem C17_handle_alone_counterexample :
    handle (layFuel 8 true) ⟨true, true, .dflt⟩ [] twoP [("cmd", .str "a"), ("b", .sec [("y", .int 6)])]
      = .ok [("cmd", .str "a"), ("b", .sec [("y", .int 6)]), ("a", .sec [("x", .int 1)])] := by rfl

/-- … it is the `get_subcommand` call at the head of `apply_parsing_links` that removes it -/
theorem C17_sweep_completes :
    finalParse (layFuel 8 true) true .dflt twoP [("cmd", .str "a"), ("b", .sec [("y", .int 6)])]
      = .ok [("cmd", .str "a"), ("a", .sec [("x", .int 1)])] := by rfl

def threeP : P :=
  .node ⟨[("subcommand", .none)], []⟩ (some ⟨"subcommand", true⟩)
    [("fit", leafP [("alpha", .int 1)]), ("test", leafP [("beta", .int 2)]), ("run", leafP [("gamma", .int 3)])]

/-- open finding C17-early-selection-drops-settings: a config argument that names `test` and holds sections for `run`
    and `fit` loses both while it is loaded … -/
theorem C17_early_selection_counterexample :
    loadCfgArg threeP [("subcommand", .str "test"), ("run", .sec [("gamma", .int 30)]), ("fit", .sec [("alpha", .int 10)])]
      = .ok [("subcommand", .str "test")]
    ∧ quiet ⟨"subcommand", true⟩ ["fit", "test", "run"]
        [("subcommand", .str "test"), ("run", .sec [("gamma", .int 30)]), ("fit", .sec [("alpha", .int 10)])] = false := by
  refine ⟨by rfl, by decide⟩

/-- … so that `--cfg=<that> run` ends with the DEFAULT gamma = 3 instead of the given 30 (whole `parse_args` of the model) … -/
theorem C17_early_selection_pipeline :
    parseArgs (layFuel 8 true) true .dflt true threeP
      (.mk [(true, [("subcommand", .str "test"), ("run", .sec [("gamma", .int 30)]), ("fit", .sec [("alpha", .int 10)])])]
        (some ("run", .mk [] .none))) []
      = .ok [("subcommand", .str "run"), ("run", .sec [("gamma", .int 3)])] := by rfl

/-- … whereas with ONE extra section the given value is kept -/
theorem C17_early_selection_one_section_kept :
    parseArgs (layFuel 8 true) true .dflt true threeP
      (.mk [(true, [("subcommand", .str "test"), ("run", .sec [("gamma", .int 30)])])] (some ("run", .mk [] .none))) []
      = .ok [("subcommand", .str "run"), ("run", .sec [("gamma", .int 30)])] := by rfl

/-- the hypothesis `quiet` of the partial theorem is satisfiable by a source with several sections -/
example : quiet ⟨"subcommand", true⟩ ["fit", "test", "run"]
    [("run", .sec [("gamma", .int 30)]), ("fit", .sec [("alpha", .int 10)])] = true := by decide

/-! ## ties: the regenerated shape of the code equals the statements the model transcribes

`Jap.Gen.SubcmdShape` is rewritten from /repo's working tree on every run (harness/extractors/subcmd_shape.py). -/

/-- `get_subcommands`: the settings keys in declaration order, the explicit test, the pick test and the picked index
    (`subcommand_keys[0]`: `getSubCore` takes `keys.head?`), the removal test and filter, the failure block -/
theorem tie_get_subcommands :
    Jap.Gen.SubcmdShape.keysExpr = Shape.keysExpr ∧ Jap.Gen.SubcmdShape.explicitTest = Shape.explicitTest ∧
    Jap.Gen.SubcmdShape.pickTest = Shape.pickTest ∧ Jap.Gen.SubcmdShape.pickFromEnd = false ∧ Jap.Gen.SubcmdShape.pickOffset = 0 ∧
    Jap.Gen.SubcmdShape.removeTest = Shape.removeTest ∧ Jap.Gen.SubcmdShape.removeFilter = Shape.removeFilter ∧
    Jap.Gen.SubcmdShape.singleTest = Shape.singleTest ∧ Jap.Gen.SubcmdShape.failTests = Shape.failTests ∧
    Jap.Gen.SubcmdShape.returns = Shape.returns := ⟨rfl, rfl, rfl, rfl, rfl, rfl, rfl, rfl, rfl, rfl⟩

/-- `handle_subcommands`: which layer is computed, `merge_config(given or Namespace(), layer)` (given values first:
    `mergeLayer` is `merge given layer`), the recursion with the key prefix -/
theorem tie_handle_subcommands :
    Jap.Gen.SubcmdShape.layerCalls = Shape.layerCalls ∧ Jap.Gen.SubcmdShape.mergeCall = Shape.mergeCall ∧
    Jap.Gen.SubcmdShape.givenFirst = true ∧ Jap.Gen.SubcmdShape.recurseCall = Shape.recurseCall := ⟨rfl, rfl, rfl, rfl⟩

/-- the argv action, `add_subcommand`, the head of `apply_parsing_links` (`sweep`) -/
theorem tie_argv_and_links :
    Jap.Gen.SubcmdShape.argvAction = Shape.argvAction ∧ Jap.Gen.SubcmdShape.addSubcommand = Shape.addSubcommand ∧
    Jap.Gen.SubcmdShape.applyLinksHead = Shape.applyLinksHead := ⟨rfl, rfl, rfl⟩

/-- how single sources are loaded: `apply_config` (not single, links skipped, `_fail_no_subcommand=False`: `loadCfgArg`),
    `get_defaults` (`fail_no_subcommand=False`, fix f6d3709: `applyDefaultCfg`), the defaults of `_parse_common` and
    `parse_string`, the subcommand branch of `_load_env_vars` -/
theorem tie_sources :
    Jap.Gen.SubcmdShape.applyConfigWith = Shape.applyConfigWith ∧ Jap.Gen.SubcmdShape.applyConfigKwargs = Shape.applyConfigKwargs ∧
    Jap.Gen.SubcmdShape.defaultCfgParseCommon = Shape.defaultCfgParseCommon ∧
    Jap.Gen.SubcmdShape.parseCommonFailDefault = Shape.parseCommonFailDefault ∧
    Jap.Gen.SubcmdShape.parseStringPrivate = Shape.parseStringPrivate ∧
    Jap.Gen.SubcmdShape.parseArgsParseCommonKw = Shape.parseArgsParseCommonKw ∧
    Jap.Gen.SubcmdShape.envBranch = Shape.envBranch := ⟨rfl, rfl, rfl, rfl, rfl, rfl, rfl⟩

/-- `default_env` reaches every level: the setter recurses through the property on each sub-parser (and `add_subcommand`
    copies the parent's value, `tie_argv_and_links`), so the single `mode` of the model is the mode of every parser -/
theorem tie_default_env_uniform :
    Jap.Gen.SubcmdShape.defaultEnvPropagation = Shape.defaultEnvPropagation := rfl

end Jap.Props.C17

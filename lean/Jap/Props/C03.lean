/-
C03 — Every parse failure surfaces as ArgumentError or exit status 2, nothing else
(status 0 for --help / --print_config), for parse_args, parse_object,
parse_string, parse_env, parse_path, in both exit_on_error modes.

Model: `Jap.Core.ExcFlow` (regions of the anchored code, their call structure,
the failures each is designed to raise, routing through the handlers).
Regenerated on every run from /repo: `Jap.Gen.ExcFlow.tables` (handler tuples and
what the handler bodies do, `error()`, `get_loader_exceptions`, exit statuses,
`exit_on_error` of internal parsers, live `issubclass`) and
`Jap.Gen.ExcFlowCert.cert` (candidate least fixed point of "signals in flight",
computed by Drv/ExcFlow.lean — NOT trusted: `C03_flight_closed` checks it here).

FULL STATEMENT (what the property asks of the routing tables):

    theorem C03_routing_full : ∀ top mode m root path s,
        root ∈ roots m → chain root path = true →
        s ∈ born tables mode top (effLeaf tables top path) (leaf root path) →
        conforming top (routePath tables mode top root path s) = true

It is still FALSE on today's tree, but only for parsers that EXIT and only through one origin:
get_defaults raising ArgumentError itself (`witnessDefault`, finding C03-default-config-argerr;
`C03_routing_full_false`).  For exit_on_error=False the full statement is PROVED for all five methods
(`C03_routing_full_raising`); for exit_on_error=True `C03_routing_exiting` allows exactly the tag
`directArgErr`.  The two other origins of the earlier tree (internal dataclass parser: 52e5b95,
class-help parser: 45f35d9) and the `Type[..]` import (c7ee31e) are repaired; `witnessInner` /
`witnessHelp` conform now and are kept, on the old tables, as regression witnesses.  `C03_routing`
is the mode-uniform form with the tag escape clause.  The RAISES side (`C03_static_*`): what can
escape 22 leaf functions is computed from the source and proved to be designed / excused.
-/
import Jap.Core.ExcFlow
import Jap.Lemmas.ExcFlow
import Jap.Gen.ExcFlow
import Jap.Gen.ExcFlowCert
import Jap.Core.ExcFlowRaises
import Jap.Gen.ExcFlowRaises

namespace Jap.Props.C03
open Jap.ExcFlow

abbrev tables : Tables := Jap.Gen.ExcFlow.tables
abbrev cert : Mode → Bool → Flight := Jap.Gen.ExcFlowCert.cert

/-! ## what the regenerated tables must say (readable pins; each is also needed by the routing theorem) -/

/-- `error()`: ArgumentError when exit_on_error is false; otherwise usage and an
`error:` line on stderr, then exit status 2.  `exit()` of help / print_config: status 0. -/
theorem C03_exit_codes :
    tables.error.raisesWhenNoExit = some .ArgumentError ∧ tables.error.exitStatus = some 2 ∧
    tables.error.usageToStderr = true ∧ tables.error.errorLineToStderr = true ∧ tables.plainExit = 0 ∧
    errorSig tables false false = .exc .ArgumentError .clean ∧
    errorSig tables true true = .exit 2 .clean ∧
    (∀ top, outcome tables top (errorSig tables top top) = if top then .exit 2 else .argErr) ∧
    (∀ mode top eff, born tables mode top eff .printConfig = [.exit 0 .clean] ∧ born tables mode top eff .helpAction = [.exit 0 .clean]) := by
  refine ⟨by decide, by decide, by decide, by decide, by decide, by decide, by decide, ?_, ?_⟩
  · intro top; cases top <;> decide
  · intro mode top eff; cases mode <;> cases top <;> cases eff <;> decide

/-- the outermost handler of parse_args / parse_object / parse_string / parse_env
catches TypeError and KeyError (hence PathError, NSKeyError) and calls `self.error` -/
theorem C03_outer_handlers :
    ∀ m ∈ [Method.parseArgs, .parseObject, .parseString, .parseEnv], ∀ mode ∈ Mode.all,
      ∀ c ∈ [Exc.TypeError, .KeyError, .PathError, .NSKeyError],
        caught tables mode (tables.handler (.outer m)) c = true ∧ (tables.handler (.outer m)).act = .callsError := by
  decide

/-- parse_known_args turns argparse.ArgumentError into `self.error`; parse_path
has its own handler for the Path construction -/
theorem C03_known_args_and_path :
    (∀ mode ∈ Mode.all, caught tables mode (tables.handler .knownArgs) .ArgumentError = true) ∧
    (tables.handler .knownArgs).act = .callsError ∧
    (∀ mode ∈ Mode.all, caught tables mode (tables.handler .pathOwn) .PathError = true) ∧
    (tables.handler .pathOwn).act = .callsError ∧
    -- 2c9f0ad: reading the file sits in the same try; what the os calls and the decoding raise goes through error() too
    (∀ mode ∈ Mode.all, ∀ c ∈ [Exc.ValueError, .UnicodeDecodeError, .OSError, .IsADirectoryError, .PermissionError],
      caught tables mode (tables.handler .pathRead) c = true) ∧
    (tables.handler .pathRead).act = .callsError ∧ "get_content" ∉ Jap.Gen.ExcFlow.uncovered .parsePath := by
  decide

/-- no failing step of a public method sits outside its `try .. self.error(..)`, except in parse_path
the reading of the file and the delegation to parse_string (which has its own handler); row 6c of
DESIGN section 7 was exactly such a call (`Path(..)` in parse_path).  An inclusion, so that a repair
that brings `get_content` under a handler does not break it. -/
theorem C03_no_uncovered_calls :
    Jap.Gen.ExcFlow.uncovered .parseArgs = [] ∧ Jap.Gen.ExcFlow.uncovered .parseObject = [] ∧
    Jap.Gen.ExcFlow.uncovered .parseString = [] ∧ Jap.Gen.ExcFlow.uncovered .parseEnv = [] ∧
    (∀ c ∈ Jap.Gen.ExcFlow.uncovered .parsePath, c ∈ ["change_to_path_dir", "get_content", "parse_string"]) := by
  decide

/-- add_subcommand copies `exit_on_error` (and the error handler) from the parent parser to the sub-command
parser, whatever that parser was constructed with: a failure found while a sub-command parser is working is
reported in the ROOT parser's mode (`effOf` of `Region.subBody` relies on exactly this entry) -/
theorem C03_subcommand_inherits :
    "exit_on_error" ∈ tables.subInherited ∧ "_error_handler" ∈ tables.subInherited ∧ subInheritsExit tables = true ∧
    (∀ eff m, effOf tables eff (.subBody m) = eff) := by
  refine ⟨by decide, by decide, by decide, ?_⟩
  intro eff m; cases eff <;> cases m <;> decide

/-- a `--print_config` request never survives a parse_args call, however its try block is left — in particular
not when it is left by the ArgumentError / SystemExit(2) of a direct `self.error(..)` (unrecognized arguments,
option without its value, invalid choice, unknown option of a sub-command), which the method's own handler does
not catch: the cleanup sits in the `finally`.  Hence the next valid parse_args on the same parser returns. -/
theorem C03_print_config_request_cleared :
    tables.printConfigCleanup = .inFinally ∧
    (∀ requested, ∀ e ∈ TryExit.all, pendingAfter tables requested e = false) ∧
    (∀ requested, ∀ e ∈ TryExit.all, nextValid tables (pendingAfter tables requested e) = .ok) ∧
    (∀ mode ∈ Mode.all, tryExitOf tables mode (.exc .ArgumentError .clean) = .passes ∧
      tryExitOf tables mode (.exit 2 .clean) = .passes ∧ tryExitOf tables mode (.exc .TypeError .clean) = .caught) := by
  decide

/-- the explicit checks introduced by repairs are still in the source (96e4fb9: unknown sub-command name →
NSKeyError in get_subcommands; adfb1a7: `_check_subcommand_settings` → TypeError before `.clone()` in
_ActionSubCommands.__call__ and before the merge in handle_subcommands; f3961c5: adapt_classes_any only walks an
init_args that is a Namespace).  They are what makes the `designed` entries of the regions `subcommands` and
`subcmdAction` true of the code. -/
theorem C03_repaired_guards :
    ∀ g ∈ ["unknown_subcommand_name@get_subcommands", "subcommand_settings@__call__", "subcommand_settings@handle_subcommands",
           "subcommand_settings_raises_TypeError", "subcommand_settings@_check_value_key", "init_args_namespace@adapt_classes_any"],
      g ∈ tables.guards := by
  decide

/-- `_check_type` (and `_check_value_key` for plain types) wrap TypeError and ValueError into TypeError -/
theorem C03_check_type_wraps :
    ∀ w ∈ [Wrapper.checkType, .checkValueKey], ∀ mode ∈ Mode.all, ∀ c ∈ [Exc.TypeError, .ValueError],
      caught tables mode (tables.handler w) c = true ∧ (tables.handler w).act = .raises .TypeError := by
  decide

/-- `get_loader_exceptions(mode)` covers what the loader of the mode raises, and
the three places that load a document convert it into TypeError -/
theorem C03_loader_exceptions_cover :
    (∀ mode ∈ Mode.all, ∀ c ∈ loaderRaises mode, (tables.loaderExc mode).any (sub tables c) = true) ∧
    (∀ w ∈ [Wrapper.lcpm, .applyConfigStr, .configLoad], ∀ mode ∈ Mode.all, ∀ c ∈ loaderRaises mode,
      caught tables mode (tables.handler w) c = true ∧ (tables.handler w).act = .raises .TypeError) ∧
    (∀ mode ∈ Mode.all, caught tables mode (tables.handler .yamlLoad) .ValueError = true) ∧
    (tables.handler .yamlLoad).act = .raises .YAMLError := by
  decide

/-- the subclass relation the routing relies on -/
theorem C03_subclass_facts :
    sub tables .PathError .TypeError = true ∧ sub tables .NSKeyError .KeyError = true ∧
    sub tables .JSONDecodeError .ValueError = true ∧ sub tables .TOMLDecodeError .ValueError = true ∧
    sub tables .UnicodeDecodeError .ValueError = true ∧ sub tables .ModuleNotFoundError .ImportError = true ∧
    sub tables .YAMLError .ValueError = false ∧ sub tables .ArgumentError .TypeError = false ∧
    sub tables .SystemExit .Exception = false ∧ sub tables .ArgumentError .Exception = true := by
  decide

/-- the subclass, Callable, Annotated, Enum, registered-type, Type[..] (F03t) and float (F03o) branches turn what they are
designed to raise into ValueError -/
theorem C03_adapter_branches :
    (∀ mode ∈ Mode.all, ∀ c ∈ [Exc.ImportError, .ModuleNotFoundError, .AttributeError, .AssertionError, .ArgumentError],
      caught tables mode (tables.handler .subclassBranch) c = true) ∧
    (tables.handler .subclassBranch).act = .raises .ValueError ∧
    (∀ mode ∈ Mode.all, ∀ c ∈ [Exc.ImportError, .AttributeError, .ArgumentError],
      caught tables mode (tables.handler .callableBranch) c = true) ∧
    (tables.handler .callableBranch).act = .raises .ValueError ∧
    (∀ mode ∈ Mode.all, ∀ c ∈ tables.deserExc, caught tables mode (tables.handler .registered) c = true) ∧
    (tables.handler .registered).act = .raises .ValueError ∧
    (∀ mode ∈ Mode.all, ∀ c ∈ [Exc.ImportError, .ModuleNotFoundError, .AttributeError],
      caught tables mode (tables.handler .typeImport) c = true) ∧
    (tables.handler .typeImport).act = .raises .ValueError ∧
    (∀ mode ∈ Mode.all, caught tables mode (tables.handler .floatConv) .OverflowError = true) ∧
    (tables.handler .floatConv).act = .raises .ValueError ∧
    tables.innerExitOnError = false ∧
    -- 52e5b95: the ArgumentError of the internal (exit_on_error=False) parser of a dataclass value becomes ValueError
    (∀ mode ∈ Mode.all, caught tables mode (tables.handler .dataclassBranch) .ArgumentError = true) ∧
    (tables.handler .dataclassBranch).act = .raises .ValueError ∧
    -- 45f35d9: the parser of `--x.help=Class` inherits exit_on_error
    tables.helpExitOnError = none ∧ (∀ eff, effOf tables eff .helpBody = eff) ∧
    -- 9c44438: ArithmeticError (OverflowError, decimal.InvalidOperation) is among the deserializer exceptions
    (∀ mode ∈ Mode.all, ∀ c ∈ [Exc.ArithmeticError, .OverflowError, .ZeroDivisionError],
      caught tables mode (tables.handler .registered) c = true) := by
  decide

/-! ## the routing theorem -/

/-- one instance of the finite check (separate declarations so that they are checked in parallel) -/
abbrev ClosedAt (mode : Mode) (top : Bool) : Prop :=
  Closed tables mode top (cert mode top) = true ∧ RootsOk tables mode top (cert mode top) = true

theorem C03_closed_yaml_f : ClosedAt .yaml false := ⟨by decide +kernel, by decide +kernel⟩
theorem C03_closed_yaml_t : ClosedAt .yaml true := ⟨by decide +kernel, by decide +kernel⟩
theorem C03_closed_json_f : ClosedAt .json false := ⟨by decide +kernel, by decide +kernel⟩
theorem C03_closed_json_t : ClosedAt .json true := ⟨by decide +kernel, by decide +kernel⟩
theorem C03_closed_toml_f : ClosedAt .toml false := ⟨by decide +kernel, by decide +kernel⟩
theorem C03_closed_toml_t : ClosedAt .toml true := ⟨by decide +kernel, by decide +kernel⟩
theorem C03_closed_jsonnet_f : ClosedAt .jsonnet false := ⟨by decide +kernel, by decide +kernel⟩
theorem C03_closed_jsonnet_t : ClosedAt .jsonnet true := ⟨by decide +kernel, by decide +kernel⟩

/-- the regenerated candidate tables are closed under "raise what is designed" and
"emerge through the callee's handlers", and everything in flight inside a root
region leaves the method acceptably — the finite check behind `C03_routing` -/
theorem C03_flight_closed : ∀ mode top,
    Closed tables mode top (cert mode top) = true ∧ RootsOk tables mode top (cert mode top) = true := by
  intro mode top
  cases mode <;> cases top
  · exact C03_closed_yaml_f
  · exact C03_closed_yaml_t
  · exact C03_closed_json_f
  · exact C03_closed_json_t
  · exact C03_closed_toml_f
  · exact C03_closed_toml_t
  · exact C03_closed_jsonnet_f
  · exact C03_closed_jsonnet_t

/-- C03_routing.  For every public parse method, in both exit_on_error modes and
every loader mode, for EVERY call path (of any depth: sub-commands inside
sub-commands, class arguments inside class arguments, configs inside configs)
from a root region of the method to a region, and every failure that region is
designed to raise: what the caller of the method sees is `ArgumentError`
(exit_on_error false) or exit status 2 (true) — or status 0 / nothing for help,
print_config and absorbed failures — unless the signal carries the tag of one
of the three catalogued origins. -/
theorem C03_routing (top : Bool) (mode : Mode) (m : Method) (root : Region) (hroot : root ∈ roots m)
    (path : List Region) (hpath : chain root path = true)
    (s : Sig) (hs : s ∈ born tables mode top (effLeaf tables top path) (leaf root path)) :
    conforming top (routePath tables mode top root path s) = true ∨
      (routeSig tables mode top root path s).tag ≠ .clean := by
  have h := route_ok_of_closed (C03_flight_closed mode top).1 (C03_flight_closed mode top).2 m root hroot path hpath s hs
  simp only [okSig, Bool.or_eq_true, bne_iff_ne, ne_eq] at h
  exact h

/-! ### since 52e5b95 / 45f35d9 only ONE tagged origin is left (get_defaults raising ArgumentError itself), and only for a parser that exits -/

abbrev RootsAt (mode : Mode) : Prop :=
  RootsOkTags tables mode false (cert mode false) [] = true ∧ RootsOkTags tables mode true (cert mode true) [.directArgErr] = true

theorem C03_roots_yaml : RootsAt .yaml := ⟨by decide +kernel, by decide +kernel⟩
theorem C03_roots_json : RootsAt .json := ⟨by decide +kernel, by decide +kernel⟩
theorem C03_roots_toml : RootsAt .toml := ⟨by decide +kernel, by decide +kernel⟩
theorem C03_roots_jsonnet : RootsAt .jsonnet := ⟨by decide +kernel, by decide +kernel⟩

theorem C03_roots (mode : Mode) : RootsAt mode := by
  cases mode
  · exact C03_roots_yaml
  · exact C03_roots_json
  · exact C03_roots_toml
  · exact C03_roots_jsonnet

/-- C03_routing_full_raising.  The FULL statement for parsers with exit_on_error=False, all five methods, all loader modes: every
designed failure on every call path of any depth reaches the caller as ArgumentError (or is absorbed, or is the status 0 of help /
print_config) — no tag escape clause.  (False before 52e5b95 / 45f35d9: `witnessHelp` on the old tables, below.) -/
theorem C03_routing_full_raising (mode : Mode) (m : Method) (root : Region) (hroot : root ∈ roots m)
    (path : List Region) (hpath : chain root path = true)
    (s : Sig) (hs : s ∈ born tables mode false (effLeaf tables false path) (leaf root path)) :
    conforming false (routePath tables mode false root path s) = true := by
  have h := route_ok_tags_of_closed (C03_flight_closed mode false).1 (C03_roots mode).1 m root hroot path hpath s hs
  simp [okSigTags] at h
  exact h

/-- for a parser that exits: exit status 2 (or 0 / absorbed) unless the failure went through get_defaults' own `raise
argument_error(..)` (finding C03-default-config-argerr) — the ONLY origin left -/
theorem C03_routing_exiting (mode : Mode) (m : Method) (root : Region) (hroot : root ∈ roots m)
    (path : List Region) (hpath : chain root path = true)
    (s : Sig) (hs : s ∈ born tables mode true (effLeaf tables true path) (leaf root path)) :
    conforming true (routePath tables mode true root path s) = true ∨
      (routeSig tables mode true root path s).tag = .directArgErr := by
  have h := route_ok_tags_of_closed (C03_flight_closed mode true).1 (C03_roots mode).2 m root hroot path hpath s hs
  simp [okSigTags] at h
  exact h

/-- the stage-indexed reading of `C03_routing` (the form of DESIGN §6): every class `C`
that a region of stage `st` is designed to raise, on every call path to that region -/
theorem C03_routing_by_stage (top : Bool) (mode : Mode) (m : Method) (st : Stage) (C : Exc)
    (root : Region) (hroot : root ∈ roots m) (path : List Region) (hpath : chain root path = true)
    (_hst : stageOf (leaf root path) = some st)
    (hC : Sig.exc C (bornTag (leaf root path)) ∈ born tables mode top (effLeaf tables top path) (leaf root path)) :
    conforming top (routePath tables mode top root path (.exc C (bornTag (leaf root path)))) = true ∨
      (routeSig tables mode top root path (.exc C (bornTag (leaf root path)))).tag ≠ .clean :=
  C03_routing top mode m root hroot path hpath _ hC

/-! ## the full statement is false today: three witnesses (catalogued findings) -/

/-- `parse_object` on a parser that exits: an unexpected key inside a dataclass nested in a container is
reported by the INTERNAL parser (made with exit_on_error=False), its ArgumentError passes `_check_type`
and the method's `(TypeError, KeyError)` handler (finding C03-inner-parser-argerr) -/
def witnessInner : Outcome :=
  routePath tables .yaml true (.body .parseObject)
    [.applyActions, .checkValueKey, .checkType, .adapt, .dataclass, .innerBody .parseObject, .common, .validate]
    (.exc .NSKeyError .clean)

/-- `parse_args` on a parser that raises: `--x.help=Class` followed by an argument the help parser rejects:
that parser is made with the default exit_on_error=True and exits (finding C03-help-parser-exits) -/
def witnessHelp : Outcome :=
  routePath tables .yaml false (.body .parseArgs) [.knownArgs, .helpClassPath, .helpBody, .leftover]
    (errorSig tables false (effLeaf tables false [.knownArgs, .helpClassPath, .helpBody, .leftover]))

/-- a default config file whose sub-command value is not hashable, on a parser that exits: get_defaults
turns the TypeError of _parse_common into ArgumentError itself (finding C03-default-config-argerr) -/
def witnessDefault : Outcome :=
  routePath tables .yaml true (.body .parseArgs) [.defaultsEnv, .getDefaults, .defCommon, .subcommands]
    (.exc .TypeError .clean)

def anyHoleOpen : Bool :=
  !conforming true witnessInner || !conforming false witnessHelp || !conforming true witnessDefault

/-- the statement without the tag escape clause -/
def RoutingFull : Prop :=
  ∀ (top : Bool) (mode : Mode) (m : Method) (root : Region), root ∈ roots m →
    ∀ (path : List Region), chain root path = true →
      ∀ s, s ∈ born tables mode top (effLeaf tables top path) (leaf root path) →
        conforming top (routePath tables mode top root path s) = true

theorem C03_routing_full_false_if_open (h : anyHoleOpen = true) : ¬ RoutingFull := by
  intro full
  have h1 := full true .yaml .parseObject (.body .parseObject) (by decide)
    [.applyActions, .checkValueKey, .checkType, .adapt, .dataclass, .innerBody .parseObject, .common, .validate]
    (by decide) (.exc .NSKeyError .clean) (by decide)
  have h2 := full false .yaml .parseArgs (.body .parseArgs) (by decide)
    [.knownArgs, .helpClassPath, .helpBody, .leftover] (by decide)
    (errorSig tables false (effLeaf tables false [.knownArgs, .helpClassPath, .helpBody, .leftover])) (by decide)
  have h4 := full true .yaml .parseArgs (.body .parseArgs) (by decide)
    [.defaultsEnv, .getDefaults, .defCommon, .subcommands] (by decide) (.exc .TypeError .clean) (by decide)
  simp only [anyHoleOpen, witnessInner, witnessHelp, witnessDefault, h1, h2, h4] at h
  exact absurd h (by decide)

/-- today at least one of the three is open (all three are: the `example`s below); when the last one
is repaired in /repo this theorem fails and `RoutingFull` becomes provable -/
theorem C03_routing_full_false : ¬ RoutingFull := C03_routing_full_false_if_open (by decide)

/-! ## the pipeline model: all inputs -/

/-- C03_model_total (partial form, the three tagged origins excluded).  Whatever
the input makes the stages do — an arbitrary finite sequence of events, each a
call path of any depth below the method's root region together with either
"returns normally" or a failure the region at the end of the path is designed to
raise — the run of the method ends in: a result, `ArgumentError`
(exit_on_error false), exit status 2 (true), or status 0. -/
theorem C03_model_total_partial (top : Bool) (mode : Mode) (m : Method) (root : Region) (hroot : root ∈ roots m)
    (es : List Event)
    (h : ∀ e ∈ es, chain root e.path = true ∧
      ∀ s, e.sig = some s → s ∈ born tables mode top (effLeaf tables top e.path) (leaf root e.path) ∧
        (routeSig tables mode top root e.path s).tag = .clean) :
    runEvents tables mode top root es = .ok ∨ runEvents tables mode top root es = .exit 0 ∨
    (top = false ∧ runEvents tables mode top root es = .argErr) ∨
    (top = true ∧ runEvents tables mode top root es = .exit 2) := by
  have hc := runEvents_ok (C03_flight_closed mode top).1 (C03_flight_closed mode top).2 m root hroot es h
  cases hr : runEvents tables mode top root es with
  | ok => exact Or.inl rfl
  | argErr =>
    rw [hr] at hc
    simp only [conforming, Bool.not_eq_true'] at hc
    exact Or.inr (Or.inr (Or.inl ⟨hc, rfl⟩))
  | escapes c => rw [hr] at hc; simp [conforming] at hc
  | exit n =>
    rw [hr] at hc
    simp only [conforming, Bool.or_eq_true, Bool.and_eq_true, beq_iff_eq] at hc
    rcases hc with hc | hc
    · subst hc; exact Or.inr (Or.inl rfl)
    · obtain ⟨ht, hn⟩ := hc; subst hn; exact Or.inr (Or.inr (Or.inr ⟨ht, rfl⟩))

/-- the sites of parse_args in execution order are call paths of the model -/
theorem C03_pipeline_paths : ∀ p ∈ pipelineArgs, chain (.body .parseArgs) p = true := by decide

/-- the concrete pipeline of parse_args under an arbitrary oracle `O` (what each site does on the input) -/
theorem C03_pipeline_args_total (top : Bool) (mode : Mode) (O : List Region → Option Sig)
    (hO : ∀ p ∈ pipelineArgs, ∀ s, O p = some s →
      s ∈ born tables mode top (effLeaf tables top p) (leaf (.body .parseArgs) p) ∧
      (routeSig tables mode top (.body .parseArgs) p s).tag = .clean) :
    conforming top (runEvents tables mode top (.body .parseArgs) (pipelineArgs.map (fun p => ⟨p, O p⟩))) = true := by
  apply runEvents_ok (C03_flight_closed mode top).1 (C03_flight_closed mode top).2 .parseArgs (.body .parseArgs) (by decide)
  intro e he
  obtain ⟨p, hp, rfl⟩ := List.mem_map.mp he
  exact ⟨C03_pipeline_paths p hp, fun s hs => hO p hp s hs⟩

/-! ## the RAISES side: what can escape the leaf functions, computed from the source -/

abbrev leaves : List Leaf := Jap.Gen.ExcFlowRaises.leaves

/-- C03_static_raises.  Every exception class that the static over-approximation (explicit `raise`, failure tables of the builtins
and library callables, attribute access / subscripts on unchecked parameters, f-strings; minus the function's own handlers) finds
able to escape a leaf function of the parse pipeline — the validation functions of the restricted types, the deserializers of the
registered types, the loaders, import_object, ActionYesNo._boolean_type — is a DESIGNED failure of the region the leaf runs in (and,
for a registered type, one of that type's own `deserializer_exceptions`), in every loader mode in which the leaf runs there; or is
excused by a guard that the extractor found in front of the raising expression, by an open finding, or by a stated assumption. -/
theorem C03_static_raises : ∀ l ∈ leaves, leafOk tables excuses l = true := by decide +kernel

/-- ... and therefore (with `C03_routing`) is routed to ArgumentError / exit status 2 on EVERY call path of any depth that ends in
the leaf's region, for every public method, both exit_on_error modes (unless the path runs through one of the three tagged origins). -/
theorem C03_static_routed (top : Bool) (mode : Mode) (m : Method) (root : Region) (hroot : root ∈ roots m)
    (path : List Region) (hpath : chain root path = true)
    (l : Leaf) (_hl : l ∈ leaves) (hreg : leaf root path = l.region) (o : Origin) (_ho : o ∈ l.escapes)
    (hc : covered tables mode l o.cls = true) :
    conforming top (routePath tables mode top root path (.exc o.cls .clean)) = true ∨
      (routeSig tables mode top root path (.exc o.cls .clean)).tag ≠ .clean := by
  simp only [covered, Bool.and_eq_true] at hc
  have hb := born_of_designedCovers hc.1 top (effLeaf tables top path)
  rw [← hreg] at hb
  exact C03_routing top mode m root hroot path hpath _ hb

/-- nothing is left over: the list of (leaf, class, origin) triples that are neither covered nor excused is empty -/
theorem C03_static_nothing_uncovered : uncovered tables excuses leaves = [] := by decide +kernel

/-- every excuse is still in use (an excuse whose origin disappeared from the source — a repaired finding, a removed call — must be
deleted: the list cannot silently grow stale) -/
theorem C03_static_excuses_live :
    ∀ e ∈ excuses, leaves.any (fun l => l.escapes.any (fun o => excusedBy l o e)) = true := by decide +kernel

/-- the three findings that were read off this table (Decimal -> InvalidOperation, timedelta / complex / float restricted types ->
OverflowError) are repaired (4c191c6, 9c44438): an ArithmeticError born inside `RegisteredType.deserializer` is now one of the
deserializer exceptions and reaches the caller as a parse error; on the tables of the tree before, it escaped -/
def witnessRegisteredOverflow (T : Tables) : Outcome :=
  routePath T .yaml false (.body .parseObject) [.applyActions, .checkValueKey, .checkType, .adapt, .registered] (.exc .OverflowError .clean)

def witnessDecimal (T : Tables) : Outcome :=
  routePath T .yaml true (.body .parseArgs) [.knownArgs, .typehintAction, .checkType, .adapt, .registered] (.exc .ArithmeticError .clean)

def tablesBefore9c44438 : Tables := { tables with deserExc := [.ValueError, .TypeError, .AttributeError] }

theorem C03_static_repaired_findings :
    witnessRegisteredOverflow tables = .argErr ∧ witnessDecimal tables = .exit 2 ∧
    (∀ mode ∈ Mode.all, designedCovers tables mode .registered .OverflowError = true ∧
      designedCovers tables mode .registered .ArithmeticError = true) ∧
    witnessRegisteredOverflow tablesBefore9c44438 = .escapes .OverflowError ∧
    witnessDecimal tablesBefore9c44438 = .escapes .ArithmeticError ∧
    (∀ mode ∈ Mode.all, designedCovers tablesBefore9c44438 mode .registered .OverflowError = false) := by decide +kernel

-- non-vacuity: the table is not empty, covered origins exist and the composed theorem applies to them
example : leaves.length ≥ 20 ∧ (leaves.map (fun l => l.escapes.length)).sum ≥ 80 := by decide +kernel
example : ∃ l ∈ leaves, ∃ o ∈ l.escapes, l.name = intLeaf ∧ o.cls = .ValueError ∧ covered tables .yaml l o.cls = true := by
  decide +kernel
example : routePath tables .yaml true (.body .parseString) [.lcpm, .applyActions, .checkValueKey, .checkType, .adapt, .registered]
    (.exc .ValueError .clean) = .exit 2 := by decide
-- sensitivity: the obligation fails when a guard goes (seed C03-5B: the integrality test moved behind the conversion) ...
-- (on the tables and excuses of the tree before 4c191c6 / 9c44438; today validation_fn converts inside `except OverflowError`)
example : originOk tablesBefore9c44438 excusesBefore ⟨intLeaf, .registered, Mode.all, [.ValueError, .TypeError, .AttributeError], []⟩
    ⟨.OverflowError, "int(v)", ["passed: isinstance(v, bool)", integralGuard]⟩ = true := by decide +kernel
example : originOk tablesBefore9c44438 excusesBefore ⟨intLeaf, .registered, Mode.all, [.ValueError, .TypeError, .AttributeError], []⟩
    ⟨.OverflowError, "int(v)", ["passed: isinstance(v, bool)"]⟩ = false := by decide +kernel
-- ... when a handler inside a leaf goes (the `except OverflowError` of validation_fn, the `except ValueError` of json_load) ...
example : originOk tables excuses ⟨"_loaders_dumpers.json_load", .loadValue, [.json], [], []⟩ ⟨.ValueError, "json.loads(value)", []⟩ = false := by
  decide +kernel
example : originOk tables excuses ⟨"_loaders_dumpers.json_load", .loadValue, [.json], [], []⟩
    ⟨.ValueError, "json.loads(value)", ["in: isinstance(ex, json.JSONDecodeError)"]⟩ = true := by decide +kernel
-- ... when a conversion leaves its try block (seed C03-A: int() of load_basic outside the `except ValueError`) ...
example : originOk tables excuses ⟨"_loaders_dumpers.load_basic", .loadValue, Mode.all, [], []⟩ ⟨.ValueError, "int(value)", []⟩ = false := by
  decide +kernel
-- ... when a registered type narrows its deserializer_exceptions, or a leaf raises a class its region is not designed for
example : originOk tables excuses ⟨"typing.range_deserializer", .registered, Mode.all, [.ValueError], []⟩ ⟨.AttributeError, "value.strip()", []⟩ = false := by
  decide +kernel
-- (seed C03-4A: "not a boolean" raised as ValueError; ActionYesNo._check_type runs it under _check_value_key without a handler)
example : originOk tables excuses ⟨"_actions.ActionYesNo._boolean_type", .checkValueKey, Mode.all, [], []⟩ ⟨.ValueError, "raise ValueError", []⟩ = false := by
  decide +kernel
example : originOk tables excuses ⟨"_actions.ActionYesNo._boolean_type", .checkValueKey, Mode.all, [], []⟩ ⟨.TypeError, "raise TypeError", []⟩ = true := by
  decide +kernel

/-! ## non-vacuity and sensitivity -/

-- the hypotheses of `C03_routing` are satisfiable by non-trivial paths, and the conclusion is informative
example : routePath tables .yaml false (.body .parseObject) [.common, .validate] (.exc .NSKeyError .clean) = .argErr := by decide
example : routePath tables .yaml true (.body .parseObject) [.common, .validate] (.exc .NSKeyError .clean) = .exit 2 := by decide
example : Sig.exc .NSKeyError .clean ∈ born tables .yaml true true .validate := by decide
-- F06c: parse_path on a missing file
example : routePath tables .yaml true (.body .parsePath) [.pathCtor] (.exc .PathError .clean) = .exit 2 := by decide
-- F02: a yaml scalar that resolves as int but cannot be constructed
example : routePath tables .yaml false (.body .parseString) [.lcpm, .lcpmLoad, .loadDoc, .yamlConstruct] (.exc .ValueError .clean) = .argErr := by decide
-- a broken JSON document in json mode
example : routePath tables .json true (.body .parseString) [.lcpm, .lcpmLoad, .loadDoc] (.exc .JSONDecodeError .clean) = .exit 2 := by decide
-- a non-importable class_path for a subclass-typed argument given on the command line
example : routePath tables .yaml false (.body .parseArgs) [.knownArgs, .typehintAction, .checkType, .adapt, .subclass]
    (.exc .ModuleNotFoundError .clean) = .argErr := by decide
-- F03t: a Type[..] argument with a non-importable path; F03o: an int too large for a float argument
example : routePath tables .yaml false (.body .parseArgs) [.knownArgs, .typehintAction, .checkType, .adapt, .typeImport]
    (.exc .ModuleNotFoundError .clean) = .argErr := by decide
example : routePath tables .yaml true (.body .parseObject) [.applyActions, .checkValueKey, .checkType, .adapt, .floatConv]
    (.exc .OverflowError .clean) = .exit 2 := by decide
-- a failure inside a sub-command's own parse_args, three levels deep
example : routePath tables .yaml true (.body .parseArgs)
    [.knownArgs, .subcmdAction, .subBody .parseArgs, .knownArgs, .subcmdAction, .subBody .parseArgs, .common, .validate, .required]
    (.exc .KeyError .clean) = .exit 2 := by decide
-- help and print_config: status 0 in both modes
example : ∀ top, routePath tables .yaml top (.body .parseArgs) [.knownArgs, .helpAction] (.exit 0 .clean) = .exit 0 := by decide
example : ∀ top, routePath tables .yaml top (.body .parseArgs) [.common, .printConfig] (.exit 0 .clean) = .exit 0 := by decide
-- the three witnesses, individually
example : witnessInner = .exit 2 := by decide            -- repaired by 52e5b95 (was: escapes ArgumentError)
example : witnessHelp = .argErr := by decide              -- repaired by 45f35d9 (was: exit 2 under exit_on_error=False)
example : witnessDefault = .escapes .ArgumentError := by decide
-- regression witnesses on the tables of the tree before those repairs
example : routePath { tables with handler := fun v => if v = .dataclassBranch then ⟨[], .same⟩ else tables.handler v } .yaml true (.body .parseObject)
    [.applyActions, .checkValueKey, .checkType, .adapt, .dataclass, .innerBody .parseObject, .common, .validate]
    (.exc .NSKeyError .clean) = .escapes .ArgumentError := by decide
example : routePath { tables with helpExitOnError := some true } .yaml false (.body .parseArgs) [.knownArgs, .helpClassPath, .helpBody, .leftover]
    (.exit 2 .clean) = .exit 2 := by decide
-- 2c9f0ad: a config file that is not UTF-8 / cannot be read, a NUL byte in its name: through error() now, escaped before
example : routePath tables .yaml true (.body .parsePath) [.pathContent] (.exc .UnicodeDecodeError .clean) = .exit 2 := by decide
example : routePath tables .yaml false (.body .parsePath) [.pathCtor] (.exc .ValueError .clean) = .argErr := by decide
example : routePath { tables with handler := fun v => if v = .pathRead then ⟨[], .same⟩ else tables.handler v } .yaml true (.body .parsePath)
    [.pathContent] (.exc .UnicodeDecodeError .clean) = .escapes .UnicodeDecodeError := by decide
-- F17n / F17s: an unknown sub-command name and a non-mapping sub-command section are designed failures now
example : routePath tables .yaml false (.body .parseObject) [.common, .subcommands] (.exc .NSKeyError .clean) = .argErr := by decide
example : routePath tables .yaml true (.body .parseString) [.common, .subcommands] (.exc .TypeError .clean) = .exit 2 := by decide
example : routePath tables .yaml true (.body .parseArgs) [.knownArgs, .subcmdAction] (.exc .TypeError .clean) = .exit 2 := by decide
-- negative regression witness (the behaviour before those repairs, and of the residual open findings): an AttributeError
-- is something no region is designed to raise; it is outside the theorem and escapes
example : routePath tables .yaml false (.body .parseString) [.common, .subcommands] (.exc .AttributeError .clean) = .escapes .AttributeError := by decide
example : routePath tables .yaml false (.body .parseArgs) [.knownArgs, .subcmdAction] (.exc .AttributeError .clean) = .escapes .AttributeError := by decide
-- merge_config → ActionTypeHint.discard_init_args_on_class_path_change is designed to raise nothing and has no handler of
-- its own: an AttributeError there (seed C03-3A: `None.get` when the overriding spec has no init_args) escapes from the
-- methods that MERGE a source with the defaults; the search watches for it (it must not be observed on the clean tree)
example : ∀ top eff, born tables .yaml top eff .discardStatic = [] := by decide
example : routePath tables .yaml false (.body .parseString) [.merge, .discardStatic] (.exc .AttributeError .clean)
    = .escapes .AttributeError := by decide
example : routePath tables .yaml true (.body .parseEnv) [.defaultsEnv, .merge, .discardStatic] (.exc .AttributeError .clean)
    = .escapes .AttributeError := by decide
-- a run of the pipeline that ends in the first unabsorbed failure
example : runEvents tables .yaml true (.body .parseArgs)
    [⟨[.defaultsEnv, .getDefaults, .defPaths], some (.exc .PathError .clean)⟩,   -- unreadable default config: skipped
     ⟨[.knownArgs, .typehintAction, .checkType], none⟩,
     ⟨[.common, .validate, .required], some (.exc .KeyError .clean)⟩,
     ⟨[.common, .links], some (.exc .ZeroDivisionError .clean)⟩] = .exit 2 := by decide

/-- sensitivity: the same routing functions on edited tables give escapes — the theorems above are not
true of arbitrary tables -/
def edit (w : Wrapper) (h : Handler) : Tables := { tables with handler := fun v => if v = w then h else tables.handler v }

example : routePath (edit (.outer .parseObject) ⟨[.cls .TypeError], .callsError⟩) .yaml false (.body .parseObject)
    [.common, .validate] (.exc .NSKeyError .clean) = .escapes .NSKeyError := by decide
example : routePath (edit .checkType ⟨[.cls .TypeError], .raises .TypeError⟩) .yaml false (.body .parseArgs)
    [.knownArgs, .typehintAction, .checkType, .adapt] (.exc .ValueError .clean) = .escapes .ValueError := by decide
example : routePath { tables with loaderExc := fun _ => [] } .json false (.body .parseString)
    [.lcpm, .lcpmLoad, .loadDoc] (.exc .JSONDecodeError .clean) = .escapes .JSONDecodeError := by decide
example : routePath { tables with error := { tables.error with exitStatus := some 1 } } .yaml true (.body .parseObject)
    [.common, .validate] (.exc .NSKeyError .clean) = .exit 1 := by decide
example : routePath (edit .typeImport ⟨[], .same⟩) .yaml false (.body .parseArgs)
    [.knownArgs, .typehintAction, .checkType, .adapt, .typeImport] (.exc .ModuleNotFoundError .clean) = .escapes .ModuleNotFoundError := by decide
example : routePath (edit .floatConv ⟨[], .same⟩) .yaml false (.body .parseArgs)
    [.knownArgs, .typehintAction, .checkType, .adapt, .floatConv] (.exc .OverflowError .clean) = .escapes .OverflowError := by decide
-- add_subcommand not copying exit_on_error: a sub-command parser built with the default (True) under a root that raises
example : routePath { tables with subInherited := ["default_env", "parser_mode", "_error_handler", "logger"] } .yaml false
    (.body .parseArgs) [.knownArgs, .subcmdAction, .subBody .parseArgs, .leftover] (.exit 2 .clean) = .exit 2 := by decide
example : routePath { tables with subInherited := ["default_env", "parser_mode", "_error_handler", "logger"] } .yaml false
    (.body .parseArgs) [.knownArgs, .subcmdAction, .subBody .parseArgs, .knownArgs, .typehintAction, .checkType]
    (.exc .TypeError .clean) = .exit 2 := by decide
example : routePath tables .yaml false
    (.body .parseArgs) [.knownArgs, .subcmdAction, .subBody .parseArgs, .knownArgs, .typehintAction, .checkType]
    (.exc .TypeError .clean) = .argErr := by decide
-- the cleanup of the print_config request moved from `finally` into the handler: a rejected `--print_config extra`
-- (direct error(), ArgumentError passes the handler) leaves the request; the next valid call prints and exits 0
example : nextValid { tables with printConfigCleanup := .inHandlerOnly }
    (pendingAfter { tables with printConfigCleanup := .inHandlerOnly } true
      (tryExitOf tables .yaml (.exc .ArgumentError .clean))) = .exit 0 := by decide
example : nextValid { tables with printConfigCleanup := .inHandlerOnly }
    (pendingAfter { tables with printConfigCleanup := .inHandlerOnly } true
      (tryExitOf tables .yaml (.exc .TypeError .clean))) = .ok := by decide
example : routePath (edit .pathOwn ⟨[], .same⟩) .yaml false (.body .parsePath) [.pathCtor] (.exc .PathError .clean)
    = .escapes .PathError := by decide

end Jap.Props.C03

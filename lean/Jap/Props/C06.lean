import Jap.Core.Validate
import Jap.Core.ValidatePos
import Jap.Lemmas.Validate
import Jap.Gen.LenientBrackets
import Jap.Gen.MetaKeyFilter
import Jap.Lemmas.ValidateOpt
import Jap.Lemmas.ValidateArgv
import Jap.Gen.PositionalOptionals
/-!
# C06 — unknown keys are never silently ignored; required keys are enforced

Model: `Jap.Validate` (Core/Validate.lean): `validate` = `check_values` + `check_required` with the per-class
parsers of `init_args` / list items and subcommand selection, over parser spec trees (`Node`) of any depth and
configuration trees (`Val`).  Vocabulary of the statements: Core/ValidatePos.lean (`getPath`, `reach`, `levelIn`,
`insertAt`, `nullAt`, `removeAt`).  The YAML loader is a parameter `ld` of every theorem.

FULL STATEMENTS (what the property asks) and where the code — hence the faithful model — falls short:

* "accepted ⇒ every key of the configuration, at every level, is defined by the parser":
  `∀ path, (getPath cfg path).isSome → reach (root fs kvs) path` is a definition (`.pos _`) or data below a leaf.
  FALSE in three ways, each a theorem below and an open finding:
  `C06_leafless_counterexample` (a foreign key holding a mapping without leaves),
  `C06_unselected_counterexample` (a key in the section of a non-selected subcommand),
  `C06_dict_kwargs_counterexample` (a key below `dict_kwargs`);
  and a fourth: `C06_meta_key_counterexample` (a key named `__path__` / `__default_config__` / `__orig__` with a plain value:
  `is_meta_key` filters it out of the key list `check_values` iterates; `child` classifies it as data).
  Proved: `C06_no_unknown_partial` — every key path *that carries a leaf* is never `.undefinedKey`: it is a
  definition, data, or falls in the two classes `.unselected` / `.dictKwargs`.
* "a mapping is expected at a group key": `C06_scalar_for_group_counterexample` (DESIGN section 7 row 8).
* required keys: `C06_required`, `C06_required_subcommand`, `C06_required_nulled` hold at full strength (the latter two
  theorems about mutations assume `noClash`: no subcommand is named like an argument of its level);
  `C06_required_removed` needs the mapping to keep a leaf: `C06_remove_last_leaf_counterexample`.
-/
namespace Jap.Props.C06
open Jap.Validate

/-! ## no lenient mode: the regenerated table of `lenient_check` brackets -/

/-- the lenient mode is switched on only inside these brackets, none of which encloses `validate` -/
def allowedBrackets : List (String × String × String × List String) := [
  ("_actions", "_ActionPrintConfig.print_config_if_requested", "True", ["dump", "write"]),
  ("_core", "ArgumentParser._apply_actions", "True", ["_check_value_key"]),
  ("_core", "ArgumentParser._parse_common", "True", ["add_sub_defaults"]),
  ("_core", "ArgumentParser.parse_known_args", "True", ["_parse_known_args"]),
  ("_typehints", "discard_init_args_on_class_path_change", "False", ["Namespace", "_check_value_key"])]

/-- On the current source: `lenient_check=True` occurs in exactly four `with` brackets (printing the config,
    `_apply_actions`' first pass, `add_sub_defaults`, the internal `parse_known_args`), nothing else sets it;
    `validate` runs `check_values` unconditionally and `check_required` unless `skip_required`/lenient;
    `_parse_common` calls `validate` under `not skip_validation` only; `parse_known_args` starts by raising
    `NotImplementedError` for callers outside the package; `parse_args` turns leftovers into
    "Unrecognized arguments". -/
theorem C06_no_lenient :
    Jap.Gen.LenientBrackets.lenientBrackets = allowedBrackets
    ∧ Jap.Gen.LenientBrackets.lenientOther = []
    ∧ Jap.Gen.LenientBrackets.validateSteps = ["check_values | ", "check_required | not skip_required and (not lenient_check.get())"]
    ∧ Jap.Gen.LenientBrackets.parseCommonValidate = ["not skip_validation => self.validate(cfg, skip_required=skip_required)"]
    ∧ Jap.Gen.LenientBrackets.knownArgsGuard = ["caller not in {'jsonargparse', 'argcomplete'}", "NotImplementedError",
        -- the frame that is inspected is `inspect.stack()[1]`: the IMMEDIATE caller of `parse_known_args` (index 2 would be the
        -- caller's caller, which is the package itself whenever user code is called back by it)
        "caller_mod = inspect.getmodule(inspect.stack()[1][0]); caller = None if caller_mod is None else caller_mod.__package__"]
    ∧ Jap.Gen.LenientBrackets.unrecognized = ["unk", "self.error", "Unrecognized arguments:"] := by
  decide

/-- leftover command-line arguments are never ignored: the first option that is not in the parser's table is the error -/
theorem C06_argv_leftover (ld : String → Val) (fs : Fields) (done : List (String × String)) (level k : String)
    (rest : List (String × String)) (kvs : KV)
    (hdone : ∀ o ∈ done, recognised (flatten "" "" fs) o.1 o.2 = true)
    (hk : recognised (flatten "" "" fs) level k = false) :
    parseArgv ld fs (done ++ (level, k) :: rest) kvs = .error (.unrecognized k) := by
  unfold parseArgv
  have : argvCheck (flatten "" "" fs) (done ++ (level, k) :: rest) = .error (.unrecognized k) := by
    induction done with
    | nil => simp [argvCheck, hk]
    | cons o r ih =>
      have h1 := hdone o (List.mem_cons_self)
      simp only [List.cons_append, argvCheck, h1, if_true]
      exact ih (fun o' ho' => hdone o' (List.mem_cons_of_mem _ ho'))
  rw [this]

/-! ## branch keys: the "." boundary -/

/-- **the branch-key rule reads the "." boundary.**  A key is a branch of defined keys exactly when some destination is
    the key, then a ".", then anything — for all destination lists and keys, as character strings. -/
theorem C06_branch_key_iff (dests : List (List Char)) (key : List Char) :
    isBranchKeyL dests key = true ↔ ∃ d ∈ dests, ∃ rest, d = key ++ '.' :: rest := by
  unfold isBranchKeyL
  simp only [List.any_eq_true, List.isPrefixOf_iff_prefix]
  constructor
  · rintro ⟨d, hd, t, ht⟩
    exact ⟨d, hd, t, by rw [← ht]; simp⟩
  · rintro ⟨d, hd, rest, rfl⟩
    exact ⟨_, hd, rest, by simp⟩

/-- a key that is a proper string prefix of a destination WITHOUT the "." boundary (a truncated typo: `epoch` for
    `epochs`, `max` for `max_steps`) is not a branch key of it -/
theorem C06_branch_key_boundary (key rest : List Char) (c : Char) (hc : c ≠ '.') :
    isBranchKeyL [key ++ c :: rest] key = false := by
  cases h : isBranchKeyL [key ++ c :: rest] key with
  | false => rfl
  | true =>
    obtain ⟨d, hd, r, hr⟩ := (C06_branch_key_iff _ _).mp h
    simp only [List.mem_singleton] at hd
    subst hd
    have := List.append_cancel_left hr
    simp only [List.cons.injEq] at this
    exact absurd this.1 hc

/-- nor is a destination a branch key of itself, nor an extension of a destination (`epochs2`) of anything shorter -/
theorem C06_branch_key_examples :
    isBranchKeyL ["epochs".toList, "trainer.max_steps".toList] "epoch".toList = false
    ∧ isBranchKeyL ["epochs".toList, "trainer.max_steps".toList] "epochs".toList = false
    ∧ isBranchKeyL ["epochs".toList, "trainer.max_steps".toList] "epochs2".toList = false
    ∧ isBranchKeyL ["epochs".toList, "trainer.max_steps".toList] "train".toList = false
    ∧ isBranchKeyL ["epochs".toList, "trainer.max_steps".toList] "trainer.max".toList = false
    ∧ isBranchKeyL ["epochs".toList, "trainer.max_steps".toList] "trainer".toList = true := by
  decide

/-! ## unknown keys -/

/-- **C06_no_unknown (partial).**  For every parser spec tree, every loader and every accepted configuration:
    a key path of the configuration below which there is at least one leaf is never a key without definition
    at its position — at top level, in groups, in the selected subcommand's section, in `init_args` of the
    selected class, in list items, at any depth. -/
theorem C06_no_unknown_partial (ld : String → Val) (fs : Fields) (kvs : KV) (path : Path) (w : Val)
    (h : validate ld fs kvs = .ok ()) (hg : getPath (.dict kvs) path = some w) (hl : leafless w = false) :
    reach (root fs kvs) path ≠ .undefinedKey :=
  reach_ne_undefined path (root_okAt h) hg hl

/-- the same at any accepted inner position (a per-class parser, a list item, a group) -/
theorem C06_no_unknown_inner (ld : String → Val) (fs : Fields) (kvs : KV) (p0 path : Path) (q : Pos) (w : Val)
    (h : validate ld fs kvs = .ok ()) (hq : reach (root fs kvs) p0 = .pos q)
    (hg : getPath q.val path = some w) (hl : leafless w = false) :
    reach q path ≠ .undefinedKey :=
  reach_ne_undefined path (okAt_reach p0 (root_okAt h) hq).1 hg hl

/-- **C06_names_key (partial).**  For every parser spec tree and every accepted configuration: ONE foreign key `z`
    carrying at least one leaf, inserted into the mapping at ANY position that has a definition — the top level,
    a group, the section of the selected subcommand, `init_args` of the selected class, an item of a list, next to
    `class_path`, at any depth — makes `validate` fail, and the error is the `unknown key` error whose position is that
    key (followed, when the value is a mapping, by the path to its first deepest leaf, as `get_sorted_keys` orders them).
    `stableAlong`: subcommand names are not argument names on the levels the path runs through. -/
theorem C06_names_key_partial (ld : String → Val) (fs : Fields) (kvs : KV) (path : Path) (q : Pos) (z : String)
    (w v' : Val)
    (h : validate ld fs kvs = .ok ()) (hr : reach (root fs kvs) path = .pos q)
    (hst : stableAlong (root fs kvs) path = true) (hfor : foreignAt q z = true)
    (hins : insertAt z w path (.dict kvs) = some v') (hl : leafless w = false) :
    ∃ kvs' tail cut, v' = .dict kvs' ∧ validate ld fs kvs' = .error (.unknown (path ++ [.key z] ++ tail) cut) := by
  obtain ⟨kvs', rfl⟩ := modifyAt_dict (fun vq vq' _ hh => insertF_good hl vq vq' hh) hins
  obtain ⟨tail, cut, he⟩ := insert_reported h hr hst hfor hins hl
  exact ⟨kvs', tail, cut, rfl, he⟩

/-! ### keys ending in "+" (`ActionTypeHint.apply_appends`)

`merge_config` pops a key `k+` from the configuration ONLY inside `if ActionTypeHint.supports_append(action)`, i.e. only
when `k` is the destination of a list-typed argument of the parser.  Every other key ending in "+" is still in the
configuration when `check_values` runs and is an unknown key like any other: `foreignAt` above includes such keys, so
`C06_names_key_partial` covers `calbacks+` (misspelt append key), `zz9+` and `n+` for an `int` argument `n`. -/

/-- **C06_append_only_list.**  The only keys consumed as append keys at a level are `k ++ "+"` for a LIST-TYPED argument
    `k` of that level. -/
theorem C06_append_only_list (fs : Fields) (k b : String) (n : Node) (h : appendSlot fs k = some (b, n)) :
    plusBase k = some b ∧ assoc b fs = some n ∧ appendable n = true := by
  unfold appendSlot at h
  cases hb : plusBase k with
  | none => simp [hb] at h
  | some b' =>
    simp only [hb] at h
    cases ha : assoc b' fs with
    | none => simp [ha] at h
    | some n' =>
      simp only [ha] at h
      by_cases hp : appendable n' = true
      · simp only [hp, if_true, Option.some.injEq, Prod.mk.injEq] at h
        obtain ⟨rfl, rfl⟩ := h
        exact ⟨rfl, ha, hp⟩
      · simp [hp] at h

/-- the base of an append key: `k = b ++ "+"` -/
theorem C06_plusBase_spec (k b : String) (h : plusBase k = some b) : k.toList = b.toList ++ ['+'] := by
  unfold plusBase at h
  split at h
  · rename_i r hr
    simp only [Option.some.injEq] at h
    subst h
    have : k.toList = (k.toList.reverse).reverse := by simp
    rw [this, hr]
    simp
  · cases h

/-- **C06_plus_key_not_consumed.**  A key that is no argument of the level and whose base `k[:-1]` is NOT a list-typed
    argument of the level (no such argument, or one of another type) is not popped: with a leaf below it, the walk stops at
    it with the `unknown key` error naming `k` as written (with the "+"). -/
theorem C06_plus_key_not_consumed (ld : String → Val) (pre : Path) (cut : Nat) (fs : Fields) (sel : Option String)
    (k : String) (v : Val) (r : KV) (hs : foreignAt ⟨false, .group false fs, .dict []⟩ k = true)
    (hl : leafless v = false) :
    walk ld pre cut fs sel ((k, v) :: r) = .error (.unknown (pre ++ [.key k] ++ (deepPath v).map .key) cut) := by
  unfold foreignAt at hs
  simp only at hs
  rw [walk_cons]
  unfold entry
  cases hsl : slotOf fs k with
  | field n => simp [hsl] at hs
  | sect cfs => simp [hsl] at hs
  | none =>
    simp only [hsl] at hs
    cases hap : appendSlot fs k with
    | some bn => simp [hap] at hs
    | none =>
      have hmz : isMeta k = false := by
        cases hh : isMeta k with
        | false => rfl
        | true => simp [hh] at hs
      have hm : metaLeaf k v = false := by cases v <;> simp [metaLeaf, hmz]
      simp [hl, hm]

/-- a "+" key whose base is an argument of another type, or no argument at all, is foreign -/
theorem C06_plus_key_foreign (fs : Fields) (k : String) (hs : slotOf fs k = .none) (hm : isMeta k = false)
    (hb : ∀ b n, plusBase k = some b → assoc b fs = some n → appendable n = false) :
    foreignAt ⟨false, .group false fs, .dict []⟩ k = true := by
  unfold foreignAt
  simp only [hs, hm]
  cases hap : appendSlot fs k with
  | none => rfl
  | some bn =>
    obtain ⟨b, n⟩ := bn
    obtain ⟨h1, h2, h3⟩ := C06_append_only_list fs k b n hap
    rw [hb b n h1 h2] at h3
    cases h3

/-! ### keys spelled `__...__` (`is_meta_key`, the filter of `get_sorted_keys`)

Only the three names in `meta_keys` are filtered out of the key list `check_values` iterates; a foreign key spelled
`__comment__` or `__pth__` is a foreign key (`foreignAt`, hence `C06_names_key_partial`).  The three names themselves are
invisible when written by the user: counterexample `C06_meta_key_counterexample` below. -/

/-- the extractor tie: `meta_keys` is the model's set; `is_meta_key` tests MEMBERSHIP of the leaf name in it; it is the default
    filter of `get_sorted_keys`, which is what `check_values` iterates; `is_subclass_spec` allows `__path__` as the fourth key -/
theorem C06_meta_key_source :
    Jap.Gen.MetaKeyFilter.metaKeys = ["__default_config__", "__orig__", "__path__"]
    ∧ (∀ k, isMeta k = Jap.Gen.MetaKeyFilter.metaKeys.contains k)
    ∧ Jap.Gen.MetaKeyFilter.isMetaKeyBody = ["leaf_key = split_key_leaf(key)[-1]", "return leaf_key in meta_keys"]
    ∧ Jap.Gen.MetaKeyFilter.sortedKeysFilterDefault = "is_meta_key"
    ∧ Jap.Gen.MetaKeyFilter.sortedKeysSelect = "[k for k in self.keys() if not key_filter(k)]"
    ∧ Jap.Gen.MetaKeyFilter.checkValuesKeys = ["cfg.get_sorted_keys()"]
    ∧ Jap.Gen.MetaKeyFilter.subclassSpecKeys = ["__path__", "class_path", "dict_kwargs", "init_args"] := by
  refine ⟨by decide, ?_, by decide, by decide, by decide, by decide, by decide⟩
  intro k
  simp only [isMeta, metaKeys, Jap.Gen.MetaKeyFilter.metaKeys, List.contains_cons, List.contains_nil, Bool.or_false]
  cases (k == "__path__") <;> cases (k == "__default_config__") <;> cases (k == "__orig__") <;> rfl

/-- **C06_dunder_is_foreign.**  A key that is none of the three meta keys — however it is spelled — is filtered nowhere: at a
    level that does not define it (and where it is no append key) it is a foreign key, so `C06_names_key_partial` applies -/
theorem C06_dunder_is_foreign (fs : Fields) (kvs : KV) (k : String) (hs : slotOf fs k = .none) (ha : appendSlot fs k = none)
    (h1 : k ≠ "__path__") (h2 : k ≠ "__default_config__") (h3 : k ≠ "__orig__") :
    foreignAt ⟨false, .group false fs, .dict kvs⟩ k = true := by
  have hm : isMeta k = false := by simp [isMeta, metaKeys, h1, h2, h3]
  unfold foreignAt
  simp [hs, ha, hm]

/-! ### the full statements fail on the code: witnesses (open findings) -/

private def ld0 : String → Val := fun s => .str s
private def leafI : Node := .leaf .int false (some (.int 0))

/-- FULL STATEMENT `validate = ok → every present key path is defined` is false: a foreign key whose value is a mapping
    without leaves is accepted (open finding C06-leafless-foreign); so is the unrestricted `C06_names_key`. -/
theorem C06_leafless_counterexample :
    validate ld0 [("alpha", leafI)] [("alpha", .int 1), ("zz9", .dict [("q", .dict [])])] = .ok ()
    ∧ reach (root [("alpha", leafI)] [("alpha", .int 1), ("zz9", .dict [("q", .dict [])])]) [.key "zz9"] = .undefinedKey
    ∧ insertAt "zz9" (.dict [("q", .dict [])]) [] (.dict [("alpha", .int 1)])
        = some (.dict [("alpha", .int 1), ("zz9", .dict [("q", .dict [])])]) := by
  refine ⟨rfl, rfl, rfl⟩

private def subSpec : Fields :=
  [("alpha", leafI), ("subcommand", .subcommands true [("fit", [("beta", leafI)]), ("run", [("gamma", leafI)])])]

/-- a key inside the section of a non-selected subcommand is never looked at (open finding C06-unselected-section) -/
theorem C06_unselected_counterexample :
    validate ld0 subSpec [("alpha", .int 1), ("subcommand", .str "fit"), ("fit", .dict [("beta", .int 2)]),
                          ("run", .dict [("zz9", .int 1)])] = .ok ()
    ∧ reach (root subSpec [("alpha", .int 1), ("subcommand", .str "fit"), ("fit", .dict [("beta", .int 2)]),
                           ("run", .dict [("zz9", .int 1)])]) [.key "run", .key "zz9"] = .unselected := by
  refine ⟨rfl, rfl⟩

private def clsSpec : Fields := [("alpha", .classArg true none [("m.Sub", [("beta", leafI)])])]

/-- keys below `dict_kwargs` of a class specification are not looked at (open finding C06-dict-kwargs) -/
theorem C06_dict_kwargs_counterexample :
    validate ld0 clsSpec [("alpha", .dict [("class_path", .str "m.Sub"), ("init_args", .dict [("beta", .int 1)]),
                                           ("dict_kwargs", .dict [("zz9", .int 1)])])] = .ok ()
    ∧ reach (root clsSpec [("alpha", .dict [("class_path", .str "m.Sub"), ("init_args", .dict [("beta", .int 1)]),
                                            ("dict_kwargs", .dict [("zz9", .int 1)])])])
        [.key "alpha", .key "dict_kwargs", .key "zz9"] = .dictKwargs := by
  refine ⟨rfl, rfl⟩

/-- DESIGN section 7 row 8: a non-mapping value at a group key is accepted, with (`whole`) or without an option for the
    group key (open finding C06-scalar-for-group) -/
theorem C06_scalar_for_group_counterexample (whole : Bool) :
    validate ld0 [("grp", .group whole [("beta", leafI)])] [("grp", .int 3)] = .ok () := by
  cases whole <;> rfl

private def impSpec (imp : Option String) : Fields :=
  [("m", .classArg false imp [("m.Base", [("a", leafI)]), ("m.Sub", [("c", leafI)])])]

/-- class specifications WITHOUT `class_path` (a concrete base type supplies it): `{init_args: ..}` and the bare `init_args`
    mapping are accepted; a foreign key NEXT TO `init_args`, or inside the bare mapping, is the unknown-key error at that key;
    with an abstract base (no implicit class) such values are refused -/
theorem C06_implicit_class_examples :
    validate ld0 (impSpec (some "m.Base")) [("m", .dict [("init_args", .dict [("a", .int 2)])])] = .ok ()
    ∧ validate ld0 (impSpec (some "m.Base")) [("m", .dict [("init_args", .dict [("a", .int 2)]), ("lerning_rate", .int 1)])]
        = .error (.unknown [.key "m", .key "lerning_rate"] 1)
    ∧ validate ld0 (impSpec (some "m.Base")) [("m", .dict [("dict_kwargs", .dict []), ("init_arg", .int 1)])]
        = .error (.unknown [.key "m", .key "init_arg"] 1)
    ∧ validate ld0 (impSpec (some "m.Base")) [("m", .dict [("a", .int 2)])] = .ok ()
    ∧ validate ld0 (impSpec (some "m.Base")) [("m", .dict [("a", .int 2), ("zz9", .int 1)])]
        = .error (.unknown [.key "m", .key "zz9"] 1)
    ∧ validate ld0 (impSpec none) [("m", .dict [("init_args", .dict [("a", .int 2)])])] = .error (.type [.key "m"] 0) := by
  refine ⟨rfl, rfl, rfl, rfl, rfl, rfl⟩

/-! ### non-vacuity: the hypotheses are satisfiable by non-trivial states -/

private def bigSpec : Fields :=
  [("n", .leaf .int true none),
   ("d", .group false [("a", .leaf .int true none), ("b", .leaf .str false (some (.str "s")))]),
   ("m", .classArg true none [("m.A", [("x", .leaf .int true none), ("y", .leaf .int false (some (.int 2))),
                                   ("dc", .group true [("p", .leaf .int true none)])])]),
   ("ld", .listOf false (.group true [("p", .leaf .int true none)])),
   ("subcommand", .subcommands true [("s1", [("k", .leaf .int true none)]), ("s2", [("j", .leaf .int false none)])])]

private def bigCfg : KV :=
  [("n", .int 1), ("d", .dict [("a", .int 1)]),
   ("m", .dict [("class_path", .str "m.A"), ("init_args", .dict [("x", .int 1), ("dc", .dict [("p", .int 4)])])]),
   ("ld", .list [.dict [("p", .int 1)], .dict [("p", .int 2)]]), ("s1", .dict [("k", .int 5)])]

/-- all node kinds, implicit subcommand selection: accepted -/
example : validate ld0 bigSpec bigCfg = .ok () := rfl

/-- `C06_names_key_partial` applies deep inside: `init_args` of the class, then a nested dataclass group -/
example : ∃ q, reach (root bigSpec bigCfg) [.key "m", .key "init_args", .key "dc"] = .pos q
    ∧ stableAlong (root bigSpec bigCfg) [.key "m", .key "init_args", .key "dc"] = true
    ∧ foreignAt q "zz9" = true := ⟨_, rfl, rfl, rfl⟩

/-- ... and inside the second item of the list, and inside the implicitly selected section -/
example : ∃ q, reach (root bigSpec bigCfg) [.key "ld", .idx 1] = .pos q ∧ foreignAt q "zz9" = true
    ∧ stableAlong (root bigSpec bigCfg) [.key "ld", .idx 1] = true := ⟨_, rfl, rfl, rfl⟩
example : ∃ q, reach (root bigSpec bigCfg) [.key "s1"] = .pos q ∧ foreignAt q "zz9" = true
    ∧ stableAlong (root bigSpec bigCfg) [.key "s1"] = true := ⟨_, rfl, rfl, rfl⟩

/-- what the theorem predicts, computed: the foreign key in the nested group is named with its full position -/
example : (insertAt "zz9" (.int 7) [.key "m", .key "init_args", .key "dc"] (.dict bigCfg)).map
      (fun v => match v with | .dict k => validate ld0 bigSpec k | _ => .ok ())
    = some (.error (.unknown [.key "m", .key "init_args", .key "dc", .key "zz9"] 2)) := rfl

/-- append keys: `li+` of a list argument is consumed and its elements checked; `n+` of an `int` argument, the misspelt
    `lii+` and the unrelated `zz9+` are unknown keys, named as written — at top level, in a group, in `init_args` of a
    class and in the section of the selected subcommand -/
private def appSpec : Fields :=
  [("n", .leaf .int false (some (.int 0))), ("li", .leaf .listInt false (some (.list [.int 1]))),
   ("ls", .listOf false (.leaf .str false none)),
   ("d", .group false [("a", .leaf .int false (some (.int 0))), ("tags", .leaf .optListInt false none)]),
   ("m", .classArg false none [("m.A", [("x", .leaf .int false (some (.int 1))), ("cbs", .leaf .listInt false none)])]),
   ("subcommand", .subcommands false [("fit", [("c", .leaf .int false none), ("cb", .leaf .listInt false none)])])]
example : validate ld0 appSpec [("li+", .list [.int 2, .int 3])] = .ok () := rfl
example : validate ld0 appSpec [("li", .list [.int 7]), ("li+", .int 8), ("ls+", .str "x")] = .ok () := rfl
example : validate ld0 appSpec [("d", .dict [("tags+", .list [.int 1])]), ("fit", .dict [("cb+", .list [.int 1])]),
    ("m", .dict [("class_path", .str "m.A"), ("init_args", .dict [("cbs+", .int 4)])])] = .ok () := rfl
example : validate ld0 appSpec [("li+", .str "x")] = .error (.type [.key "li"] 0) := rfl
example : validate ld0 appSpec [("li+", .null)] = .error (.type [.key "li"] 0) := rfl
example : validate ld0 appSpec [("n+", .int 2)] = .error (.unknown [.key "n+"] 0) := rfl
example : validate ld0 appSpec [("lii+", .list [.int 2])] = .error (.unknown [.key "lii+"] 0) := rfl
example : validate ld0 appSpec [("zz9+", .int 2)] = .error (.unknown [.key "zz9+"] 0) := rfl
example : validate ld0 appSpec [("d", .dict [("a+", .int 2)])] = .error (.unknown [.key "d", .key "a+"] 0) := rfl
example : validate ld0 appSpec [("d+", .dict [("a", .int 2)])] = .error (.unknown [.key "d+", .key "a"] 0) := rfl
example : validate ld0 appSpec [("fit", .dict [("c+", .int 2)])] = .error (.unknown [.key "fit", .key "c+"] 0) := rfl
example : validate ld0 appSpec [("m", .dict [("class_path", .str "m.A"), ("init_args", .dict [("x+", .int 2)])])]
    = .error (.unknown [.key "m", .key "init_args", .key "x+"] 2) := rfl
example : foreignAt (root appSpec []) "n+" = true ∧ foreignAt (root appSpec []) "lii+" = true
    ∧ foreignAt (root appSpec []) "li+" = false ∧ foreignAt (root appSpec []) "ls+" = false := ⟨rfl, rfl, rfl, rfl⟩

/-- **Counterexample (meta keys; open finding C06-meta-key-foreign).**  `__path__`, `__default_config__`, `__orig__` written
    by the user with a plain value are accepted where nothing defines them: at the top level, in a group, in `init_args` of a
    class, in the selected section, and `__path__` also next to `class_path`; the same positions reject `__comment__` / `__pth__`. -/
theorem C06_meta_key_counterexample :
    validate ld0 appSpec [("__path__", .str "v")] = .ok ()
    ∧ validate ld0 appSpec [("d", .dict [("__orig__", .int 1)])] = .ok ()
    ∧ validate ld0 appSpec [("m", .dict [("class_path", .str "m.A"), ("init_args", .dict [("__default_config__", .int 1)])])] = .ok ()
    ∧ validate ld0 appSpec [("m", .dict [("class_path", .str "m.A"), ("__path__", .int 1)])] = .ok ()
    ∧ validate ld0 appSpec [("fit", .dict [("__path__", .int 1)])] = .ok ()
    ∧ validate ld0 appSpec [("__comment__", .str "v")] = .error (.unknown [.key "__comment__"] 0)
    ∧ validate ld0 appSpec [("d", .dict [("__pth__", .int 1)])] = .error (.unknown [.key "d", .key "__pth__"] 0)
    ∧ validate ld0 appSpec [("m", .dict [("class_path", .str "m.A"), ("init_args", .dict [("__comment__", .int 1)])])]
        = .error (.unknown [.key "m", .key "init_args", .key "__comment__"] 2)
    ∧ validate ld0 appSpec [("m", .dict [("class_path", .str "m.A"), ("__orig__", .int 1)])] = .error (.unknown [.key "m", .key "__orig__"] 1)
    ∧ validate ld0 appSpec [("fit", .dict [("__comment__", .int 1)])] = .error (.unknown [.key "fit", .key "__comment__"] 0)
    ∧ validate ld0 appSpec [("__path__", .dict [("q", .int 1)])] = .error (.unknown [.key "__path__", .key "q"] 0) := by
  refine ⟨rfl, rfl, rfl, rfl, rfl, rfl, rfl, rfl, rfl, rfl, rfl⟩
example : foreignAt (root appSpec []) "__comment__" = true ∧ foreignAt (root appSpec []) "__pth__" = true
    ∧ foreignAt (root appSpec []) "__path__" = false := ⟨rfl, rfl, rfl⟩

/-- `C06_required` applies to the class parameter `x` (per-class parser at `m.init_args`) and to the section key `s1.k` -/
example : reach (root bigSpec bigCfg) [.key "m", .key "init_args"]
      = .pos ⟨true, .group true [("x", .leaf .int true none), ("y", .leaf .int false (some (.int 2))),
                                  ("dc", .group true [("p", .leaf .int true none)])],
              .dict [("x", .int 1), ("dc", .dict [("p", .int 4)])]⟩ := rfl
example : (levelIn bigSpec bigCfg ["s1"]).map (·.1) = some [("k", .leaf .int true none)] := rfl

/-! ## required keys -/

/-- **C06_required.**  In an accepted configuration every required argument has a non-null value: for the top-level
    parser (`p0 = []`) and for every per-class parser reached at `p0` (`init_args` of the selected class of a
    class-typed argument, an item of a `List[dataclass]`, nested to any depth), for every level `ks` of that
    parser (through groups and the section of the selected subcommand) and every required key `r` of the level. -/
theorem C06_required (ld : String → Val) (fs : Fields) (kvs : KV) (p0 : Path) (w : Bool) (fs1 : Fields) (kvs1 : KV)
    (ks : List String) (fs2 : Fields) (kvs2 : KV) (r : String) (n : Node)
    (h : validate ld fs kvs = .ok ())
    (hp : reach (root fs kvs) p0 = .pos ⟨true, .group w fs1, .dict kvs1⟩)
    (hl : levelIn fs1 kvs1 ks = some (fs2, kvs2))
    (ha : assoc r fs2 = some n) (hn : isRequiredNode n = true) :
    ∃ v, getPath (.dict kvs) (p0 ++ (ks ++ [r]).map .key) = some v ∧ v ≠ .null := by
  obtain ⟨hq, hpath⟩ := okAt_reach p0 (root_okAt h) hp
  obtain ⟨pre, cut, hreq⟩ := okAt_parser_req hq
  have hlev := reqFields_levelIn ks hreq hl
  obtain ⟨v, hv, hnn⟩ := reqFields_required hlev ha hn
  refine ⟨v, ?_, hnn⟩
  have hroot : (root fs kvs).val = .dict kvs := rfl
  rw [← hroot, hpath]
  simp only [List.map_append, List.map_cons, List.map_nil]
  rw [getPath_append]
  rcases levelIn_getPath ks hl with h0 | h1
  · subst h0; simp [assoc] at hv
  · rw [h1]
    simp [getPath_dict_cons, hv, getPath_nil]

/-- **C06_required (subcommand).**  A required subcommand of any level of any accepted parser is selected, and it is one
    of the choices. -/
theorem C06_required_subcommand (ld : String → Val) (fs : Fields) (kvs : KV) (p0 : Path) (w : Bool) (fs1 : Fields)
    (kvs1 : KV) (ks : List String) (fs2 : Fields) (kvs2 : KV) (d : String) (cs : Choices)
    (h : validate ld fs kvs = .ok ())
    (hp : reach (root fs kvs) p0 = .pos ⟨true, .group w fs1, .dict kvs1⟩)
    (hl : levelIn fs1 kvs1 ks = some (fs2, kvs2))
    (hs : subOf fs2 = some (d, true, cs)) :
    ∃ c cfs, selected fs2 kvs2 = some c ∧ assoc c cs = some cfs := by
  obtain ⟨hq, _⟩ := okAt_reach p0 (root_okAt h) hp
  obtain ⟨pre, cut, hreq⟩ := okAt_parser_req hq
  have hlev := reqFields_levelIn ks hreq hl
  have hn := reqFields_ok_mem hlev (subOf_mem hs)
  rw [reqNode_sub] at hn
  unfold selected
  simp only [hs]
  cases hsel : selectedOf d cs kvs2 with
  | none => simp [hsel] at hn
  | some c =>
    simp only [hsel] at hn
    obtain ⟨cfs, hc⟩ := reqChoices_required_mem hn
    exact ⟨c, cfs, rfl, hc⟩

/-! ## a required key made missing -/

/-- **C06_required_removed (nulling).**  For every parser spec tree and every accepted configuration: setting ONE required key
    to `null` — at the top level, in a group, in the selected subcommand's section (`ks`), for the top-level parser
    (`p0 = []`) or for any per-class parser (`init_args` of a selected class, a `List[dataclass]` item, at any depth `p0`)
    — makes `validate` fail with the `required` error whose position is exactly that key.
    `stableAlong` / `stableLevels`: subcommand names are not argument names on the levels involved. -/
theorem C06_required_nulled (ld : String → Val) (fs : Fields) (kvs : KV) (p0 : Path) (w : Bool) (fs1 : Fields) (kvs1 : KV)
    (ks : List String) (fs2 : Fields) (kvs2 : KV) (r : String) (n : Node) (v' : Val)
    (h : validate ld fs kvs = .ok ())
    (hp : reach (root fs kvs) p0 = .pos ⟨true, .group w fs1, .dict kvs1⟩)
    (hst : stableAlong (root fs kvs) p0 = true)
    (hl : levelIn fs1 kvs1 ks = some (fs2, kvs2)) (hsl : stableLevels fs1 kvs1 ks = true)
    (ha : assoc r fs2 = some n) (hn : isRequiredNode n = true)
    (hm : nullAt r (p0 ++ ks.map .key) (.dict kvs) = some v') :
    ∃ kvs', v' = .dict kvs' ∧
      validate ld fs kvs' = .error (.required (p0 ++ (ks ++ [r]).map .key) p0.length) := by
  have hm' : modifyAt (nullF r) (p0 ++ ks.map .key) (.dict kvs) = some v' := hm
  obtain ⟨kvs', rfl⟩ := modifyAt_dict (fun vq vq' _ hh => nullF_good r vq vq' hh) hm'
  exact ⟨kvs', rfl, missing_reported (nullF_endOK r) h hp hst hl hsl ha hn (fun vq' hh => nullF_good r _ _ hh) hm'⟩

/-- **C06_required_removed (removal).**  The same for removing the key, provided the mapping it is removed from still holds a
    leaf afterwards (`hleaf`).  Without that proviso the statement is false for the code: a namespace without leaves is
    invisible, so removing the only key of the section of an *implicitly* selected subcommand deselects the subcommand —
    `C06_remove_last_leaf_counterexample`. -/
theorem C06_required_removed (ld : String → Val) (fs : Fields) (kvs : KV) (p0 : Path) (w : Bool) (fs1 : Fields) (kvs1 : KV)
    (ks : List String) (fs2 : Fields) (kvs2 : KV) (r : String) (n : Node) (v' : Val)
    (h : validate ld fs kvs = .ok ())
    (hp : reach (root fs kvs) p0 = .pos ⟨true, .group w fs1, .dict kvs1⟩)
    (hst : stableAlong (root fs kvs) p0 = true)
    (hl : levelIn fs1 kvs1 ks = some (fs2, kvs2)) (hsl : stableLevels fs1 kvs1 ks = true)
    (ha : assoc r fs2 = some n) (hn : isRequiredNode n = true)
    (hleaf : leaflessKVs (erase r kvs2) = false)
    (hm : removeAt r (p0 ++ ks.map .key) (.dict kvs) = some v') :
    ∃ kvs', v' = .dict kvs' ∧
      validate ld fs kvs' = .error (.required (p0 ++ (ks ++ [r]).map .key) p0.length) := by
  have hm' : modifyAt (removeF r) (p0 ++ ks.map .key) (.dict kvs) = some v' := hm
  have hgood : ∀ vq', removeF r (.dict kvs2) = some vq' → GoodPair (.dict kvs2) vq' := by
    intro vq' hh
    rw [removeF_dict, Option.some.injEq] at hh
    subst hh
    exact ⟨Or.inl ⟨_, _, rfl, rfl⟩, fun _ => by rw [leafless_dict]; exact hleaf⟩
  have hres := missing_reported (removeF_endOK r) h hp hst hl hsl ha hn hgood hm'
  rw [modifyAt_append] at hm'
  have hq : getPath (.dict kvs) p0 = some (.dict kvs1) := reach_getPath p0 hp
  have hkind : ∃ kvs', v' = .dict kvs' := by
    refine modifyAt_dict (f := modifyAt (removeF r) (ks.map .key)) ?_ hm'
    intro vq vq' hg hfq
    rw [hq, Option.some.injEq] at hg
    subst hg
    refine modifyAt_good (ks.map .key) ?_ hfq
    intro vq2 vq2' hg2 hfq2
    rw [levelIn_modify_getPath (removeF_endOK r).onlyDict ks hl hfq, Option.some.injEq] at hg2
    subst hg2
    exact hgood vq2' hfq2
  obtain ⟨kvs', rfl⟩ := hkind
  exact ⟨kvs', rfl, hres⟩

private def optSub : Fields := [("subcommand", .subcommands false [("fit", [("k", .leaf .int true none)])])]

/-- removing the last leaf of the section of an implicitly selected, optional subcommand gives a configuration without
    subcommand, which is accepted (and rightly so): the proviso `hleaf` of `C06_required_removed` is needed -/
theorem C06_remove_last_leaf_counterexample :
    validate ld0 optSub [("fit", .dict [("k", .int 1)])] = .ok ()
    ∧ levelIn optSub [("fit", .dict [("k", .int 1)])] ["fit"] = some ([("k", .leaf .int true none)], [("k", .int 1)])
    ∧ removeAt "k" [.key "fit"] (.dict [("fit", .dict [("k", .int 1)])]) = some (.dict [("fit", .dict [])])
    ∧ validate ld0 optSub [("fit", .dict [])] = .ok () := by
  refine ⟨rfl, rfl, rfl, rfl⟩

/-- non-vacuity of `C06_required_nulled`, computed on the configuration with all node kinds:
    the class parameter `x` (inside `init_args`), the key `p` of the second list item, the key `k` of the section -/
example : stableAlong (root bigSpec bigCfg) [.key "m", .key "init_args"] = true
    ∧ (nullAt "x" [.key "m", .key "init_args"] (.dict bigCfg)).map
        (fun v => match v with | .dict k => validate ld0 bigSpec k | _ => .ok ())
      = some (.error (.required [.key "m", .key "init_args", .key "x"] 2)) := ⟨rfl, rfl⟩
example : (nullAt "p" [.key "ld", .idx 1] (.dict bigCfg)).map
        (fun v => match v with | .dict k => validate ld0 bigSpec k | _ => .ok ())
      = some (.error (.required [.key "ld", .idx 1, .key "p"] 2)) := rfl
example : stableLevels bigSpec bigCfg ["s1"] = true
    ∧ (nullAt "k" [.key "s1"] (.dict bigCfg)).map
        (fun v => match v with | .dict k => validate ld0 bigSpec k | _ => .ok ())
      = some (.error (.required [.key "s1", .key "k"] 0)) := ⟨rfl, rfl⟩
example : (removeAt "a" [.key "d"] (.dict (bigCfg ++ [("zz", .dict [])]))).map
        (fun v => match v with | .dict k => validate ld0 bigSpec k | _ => .ok ())
      = some (.error (.required [.key "d", .key "a"] 0)) := rfl

/-! ## `Optional[Dataclass]` arguments (`Node.optGroup`)

A mapping given for an argument typed `Optional[Dataclass]` (one `ActionTypeHint`, no group) is validated by the per-class parser of
the dataclass: `adapt_typehints`, branch "Dataclass-like" — `get_class_parser(typehint, sub_add_kwargs)` then `parse_object`.
`reachO` is `reach` walking through such values too (positions below them are positions of that parser). -/

/-- the check of such a value IS the check of a parser of its own (`check_values` + `check_required`, keys relative to it) -/
theorem C06_optdc_is_parser (ld : String → Val) (pre : Path) (cut : Nat) (item req : Bool) (fs : Fields) (kvs : KV)
    (hl : leaflessKVs kvs = false) :
    chkVal ld pre cut item (.optGroup req fs) (.dict kvs) = chkVal ld pre cut true (.group true fs) (.dict kvs) :=
  chkVal_optGroup_dict ld pre cut item req fs kvs hl

/-- **Counterexample (open finding C06-optdc-empty-mapping).**  FULL STATEMENT "a dataclass given for an `Optional[Dataclass]` argument has
    all its required fields" is false when the mapping holds no leaf: `{}` (and `{zz: {}}`) given for `opt: Optional[D]`, `D` with the
    required field `x`, never reaches the namespace — accepted, the argument silently keeps its default `None`; only a REQUIRED argument
    notices (it is reported as missing). -/
theorem C06_optdc_empty_counterexample :
    validate ld0 [("opt", .optGroup false [("x", .leaf .int true none)])] [("opt", .dict [])] = .ok ()
    ∧ validate ld0 [("opt", .optGroup false [("x", .leaf .int true none)])] [("opt", .dict [("zz", .dict [])])] = .ok ()
    ∧ validate ld0 [("opt", .optGroup false [("x", .leaf .int true none)])] [("opt", .dict [("x", .null)])]
        = .error (.required [.key "opt", .key "x"] 1)
    ∧ validate ld0 [("opt", .optGroup true [("x", .leaf .int true none)])] [("opt", .dict [])] = .error (.required [.key "opt"] 0) := by
  refine ⟨rfl, rfl, rfl, rfl⟩

/-- **C06_no_unknown through `Optional[Dataclass]` values.**  In an accepted configuration no key path that carries a leaf is
    undefined at its position — the positions now include the fields of a dataclass given for an `Optional[Dataclass]` argument,
    nested dataclasses in it, `Optional[Dataclass]` fields of those, ... to any depth, and any mix with groups, sections, `init_args`
    and list items. -/
theorem C06_no_unknown_optdc (ld : String → Val) (fs : Fields) (kvs : KV) (path : Path) (w : Val)
    (h : validate ld fs kvs = .ok ()) (hg : getPath (.dict kvs) path = some w) (hl : leafless w = false) :
    reachO (root fs kvs) path ≠ .undefinedKey :=
  reachO_ne_undefined path (root_okAt h) hg hl

/-- **C06_required through `Optional[Dataclass]` values.**  Every required key of every parser level of an accepted configuration is
    set — `p0` may now lead through `Optional[Dataclass]` values: the parser reached is the top-level one, a per-class parser of
    `init_args` / a list item, or the parser of the dataclass given for an `Optional[Dataclass]` argument (`q` is that argument's position). -/
theorem C06_required_optdc (ld : String → Val) (fs : Fields) (kvs : KV) (p0 : Path) (q : Pos) (w : Bool) (fs1 : Fields) (kvs1 : KV)
    (ks : List String) (fs2 : Fields) (kvs2 : KV) (r : String) (n : Node)
    (h : validate ld fs kvs = .ok ())
    (hp : reachO (root fs kvs) p0 = .pos q) (hq : liftO q = ⟨true, .group w fs1, .dict kvs1⟩)
    (hl : levelIn fs1 kvs1 ks = some (fs2, kvs2))
    (ha : assoc r fs2 = some n) (hn : isRequiredNode n = true) :
    ∃ v, getPath (.dict kvs) (p0 ++ (ks ++ [r]).map .key) = some v ∧ v ≠ .null := by
  obtain ⟨hq0, hpath⟩ := okAt_reachO p0 (root_okAt h) hp
  have hq1 : OkAt ld ⟨true, .group w fs1, .dict kvs1⟩ := by rw [← hq]; exact okAt_liftO hq0
  obtain ⟨pre, cut, hreq⟩ := okAt_parser_req hq1
  have hlev := reqFields_levelIn ks hreq hl
  obtain ⟨v, hv, hnn⟩ := reqFields_required hlev ha hn
  refine ⟨v, ?_, hnn⟩
  have hroot : (root fs kvs).val = .dict kvs := rfl
  have hval : q.val = .dict kvs1 := by rw [← liftO_val q, hq]
  rw [← hroot, hpath, hval]
  simp only [List.map_append, List.map_cons, List.map_nil]
  rw [getPath_append]
  rcases levelIn_getPath ks hl with h0 | h1
  · subst h0; simp [assoc] at hv
  · rw [h1]
    simp [getPath_dict_cons, hv, getPath_nil]

private def optSpec : Fields :=
  [("n", .leaf .int false (some (.int 0))),
   ("g", .group true [("k", .leaf .int false (some (.int 1))),
      ("opt", .optGroup false [("x", .leaf .int true none), ("y", .leaf .int false (some (.int 2))),
                               ("inner", .optGroup false [("a", .leaf .int true none)])])]),
   ("ro", .optGroup true [("x", .leaf .int true none)])]

private def optCfg : KV :=
  [("g", .dict [("opt", .dict [("x", .int 1), ("y", .int 7), ("inner", .dict [("a", .int 3)])])]), ("ro", .dict [("x", .int 5)])]

/-- `Optional[Dataclass]` in a group and at the top level, nested: accepted; `None` accepted unless required; a required field of the
    dataclass missing / a foreign field / a non-mapping: the error of the dataclass' parser, positioned relative to it -/
example : validate ld0 optSpec optCfg = .ok () := rfl
example : validate ld0 optSpec [("g", .dict [("opt", .null)]), ("ro", .dict [("x", .int 5)])] = .ok () := rfl
example : validate ld0 optSpec [("g", .dict [("opt", .dict [("y", .int 7)])]), ("ro", .dict [("x", .int 5)])]
    = .error (.required [.key "g", .key "opt", .key "x"] 2) := rfl
example : validate ld0 optSpec [("g", .dict [("opt", .dict [("x", .int 1), ("zz9", .int 7)])]), ("ro", .dict [("x", .int 5)])]
    = .error (.unknown [.key "g", .key "opt", .key "zz9"] 2) := rfl
example : validate ld0 optSpec [("g", .dict [("opt", .dict [("x", .int 1), ("inner", .dict [("zz9", .int 3)])])]), ("ro", .dict [("x", .int 5)])]
    = .error (.unknown [.key "g", .key "opt", .key "inner", .key "zz9"] 3) := rfl
example : validate ld0 optSpec [("g", .dict [("opt", .int 3)]), ("ro", .dict [("x", .int 5)])] = .error (.type [.key "g", .key "opt"] 0) := rfl
example : validate ld0 optSpec [("ro", .null)] = .error (.required [.key "ro"] 0) := rfl
example : validate ld0 optSpec [] = .error (.required [.key "ro"] 0) := rfl
/-- non-vacuity of the two theorems: the nested position is reached by `reachO` (and not by `reach`, for which it is data) -/
example : reachO (root optSpec optCfg) [.key "g", .key "opt", .key "inner", .key "a"] = .pos ⟨false, .leaf .int true none, .int 3⟩
    ∧ (match reach (root optSpec optCfg) [.key "g", .key "opt", .key "inner"] with | .data => true | _ => false) = true := ⟨rfl, rfl⟩
example : liftO ⟨false, .optGroup false [("a", .leaf .int true none)], .dict [("a", .int 3)]⟩
    = ⟨true, .group true [("a", .leaf .int true none)], .dict [("a", .int 3)]⟩ := rfl
example : (flatten "" "" optSpec).map (fun a => (a.dest, a.optKeys, a.required))
    = [("n", ["n"], false), ("g", ["g"], false), ("g.k", ["g.k"], false), ("g.opt", ["g.opt"], false), ("ro", ["ro"], true)] := rfl

/-! ## command-line tokens no action consumed (`_positional_optionals`, the end of `parse_args`)

`posLoop` transcribes the loop of `ArgumentParser._positional_optionals`; `leftoverVerdict` the step of `parse_args` after it
(`if unk: self.error("Unrecognized arguments: ...")`). -/

/-- the source the model transcribes, regenerated on every run: the loop of `_positional_optionals` (one `unk.pop(0)` per optional
    action, `break` on a missing positional / when nothing is left, THE REST IS RETURNED), which actions take part, when the mechanism
    is on, the leftover step of `parse_args`, the dataclass branch of `adapt_typehints` (the previous value reaches the per-class parser
    in a NEW dict: `{**sub_add_kwargs, 'default': prev_val}` — never written into the dict stored on the action), and the two closures
    of `validate` -/
theorem C06_leftover_source :
    Jap.Gen.PositionalOptionals.positionalOptionals =
      ["0: if len(unk) == 0 or not supports_optionals_as_positionals(self):", "1: return (cfg, unk)",
       "0: for action in get_optionals_as_positionals_actions(self, include_positionals=True):",
       "1: if action.option_strings == []:", "2: if cfg.get(action.dest) is None:", "3: break", "2: continue",
       "1: cfg[action.dest] = self._check_value_key(action, unk.pop(0), action.dest, cfg)",
       "1: if len(unk) == 0:", "2: break", "0: return (cfg, unk)"]
    ∧ Jap.Gen.PositionalOptionals.eligibleActions =
      ["0: actions = []", "0: for action in filter_default_actions(parser._actions):",
       "1: if isinstance(action, (_ActionConfigLoad, ActionConfigFile, ShtabAction)):", "2: continue",
       "1: if ActionTypeHint.is_subclass_typehint(action, all_subtypes=False):", "2: continue",
       "1: if action.nargs not in {1, None}:", "2: continue",
       "1: if not include_positionals and action.option_strings == []:", "2: continue",
       "1: actions.append(action)", "0: return actions"]
    ∧ Jap.Gen.PositionalOptionals.supports =
      ["return get_parsing_setting('parse_optionals_as_positionals') and (not parser._subcommands_action) and (not getattr(parser, '_inner_parser', False))"]
    ∧ Jap.Gen.PositionalOptionals.parseArgsLeftover =
      ["0: cfg, unk = self.parse_known_args(args=args, namespace=cfg)", "0: cfg, unk = self._positional_optionals(cfg, unk)",
       "0: if unk:", "1: self.error(f'Unrecognized arguments: {' '.join(unk)}')"]
    ∧ Jap.Gen.PositionalOptionals.dataclassBranch.take 4 =
      ["0: if isinstance(prev_val, (dict, Namespace)):", "1: assert isinstance(sub_add_kwargs, dict)",
       "1: sub_add_kwargs = {**sub_add_kwargs, 'default': prev_val}",
       "0: parser = ActionTypeHint.get_class_parser(typehint, sub_add_kwargs=sub_add_kwargs)"]
    ∧ Jap.Gen.PositionalOptionals.dataclassBranch.drop 4 =
      ["0: if instantiate_classes:", "1: init_args = parser.instantiate_classes(val)", "1: return typehint(**init_args)",
       "0: if serialize:", "1: val = load_value(parser.dump(val, **dump_kwargs.get()))", "0: else:",
       "1: if isinstance(val, (dict, Namespace)):",
       "2: if is_subclass_spec(val) and get_import_path(typehint) == val.get('class_path'):", "3: val = val.get('init_args')",
       "2: try:", "3: val = parser.parse_object(val, defaults=sub_defaults.get() or list_item)", "2: except ArgumentError:",
       "3: raise_unexpected_value(f'Problem with given {typehint} settings: {ex}', exception=ex)", "1: else:",
       "2: if isinstance(val, NestedArg):", "3: prev_val = prev_val if isinstance(prev_val, Namespace) else None",
       "3: try:", "4: val = parser.parse_args([f'--{val.key}={val.val}'], namespace=prev_val)", "3: except ArgumentError:",
       "4: raise_unexpected_value(f'Problem with given {typehint} settings: {ex}', exception=ex)", "2: else:",
       "3: raise_unexpected_value(f'Type {typehint} expects a dict or Namespace', val)"]
    ∧ Jap.Gen.PositionalOptionals.checkRequired =
      ["0: for reqkey in parser.required_args:", "1: try:", "2: val = cfg[reqkey]", "2: if val is None:", "3: raise TypeError",
       "1: except (KeyError, TypeError):",
       "2: raise TypeError(f'Key \"{prefix}{reqkey}\" is required but not included in config object or its value is None.') from ex",
       "0: subcommand, subparser = _ActionSubCommands.get_subcommand(parser, cfg, fail_no_subcommand=False)",
       "0: if subcommand is not None and subparser is not None:",
       "1: check_required(cfg.get(subcommand), subparser, prefix + subcommand + '.')"]
    ∧ Jap.Gen.PositionalOptionals.checkValues.length = 29
    ∧ Jap.Gen.PositionalOptionals.checkValues.take 6 =
      ["0: sorted_keys = {k: _find_action(self, k) for k in cfg.get_sorted_keys()}", "0: for key, action in sorted_keys.items():",
       "1: parent_action = None", "1: if action is None:", "2: if _is_branch_key(self, key):", "3: continue"]
    ∧ Jap.Gen.PositionalOptionals.checkValues.drop 11 =
      ["1: val = cfg[key]", "1: if action is not None:", "2: if val is None and skip_none or lenient_check.get():", "3: continue",
       "2: try:", "3: self._check_value_key(action, val, key, ccfg)", "2: except TypeError:",
       "3: if not (val == {} and ActionTypeHint.is_subclass_typehint(action) and (key not in self.required_args)):", "4: raise ex",
       "1: else:", "2: if isinstance(parent_action, _ActionSubCommands) and '.' in key:",
       "3: subcommand, subkey = split_key_root(key)",
       "3: raise NSKeyError(f\"Subcommand '{subcommand}' does not accept nested key '{subkey}'\")",
       "2: group_key = next((g for g in self.groups if key.startswith(g + '.')), None)", "2: if group_key:",
       "3: subkey = key[len(group_key) + 1:]",
       "3: raise NSKeyError(f\"Group '{group_key}' does not accept nested key '{subkey}'\")",
       "2: raise NSKeyError(f\"Key '{key}' is not expected\")"] := by
  refine ⟨rfl, rfl, rfl, rfl, rfl, rfl, rfl, rfl, rfl, rfl⟩

/-- **C06_tokens_conserved.**  Every leftover token is either handed to an action or still in the list that is reported:
    assigned tokens followed by the rest ARE the tokens that came in — none dropped, none duplicated, order kept; for every action list,
    every token list, the mechanism on or off. -/
theorem C06_tokens_conserved (enabled : Bool) (acts : List PAct) (unk : List String) :
    (positionalOptionals enabled acts unk).1.map (·.2) ++ (positionalOptionals enabled acts unk).2 = unk := by
  unfold positionalOptionals
  by_cases h : (unk.isEmpty || !enabled) = true
  · simp [h]
  · simp only [h]; exact posLoop_conserve acts unk

/-- **C06_tokens_one_action_each.**  The actions that receive a token are optional actions of the parser, each at most once, in the
    order they were added (a sublist of the optionals). -/
theorem C06_tokens_one_action_each (enabled : Bool) (acts : List PAct) (unk : List String) :
    List.Sublist ((positionalOptionals enabled acts unk).1.map (·.1)) (optionalDests acts) := by
  unfold positionalOptionals
  by_cases h : (unk.isEmpty || !enabled) = true
  · simp [h]
  · simp only [h]; exact posLoop_sublist acts unk

/-- **C06_leftover_accept_iff.**  The leftover step of `parse_args` lets a command line through only when EVERY leftover token was
    handed to an action (the assigned tokens are exactly the leftover tokens, in order); otherwise the error lists the rest, which is
    a non-empty tail of the tokens. -/
theorem C06_leftover_accept_iff (enabled : Bool) (acts : List PAct) (unk : List String) :
    (∀ asg, leftoverVerdict enabled acts unk = .ok asg → asg.map (·.2) = unk)
    ∧ (∀ rest, leftoverVerdict enabled acts unk = .error rest →
        rest ≠ [] ∧ ∃ n, n ≤ (optionalDests acts).length ∧ rest = unk.drop n) := by
  have hc := C06_tokens_conserved enabled acts unk
  have hs := (C06_tokens_one_action_each enabled acts unk).length_le
  unfold leftoverVerdict
  constructor
  · intro asg h
    by_cases he : (positionalOptionals enabled acts unk).2.isEmpty = true
    · simp only [he, if_true, Except.ok.injEq] at h
      subst h
      have : (positionalOptionals enabled acts unk).2 = [] := by simpa using he
      rw [this] at hc
      simpa using hc
    · simp [he] at h
  · intro rest h
    by_cases he : (positionalOptionals enabled acts unk).2.isEmpty = true
    · simp [he] at h
    · simp only [he, Bool.false_eq_true, if_false, Except.error.injEq] at h
      subst h
      refine ⟨by simpa using he, (positionalOptionals enabled acts unk).1.length, by simpa using hs, ?_⟩
      have : unk.drop (positionalOptionals enabled acts unk).1.length
          = ((positionalOptionals enabled acts unk).1.map (·.2) ++ (positionalOptionals enabled acts unk).2).drop
              ((positionalOptionals enabled acts unk).1.map (·.2)).length := by rw [hc]; simp
      rw [this, List.drop_left]

/-- **C06_too_many_tokens.**  More leftover tokens than the parser has optional actions: rejected, and every token beyond the
    optionals' count is in the reported rest. -/
theorem C06_too_many_tokens (enabled : Bool) (acts : List PAct) (unk : List String)
    (h : (optionalDests acts).length < unk.length) :
    ∃ rest, leftoverVerdict enabled acts unk = .error rest ∧ unk.drop (optionalDests acts).length <:+ rest := by
  cases hv : leftoverVerdict enabled acts unk with
  | ok asg =>
    exfalso
    have h1 := (C06_leftover_accept_iff enabled acts unk).1 asg hv
    have hs := (C06_tokens_one_action_each enabled acts unk).length_le
    unfold leftoverVerdict at hv
    by_cases he : (positionalOptionals enabled acts unk).2.isEmpty = true
    · simp only [he, if_true, Except.ok.injEq] at hv
      subst hv
      have : unk.length = (positionalOptionals enabled acts unk).1.length := by
        have := congrArg List.length h1
        simpa using this.symm
      simp only [List.length_map] at hs
      omega
    · simp [he] at hv
  | error rest =>
    obtain ⟨_, n, hn, hr⟩ := (C06_leftover_accept_iff enabled acts unk).2 rest hv
    exact ⟨rest, rfl, by rw [hr]; exact List.drop_suffix_drop_left unk hn⟩

/-- **C06_tokens_in_order.**  With the mechanism on and no positional missing, the i-th leftover token goes to the i-th optional action
    (order of addition) and what is beyond the optionals is the rest; with the mechanism off, or a positional missing first, every token
    is left (and reported). -/
theorem C06_tokens_in_order (acts : List PAct) (unk : List String)
    (hall : ∀ a ∈ acts, a.positional = true → a.hasValue = true) :
    positionalOptionals true acts unk = ((optionalDests acts).zip unk, unk.drop (optionalDests acts).length) := by
  unfold positionalOptionals
  cases unk with
  | nil => simp
  | cons t u => simp only [List.isEmpty_cons, Bool.not_true, Bool.or_self, Bool.false_eq_true, if_false]; exact posLoop_exact acts hall (t :: u)

theorem C06_tokens_off (acts : List PAct) (unk : List String) : positionalOptionals false acts unk = ([], unk) := by
  simp [positionalOptionals]

theorem C06_tokens_missing_positional (a : PAct) (r : List PAct) (unk : List String) (hp : a.positional = true) (hv : a.hasValue = false) :
    positionalOptionals true (a :: r) unk = ([], unk) := by
  unfold positionalOptionals
  cases unk with
  | nil => simp
  | cons t u => simp only [List.isEmpty_cons, Bool.not_true, Bool.or_self, Bool.false_eq_true, if_false]; exact posLoop_missing a r (t :: u) hp hv

private def pacts : List PAct := [⟨"p1", true, true⟩, ⟨"o1", false, false⟩, ⟨"o2", false, false⟩]
/-- non-vacuity, computed: two optionals, 0..4 extra tokens -/
example : leftoverVerdict true pacts ["7"] = .ok [("o1", "7")] := rfl
example : leftoverVerdict true pacts ["7", "opt"] = .ok [("o1", "7"), ("o2", "opt")] := rfl
example : leftoverVerdict true pacts ["7", "opt", "LEFT1"] = .error ["LEFT1"] := rfl
example : leftoverVerdict true pacts ["7", "opt", "LEFT1", "LEFT2"] = .error ["LEFT1", "LEFT2"] := rfl
example : leftoverVerdict false pacts ["7"] = .error ["7"] := rfl
example : leftoverVerdict true [⟨"p1", true, false⟩, ⟨"o1", false, false⟩] ["7"] = .error ["7"] := rfl
example : (optionalDests pacts).length < ["7", "opt", "LEFT1"].length := by decide
example : ∀ a ∈ pacts, a.positional = true → a.hasValue = true := by decide

end Jap.Props.C06

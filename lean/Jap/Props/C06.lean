import Jap.Core.Validate
import Jap.Gen.LenientBrackets
/-!
# C06 — unknown keys are never silently ignored; required keys are enforced
(first stage: lenient-bracket table + witnesses; the general theorems follow below)
-/
namespace Jap.Props.C06
open Jap.Validate

/-- the lenient mode is switched on only inside these brackets, none of which encloses `validate` -/
def allowedBrackets : List (String × String × String × List String) := [
  ("_actions", "_ActionPrintConfig.print_config_if_requested", "True", ["dump", "write"]),
  ("_core", "ArgumentParser._apply_actions", "True", ["_check_value_key"]),
  ("_core", "ArgumentParser._parse_common", "True", ["add_sub_defaults"]),
  ("_core", "ArgumentParser.parse_known_args", "True", ["_parse_known_args"]),
  ("_typehints", "discard_init_args_on_class_path_change", "False", ["Namespace", "_check_value_key"])]

theorem C06_no_lenient :
    Jap.Gen.LenientBrackets.lenientBrackets = allowedBrackets
    ∧ Jap.Gen.LenientBrackets.lenientOther = []
    ∧ Jap.Gen.LenientBrackets.validateSteps = ["check_values | ", "check_required | not skip_required and (not lenient_check.get())"]
    ∧ Jap.Gen.LenientBrackets.parseCommonValidate = ["not skip_validation => self.validate(cfg, skip_required=skip_required)"]
    ∧ Jap.Gen.LenientBrackets.knownArgsGuard.take 2 = ["caller not in {'jsonargparse', 'argcomplete'}", "NotImplementedError"]
    ∧ Jap.Gen.LenientBrackets.unrecognized = ["unk", "self.error", "Unrecognized arguments:"] := by
  decide

end Jap.Props.C06

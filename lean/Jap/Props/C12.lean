import Jap.Core.Cli
import Jap.Lemmas.Cli
import Jap.Gen.CliTables
/-!
# C12 — auto_cli calls the component with exactly the parsed values

Model: `Jap.Cli` (Core/Cli.lean), a transcription of `_cli.py` (`auto_cli`, `_add_component_to_parser`,
`_add_subcommands`, `_run_component`) and of the required/default/positional decision of
`_signatures.py:_add_signature_parameter`.  The parse of ONE parser is abstract (`fill`: given value, else default,
else failure); the call log is what the callee's parameters are bound to (Python's own binding, `pyBind`, included).
Specification: `bind sig given` — the given value, else the signature default, else `None` for an `Optional`
parameter without default.

FULL STATEMENT (what the property asks): for every signature, every assignment of given values and every component
body, a successful `auto_cli` logs exactly one call of the selected component with arguments `bind sig given`, and
returns that call's value.

It is FALSE for the code (and the faithful model) when a parameter is called `subcommand` — `_run_component` pops
that key before the call, so the callee silently receives its default (`C12_reserved_subcommand_witness`; the same
happens to a method parameter called `config`, `C12_reserved_method_config_witness`) — open known finding
C12-reserved-names.  What is proved is the full statement under exactly that guard (`noReserved`, a decidable
predicate on the signature), for all signatures, all given values, all bodies, both `as_positional` settings.
-/
namespace Jap.Props.C12
open Jap.Cli

/-! ## the literals of `_cli.py` the model is written against (regenerated from the source on every run) -/

/-- `_run_component` pops `config` and `subcommand` from the namespace, then the chosen subcommand's namespace, and
    `config` from that; the parser has `--help`, `--config`, `--print_config` before the component is added; a method's
    subparser gets `--config` unless the method has a parameter `config` -/
theorem C12_tables_pinned :
    Jap.Gen.runComponentPops
      = [("cfg", "config"), ("cfg", "subcommand"), ("cfg", "$subcommand"), ("subcommand_cfg", "config")]
    ∧ Jap.Gen.autoCliBaseDests = baseOptions
    ∧ Jap.Gen.methodConfigGuard = ["config"]
    ∧ reservedNames = ["config", "subcommand"] := by decide

/-- the statements of `_run_component` (pop `config` / `subcommand`; for a class with a chosen method: pop the method's
    namespace and its `config`, construct with the remaining keys, return a property's value or call the bound method with
    the method's namespace; coroutine functions through `asyncio.run`; else call the component with the namespace and
    RETURN what it returns) and the parser-building calls of `_add_component_to_parser` (class without methods: class
    arguments without group; class with methods: class arguments as group + required subcommands, one per public method
    with `--config` and the method's arguments without group; function: function arguments without group; always
    `sub_configs=True`) are the ones `Jap.Cli.runComponent` / `Jap.Cli.parseComp` transcribe -/
theorem C12_statements_pinned :
    Jap.Gen.runComponentStmts
      = ["cfg.pop('config', None)",
         "subcommand = cfg.pop('subcommand')",
         "if inspect.isclass(component) and subcommand:\n    subcommand_cfg = cfg.pop(subcommand, {})\n    subcommand_cfg.pop('config', None)\n    component_obj = component(**cfg)\n    if isinstance(getattr(component, subcommand), property):\n        return getattr(component_obj, subcommand)\n    component = getattr(component_obj, subcommand)\n    cfg = subcommand_cfg",
         "if inspect.iscoroutinefunction(component):\n    return __import__('asyncio').run(component(**cfg))",
         "return component(**cfg)"]
    ∧ Jap.Gen.addComponentCalls
      = ["kwargs: dict = dict(as_positional=as_positional, fail_untyped=fail_untyped, sub_configs=True)",
         "parser.add_class_arguments(component, as_group=False, **kwargs)",
         "parser.add_class_arguments(component, **kwargs)",
         "parser.add_subcommands(required=True)",
         "subparser.add_argument('--config', action=ActionConfigFile, help=config_help)",
         "subparser.add_method_arguments(component, method, as_group=False, **kwargs)",
         "subcommands.add_subcommand(method, subparser, help=get_help_str(method_object, parser.logger))",
         "parser.add_function_arguments(component, as_group=False, **kwargs)"] :=
  ⟨rfl, rfl⟩

def exBody' : Body := fun t _ => match t with
  | .func f => .tok f
  | .init c => .tok c
  | .method _ m => .tok m

/-- the expression that decides `enable_path` of a signature parameter is the one `enablePath` transcribes, `auto_cli`
    passes `sub_configs=True`, and on a live parser the flag of every annotation kind is what `enablePath true` says for
    the class `_add_signature_parameter` puts the annotation in — for a required positional and for an option alike.
    Today that is: class-typed and callable-returning-class parameters only; none of str/int/float/bool, Optional,
    List, Literal, Enum, `Union[int, str]`, `Any`, `Union[str, List[str]]` -/
theorem C12_enable_path_pinned :
    Jap.Gen.enablePathExpr
      = ["sub_configs and (is_subclass_typehint or ActionTypeHint.is_return_subclass_typehint(annotation))"]
    ∧ Jap.Gen.autoCliSubConfigs = [true]
    ∧ (Jap.Gen.enablePathByType.all fun row =>
        let tc : Option TyClass := match row.2.1 with
          | "fastPath" => some .fastPath
          | "subclass" => some .subclass
          | "returnsSubclass" => some .returnsSubclass
          | "other" => some .other
          | _ => none
        match tc with
        | some c => row.2.2.1 == enablePath true c && row.2.2.2 == enablePath true c
        | none => false) = true
    ∧ (Jap.Gen.enablePathByType.filter (fun row => row.2.2.1 || row.2.2.2)).map (·.1)
        = ["Class", "Optional[Class]", "Callable[[int], Class]"] := by decide

/-- `effDefault`'s rule "no signature default + `Optional[...]` ⇒ default `None`" is the first `is_optional` test of
    `_add_signature_parameter`, and that test looks at the bare annotation: Optional of ANYTHING (`Optional[int]`,
    `Optional[List[int]]`, `Optional[Dict[str, int]]`, `Optional[Tuple[...]]`, `Optional[Literal[...]]`), not only of the
    reference types; the second test (wrapping a non-Optional annotation whose default is None) is the one with `object` -/
theorem C12_optional_rule_pinned :
    Jap.Gen.isOptionalCalls = ["is_optional(annotation)", "is_optional(annotation, object)"] := by decide

/-! ## functions -/

/-- exactly one call, with every parameter bound to the given value or else the signature default; the value
    returned is that call's value -/
theorem C12_binding (body : Body) (asPos : Bool) (f : String) (sig : Sig) (g : Given) (r : Run)
    (hd : distinctNames sig = true) (hr : noReserved sig = true)
    (h : autoCli body asPos (.func f sig) g = .ok r) :
    ∃ args, Cli.bind sig g.top = some args ∧ r.calls = [⟨.func f, args⟩] ∧ r.ret = body (.func f) args := by
  simp only [autoCli] at h
  split at h
  · cases h
  · rename_i cfg hcfg
    exact run_func body asPos true f sig g cfg r hd hr hcfg h

/-- PROGRESS (the theorems above are not vacuous): when only offered parameters are given, every required one is given,
    no name collides with an option of the CLI and no private parameter lacks a default, `auto_cli` does run the function -/
theorem C12_runs (body : Body) (asPos : Bool) (f : String) (sig : Sig) (g : Given)
    (hd : distinctNames sig = true) (hr : noReserved sig = true) (hcol : collides baseOptions sig = false)
    (hgiven : ∀ k ∈ g.top.map (·.1), k ∈ (sig.filter (fun p => !skipped p)).map (·.name))
    (hreq : ∀ p ∈ sig, isVar p = false → effDefault p = .none → (lookup p.name g.top).isSome = true)
    (hpriv : ∀ p ∈ sig, skipped p = true → isVar p = false → p.dflt.isSome = true) :
    ∃ args, Cli.bind sig g.top = some args
      ∧ autoCli body asPos (.func f sig) g = .ok ⟨[⟨.func f, args⟩], body (.func f) args⟩ := by
  obtain ⟨vals, a, hfill, hbind⟩ := fill_pyBind_ok asPos sig g.top hd hgiven hreq hpriv
  obtain ⟨_, hkeys, _⟩ := fill_ok asPos sig g.top vals hfill
  have hc : "config" ∉ vals.map (·.1) := hkeys ▸ names_of_noReserved sig hr _ "config" (by decide)
  have hs : "subcommand" ∉ vals.map (·.1) := hkeys ▸ names_of_noReserved sig hr _ "subcommand" (by decide)
  refine ⟨a, bind_of_fill_pyBind asPos sig g.top vals a hd hfill hbind, ?_⟩
  simp only [autoCli, parseComp, hcol, Bool.false_eq_true, if_false, hfill, Bool.true_or, if_true]
  rw [runComponent_func, dropKey_append, dropKey_single_eq, List.nil_append, dropKey_top _ _ hc, dropKey_top _ _ hs,
    hbind]

/-- a parameter without default (and not `Optional`) that is not given: an error, never a call -/
theorem C12_required (body : Body) (asPos : Bool) (f : String) (sig : Sig) (g : Given) (p : Param)
    (hp : p ∈ sig) (hv : isVar p = false) (hnd : p.dflt = .none) (hno : p.optional = false)
    (hg : lookup p.name g.top = .none) :
    ∃ e, autoCli body asPos (.func f sig) g = .error e := by
  have hr : effDefault p = .none := by simp [effDefault, hnd, hno]
  obtain ⟨e, he⟩ := fill_required asPos sig g.top p hp hv hr hg
  simp only [autoCli, parseComp]
  split
  · exact ⟨_, rfl⟩
  · rename_i cfg hcfg
    exfalso
    split at hcfg
    · cases hcfg
    · rw [he] at hcfg
      cases hcfg

/-- such a parameter becomes a required argument of the parser: a positional one under `as_positional` -/
theorem C12_required_arg (asPos : Bool) (sig : Sig) (p : Param)
    (hp : p ∈ sig) (hv : isVar p = false) (hnd : p.dflt = .none) (hno : p.optional = false) :
    ⟨p.name, asPos, .none⟩ ∈ parserOfSig asPos sig := by
  have hr : effDefault p = .none := by simp [effDefault, hnd, hno]
  have hs : skipped p = false := by simp [skipped, hv, isRequired, hr]
  have : argOfParam asPos p = ⟨p.name, asPos, .none⟩ := by simp [argOfParam, isRequired, hr]
  rw [← this]
  exact List.mem_map.mpr ⟨p, List.mem_filter.mpr ⟨hp, by simp [hs]⟩, rfl⟩

/-- an `Optional` parameter without default is an OPTION whose default is `None` … -/
theorem C12_optional_none_arg (asPos : Bool) (sig : Sig) (p : Param)
    (hp : p ∈ sig) (hv : isVar p = false) (hnd : p.dflt = .none) (ho : p.optional = true)
    (hpr : isPrivate p.name = false) :
    ⟨p.name, false, some Val.none⟩ ∈ parserOfSig asPos sig := by
  have hr : effDefault p = some Val.none := by simp [effDefault, hnd, ho]
  have hs : skipped p = false := by simp [skipped, hv, hpr]
  have : argOfParam asPos p = ⟨p.name, false, some Val.none⟩ := by simp [argOfParam, isRequired, hr]
  rw [← this]
  exact List.mem_map.mpr ⟨p, List.mem_filter.mpr ⟨hp, by simp [hs]⟩, rfl⟩

/-- … and when it is not given the component is called with `None` for it -/
theorem C12_optional_none (body : Body) (asPos : Bool) (f : String) (sig : Sig) (g : Given) (r : Run) (p : Param)
    (hd : distinctNames sig = true) (hres : noReserved sig = true)
    (hp : p ∈ sig) (hv : isVar p = false) (hnd : p.dflt = .none) (ho : p.optional = true)
    (hg : lookup p.name g.top = .none)
    (h : autoCli body asPos (.func f sig) g = .ok r) :
    ∃ args, r.calls = [⟨.func f, args⟩] ∧ (p.name, Val.none) ∈ args := by
  obtain ⟨args, hb, hc, _⟩ := C12_binding body asPos f sig g r hd hres h
  refine ⟨args, hc, ?_⟩
  unfold Cli.bind at hb
  obtain ⟨b, hb1, hb2⟩ := mem_of_mapO _ _ _ hb p (List.mem_filter.mpr ⟨hp, by simp [hv]⟩)
  simp only [bindParam, hg, effDefault, hnd, ho, if_true, Option.map_some] at hb1
  cases hb1
  exact hb2

/-! ## values are bound verbatim (no file is read for them) -/

/-- where `enable_path` is not set the given values are untouched, whatever files exist -/
theorem C12_verbatim_values (fs : Val → Option Val) (ep : String → Bool) (given : KV)
    (h : ∀ e ∈ given, ep e.1 = false) : loadGiven fs ep given = given := by
  unfold loadGiven
  conv => rhs; rw [← List.map_id given]
  apply List.map_congr_left
  intro e he
  simp [h e he]

/-- VERBATIM: a function none of whose parameters is class-typed (or a callable returning a class) — in particular every
    string-accepting annotation: `str`, `Union[int, str]`, `Any`, `Union[str, List[str]]` — is called with `bind sig given`
    in EVERY file system: a value that happens to name an existing file is bound as the string it is, for required
    positionals, options and keyword-only parameters alike -/
theorem C12_verbatim (body : Body) (asPos : Bool) (f : String) (sig : Sig) (g : Given) (r : Run)
    (fs : Val → Option Val) (tcTop tcSub : String → TyClass)
    (hd : distinctNames sig = true) (hr : noReserved sig = true)
    (hplain : ∀ n, tcTop n = .fastPath ∨ tcTop n = .other)
    (h : autoCliFS body asPos (.func f sig) g fs tcTop tcSub = .ok r) :
    ∃ args, Cli.bind sig g.top = some args ∧ r.calls = [⟨.func f, args⟩] ∧ r.ret = body (.func f) args := by
  have hep : ∀ e ∈ g.top, (fun n => enablePath true (tcTop n)) e.1 = false := by
    intro e _
    rcases hplain e.1 with h1 | h1 <;> simp [h1, enablePath]
  unfold autoCliFS at h
  rw [C12_verbatim_values fs _ g.top hep] at h
  exact C12_binding body asPos f sig { g with sub := _ } r hd hr h

/-- … and the substitution CAN only happen where `enable_path` is set: for a class-typed parameter the value that names
    a file is replaced by the file's content (the documented way to give a class spec through a config file,
    `sub_configs=True`; the property's "value given … in the config" is then that content) -/
theorem C12_enable_path_witness :
    let fs : Val → Option Val := fun v => if v = .tok "spec.yaml" then some (.tok "{class_path: Sub}") else .none
    let sig : Sig := [⟨"model", .posOrKw, .none, false⟩, ⟨"name", .posOrKw, .none, false⟩]
    let given : KV := [("model", .tok "spec.yaml"), ("name", .tok "spec.yaml")]
    autoCliFS exBody' true (.func "f" sig) { top := given } fs
        (fun n => if n = "model" then .subclass else .other) (fun _ => .other)
      = .ok ⟨[⟨.func "f", [("model", .tok "{class_path: Sub}"), ("name", .tok "spec.yaml")]⟩], .tok "f"⟩ := by decide

/-! ## classes -/

/-- a class with methods: ONE construction with exactly the constructor's parameters bound from the values given for
    the constructor, then ONE call of the chosen method with exactly its own parameters bound from the values given for
    it; the result is the method's return value (`hmn`: no method is called `config` — `_run_component` pops that key, see
    `C12_other_findings_witness`) -/
theorem C12_class (body : Body) (asPos : Bool) (c : String) (init : Sig) (m0 : Method) (ms : List Method)
    (g : Given) (r : Run)
    (hd : distinctNames init = true) (hr : noReserved init = true)
    (hdm : ∀ md ∈ m0 :: ms, distinctNames md.sig = true) (hrm : ∀ md ∈ m0 :: ms, noConfigParam md.sig = true)
    (hmn : ∀ md ∈ m0 :: ms, md.name ≠ "config")
    (h : autoCli body asPos (.cls c init (m0 :: ms)) g = .ok r) :
    ∃ m md a1 a2, g.method = some m ∧ md ∈ m0 :: ms ∧ md.name = m
      ∧ Cli.bind init g.top = some a1 ∧ Cli.bind md.sig g.sub = some a2
      ∧ r.calls = [⟨.init c, a1⟩, ⟨.method c m, a2⟩] ∧ r.ret = body (.method c m) a2 := by
  simp only [autoCli] at h
  split at h
  · cases h
  · rename_i cfg hcfg
    exact run_cls body asPos true c init m0 ms g cfg r hd hr hdm hrm hmn hcfg h

/-- a class without public methods is run by constructing it once; `auto_cli` returns the instance -/
theorem C12_class_plain (body : Body) (asPos : Bool) (c : String) (init : Sig) (g : Given) (r : Run)
    (hd : distinctNames init = true) (hr : noReserved init = true)
    (h : autoCli body asPos (.cls c init []) g = .ok r) :
    ∃ args, Cli.bind init g.top = some args ∧ r.calls = [⟨.init c, args⟩] ∧ r.ret = body (.init c) args := by
  simp only [autoCli] at h
  split at h
  · cases h
  · rename_i cfg hcfg
    exact run_cls_plain body asPos true c init g cfg r hd hr hcfg h

/-- a constructor parameter without default that is not given, or a parameter of the chosen method without default
    that is not given: an error, never a construction or a call -/
theorem C12_class_required (body : Body) (asPos : Bool) (c : String) (init : Sig) (m0 : Method) (ms : List Method)
    (g : Given) (p : Param) (hv : isVar p = false) (hnd : p.dflt = .none) (hno : p.optional = false)
    (hp : (p ∈ init ∧ lookup p.name g.top = .none)
        ∨ (∃ md ∈ m0 :: ms, g.method = some md.name ∧ p ∈ md.sig ∧ lookup p.name g.sub = .none
            ∧ (m0 :: ms).find? (fun x => x.name == md.name) = some md)) :
    ∃ e, autoCli body asPos (.cls c init (m0 :: ms)) g = .error e := by
  have hr : effDefault p = .none := by simp [effDefault, hnd, hno]
  simp only [autoCli, parseComp]
  split
  · exact ⟨_, rfl⟩
  · rename_i cfg hcfg
    exfalso
    split at hcfg
    · cases hcfg
    split at hcfg
    · cases hcfg
    split at hcfg
    · cases hcfg
    split at hcfg
    · cases hcfg
    rename_i m hm
    split at hcfg
    · cases hcfg
    rename_i md hfind
    split at hcfg
    · cases hcfg
    rename_i vals hf
    rcases hp with ⟨hpi, hg⟩ | ⟨md', _, hm', hpm, hg, hfind'⟩
    · obtain ⟨e, he⟩ := fill_required asPos init g.top p hpi hv hr hg
      rw [he] at hf
      cases hf
    · rw [hm] at hm'
      cases hm'
      rw [hfind] at hfind'
      cases hfind'
      obtain ⟨e, he⟩ := fill_required asPos md.sig g.sub p hpm hv hr hg
      split at hcfg
      · cases hcfg
      · rw [he] at hcfg
        cases hcfg

/-! ## lists and nested dicts of components -/

/-- `auto_cli` with a dict (or list) of components runs exactly the component that the chain of subcommands selects, on
    exactly the namespace of that component's own parser — for every dict whose keys are the leaves of a nested dict -/
theorem C12_dispatch (body : Body) (asPos : Bool) (comps : Comps) (path : Key) (g : Given) (r : Run)
    (hwk : wellKeyed comps = true) (h : autoCliTree body asPos comps path g = .ok r) :
    ∃ comp c, lookupComp path comps = some comp ∧ parseComp asPos false comp g = .ok c
      ∧ runComponent body comp c = .ok r := by
  cases hp : parseTree asPos comps path g with
  | error e => simp [autoCliTree, hp] at h
  | ok cfg =>
    obtain ⟨comp, c, h1, h2, h3⟩ := dispatch body asPos comps path g cfg hwk hp
    exact ⟨comp, c, h1, h2, h3 ▸ h⟩

/-- a function in a dict / list: called exactly once with `bind sig given`, its value returned -/
theorem C12_tree_binding (body : Body) (asPos : Bool) (comps : Comps) (path : Key) (f : String) (sig : Sig)
    (g : Given) (r : Run) (hwk : wellKeyed comps = true) (hsel : lookupComp path comps = some (.func f sig))
    (hd : distinctNames sig = true) (hr : noReserved sig = true)
    (h : autoCliTree body asPos comps path g = .ok r) :
    ∃ args, Cli.bind sig g.top = some args ∧ r.calls = [⟨.func f, args⟩] ∧ r.ret = body (.func f) args := by
  obtain ⟨comp, c, h1, h2, h3⟩ := C12_dispatch body asPos comps path g r hwk h
  rw [hsel] at h1
  cases h1
  exact run_func body asPos false f sig g c r hd hr h2 h3

/-- a class with methods in a dict / list -/
theorem C12_tree_class (body : Body) (asPos : Bool) (comps : Comps) (path : Key) (c : String) (init : Sig)
    (m0 : Method) (ms : List Method) (g : Given) (r : Run)
    (hwk : wellKeyed comps = true) (hsel : lookupComp path comps = some (.cls c init (m0 :: ms)))
    (hd : distinctNames init = true) (hr : noReserved init = true)
    (hdm : ∀ md ∈ m0 :: ms, distinctNames md.sig = true) (hrm : ∀ md ∈ m0 :: ms, noConfigParam md.sig = true)
    (hmn : ∀ md ∈ m0 :: ms, md.name ≠ "config")
    (h : autoCliTree body asPos comps path g = .ok r) :
    ∃ m md a1 a2, g.method = some m ∧ md ∈ m0 :: ms ∧ md.name = m
      ∧ Cli.bind init g.top = some a1 ∧ Cli.bind md.sig g.sub = some a2
      ∧ r.calls = [⟨.init c, a1⟩, ⟨.method c m, a2⟩] ∧ r.ret = body (.method c m) a2 := by
  obtain ⟨comp, cfg, h1, h2, h3⟩ := C12_dispatch body asPos comps path g r hwk h
  rw [hsel] at h1
  cases h1
  exact run_cls body asPos false c init m0 ms g cfg r hd hr hdm hrm hmn h2 h3

/-! ## non-vacuity: a non-trivial signature meets the hypotheses and runs -/

def exBody : Body := fun t _ => match t with
  | .func f => .tok f
  | .init c => .tok c
  | .method _ m => .tok m

/-- `def f(a: int, b: str = "x", *, c: Optional[int], d: float = 1.5, _p: int = 7, **kw)` with `a=3 d=2.0` -/
def exSig : Sig :=
  [⟨"a", .posOrKw, .none, false⟩, ⟨"b", .posOrKw, some (.tok "x"), false⟩, ⟨"c", .kwOnly, .none, true⟩,
   ⟨"d", .kwOnly, some (.tok "1.5"), false⟩, ⟨"_p", .posOrKw, some (.tok "7"), false⟩, ⟨"kw", .varKw, .none, false⟩]

example : distinctNames exSig = true ∧ noReserved exSig = true
    ∧ parserOfSig true exSig = [⟨"a", true, .none⟩, ⟨"b", false, some (.tok "x")⟩, ⟨"c", false, some .none⟩,
                                 ⟨"d", false, some (.tok "1.5")⟩]
    ∧ autoCli exBody true (.func "f" exSig) { top := [("a", .tok "3"), ("d", .tok "2.0")] }
      = .ok ⟨[⟨.func "f", [("a", .tok "3"), ("b", .tok "x"), ("c", .none), ("d", .tok "2.0"), ("_p", .tok "7")]⟩], .tok "f"⟩
    ∧ autoCli exBody true (.func "f" exSig) { top := [("d", .tok "2.0")] } = .error .parse := by decide

/-- `class A: __init__(self, p: int, q: Optional[str], r: int = 3)`, `fit(self, x: int, y: int = 2)`, `stop(self)` -/
example :
    let init : Sig := [⟨"p", .posOrKw, .none, false⟩, ⟨"q", .posOrKw, .none, true⟩, ⟨"r", .posOrKw, some (.tok "3"), false⟩]
    let fit : Method := ⟨"fit", [⟨"x", .posOrKw, .none, false⟩, ⟨"y", .posOrKw, some (.tok "2"), false⟩]⟩
    let stop : Method := ⟨"stop", []⟩
    distinctNames init = true ∧ noReserved init = true ∧ noConfigParam fit.sig = true
    ∧ autoCli exBody true (.cls "A" init [fit, stop])
        { top := [("p", .tok "1")], method := some "fit", sub := [("x", .tok "5")], cfgTop := .tok "[cfg]" }
      = .ok ⟨[⟨.init "A", [("p", .tok "1"), ("q", .none), ("r", .tok "3")]⟩,
              ⟨.method "A" "fit", [("x", .tok "5"), ("y", .tok "2")]⟩], .tok "fit"⟩ := by decide

/-- `{"grp": {"one": h1, "cls": A}, "misc": h1}` run as `grp cls 1 fit 5` -/
example :
    let h1 : Comp := .func "h1" [⟨"x", .posOrKw, some (.tok "1"), false⟩]
    let a : Comp := .cls "A" [⟨"p", .posOrKw, .none, false⟩] [⟨"fit", [⟨"x", .posOrKw, .none, false⟩]⟩]
    let comps : Comps := [(["grp", "one"], h1), (["grp", "cls"], a), (["misc"], h1)]
    wellKeyed comps = true
    ∧ autoCliTree exBody true comps ["grp", "cls"] { top := [("p", .tok "1")], method := some "fit", sub := [("x", .tok "5")] }
      = .ok ⟨[⟨.init "A", [("p", .tok "1")]⟩, ⟨.method "A" "fit", [("x", .tok "5")]⟩], .tok "fit"⟩
    ∧ autoCliTree exBody true comps ["misc"] { top := [] } = .ok ⟨[⟨.func "h1", [("x", .tok "1")]⟩], .tok "h1"⟩ := by decide

/-! ## the full statement fails for the CLI's own names (open finding C12-reserved-names) -/

/-- `def g(subcommand: str = "dflt", x: int = 1)` run with `--subcommand=zz --x=2`: the parser accepts the value, and
    the callee is called with its DEFAULT … -/
theorem C12_reserved_subcommand_witness :
    let sig : Sig := [⟨"subcommand", .posOrKw, some (.tok "dflt"), false⟩, ⟨"x", .posOrKw, some (.tok "1"), false⟩]
    let given : KV := [("subcommand", .tok "zz"), ("x", .tok "2")]
    autoCli exBody true (.func "g" sig) { top := given }
      = .ok ⟨[⟨.func "g", [("subcommand", .tok "dflt"), ("x", .tok "2")]⟩], .tok "g"⟩
    ∧ Cli.bind sig given = some [("subcommand", .tok "zz"), ("x", .tok "2")] := by decide

/-- … so `C12_binding` without the guard is false -/
theorem C12_binding_needs_guard :
    ¬ (∀ (body : Body) (asPos : Bool) (f : String) (sig : Sig) (g : Given) (r : Run),
        distinctNames sig = true → autoCli body asPos (.func f sig) g = .ok r →
        ∃ args, Cli.bind sig g.top = some args ∧ r.calls = [⟨.func f, args⟩] ∧ r.ret = body (.func f) args) := by
  intro h
  obtain ⟨args, h1, h2, _⟩ := h exBody true "g"
    [⟨"subcommand", .posOrKw, some (.tok "dflt"), false⟩, ⟨"x", .posOrKw, some (.tok "1"), false⟩]
    { top := [("subcommand", .tok "zz"), ("x", .tok "2")] } _ (by decide) C12_reserved_subcommand_witness.1
  rw [C12_reserved_subcommand_witness.2] at h1
  cases h1
  revert h2
  decide

/-- a required parameter called `subcommand` is accepted by the parser and then missing in the call (`TypeError`) -/
theorem C12_reserved_subcommand_required_witness :
    autoCli exBody true (.func "g" [⟨"subcommand", .posOrKw, .none, false⟩]) { top := [("subcommand", .tok "3")] }
      = .error .typeError := by decide

/-- a parameter called `config` (or `help`, `print_config`) collides when the parser is built -/
theorem C12_reserved_config_witness :
    autoCli exBody true (.func "g" [⟨"config", .posOrKw, some (.tok "1"), false⟩]) { top := [] } = .error .construction
    ∧ autoCli exBody true (.func "g" [⟨"help", .posOrKw, some (.tok "1"), false⟩]) { top := [] } = .error .construction := by
  decide

/-- a METHOD parameter called `config` is offered (`--config` of the subparser is the parameter) and then popped:
    `A().m(config=5)` whatever was given -/
theorem C12_reserved_method_config_witness :
    autoCli exBody true (.cls "A" [] [⟨"m", [⟨"config", .posOrKw, some (.tok "5"), false⟩]⟩])
        { top := [], method := some "m", sub := [("config", .tok "3")] }
      = .ok ⟨[⟨.init "A", []⟩, ⟨.method "A" "m", [("config", .tok "5")]⟩], .tok "m"⟩ := by decide

/-- a chosen method whose name is also a constructor parameter: a parse error ("Expected the settings of subcommand … to be
    a mapping"); a method called `config` parses and is then run with its DEFAULTS whatever was given, because
    `_run_component` pops the key `config` — its whole sub-namespace — before the call; with a `--config` at that level it
    is a parse error (open finding C12-subcommand-name-is-parent-dest); a private `Optional` parameter without default is
    neither offered nor optional for Python (open finding C12-private-optional) -/
theorem C12_other_findings_witness :
    autoCli exBody true (.cls "B" [⟨"run", .posOrKw, some (.tok "1"), false⟩] [⟨"run", []⟩]) { top := [], method := some "run" }
      = .error .parse
    ∧ autoCli exBody true (.cls "K" [] [⟨"config", [⟨"x", .posOrKw, some (.tok "2"), false⟩]⟩, ⟨"other", []⟩])
        { top := [], method := some "config", sub := [("x", .tok "5")] }
      = .ok ⟨[⟨.init "K", []⟩, ⟨.method "K" "config", [("x", .tok "2")]⟩], .tok "config"⟩
    ∧ autoCli exBody true (.cls "K" [] [⟨"config", []⟩, ⟨"other", []⟩])
        { top := [], method := some "config", cfgTop := .tok "cfg" } = .error .parse
    ∧ autoCli exBody true (.func "f" [⟨"_x", .posOrKw, .none, true⟩]) { top := [] } = .error .typeError := by decide

/-! ## `set_defaults` and positional-only parameters -/

theorem overrideSig_names (sd : KV) (sig : Sig) : (overrideSig sd sig).map (·.name) = sig.map (·.name) := by
  simp only [overrideSig, List.map_map]
  apply List.map_congr_left
  intro p _
  simp only [Function.comp]
  split <;> rfl

theorem overrideSig_nil (sig : Sig) : overrideSig [] sig = sig := by
  induction sig with
  | nil => rfl
  | cons p r ih =>
    simp only [overrideSig, List.map_cons] at ih ⊢
    rw [ih]
    rfl

/-- `auto_cli(f, set_defaults=sd)`: exactly one call, every parameter bound to the value given, else to the value of
    `set_defaults`, else to the signature default (`bind` over the overridden signature); the call's value is returned -/
theorem C12_set_defaults_binding (body : Body) (asPos : Bool) (f : String) (sig : Sig) (sd : KV) (g : Given) (r : Run)
    (hd : distinctNames sig = true) (hr : noReserved sig = true)
    (h : autoCliX body asPos (.func f sig) { sdTop := sd } g = .ok r) :
    ∃ args, Cli.bind (overrideSig sd sig) g.top = some args ∧ r.calls = [⟨.func f, args⟩] ∧ r.ret = body (.func f) args := by
  have hd' : distinctNames (overrideSig sd sig) = true := by
    simpa [distinctNames, overrideSig_names] using hd
  have hr' : noReserved (overrideSig sd sig) = true := by
    have e : ∀ s : Sig, noReserved s = (s.map (·.name)).all (fun n => !reservedNames.contains n) := by
      intro s; simp [noReserved, List.all_map, Function.comp_def]
    rw [e, overrideSig_names, ← e]; exact hr
  simp only [autoCliX] at h
  split at h
  · cases h
  · split at h
    · cases h
    · rename_i r' hr''
      have hpo : poHit ([] : List String) sig = false := by simp [poHit]
      simp only [topSig, chosenSig, hpo, Bool.false_eq_true, if_false] at h
      cases h
      exact C12_binding body asPos f (overrideSig sd sig) g r hd' hr' (by simpa [overrideComp] using hr'')

/-- what the overridden default means for one parameter: the given value, else the `set_defaults` value -/
theorem C12_set_defaults_param (given : KV) (p : Param) (v : Val) :
    bindParam given { p with dflt := some v } = some (p.name, (lookup p.name given).getD v) := by
  simp only [bindParam, effDefault]
  cases lookup p.name given <;> rfl

theorem map_override_nil (m : Option String) (ms : List Method) :
    ms.map (fun md => if some md.name == m then ⟨md.name, overrideSig [] md.sig⟩ else md) = ms := by
  induction ms with
  | nil => rfl
  | cons md r ih =>
    rw [List.map_cons, ih, overrideSig_nil]
    split <;> rfl

/-- without `set_defaults` and without a positional-only parameter that has a parser argument, nothing changes: every
    theorem about `autoCli` is a theorem about `autoCliX` -/
theorem C12_ext_conservative (body : Body) (asPos : Bool) (comp : Comp) (po1 po2 : List String) (g : Given)
    (h1 : poHit po1 (topSig comp) = false) (h2 : poHit po2 (chosenSig comp g.method) = false) :
    autoCliX body asPos comp { poTop := po1, poSub := po2 } g = autoCli body asPos comp g := by
  have hc : overrideComp { poTop := po1, poSub := po2 } g.method comp = comp := by
    cases comp with
    | func f sig => simp [overrideComp, overrideSig_nil]
    | cls c init ms =>
      simp only [overrideComp]
      rw [map_override_nil, overrideSig_nil]
  simp only [autoCliX, sdKnown, List.all_nil, Bool.and_self, Bool.not_true, Bool.false_eq_true, if_false, hc, h1, h2]
  cases autoCli body asPos comp g <;> rfl

/-- FULL STATEMENT for signatures with positional-only parameters (false in the code and in the faithful model): the
    component is called with the parsed values.  OPEN FINDING C12-positional-only-typeerror, negation witness:
    `def f(a: int, /, b: int = 2)` with `a` given: the value is parsed and then handed over BY KEYWORD — Python refuses
    (TypeError), the function is never called; for a class whose method has a positional-only parameter the object is
    constructed and the method call fails -/
theorem C12_positional_only_witness :
    autoCliX exBody' true (.func "f" [⟨"a", .posOrKw, .none, false⟩, ⟨"b", .posOrKw, some (.tok "2"), false⟩])
        { poTop := ["a"] } { top := [("a", .tok "5")] } = .error .typeError
    ∧ autoCliX exBody' true (.cls "K" [⟨"p", .posOrKw, some (.tok "1"), false⟩] [⟨"run", [⟨"x", .posOrKw, .none, false⟩]⟩])
        { poSub := ["x"] } { top := [], method := some "run", sub := [("x", .tok "7")] }
      = .error (.typeErrorAfter ⟨.init "K", [("p", .tok "1")]⟩) := by decide

/-- non-vacuity: `set_defaults={"b": 9}` reaches the callee, a given value wins over it, a hidden positional-only
    parameter (private, with default: no parser argument) does no harm -/
example :
    autoCliX exBody' true (.func "g" [⟨"a", .posOrKw, .none, false⟩, ⟨"b", .posOrKw, some (.tok "2"), false⟩])
        { sdTop := [("b", .tok "9")] } { top := [("a", .tok "5")] }
      = .ok ⟨[⟨.func "g", [("a", .tok "5"), ("b", .tok "9")]⟩], .tok "g"⟩
    ∧ autoCliX exBody' true (.func "g" [⟨"a", .posOrKw, .none, false⟩, ⟨"b", .posOrKw, some (.tok "2"), false⟩])
        { sdTop := [("b", .tok "9"), ("a", .tok "4")] } { top := [("b", .tok "1")] }
      = .ok ⟨[⟨.func "g", [("a", .tok "4"), ("b", .tok "1")]⟩], .tok "g"⟩
    ∧ autoCliX exBody' true (.func "g" [⟨"_h", .posOrKw, some (.tok "0"), false⟩, ⟨"b", .posOrKw, some (.tok "2"), false⟩])
        { poTop := ["_h"] } { top := [] }
      = .ok ⟨[⟨.func "g", [("_h", .tok "0"), ("b", .tok "2")]⟩], .tok "g"⟩
    ∧ autoCliX exBody' true (.func "g" [⟨"b", .posOrKw, some (.tok "2"), false⟩]) { sdTop := [("zz", .tok "9")] } { top := [] }
      = .error .crash := by decide

/-! ## the dispatch theorem for component trees of any depth -/

/-- what `bind` returns, spelled out: one entry per named parameter of THIS signature, in signature order, each holding
    the value given for that very name, or — when none is given — the parameter's own default: nothing is dropped and
    nothing else gets in -/
theorem bind_exact_aux (given : KV) : ∀ (l : List Param) (r : KV), mapO (bindParam given) l = some r →
    r.map (·.1) = l.map (·.name)
    ∧ ∀ e ∈ r, lookup e.1 given = some e.2 ∨ (lookup e.1 given = .none ∧ ∃ p ∈ l, p.name = e.1 ∧ effDefault p = some e.2)
  | [], r, h => by
    simp only [mapO] at h
    cases h
    exact ⟨rfl, by intro e he; cases he⟩
  | p :: l, r, h => by
    simp only [mapO] at h
    split at h
    · cases h
    · rename_i b hb
      split at h
      · cases h
      · rename_i bs hbs
        cases h
        obtain ⟨ih1, ih2⟩ := bind_exact_aux given l bs hbs
        have hb' : b.1 = p.name ∧ (lookup b.1 given = some b.2 ∨ (lookup b.1 given = .none ∧ effDefault p = some b.2)) := by
          simp only [bindParam] at hb
          split at hb
          · rename_i v hv
            cases hb
            exact ⟨rfl, Or.inl hv⟩
          · rename_i hv
            cases hd : effDefault p with
            | none => simp [hd] at hb
            | some d =>
              simp only [hd, Option.map_some] at hb
              cases hb
              exact ⟨rfl, Or.inr ⟨hv, rfl⟩⟩
        refine ⟨by simp [hb'.1, ih1], ?_⟩
        intro e he
        rcases List.mem_cons.mp he with rfl | he
        · rcases hb'.2 with h1 | ⟨h1, h2⟩
          · exact Or.inl h1
          · exact Or.inr ⟨h1, p, List.mem_cons_self, hb'.1.symm, h2⟩
        · rcases ih2 e he with h1 | ⟨h1, q, hq, hq1, hq2⟩
          · exact Or.inl h1
          · exact Or.inr ⟨h1, q, List.mem_cons_of_mem _ hq, hq1, hq2⟩

theorem C12_bind_exact (sig : Sig) (given a : KV) (h : Cli.bind sig given = some a) :
    a.map (·.1) = (sig.filter (fun p => !isVar p)).map (·.name)
    ∧ ∀ e ∈ a, lookup e.1 given = some e.2 ∨ (lookup e.1 given = .none ∧ ∃ p ∈ sig, p.name = e.1 ∧ effDefault p = some e.2) := by
  obtain ⟨h1, h2⟩ := bind_exact_aux given _ a h
  refine ⟨h1, ?_⟩
  intro e he
  rcases h2 e he with h | ⟨h, p, hp, hp1, hp2⟩
  · exact Or.inl h
  · exact Or.inr ⟨h, p, (List.mem_filter.mp hp).1, hp1, hp2⟩

/-- the EXCLUDED classes, as one decidable predicate on the selected component: its own signature has distinct names and
    none of the CLI's own keys `config` / `subcommand` (open finding C12-reserved-names: `C12_binding_needs_guard`,
    `C12_reserved_*_witness`); for a class with methods, no method signature has a parameter `config` and no method is
    called `config` (open finding C12-subcommand-name-is-parent-dest: `C12_reserved_method_config_witness`,
    `C12_other_findings_witness`).  A constructor parameter named like the chosen method is a parse error in the model
    (`parseComp`), so no run exists for it.  Option names that are proper prefixes of two options of a parser above (open
    finding C12-prefix-of-parent-options) are argparse's abbreviation matching, outside this model. -/
def dispatchGuard : Comp → Bool
  | .func _ sig => distinctNames sig && noReserved sig
  | .cls _ init ms => distinctNames init && noReserved init
      && ms.all (fun md => distinctNames md.sig && noConfigParam md.sig && md.name != "config")

/-- exactly the calls of the selected component: a function once; a class without methods constructed once; a class with
    methods constructed once and THEN the chosen method called once — each with `bind` of ITS OWN signature over the values
    given for ITS OWN level (`g.top` for the function / constructor, `g.sub` for the method) — and the value of the
    innermost call returned -/
def ExactRun (body : Body) (g : Given) (r : Run) : Comp → Prop
  | .func f sig => ∃ a, Cli.bind sig g.top = some a ∧ r.calls = [⟨.func f, a⟩] ∧ r.ret = body (.func f) a
  | .cls c init [] => ∃ a, Cli.bind init g.top = some a ∧ r.calls = [⟨.init c, a⟩] ∧ r.ret = body (.init c) a
  | .cls c init (m0 :: ms) => ∃ m md a1 a2, g.method = some m ∧ md ∈ m0 :: ms ∧ md.name = m
      ∧ Cli.bind init g.top = some a1 ∧ Cli.bind md.sig g.sub = some a2
      ∧ r.calls = [⟨.init c, a1⟩, ⟨.method c m, a2⟩] ∧ r.ret = body (.method c m) a2

/-- DISPATCH, for a tree of components of ANY depth (the leaves of a nested dict / list addressed by key paths of any
    length; the inner levels are the subcommand parsers): `auto_cli` follows the chain of `subcommand` keys to exactly the
    component at the selected path and runs exactly that component (`ExactRun`): no sibling and no outer level is called,
    every call is made once, the constructor before the method, each with the parsed values of its own level
    (`C12_bind_exact`: one argument per own parameter, the given value or the own default), and the innermost call's
    value is what `auto_cli` returns.  By induction over the key path (`dispatch`: `resolve_chain`). -/
theorem C12_tree_dispatch (body : Body) (asPos : Bool) (comps : Comps) (path : Key) (g : Given) (r : Run)
    (hwk : wellKeyed comps = true) (h : autoCliTree body asPos comps path g = .ok r) :
    ∃ comp, lookupComp path comps = some comp ∧ (dispatchGuard comp = true → ExactRun body g r comp) := by
  obtain ⟨comp, cfg, h1, h2, h3⟩ := C12_dispatch body asPos comps path g r hwk h
  refine ⟨comp, h1, ?_⟩
  intro hg
  cases comp with
  | func f sig =>
    simp only [dispatchGuard, Bool.and_eq_true] at hg
    exact run_func body asPos false f sig g cfg r hg.1 hg.2 h2 h3
  | cls c init ms =>
    simp only [dispatchGuard, Bool.and_eq_true, List.all_eq_true] at hg
    cases ms with
    | nil => exact run_cls_plain body asPos false c init g cfg r hg.1.1 hg.1.2 h2 h3
    | cons m0 ms =>
      exact run_cls body asPos false c init m0 ms g cfg r hg.1.1 hg.1.2
        (fun md hmd => (hg.2 md hmd).1.1) (fun md hmd => (hg.2 md hmd).1.2)
        (fun md hmd => by simpa using (hg.2 md hmd).2) h2 h3

/-- the same for a single component at the root, with positional-only parameters and `set_defaults` absent
    (`C12_ext_conservative`) -/
theorem C12_root_dispatch (body : Body) (asPos : Bool) (comp : Comp) (po1 po2 : List String) (g : Given) (r : Run)
    (h1 : poHit po1 (topSig comp) = false) (h2 : poHit po2 (chosenSig comp g.method) = false)
    (hg : dispatchGuard comp = true)
    (h : autoCliX body asPos comp { poTop := po1, poSub := po2 } g = .ok r) : ExactRun body g r comp := by
  rw [C12_ext_conservative body asPos comp po1 po2 g h1 h2] at h
  cases comp with
  | func f sig =>
    simp only [dispatchGuard, Bool.and_eq_true] at hg
    exact C12_binding body asPos f sig g r hg.1 hg.2 h
  | cls c init ms =>
    simp only [dispatchGuard, Bool.and_eq_true, List.all_eq_true] at hg
    cases ms with
    | nil => exact C12_class_plain body asPos c init g r hg.1.1 hg.1.2 h
    | cons m0 ms =>
      exact C12_class body asPos c init m0 ms g r hg.1.1 hg.1.2
        (fun md hmd => (hg.2 md hmd).1.1) (fun md hmd => (hg.2 md hmd).1.2)
        (fun md hmd => by simpa using (hg.2 md hmd).2) h

/-- the excluded class is real: the witness of C12-reserved-names violates `dispatchGuard` (and `ExactRun`) -/
example : dispatchGuard (.func "g" [⟨"subcommand", .posOrKw, some (.tok "dflt"), false⟩, ⟨"x", .posOrKw, some (.tok "1"), false⟩]) = false
    ∧ dispatchGuard (.cls "K" [] [⟨"config", [⟨"x", .posOrKw, some (.tok "2"), false⟩]⟩, ⟨"other", []⟩]) = false := by decide

/-- non-vacuity on a tree of depth 3: `{"grp": {"sub": {"fit": f, "tool": T}, "other": h}, "top": h}` run as
    `grp sub tool --p=1 run 5`: `T` is constructed with its own `p`, then `T.run` is called with its own `x` (and default
    `y`); `f`, `h` are not called; the method's value is returned; the tree is well keyed and every component passes the guard -/
example :
    let f : Comp := .func "f" [⟨"p", .posOrKw, some (.tok "9"), false⟩, ⟨"x", .posOrKw, some (.tok "8"), false⟩]
    let h : Comp := .func "h" [⟨"x", .posOrKw, some (.tok "1"), false⟩]
    let t : Comp := .cls "T" [⟨"p", .posOrKw, .none, false⟩, ⟨"q", .kwOnly, some (.tok "0"), false⟩]
      [⟨"run", [⟨"x", .posOrKw, .none, false⟩, ⟨"y", .kwOnly, some (.tok "3"), false⟩]⟩, ⟨"stop", []⟩]
    let comps : Comps := [(["grp", "sub", "fit"], f), (["grp", "sub", "tool"], t), (["grp", "other"], h), (["top"], h)]
    wellKeyed comps = true ∧ comps.all (fun e => dispatchGuard e.2) = true
    ∧ autoCliTree exBody true comps ["grp", "sub", "tool"] { top := [("p", .tok "1")], method := some "run", sub := [("x", .tok "5")] }
      = .ok ⟨[⟨.init "T", [("p", .tok "1"), ("q", .tok "0")]⟩, ⟨.method "T" "run", [("x", .tok "5"), ("y", .tok "3")]⟩], .tok "run"⟩
    ∧ autoCliTree exBody true comps ["grp", "sub", "fit"] { top := [("x", .tok "2")] }
      = .ok ⟨[⟨.func "f", [("p", .tok "9"), ("x", .tok "2")]⟩], .tok "f"⟩ := by decide

end Jap.Props.C12

import Jap.Core.Namespace
import Jap.Gen.NsTables
import Jap.Gen.NsSrc
import Jap.Lemmas.NamespaceRun
import Jap.Lemmas.NamespaceSpec
import Jap.Lemmas.NamespaceDict
import Jap.Core.NamespaceMeta
import Jap.Lemmas.NamespaceMeta
import Jap.Lemmas.NamespaceEq
import Jap.Lemmas.NamespaceThru
import Jap.Lemmas.NamespaceOrder
import Jap.Lemmas.NamespaceKeys
import Jap.Lemmas.NamespaceInit
import Jap.Lemmas.NamespaceNat
/-!
# C11 — Namespace behaves as a nested mapping addressed by dotted keys

Model: `Jap.NS` (Core/Namespace.lean), a transcription of `_namespace.py`.
Specification: the nested dictionary with *plain* keys, operated by the one-pass
`setK`/`getK`/`delK` (Lemmas/Namespace.lean), whose dictionary laws are the
`C11_spec_*` theorems.  Abstraction: `absKV` forgets the clash marks.

FULL STATEMENT (what the property asks): for every operation sequence, the
stored namespace abstracts to the dictionary obtained by running the same
sequence on the specification, and every read agrees.

It is FALSE for the code (and the faithful model) when a key path runs through a
plain `dict` value held in the namespace: `C11_through_dict_counterexample`
below (open known finding C11-through-dict).  What is proved is the full
statement under exactly that guard (`noDict`, a decidable predicate on the
state and the key), for all clash tables, keys, values and sequence lengths.
-/
namespace Jap.Props.C11
open Jap.NS

/-! ## the specification is a nested dictionary -/

/-- read-your-write at any depth -/
theorem C11_spec_get_set_same (k : List SKey) (v : V) (d : KV) (hk : k ≠ []) :
    getK k (setK k v d) = some v := getK_setK_same k v d hk

/-- a write does not affect a key that branches off -/
theorem C11_spec_frame (c : List SKey) (a b : SKey) (p q : List SKey) (v : V) (d : KV) (h : a ≠ b) :
    getK (c ++ b :: q) (setK (c ++ a :: p) v d) = getK (c ++ b :: q) d :=
  getK_setK_diverge c a b p q v d h

/-- any sequence of assignments to `k` or to keys diverging from `k` leaves the LAST value written to `k` -/
theorem C11_spec_last_writer_wins (k : List SKey) (hk : k ≠ []) (as : List (List SKey × V)) (d : KV)
    (h : ∀ a ∈ as, a.1 = k ∨ Diverge a.1 k) :
    getK k (foldSet as d) = (lastWrite k as).or (getK k d) := fold_last k hk as d h

/-- after a delete the key is gone; deleting an absent key changes nothing -/
theorem C11_spec_delete (k : List SKey) (d : KV) (hu : uniqKV d) :
    getK k (delK k d) = .none ∧ (getK k d = .none → delK k d = d) :=
  ⟨getK_delK_same k d hu, delK_of_getK_none k d⟩

/-! ## the code refines the specification (every clash table, every key, every value) -/

/-- `ns[key] = v`: the stored namespace abstracts to the dictionary with `key ↦ v`; marks never leak -/
theorem C11_set_refines (clash : List String) (path : List String) (leaf : String) (item : V) (root : KV)
    (hc : canonKV clash root = true) (hv : canonV clash item = true)
    (hnd : noDict (path.map (mark clash)) (.ns root) = true) :
    absKV (setSegs (path.map (mark clash)) (mark clash leaf) item root)
      = setK ((path ++ [leaf]).map plain) (absV item) (absKV root)
    ∧ canonKV clash (setSegs (path.map (mark clash)) (mark clash leaf) item root) = true := by
  rw [setSegs_eq_setK _ _ _ _ hnd, ← map_append_mark]
  exact abs_setK clash item hv (path ++ [leaf]) root hc

/-- `ns[key]`: returns exactly what the dictionary holds, `KeyError` exactly when it holds nothing -/
theorem C11_get_refines (clash : List String) (path : List String) (leaf : String) (root : KV)
    (hc : canonKV clash root = true) (hnd : noDict (path.map (mark clash)) (.ns root) = true) :
    match getSegs (path.map (mark clash)) (mark clash leaf) root with
    | .ok v => getK ((path ++ [leaf]).map plain) (absKV root) = some (absV v)
    | .error e => e = .key ∧ getK ((path ++ [leaf]).map plain) (absKV root) = .none := by
  rw [getSegs_eq_getK _ _ _ hnd, abs_getK clash (path ++ [leaf]) root hc, map_append_mark]
  cases getK (path.map (mark clash) ++ [mark clash leaf]) root <;> simp

/-- `key in ns` is dictionary membership -/
theorem C11_contains_iff (clash : List String) (path : List String) (leaf : String) (root : KV)
    (hc : canonKV clash root = true) (hnd : noDict (path.map (mark clash)) (.ns root) = true) :
    containsSegs (path.map (mark clash)) (mark clash leaf) root
      = (getK ((path ++ [leaf]).map plain) (absKV root)).isSome := by
  have := C11_get_refines clash path leaf root hc hnd
  simp only [List.map_append, List.map_cons, List.map_nil] at this ⊢
  unfold containsSegs
  cases h : getSegs (path.map (mark clash)) (mark clash leaf) root with
  | ok v => simp only [h] at this; simp [this]
  | error e => simp only [h] at this; simp [this.2]

/-- `del ns[key]`: succeeds exactly when the key is present, and removes exactly that key -/
theorem C11_del_refines (clash : List String) (path : List String) (leaf : String) (root : KV)
    (hc : canonKV clash root = true) (hnd : noDict (path.map (mark clash)) (.ns root) = true) :
    match delSegs (path.map (mark clash)) (mark clash leaf) root with
    | .ok r' => absKV r' = delK ((path ++ [leaf]).map plain) (absKV root)
                ∧ (getK ((path ++ [leaf]).map plain) (absKV root)).isSome ∧ canonKV clash r' = true
    | .error _ => getK ((path ++ [leaf]).map plain) (absKV root) = .none := by
  obtain ⟨h1, h2⟩ := delSegs_spec _ (mark clash leaf) root hnd
  obtain ⟨a1, a2⟩ := abs_delK clash (path ++ [leaf]) root hc
  have hg := abs_getK clash (path ++ [leaf]) root hc
  rw [map_append_mark] at a1 a2 hg
  cases hd : delSegs (path.map (mark clash)) (mark clash leaf) root with
  | ok r' =>
    obtain ⟨e, hs⟩ := h1 r' hd
    subst e
    refine ⟨a1, ?_, a2⟩
    rw [hg]; cases hh : getK (path.map (mark clash) ++ [mark clash leaf]) root <;> simp [hh] at hs ⊢
  | error e =>
    have := h2 e hd
    simp only []
    rw [hg, this]; rfl

/-- `ns.pop(key, default)`: the dictionary's value or the default; the key is removed -/
theorem C11_pop_refines (clash : List String) (path : List String) (leaf : String) (dflt : V) (root : KV)
    (hc : canonKV clash root = true) (hnd : noDict (path.map (mark clash)) (.ns root) = true) :
    ∃ v r', popSegs (path.map (mark clash)) (mark clash leaf) dflt root = .ok (v, r')
      ∧ absKV r' = delK ((path ++ [leaf]).map plain) (absKV root)
      ∧ (getK ((path ++ [leaf]).map plain) (absKV root) = .none → v = dflt)
      ∧ (∀ w, getK (path.map (mark clash) ++ [mark clash leaf]) root = some w → v = w)
      ∧ canonKV clash r' = true := by
  obtain ⟨a1, a2⟩ := abs_delK clash (path ++ [leaf]) root hc
  have hg := abs_getK clash (path ++ [leaf]) root hc
  rw [map_append_mark] at a1 a2 hg
  refine ⟨_, _, popSegs_spec _ (mark clash leaf) dflt root hnd, a1, ?_, ?_, a2⟩
  · intro h
    rw [hg] at h
    cases hh : getK (path.map (mark clash) ++ [mark clash leaf]) root <;> simp [hh] at h ⊢
  · intro w hw
    simp [hw]

/-- every reachable state: any sequence of set / del / pop, of any length -/
theorem C11_refines (clash : List String) (ops : List Op) (root : KV)
    (hc : canonKV clash root = true) (hs : safe clash ops root = true) :
    absKV (runC clash ops root) = runS ops (absKV root) ∧ canonKV clash (runC clash ops root) = true :=
  run_refines clash ops root hc hs

/-- `ns.update(value, key, only_unset)` (a Namespace `value`) is the sequence of its leaf assignments, hence it
    refines the dictionary that assigns every leaf of `value` below `key` (only the absent ones when `only_unset`) -/
theorem C11_update_refines (clash : List String) (value : KV) (pre : List String) (onlyUnset : Bool) (root : KV)
    (hc : canonKV clash root = true)
    (hs : safe clash (updateOps onlyUnset pre (itemsSegs false value)) root = true) :
    absKV (updateSegs clash value pre onlyUnset root)
      = runS (updateOps onlyUnset pre (itemsSegs false value)) (absKV root)
    ∧ canonKV clash (updateSegs clash value pre onlyUnset root) = true := by
  rw [updateSegs_eq_runC]
  exact run_refines clash _ root hc hs

/-- names that coincide with Namespace's own method names are stored and returned like any other name -/
theorem C11_clash (clash : List String) (name : String) (v : V) (root : KV)
    (hc : canonKV clash root = true) :
    getSegs [] (mark clash name) (setSegs [] (mark clash name) v root) = .ok v
    ∧ lookup (plain name) (absKV (setSegs [] (mark clash name) v root)) = some (absV v) := by
  constructor
  · simp [getSegs, setSegs, walk, updateAt, unNs, lookup_insert_same]
  · simp only [setSegs, walk, updateAt, unNs]
    rw [abs_insert clash name v root hc]
    exact lookup_insert_same _ _ _

/-! iteration (`items`, hence `keys` and `values`, with or without branches) yields plain dotted keys and the
   abstracted values: it does not see the marks -/
mutual
theorem C11_items_plain (b : Bool) : ∀ kvs : KV,
    items b (absKV kvs) = (items b kvs).map (fun kv => (kv.1, absV kv.2))
  | [] => rfl
  | (k, .ns sub) :: r => by
    cases b <;>
    simp [absKV, absV, items, unmark, plain, C11_itemsPref_plain _ k.name sub, C11_items_plain _ r]
  | (k, .none) :: r => by simp [absKV, absV, items, unmark, plain, C11_items_plain b r]
  | (k, .atom _) :: r => by simp [absKV, absV, items, unmark, plain, C11_items_plain b r]
  | (k, .lst _) :: r => by simp [absKV, absV, items, unmark, plain, C11_items_plain b r]
  | (k, .tup _) :: r => by simp [absKV, absV, items, unmark, plain, C11_items_plain b r]
  | (k, .dct _) :: r => by simp [absKV, absV, items, unmark, plain, C11_items_plain b r]
theorem C11_itemsPref_plain (b : Bool) (pre : String) : ∀ kvs : KV,
    itemsPref pre b (absKV kvs) = (itemsPref pre b kvs).map (fun kv => (kv.1, absV kv.2))
  | [] => by simp [absKV, itemsPref]
  | (k, .ns sub) :: r => by
    cases b <;>
    simp [absKV, absV, itemsPref, unmark, plain, C11_itemsPref_plain _ (pre ++ "." ++ k.name) sub, C11_itemsPref_plain _ pre r]
  | (k, .none) :: r => by simp [absKV, absV, itemsPref, unmark, plain, C11_itemsPref_plain b pre r]
  | (k, .atom _) :: r => by simp [absKV, absV, itemsPref, unmark, plain, C11_itemsPref_plain b pre r]
  | (k, .lst _) :: r => by simp [absKV, absV, itemsPref, unmark, plain, C11_itemsPref_plain b pre r]
  | (k, .tup _) :: r => by simp [absKV, absV, itemsPref, unmark, plain, C11_itemsPref_plain b pre r]
  | (k, .dct _) :: r => by simp [absKV, absV, itemsPref, unmark, plain, C11_itemsPref_plain b pre r]
end

/-! `as_dict()` returns plain keys: it does not see the marks either -/
mutual
theorem C11_as_dict_plain : ∀ kvs : KV, asDict (absKV kvs) = asDict kvs
  | [] => rfl
  | (k, v) :: r => by
    simp only [absKV, asDict, unmark, plain, C11_as_dictV_plain v, C11_as_dict_plain r]
theorem C11_as_dictV_plain : ∀ v : V, asDictV (absV v) = asDictV v
  | .ns sub => by simp only [absV, asDictV, C11_as_dict_plain sub]
  | .none => rfl
  | .atom _ => rfl
  | .lst _ => rfl
  | .tup _ => rfl
  | .dct _ => rfl
end

/-- conversion from and to dictionaries: `dict_to_namespace(d).as_dict() == d` for every plain nested dictionary
    (string keys without ".", pairwise different at each level, lists holding no dictionaries), of any depth;
    the fuel of the model's `expand_dict` only has to exceed twice the nesting depth -/
theorem C11_dict_roundtrip (clash : List String) (n : Nat) (d : KV)
    (hp : plainKV d = true) (hn : nodupKV d) (hf : 2 * depthKV d + 2 ≤ n) :
    ∃ r, expandDict clash n d = .ok r ∧ asDict r = d :=
  (dict_roundtrip clash n).1 d hp hn hf

/-- … and a list that mixes dictionaries with other values does NOT come back (`as_dict` only converts lists made of
    namespaces): the hypothesis on lists is forced -/
theorem C11_dict_roundtrip_mixed_list_counterexample :
    (expandDict [] 4 [(plain "a", .lst [.dct [(plain "b", .atom 1)], .atom 2])]).map asDict
      = .ok [(plain "a", .lst [.ns [(plain "b", .atom 1)], .atom 2])] := by rfl

/-! ## equality and clone -/

/-- Python `==` is reflexive on every value whose mappings have pairwise different keys -/
theorem C11_eq_refl (v : V) (h : uniqAllV v) : veq v v = true := veq_refl v h

/-- every state reachable from the empty namespace by assignments (of values with unique keys), deletions, pops and
    `only_unset` assignments has unique keys at every depth — through dict values too — and so `ns.clone() == ns` -/
theorem C11_clone_eq (clash : List String) (ops : List Op) (h : ∀ o ∈ ops, opUniq o) :
    uniqAllKV (runC clash ops []) ∧
    veq (.ns (clone (runC clash ops []))) (.ns (runC clash ops [])) = true := by
  have hu : uniqAllKV (runC clash ops []) := uniqAllKV_run clash ops [] h (by simp [uniqAllKV])
  exact ⟨hu, veq_refl _ (by simpa [uniqAllV, clone] using hu)⟩

/-- the hypothesis is needed: with a repeated key (impossible in a Python dict) `==` as modelled is not reflexive -/
theorem C11_eq_refl_needs_unique_keys :
    veq (.dct [(plain "a", .atom 1), (plain "a", .atom 2)]) (.dct [(plain "a", .atom 1), (plain "a", .atom 2)]) = false := by
  simp [veq, kvSub, kvFind]

/-! ## keys / values / truthiness / as_flat agree with `items` -/

/-- `keys()` and `values()` are the two projections of `items()`, position by position -/
theorem C11_keys_values_items (b : Bool) (root : KV) :
    (keys b root).zip (values b root) = items b root ∧
    (keys b root).length = (items b root).length ∧ (values b root).length = (items b root).length :=
  ⟨keys_zip_values b root, keys_length b root, values_length b root⟩

/-- a falsy namespace has no items (the converse is false: a namespace holding only an empty branch is truthy) -/
theorem C11_bool_false_no_items (b : Bool) (root : KV) (h : nonEmpty root = false) : items b root = [] :=
  items_nil_of_not_nonEmpty b root h

example : nonEmpty [(plain "a", .ns [])] = true ∧ items false [(plain "a", .ns [])] = [] := by
  simp [nonEmpty, items, itemsPref]

/-- `as_flat()` holds one attribute per item key, each carrying a value `items()` yields for that key -/
theorem C11_as_flat_items (root : KV) :
    (∀ x ∈ asFlat root, x ∈ items false root) ∧
    (∀ x ∈ items false root, x.1 ∈ (asFlat root).map (·.1)) ∧
    ((asFlat root).map (·.1)).Nodup := by
  refine ⟨fun x hx => ?_, fun x hx => flatFold_keys _ [] hx, flatFold_nodup _ [] (by simp)⟩
  rcases flatFold_mem (items false root) [] hx with h | h
  · exact h
  · cases h

/-! ## strip_meta -/

/-- the result of `strip_meta` holds no meta key at any depth, for every meta-key table -/
theorem C11_strip_meta_free (m : List String) (root : KV) : metaFreeKV m (stripMeta m root) = true :=
  stripKV_metaFree m root

/-- `strip_meta` changes nothing when there is nothing to strip, hence is idempotent -/
theorem C11_strip_meta_id (m : List String) (root : KV) (h : metaFreeKV m root = true) : stripMeta m root = root :=
  stripKV_id m root h

theorem C11_strip_meta_idempotent (m : List String) (root : KV) :
    stripMeta m (stripMeta m root) = stripMeta m root :=
  C11_strip_meta_id m _ (C11_strip_meta_free m root)

/-- every other entry survives `strip_meta` (itself stripped), every meta entry is gone -/
theorem C11_strip_meta_lookup (m : List String) (k : SKey) (root : KV) :
    lookup k (stripMeta m root) = if isMetaName m k then none else (lookup k root).map (stripV m) := by
  unfold stripMeta
  cases hk : isMetaName m k
  · simpa using lookup_stripKV m k hk root
  · simpa using lookup_stripKV_meta m k hk root

/-! ## get_sorted_keys -/

/-- the returned keys are in order of non-increasing depth … -/
theorem C11_sorted_keys_sorted (m : List String) (b : Bool) (root : KV) :
    (getSortedKeys m b root).Pairwise (fun x y => depth x ≥ depth y) := getSortedKeys_sorted m b root

/-- … are exactly (as a multiset) the non-meta leaf keys, plus, with `branches`, parents appended behind them … -/
theorem C11_sorted_keys_perm (m : List String) (b : Bool) (root : KV) :
    (getSortedKeys m b root).Perm (unsortedKeys m b root) ∧
    ((keys false root).filter fun k => !isMetaKey m k) <+: unsortedKeys m true root ∧
    unsortedKeys m false root = (keys false root).filter fun k => !isMetaKey m k :=
  ⟨getSortedKeys_perm m b root, by simpa [unsortedKeys] using addParents_prefix _, rfl⟩

/-- … and keys of equal depth keep the order in which `items()` yields them (the sort is stable) -/
theorem C11_sorted_keys_stable (m : List String) (b : Bool) (root : KV) (x y : String)
    (hd : depth x ≥ depth y) (h : [x, y].Sublist (unsortedKeys m b root)) :
    [x, y].Sublist (getSortedKeys m b root) := getSortedKeys_stable m b root x y hd h

/-! executable test (not a theorem; `String.splitOn` does not reduce in the kernel): the regenerated meta-key table
    filters `a.__path__`, parents are appended, deeper keys come first -/
#guard getSortedKeys Jap.Gen.metaKeys true
    [(plain "a", .ns [(plain "b", .ns [(plain "c", .atom 1)]), (plain "__path__", .atom 2)]), (plain "d", .atom 3)]
    = ["a.b.c", "a.b", "d", "a"]

/-! ## non-vacuity: the hypotheses are met by non-trivial states, with the regenerated clash table -/

/-- `keys`, `items`, `get` … really are in the table regenerated from `dir(Namespace)` -/
example : ["items", "keys", "get", "update", "pop", "clone", "values", "as_dict"].all
    (Jap.Gen.clashNames.contains ·) = true := by decide

example :
    let clash := Jap.Gen.clashNames
    let root : KV := [(mark clash "a", .ns [(mark clash "keys", .atom 1)]), (mark clash "items", .lst [.atom 2])]
    canonKV clash root = true ∧
    safe clash [.set ["a", "get"] "pop" (.atom 3), .del ["a"] "keys", .pop [] "items", .setU ["a"] "x" (.atom 4)] root = true
    ∧ safe clash (updateOps true ["a"] (itemsSegs false [(mark clash "values", .ns [(mark clash "b", .atom 7)])])) root = true := by
  decide

example : plainKV [(plain "a", .dct [(plain "keys", .lst [.atom 1, .tup [.atom 2]]), (plain "b", .none)]), (plain "items", .atom 3)] = true
    ∧ 2 * depthKV [(plain "a", .dct [(plain "keys", .lst [.atom 1]), (plain "b", .none)]), (plain "items", .atom 3)] + 2 ≤ 64 := by decide


/-! ## key paths through dict values: the exact class on which the code leaves the nested dictionary

`noDict` ("no dict value lies on the key path") is sufficient for the refinement but not necessary: when the walk of
`_parse_key` fails below the dict, `__setitem__` replaces the dict by a namespace exactly as the nested dictionary
does, reads raise `KeyError`, `pop` returns the default.  The operations that really deviate are those of
`thruDict` / `devGet` / `devPop` (Lemmas/NamespaceThru.lean).  For every operation: outside its class the code refines
the specification (`*_refines_exact`, no other hypothesis on dicts), inside it does not (`*_deviates`, with what it
does instead).  These classes are the signature of the open finding C11-through-dict. -/

/-- `ns[key] = v` refines the nested dictionary on every state unless a dict lies on the path AND the walk gets
    through it -/
theorem C11_set_refines_exact (clash : List String) (path : List String) (leaf : String) (item : V) (root : KV)
    (hc : canonKV clash root = true) (hv : canonV clash item = true)
    (hd : thruDict (path.map (mark clash)) root = false) :
    absKV (setSegs (path.map (mark clash)) (mark clash leaf) item root)
      = setK ((path ++ [leaf]).map plain) (absV item) (absKV root)
    ∧ canonKV clash (setSegs (path.map (mark clash)) (mark clash leaf) item root) = true := by
  rw [setSegs_exact _ _ _ _ hd, ← map_append_mark]
  exact abs_setK clash item hv (path ++ [leaf]) root hc

/-- … and inside that class it never does: the code assigns in place below the dict (second component), so the dict
    is still on the path afterwards, whereas the nested dictionary has replaced it by a branch -/
theorem C11_set_deviates (clash : List String) (path : List String) (leaf : String) (item : V) (root : KV)
    (hc : canonKV clash root = true) (hv : canonV clash item = true)
    (hd : thruDict (path.map (mark clash)) root = true) :
    absKV (setSegs (path.map (mark clash)) (mark clash leaf) item root)
      ≠ setK ((path ++ [leaf]).map plain) (absV item) (absKV root)
    ∧ setSegs (path.map (mark clash)) (mark clash leaf) item root
      = unNs (updateAt (insert (mark clash leaf) item) (path.map (mark clash)) (.ns root)) root := by
  obtain ⟨h1, h2, h3⟩ := setSegs_dev _ (mark clash leaf) item root hd
  refine ⟨fun heq => ?_, h3⟩
  have hcan : canonKV clash (setSegs (path.map (mark clash)) (mark clash leaf) item root) = true := by
    rw [h3]; exact canon_setSegs_dev clash _ leaf item root hc hv
  obtain ⟨a1, a2⟩ := abs_setK clash item hv (path ++ [leaf]) root hc
  rw [map_append_mark] at a1 a2
  have n1 := noDict_abs clash path (.ns (setSegs (path.map (mark clash)) (mark clash leaf) item root))
    (by simpa [canonV] using hcan)
  have n2 := noDict_abs clash path (.ns (setK (path.map (mark clash) ++ [mark clash leaf]) item root))
    (by simpa [canonV] using a2)
  simp only [absV] at n1 n2
  rw [heq, ← a1, n2, h2, h1] at n1
  cases n1

/-- `ns[key]` reads the nested dictionary unless the walk passes a dict and ends in a namespace holding the leaf -/
theorem C11_get_refines_exact (clash : List String) (path : List String) (leaf : String) (root : KV)
    (hc : canonKV clash root = true) (hd : devGet (path.map (mark clash)) (mark clash leaf) root = false) :
    match getSegs (path.map (mark clash)) (mark clash leaf) root with
    | .ok v => getK ((path ++ [leaf]).map plain) (absKV root) = some (absV v)
    | .error e => e = .key ∧ getK ((path ++ [leaf]).map plain) (absKV root) = .none := by
  rw [getSegs_exact _ _ _ hd, abs_getK clash (path ++ [leaf]) root hc, map_append_mark]
  cases getK (path.map (mark clash) ++ [mark clash leaf]) root <;> simp

/-- … and there it returns a value (and `in` answers `True`) where the nested dictionary holds nothing -/
theorem C11_get_deviates (clash : List String) (path : List String) (leaf : String) (root : KV)
    (hc : canonKV clash root = true) (hd : devGet (path.map (mark clash)) (mark clash leaf) root = true) :
    (∃ v, getSegs (path.map (mark clash)) (mark clash leaf) root = .ok v)
    ∧ containsSegs (path.map (mark clash)) (mark clash leaf) root = true
    ∧ getK ((path ++ [leaf]).map plain) (absKV root) = .none := by
  obtain ⟨h1, h2⟩ := getSegs_dev _ _ _ hd
  refine ⟨h1, (containsSegs_dev _ _ _ hd).1, ?_⟩
  rw [abs_getK clash (path ++ [leaf]) root hc, map_append_mark, h2]; rfl

/-- `key in ns` is dictionary membership outside `devGet` -/
theorem C11_contains_exact (clash : List String) (path : List String) (leaf : String) (root : KV)
    (hc : canonKV clash root = true) (hd : devGet (path.map (mark clash)) (mark clash leaf) root = false) :
    containsSegs (path.map (mark clash)) (mark clash leaf) root
      = (getK ((path ++ [leaf]).map plain) (absKV root)).isSome := by
  rw [containsSegs_exact _ _ _ hd, abs_getK clash (path ++ [leaf]) root hc, map_append_mark]
  cases getK (path.map (mark clash) ++ [mark clash leaf]) root <;> rfl

/-- `del ns[key]` outside `devGet`: succeeds exactly when the key is present, and removes exactly that key -/
theorem C11_del_refines_exact (clash : List String) (path : List String) (leaf : String) (root : KV)
    (hc : canonKV clash root = true) (hd : devGet (path.map (mark clash)) (mark clash leaf) root = false) :
    match delSegs (path.map (mark clash)) (mark clash leaf) root with
    | .ok r' => absKV r' = delK ((path ++ [leaf]).map plain) (absKV root)
                ∧ (getK ((path ++ [leaf]).map plain) (absKV root)).isSome ∧ canonKV clash r' = true
    | .error _ => getK ((path ++ [leaf]).map plain) (absKV root) = .none := by
  obtain ⟨h1, h2⟩ := delSegs_exact _ (mark clash leaf) root hd
  obtain ⟨a1, a2⟩ := abs_delK clash (path ++ [leaf]) root hc
  have hg := abs_getK clash (path ++ [leaf]) root hc
  rw [map_append_mark] at a1 a2 hg
  cases hdl : delSegs (path.map (mark clash)) (mark clash leaf) root with
  | ok r' =>
    obtain ⟨e, hs⟩ := h1 r' hdl
    subst e
    refine ⟨a1, ?_, a2⟩
    rw [hg]; cases hh : getK (path.map (mark clash) ++ [mark clash leaf]) root <;> simp [hh] at hs ⊢
  | error e =>
    have := h2 e hdl
    simp only []
    rw [hg, this]; rfl

/-- … inside `devGet` it deletes something although the nested dictionary has no such key (it would raise) -/
theorem C11_del_deviates (clash : List String) (path : List String) (leaf : String) (root : KV)
    (hc : canonKV clash root = true) (hd : devGet (path.map (mark clash)) (mark clash leaf) root = true) :
    (∃ r', delSegs (path.map (mark clash)) (mark clash leaf) root = .ok r')
    ∧ getK ((path ++ [leaf]).map plain) (absKV root) = .none := by
  obtain ⟨h1, h2⟩ := delSegs_dev _ _ _ hd
  refine ⟨h1, ?_⟩
  rw [abs_getK clash (path ++ [leaf]) root hc, map_append_mark, h2]; rfl

/-- `ns.pop(key, default)` outside `devPop`: the dictionary's value or the default; the key is removed -/
theorem C11_pop_refines_exact (clash : List String) (path : List String) (leaf : String) (dflt : V) (root : KV)
    (hc : canonKV clash root = true) (hd : devPop (path.map (mark clash)) (mark clash leaf) root = false) :
    ∃ v r', popSegs (path.map (mark clash)) (mark clash leaf) dflt root = .ok (v, r')
      ∧ absKV r' = delK ((path ++ [leaf]).map plain) (absKV root)
      ∧ (getK ((path ++ [leaf]).map plain) (absKV root) = .none → v = dflt)
      ∧ (∀ w, getK (path.map (mark clash) ++ [mark clash leaf]) root = some w → v = w)
      ∧ canonKV clash r' = true := by
  obtain ⟨a1, a2⟩ := abs_delK clash (path ++ [leaf]) root hc
  have hg := abs_getK clash (path ++ [leaf]) root hc
  rw [map_append_mark] at a1 a2 hg
  refine ⟨_, _, popSegs_exact _ (mark clash leaf) dflt root hd, a1, ?_, ?_, a2⟩
  · intro h
    rw [hg] at h
    cases hh : getK (path.map (mark clash) ++ [mark clash leaf]) root <;> simp [hh] at h ⊢
  · intro w hw
    simp [hw]

/-- … inside `devPop` it returns a stored value, or raises `AttributeError` (non-empty dict parent), where the nested
    dictionary holds nothing under the key and returns the default -/
theorem C11_pop_deviates (clash : List String) (path : List String) (leaf : String) (dflt : V) (root : KV)
    (hc : canonKV clash root = true) (hd : devPop (path.map (mark clash)) (mark clash leaf) root = true) :
    getK ((path ++ [leaf]).map plain) (absKV root) = .none ∧
    ((∃ kvs v, walk (path.map (mark clash)) (.ns root) = some (.ns kvs) ∧ lookup (mark clash leaf) kvs = some v ∧
        popSegs (path.map (mark clash)) (mark clash leaf) dflt root
          = .ok (v, unNs (updateAt (erase (mark clash leaf)) (path.map (mark clash)) (.ns root)) root))
     ∨ popSegs (path.map (mark clash)) (mark clash leaf) dflt root = .error .attr) := by
  obtain ⟨h1, h2⟩ := popSegs_dev _ _ dflt _ hd
  refine ⟨?_, h2⟩
  rw [abs_getK clash (path ++ [leaf]) root hc, map_append_mark, h1]; rfl

/-- every history none of whose operations lies in its deviating class — dicts may lie on the key paths — refines
    the nested dictionary; `C11_refines` is the special case `safe → safeX` -/
theorem C11_refines_exact (clash : List String) (ops : List Op) (root : KV)
    (hc : canonKV clash root = true) (hs : safeX clash ops root = true) :
    absKV (runC clash ops root) = runS ops (absKV root) ∧ canonKV clash (runC clash ops root) = true :=
  run_refines_exact clash ops root hc hs

theorem C11_safe_implies_exact (clash : List String) (ops : List Op) (root : KV) (h : safe clash ops root = true) :
    safeX clash ops root = true := safeX_of_safe clash ops root h

/-- `update` under the exact guard -/
theorem C11_update_refines_exact (clash : List String) (value : KV) (pre : List String) (onlyUnset : Bool) (root : KV)
    (hc : canonKV clash root = true)
    (hs : safeX clash (updateOps onlyUnset pre (itemsSegs false value)) root = true) :
    absKV (updateSegs clash value pre onlyUnset root)
      = runS (updateOps onlyUnset pre (itemsSegs false value)) (absKV root)
    ∧ canonKV clash (updateSegs clash value pre onlyUnset root) = true := by
  rw [updateSegs_eq_runC]
  exact run_refines_exact clash _ root hc hs

/-! non-vacuity: with `a = {'b': {}, 'n': Namespace(x=1), 'd': {'y': 2}}` stored in the namespace,
    `a.b.c.z` (walk fails below the dict) is NOT deviating although a dict lies on the path — the exact guard is
    strictly weaker than `noDict` —, `a.b.z` is (`thruDict`), `a.n.x` is (`devGet`), `a.d.y` is for `pop` only -/
example :
    let clash := Jap.Gen.clashNames
    let root : KV := [(mark clash "a", .dct [(plain "b", .dct []), (plain "n", .ns [(plain "x", .atom 1)]),
                                              (plain "d", .dct [(plain "y", .atom 2)])])]
    canonKV clash root = true
    ∧ noDict (["a", "b", "c"].map (mark clash)) (.ns root) = false
    ∧ thruDict (["a", "b", "c"].map (mark clash)) root = false
    ∧ thruDict (["a", "b"].map (mark clash)) root = true
    ∧ devGet (["a", "n"].map (mark clash)) (mark clash "x") root = true
    ∧ devGet (["a", "d"].map (mark clash)) (mark clash "y") root = false
    ∧ devPop (["a", "d"].map (mark clash)) (mark clash "y") root = true
    ∧ devPop (["a", "b"].map (mark clash)) (mark clash "y") root = false
    ∧ safe clash [.set ["a", "b", "c"] "z" (.atom 3), .pop ["a", "b"] "y", .del ["a", "d"] "y"] root = false
    ∧ safeX clash [.set ["a", "b", "c"] "z" (.atom 3), .pop ["a", "b"] "y", .del ["a", "d"] "y"] root = true := by
  decide


/-! ## insertion order (every level of a namespace is a Python dict) -/

/-- `ns[key] = v` on EVERY state, through dict values too: the top-level names keep their order; the root of the key is
    appended when it is new.  The level below is again such an assignment (`setK`), so the statement holds at every depth. -/
theorem C11_order_set (path : List SKey) (leaf : SKey) (item : V) (root : KV) :
    keysOf (setSegs path leaf item root) =
      if (path ++ [leaf]).headD leaf ∈ keysOf root then keysOf root else keysOf root ++ [(path ++ [leaf]).headD leaf] :=
  keysOf_setSegs path leaf item root

/-- the specification: same law at every depth (the child of `s` after `setK (s :: t :: q)` is `setK (t :: q)` of the old child) -/
theorem C11_order_spec (s : SKey) (q : List SKey) (v : V) (d : KV) :
    keysOf (setK (s :: q) v d) = (if s ∈ keysOf d then keysOf d else keysOf d ++ [s]) ∧
    keysOf (delK (s :: q) d) = (if q = [] then (keysOf d).erase s else keysOf d) :=
  ⟨keysOf_setK s q v d, keysOf_delK s q d⟩

example : keysOf (setSegs [plain "b"] (plain "x") (.atom 1) [(plain "a", .atom 0), (plain "b", .atom 2), (plain "c", .none)])
    = [plain "a", plain "b", plain "c"] := by decide

/-! ## the key helpers: `split_key`, `split_key_root`, `split_key_leaf`, `".".join`, clash marks, `is_meta_key` -/

open Jap.NS.Keys in
/-- split and join are inverse: `".".join(split_key(k)) == k` for every string, and `split_key(".".join(segs)) == segs`
    for every non-empty list of dot-free segments; the segments of a split are dot-free -/
theorem C11_split_join (k : List Char) (segs : List (List Char)) :
    joinDot (splitDot k) = k ∧ (∀ x ∈ splitDot k, '.' ∉ x) ∧ splitDot k ≠ [] ∧
    (segs ≠ [] → (∀ x ∈ segs, '.' ∉ x) → splitDot (joinDot segs) = segs) :=
  ⟨join_split k, split_nodot k, splitDot_ne_nil k, split_join segs⟩

open Jap.NS.Keys in
/-- `split_key_root` / `split_key_leaf` agree with the full split: the root is its first segment and the remainder is
    the other segments joined again; the leaf is its last segment and the parent key the others joined again; both
    re-join to the key -/
theorem C11_split_root_leaf (k : List Char) :
    joinDot (splitRoot k) = k ∧ joinDot (splitLeaf k) = k ∧
    (∀ h t, splitDot k = h :: t →
      (rootPair k).1 = h ∧ (rootPair k).2 = (match t with | [] => none | _ :: _ => some (joinDot t))) ∧
    (∀ x, splitDot k = [x] → leafPair k = (none, x)) ∧
    (∀ a b t, splitDot k = a :: b :: t →
      leafPair k = (some (joinDot (a :: b :: t).dropLast), (a :: b :: t).getLastD [])) :=
  ⟨join_splitRoot k, join_splitLeaf k, root_agrees k, (leaf_agrees k).1, (leaf_agrees k).2⟩

open Jap.NS.Keys in
/-- clash marks: `del_clash_mark(add_clash_mark(k)) == k` (non-empty `k` not beginning with the mark), the mark is
    added at most once, names outside the table are stored as they are; `is_meta_key` looks at the last segment -/
theorem C11_clash_mark_algebra (clash : List (List Char)) (c : Char) (r k : List Char) (m : List (List Char)) :
    (c ≠ markC → delMark (addMark clash (c :: r)) = some (c :: r)) ∧
    ((∀ n ∈ clash, n.head? ≠ some markC) → addMark clash (addMark clash k) = addMark clash k) ∧
    (clash.contains k = false → addMark clash k = k) ∧
    isMetaKeyC m k = m.contains ((splitDot k).getLastD []) :=
  ⟨delMark_addMark clash c r, addMark_idem clash k, addMark_other clash k, isMetaKeyC_last m k⟩

/-- the hypothesis of idempotence holds for the table regenerated from `dir(Namespace)`: no clash name begins with
    the mark (hence `Namespace(ns)` may re-assign stored names as they are) -/
theorem C11_clash_names_unmarked :
    Jap.Gen.clashNames.all (fun n => n.toList.head? != some Jap.NS.Keys.markC) = true := by decide

example : Jap.NS.Keys.splitDot "a..b.".toList = ["a".toList, [], "b".toList, []]
    ∧ Jap.NS.Keys.splitRoot "a.b.c".toList = ["a".toList, "b.c".toList]
    ∧ Jap.NS.Keys.splitLeaf "a.b.c".toList = ["a.b".toList, "c".toList]
    ∧ Jap.NS.Keys.splitLeaf "abc".toList = ["abc".toList] := by decide

/-! ## the other forms of `__init__` -/

/-- `Namespace(ns)` holds the entries of `ns` in the same order (`vars(ns)` has pairwise different names) -/
theorem C11_init_from_namespace (kvs : KV) (h : (keysOf kvs).Nodup) : fromNs kvs = kvs := fromNs_id kvs h

example : fromNs [(⟨true, "keys"⟩, .atom 1), (plain "a", .ns [(plain "b", .none)])]
    = [(⟨true, "keys"⟩, .atom 1), (plain "a", .ns [(plain "b", .none)])] := by rfl


/-! ## type-exactness: the operations are natural in the atoms

On the wire (and in the correspondence) an atom carries its Python type: ints ≥ 1000 stand for `False`, `True`, `0.0`,
`1.0`, `"0"`, `""`, `2.0`, all others for themselves.  The theorems say that relabelling every atom by an ARBITRARY
`f : Int → Int` commutes with every operation, for all states, keys and histories: no operation inspects, compares or
converts a leaf.  Taking `f` non-injective (e.g. identifying `True` with `1`) shows that an `==` shortcut anywhere in
set / get / del / pop / update — the round-5 seeds — is impossible in the model; the correspondence transports that to
the code. -/

/-- every history: relabel-then-run = run-then-relabel -/
theorem C11_type_exact (f : Int → Int) (clash : List String) (ops : List Op) (root : KV) :
    runC clash (ops.map (mapOp f)) (mapKV f root) = mapKV f (runC clash ops root) := runC_map f clash ops root

/-- reads return the very atom that is stored: relabelled state, relabelled result, same errors -/
theorem C11_type_exact_get (f : Int → Int) (path : List SKey) (leaf : SKey) (dflt : V) (root : KV) :
    getSegs path leaf (mapKV f root) = (getSegs path leaf root).map (mapV f)
    ∧ containsSegs path leaf (mapKV f root) = containsSegs path leaf root
    ∧ popSegs path leaf (mapV f dflt) (mapKV f root)
        = (popSegs path leaf dflt root).map (fun x => (mapV f x.1, mapKV f x.2)) :=
  ⟨getSegs_map f path leaf root, containsSegs_map f path leaf root, popSegs_map f path leaf dflt root⟩

/-- `update(<Namespace>, key, only_unset)` never compares the value it writes with the value that is there -/
theorem C11_type_exact_update (f : Int → Int) (clash : List String) (value : KV) (pre : List String) (onlyUnset : Bool)
    (root : KV) :
    updateSegs clash (mapKV f value) pre onlyUnset (mapKV f root)
      = mapKV f (updateSegs clash value pre onlyUnset root) := updateSegs_map f clash value pre onlyUnset root

/-- non-vacuity, and the shape of seed C11-5A: `a = 1` then `update(Namespace(a=True))` (1001 on the wire) holds `True`;
    a model that skipped the write because `True == 1` would violate `C11_type_exact_update` for `f = (· % 1000)` -/
example : updateSegs [] [(plain "a", .atom 1001)] [] false [(plain "a", .atom 1)] = [(plain "a", .atom 1001)]
    ∧ mapKV (· % 1000) [(plain "a", .atom 1001)] = [(plain "a", .atom 1)] := by
  constructor <;> rfl

/-! ## the full statement fails through dict values (open finding C11-through-dict) -/

/-- `ns['a'] = {}; ns['a.keys'] = 5` writes the marked name into the caller's dict … -/
theorem C11_through_dict_counterexample :
    setSegs [mark ["keys"] "a"] (mark ["keys"] "keys") (.atom 5) [(mark ["keys"] "a", .dct [])]
      = [(⟨false, "a"⟩, .dct [(⟨true, "keys"⟩, .atom 5)])] := by rfl

/-- … whereas the nested dictionary replaces the leaf by a branch holding the plain key -/
theorem C11_through_dict_spec :
    setK [plain "a", plain "keys"] (.atom 5) [(plain "a", .dct [])]
      = [(plain "a", .ns [(plain "keys", .atom 5)])] := by rfl

/-! ## ties: the statements the model was transcribed from

`Jap.Gen.NsSrc` is regenerated from /repo's `jsonargparse/_namespace.py` on every run (harness/extractors/ns_src.py:
one string per statement, docstrings dropped, `raise X(message)` normalised to `raise X`).  Each theorem states the
text the model was written against; an edit of any of these statements makes the theorem fail, i.e. breaks the tie and
triggers the boosted failing-input search.  `tie_surface` pins the classified public surface: a new function of the
module or a new attribute of `Namespace` is reported by the extractor (neither modelled nor on the not-modelled list). -/

/-- `split_key` (Keys.splitDot / String.splitOn) -/
theorem tie_src_splitKey : Jap.Gen.NsSrc.splitKey = [
  "def split_key(key: str):",
  "  return key.split('.')"] := rfl

/-- `split_key_root` (Keys.splitRoot) -/
theorem tie_src_splitKeyRoot : Jap.Gen.NsSrc.splitKeyRoot = [
  "def split_key_root(key: str):",
  "  return key.split('.', 1)"] := rfl

/-- `split_key_leaf` (Keys.splitLeaf) -/
theorem tie_src_splitKeyLeaf : Jap.Gen.NsSrc.splitKeyLeaf = [
  "def split_key_leaf(key: str):",
  "  return key.rsplit('.', 1)"] := rfl

/-- `is_meta_key` (isMetaKey / Keys.isMetaKeyC) -/
theorem tie_src_isMetaKey : Jap.Gen.NsSrc.isMetaKey = [
  "def is_meta_key(key: str):",
  "  leaf_key = split_key_leaf(key)[-1]",
  "  return leaf_key in meta_keys"] := rfl

/-- `strip_meta` (stripMeta) -/
theorem tie_src_stripMeta : Jap.Gen.NsSrc.stripMeta = [
  "def strip_meta(cfg):",
  "  return recreate_branches(cfg, skip_keys=meta_keys)"] := rfl

/-- `recreate_branches` (stripV/stripKV/stripL (skip_keys) and clone (no skip_keys)) -/
theorem tie_src_recreateBranches : Jap.Gen.NsSrc.recreateBranches = [
  "def recreate_branches(data, skip_keys=None):",
  "  new_data = data",
  "  if isinstance(data, (Namespace, dict)) and (not isinstance(data, OrderedDict)):",
  "    new_data = type(data)()",
  "    for (key, val) in (vars(data) if isinstance(data, Namespace) else data).items():",
  "      if skip_keys is None or key not in skip_keys:",
  "        new_data[key] = recreate_branches(val, skip_keys)",
  "  else:",
  "    if isinstance(data, list):",
  "      new_data = [recreate_branches(v, skip_keys) for v in data]",
  "    else:",
  "      if type(data) is tuple:",
  "        new_data = tuple((recreate_branches(v, skip_keys) for v in data))",
  "  return new_data"] := rfl

/-- `patch_namespace` (context manager that swaps argparse.Namespace) -/
theorem tie_src_patchNamespace : Jap.Gen.NsSrc.patchNamespace = [
  "@contextmanager",
  "def patch_namespace():",
  "  namespace_class = argparse.Namespace",
  "  argparse.Namespace = Namespace",
  "  try:",
  "    yield",
  "  finally:",
  "    argparse.Namespace = namespace_class"] := rfl

/-- `Namespace.__init__` (fromDict / fromNs / initKwargs) -/
theorem tie_src_nsDunderInit : Jap.Gen.NsSrc.nsDunderInit = [
  "def __init__(self, *args, **kwargs):",
  "  if len(args) == 0:",
  "    super().__init__(**kwargs)",
  "  else:",
  "    if len(kwargs) != 0 or len(args) != 1 or (not isinstance(args[0], (argparse.Namespace, dict))):",
  "      raise ValueError",
  "    for (key, val) in args[0].items() if isinstance(args[0], dict) else vars(args[0]).items():",
  "      self[key] = val"] := rfl

/-- `Namespace._parse_key` (parseKey + walk) -/
theorem tie_src_nsPrivParseKey : Jap.Gen.NsSrc.nsPrivParseKey = [
  "def _parse_key(self, key: str):",
  "  if ' ' in key:",
  "    raise NSKeyError",
  "  key_split = split_key(key)",
  "  if any((k == '' for k in key_split)):",
  "    raise NSKeyError",
  "  key_split = [add_clash_mark(k) for k in key_split]",
  "  leaf_key = key_split[-1]",
  "  parent_ns: Namespace = self",
  "  parent_key = ''",
  "  if len(key_split) > 1:",
  "    parent_key = '.'.join(key_split[:-1])",
  "    for subkey in key_split[:-1]:",
  "      if hasattr(parent_ns, subkey) or (isinstance(parent_ns, dict) and subkey in parent_ns):",
  "        parent_ns = parent_ns[subkey]",
  "        if parent_ns is not None and (not isinstance(parent_ns, (Namespace, dict))):",
  "          return (leaf_key, None, parent_key)",
  "      else:",
  "        return (leaf_key, None, parent_key)",
  "  return (leaf_key, parent_ns, parent_key)"] := rfl

/-- `Namespace._parse_required_key` (getSegs (walk + lookup)) -/
theorem tie_src_nsPrivParseRequiredKey : Jap.Gen.NsSrc.nsPrivParseRequiredKey = [
  "def _parse_required_key(self, key: str):",
  "  leaf_key, parent_ns, parent_key = self._parse_key(key)",
  "  if parent_ns is None or not hasattr(parent_ns, leaf_key):",
  "    raise NSKeyError",
  "  return (leaf_key, parent_ns, parent_key)"] := rfl

/-- `Namespace._create_nested_namespace` (createNested) -/
theorem tie_src_nsPrivCreateNestedNamespace : Jap.Gen.NsSrc.nsPrivCreateNestedNamespace = [
  "def _create_nested_namespace(self, key: str):",
  "  parent_ns = self",
  "  for key in split_key(key):",
  "    if not isinstance(getattr(parent_ns, key, None), Namespace):",
  "      setattr(parent_ns, key, Namespace())",
  "    parent_ns = getattr(parent_ns, key)",
  "  return parent_ns"] := rfl

/-- `Namespace.__setattr__` (setAttr) -/
theorem tie_src_nsDunderSetattr : Jap.Gen.NsSrc.nsDunderSetattr = [
  "def __setattr__(self, name: str, value: Any):",
  "  if '.' in name:",
  "    self.__setitem__(name, value)",
  "  else:",
  "    super().__setattr__(add_clash_mark(name), value)"] := rfl

/-- `Namespace.__setitem__` (setItem/setSegs) -/
theorem tie_src_nsDunderSetitem : Jap.Gen.NsSrc.nsDunderSetitem = [
  "def __setitem__(self, key: str, item: Any):",
  "  leaf_key, parent_ns, parent_key = self._parse_key(key)",
  "  if parent_ns is None:",
  "    parent_ns = self._create_nested_namespace(parent_key)",
  "  if isinstance(parent_ns, dict):",
  "    parent_ns[leaf_key] = item",
  "  else:",
  "    setattr(parent_ns, leaf_key, item)"] := rfl

/-- `Namespace.__getitem__` (getItem/getSegs) -/
theorem tie_src_nsDunderGetitem : Jap.Gen.NsSrc.nsDunderGetitem = [
  "def __getitem__(self, key: str):",
  "  leaf_key, parent_ns, _ = self._parse_required_key(key)",
  "  return getattr(parent_ns, leaf_key)"] := rfl

/-- `Namespace.__delitem__` (delItem/delSegs) -/
theorem tie_src_nsDunderDelitem : Jap.Gen.NsSrc.nsDunderDelitem = [
  "def __delitem__(self, key: str):",
  "  leaf_key, parent_ns, _ = self._parse_key(key)",
  "  del parent_ns.__dict__[leaf_key]"] := rfl

/-- `Namespace.__contains__` (contains/containsSegs (+ non-str keys in the driver)) -/
theorem tie_src_nsDunderContains : Jap.Gen.NsSrc.nsDunderContains = [
  "def __contains__(self, key: str):",
  "  if not isinstance(key, str):",
  "    return False",
  "  try:",
  "    leaf_key, parent_ns, _ = self._parse_required_key(key)",
  "  except KeyError:",
  "    return False",
  "  return leaf_key in parent_ns.__dict__"] := rfl

/-- `Namespace.__bool__` (nonEmpty) -/
theorem tie_src_nsDunderBool : Jap.Gen.NsSrc.nsDunderBool = [
  "def __bool__(self):",
  "  return bool(self.__dict__)"] := rfl

/-- `Namespace.as_dict` (asDict) -/
theorem tie_src_nsAsDict : Jap.Gen.NsSrc.nsAsDict = [
  "def as_dict(self):",
  "  dic = {}",
  "  for (key, val) in vars(self).items():",
  "    if isinstance(val, Namespace):",
  "      val = val.as_dict()",
  "    else:",
  "      if isinstance(val, dict) and val != {} and all((isinstance(v, Namespace) for v in val.values())):",
  "        val = {k: v.as_dict() for k, v in val.items()}",
  "      else:",
  "        if isinstance(val, list) and val != [] and all((isinstance(v, Namespace) for v in val)):",
  "          val = [v.as_dict() for v in val]",
  "    dic[del_clash_mark(key)] = val",
  "  return dic"] := rfl

/-- `Namespace.as_flat` (asFlat) -/
theorem tie_src_nsAsFlat : Jap.Gen.NsSrc.nsAsFlat = [
  "def as_flat(self):",
  "  flat = argparse.Namespace()",
  "  for (key, val) in self.items():",
  "    setattr(flat, key, val)",
  "  return flat"] := rfl

/-- `Namespace.items` (items/itemsSegs) -/
theorem tie_src_nsItems : Jap.Gen.NsSrc.nsItems = [
  "def items(self, branches: bool=False):",
  "  for (key, val) in vars(self).items():",
  "    key = del_clash_mark(key)",
  "    if isinstance(val, Namespace):",
  "      if branches:",
  "        yield (key, val)",
  "      for (subkey, subval) in val.items(branches):",
  "        yield (key + '.' + del_clash_mark(subkey), subval)",
  "    else:",
  "      yield (key, val)"] := rfl

/-- `Namespace.keys` (keys) -/
theorem tie_src_nsKeys : Jap.Gen.NsSrc.nsKeys = [
  "def keys(self, branches: bool=False):",
  "  for (key, _) in self.items(branches):",
  "    yield key"] := rfl

/-- `Namespace.values` (values) -/
theorem tie_src_nsValues : Jap.Gen.NsSrc.nsValues = [
  "def values(self, branches: bool=False):",
  "  for (_, val) in self.items(branches):",
  "    yield val"] := rfl

/-- `Namespace.get_sorted_keys` (getSortedKeys) -/
theorem tie_src_nsGetSortedKeys : Jap.Gen.NsSrc.nsGetSortedKeys = [
  "def get_sorted_keys(self, branches: bool=True, key_filter: Callable=is_meta_key):",
  "  keys = [k for k in self.keys() if not key_filter(k)]",
  "  if branches:",
  "    for key in [k for k in keys if '.' in k]:",
  "      key_split = split_key(key)",
  "      for num in range(len(key_split) - 1):",
  "        parent_key = '.'.join(key_split[:num + 1])",
  "        if parent_key not in keys:",
  "          keys.append(parent_key)",
  "  keys.sort(key=lambda x: -len(split_key(x)))",
  "  return keys"] := rfl

/-- `Namespace.clone` (clone) -/
theorem tie_src_nsClone : Jap.Gen.NsSrc.nsClone = [
  "def clone(self):",
  "  return recreate_branches(self)"] := rfl

/-- `Namespace.update` (update/update2/updateSegs) -/
theorem tie_src_nsUpdate : Jap.Gen.NsSrc.nsUpdate = [
  "def update(self, value: Union['Namespace', Any], key: Optional[str]=None, only_unset: bool=False):",
  "  if not isinstance(value, Namespace):",
  "    if not key:",
  "      raise NSKeyError",
  "    if not only_unset or key not in self:",
  "      self[key] = value",
  "  else:",
  "    prefix = key + '.' if key else ''",
  "    for (key, val) in value.items():",
  "      if not only_unset or prefix + key not in self:",
  "        self[prefix + key] = val",
  "  return self"] := rfl

/-- `Namespace.get` (get) -/
theorem tie_src_nsGet : Jap.Gen.NsSrc.nsGet = [
  "def get(self, key: str, default: Any=None):",
  "  try:",
  "    return self[key]",
  "  except (KeyError, TypeError):",
  "    return default"] := rfl

/-- `Namespace.get_value_and_parent` (valueAndParent) -/
theorem tie_src_nsGetValueAndParent : Jap.Gen.NsSrc.nsGetValueAndParent = [
  "def get_value_and_parent(self, key: str):",
  "  leaf_key, parent_ns, _ = self._parse_required_key(key)",
  "  return (parent_ns[leaf_key], parent_ns, leaf_key)"] := rfl

/-- `Namespace.pop` (pop/popSegs) -/
theorem tie_src_nsPop : Jap.Gen.NsSrc.nsPop = [
  "def pop(self, key: str, default: Any=None):",
  "  leaf_key, parent_ns, _ = self._parse_key(key)",
  "  if not parent_ns:",
  "    return default",
  "  return parent_ns.__dict__.pop(leaf_key, default)"] := rfl

/-- `add_clash_mark` (mark / Keys.addMark) -/
theorem tie_src_addClashMark : Jap.Gen.NsSrc.addClashMark = [
  "def add_clash_mark(key: str):",
  "  if key in clash_names:",
  "    key = clash_mark + key",
  "  return key"] := rfl

/-- `del_clash_mark` (unmark / Keys.delMark) -/
theorem tie_src_delClashMark : Jap.Gen.NsSrc.delClashMark = [
  "def del_clash_mark(key: str):",
  "  if key[0] == clash_mark:",
  "    key = key[1:]",
  "  return key"] := rfl

/-- `namespace_to_dict` (namespaceToDict) -/
theorem tie_src_namespaceToDict : Jap.Gen.NsSrc.namespaceToDict = [
  "def namespace_to_dict(namespace: Namespace):",
  "  return namespace.clone().as_dict()"] := rfl

/-- `expand_dict` (expandDict/expandVal) -/
theorem tie_src_expandDict : Jap.Gen.NsSrc.expandDict = [
  "def expand_dict(cfg):",
  "  for (k, v) in cfg.items():",
  "    if isinstance(v, dict) and all((isinstance(k, str) for k in v.keys())):",
  "      cfg[k] = expand_dict(v)",
  "    else:",
  "      if isinstance(v, list):",
  "        for (nn, vv) in enumerate(v):",
  "          if isinstance(vv, dict) and all((isinstance(k, str) for k in vv.keys())):",
  "            cfg[k][nn] = expand_dict(vv)",
  "  return Namespace(**cfg)"] := rfl

/-- `dict_to_namespace` (expandDict) -/
theorem tie_src_dictToNamespace : Jap.Gen.NsSrc.dictToNamespace = [
  "def dict_to_namespace(cfg_dict: Union[Dict[str, Any], Namespace]):",
  "  cfg_dict = recreate_branches(cfg_dict)",
  "  return expand_dict(cfg_dict)"] := rfl

/-- module constants and class headers -/
theorem tie_src_consts : Jap.Gen.NsSrc.consts = [
  "meta_keys = {'__default_config__', '__path__', '__orig__'}",
  "class NSKeyError(KeyError)",
  "class Namespace(argparse.Namespace)",
  "clash_names: Set[str] = set(dir(Namespace))",
  "clash_mark = '\\u200b'"] := rfl

/-- every function of the module is pinned above (`NSKeyError.__str__` is message formatting) -/
theorem tie_src_all_pinned : Jap.Gen.NsSrc.unpinnedFunctions = [] := rfl

/-- the classified public surface of `_namespace.py`: what the model covers, and what it deliberately does not -/
theorem tie_surface : Jap.Gen.NsSrc.surfaceModelled = ["NSKeyError", "Namespace", "Namespace.__bool__", "Namespace.__contains__", "Namespace.__delitem__", "Namespace.__eq__", "Namespace.__getitem__", "Namespace.__init__", "Namespace.__setattr__", "Namespace.__setitem__", "Namespace._create_nested_namespace", "Namespace._parse_key", "Namespace._parse_required_key", "Namespace.as_dict", "Namespace.as_flat", "Namespace.clone", "Namespace.get", "Namespace.get_sorted_keys", "Namespace.get_value_and_parent", "Namespace.items", "Namespace.keys", "Namespace.pop", "Namespace.update", "Namespace.values", "add_clash_mark", "clash_mark", "clash_names", "del_clash_mark", "dict_to_namespace", "expand_dict", "is_meta_key", "meta_keys", "namespace_to_dict", "recreate_branches", "split_key", "split_key_leaf", "split_key_root", "strip_meta"]
    ∧ Jap.Gen.NsSrc.surfaceNotModelled = ["Namespace.__hash__", "Namespace.__repr__", "Namespace._get_args", "Namespace._get_kwargs", "patch_namespace"] := ⟨rfl, rfl⟩

end Jap.Props.C11

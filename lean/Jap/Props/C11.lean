import Jap.Core.Namespace
import Jap.Gen.NsTables
namespace Jap.Props.C11
open Jap.NS
theorem placeholder : (1 : Nat) = 1 := rfl
end Jap.Props.C11

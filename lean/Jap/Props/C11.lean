import Jap.Core.Namespace
import Jap.Gen.NsTables
import Jap.Lemmas.NamespaceRun
import Jap.Lemmas.NamespaceSpec
import Jap.Lemmas.NamespaceDict
import Jap.Core.NamespaceMeta
import Jap.Lemmas.NamespaceMeta
import Jap.Lemmas.NamespaceEq
/-!
# C11 — Namespace behaves as a nested mapping addressed by dotted keys

Model: `Jap.NS` (Core/Namespace.lean), a transcription of `_namespace.py`.
Specification: the nested dictionary with *plain* keys, operated by the one-pass
`setK`/`getK`/`delK` (Lemmas/Namespace.lean), whose dictionary laws are the
`C11_spec_*` theorems.  Abstraction: `absKV` forgets the clash marks.

FULL STATEMENT (what the property asks): for every operation sequence, the
stored namespace abstracts to the dictionary obtained by running the same
sequence on the specification, and every read agrees.

It is FALSE for the code (and the faithful model) when a key path runs through a
plain `dict` value held in the namespace: `C11_through_dict_counterexample`
below (open known finding C11-through-dict).  What is proved is the full
statement under exactly that guard (`noDict`, a decidable predicate on the
state and the key), for all clash tables, keys, values and sequence lengths.
-/
namespace Jap.Props.C11
open Jap.NS

/-! ## the specification is a nested dictionary -/

/-- read-your-write at any depth -/
theorem C11_spec_get_set_same (k : List SKey) (v : V) (d : KV) (hk : k ≠ []) :
    getK k (setK k v d) = some v := getK_setK_same k v d hk

/-- a write does not affect a key that branches off -/
theorem C11_spec_frame (c : List SKey) (a b : SKey) (p q : List SKey) (v : V) (d : KV) (h : a ≠ b) :
    getK (c ++ b :: q) (setK (c ++ a :: p) v d) = getK (c ++ b :: q) d :=
  getK_setK_diverge c a b p q v d h

/-- any sequence of assignments to `k` or to keys diverging from `k` leaves the LAST value written to `k` -/
theorem C11_spec_last_writer_wins (k : List SKey) (hk : k ≠ []) (as : List (List SKey × V)) (d : KV)
    (h : ∀ a ∈ as, a.1 = k ∨ Diverge a.1 k) :
    getK k (foldSet as d) = (lastWrite k as).or (getK k d) := fold_last k hk as d h

/-- after a delete the key is gone; deleting an absent key changes nothing -/
theorem C11_spec_delete (k : List SKey) (d : KV) (hu : uniqKV d) :
    getK k (delK k d) = .none ∧ (getK k d = .none → delK k d = d) :=
  ⟨getK_delK_same k d hu, delK_of_getK_none k d⟩

/-! ## the code refines the specification (every clash table, every key, every value) -/

/-- `ns[key] = v`: the stored namespace abstracts to the dictionary with `key ↦ v`; marks never leak -/
theorem C11_set_refines (clash : List String) (path : List String) (leaf : String) (item : V) (root : KV)
    (hc : canonKV clash root = true) (hv : canonV clash item = true)
    (hnd : noDict (path.map (mark clash)) (.ns root) = true) :
    absKV (setSegs (path.map (mark clash)) (mark clash leaf) item root)
      = setK ((path ++ [leaf]).map plain) (absV item) (absKV root)
    ∧ canonKV clash (setSegs (path.map (mark clash)) (mark clash leaf) item root) = true := by
  rw [setSegs_eq_setK _ _ _ _ hnd, ← map_append_mark]
  exact abs_setK clash item hv (path ++ [leaf]) root hc

/-- `ns[key]`: returns exactly what the dictionary holds, `KeyError` exactly when it holds nothing -/
theorem C11_get_refines (clash : List String) (path : List String) (leaf : String) (root : KV)
    (hc : canonKV clash root = true) (hnd : noDict (path.map (mark clash)) (.ns root) = true) :
    match getSegs (path.map (mark clash)) (mark clash leaf) root with
    | .ok v => getK ((path ++ [leaf]).map plain) (absKV root) = some (absV v)
    | .error e => e = .key ∧ getK ((path ++ [leaf]).map plain) (absKV root) = .none := by
  rw [getSegs_eq_getK _ _ _ hnd, abs_getK clash (path ++ [leaf]) root hc, map_append_mark]
  cases getK (path.map (mark clash) ++ [mark clash leaf]) root <;> simp

/-- `key in ns` is dictionary membership -/
theorem C11_contains_iff (clash : List String) (path : List String) (leaf : String) (root : KV)
    (hc : canonKV clash root = true) (hnd : noDict (path.map (mark clash)) (.ns root) = true) :
    containsSegs (path.map (mark clash)) (mark clash leaf) root
      = (getK ((path ++ [leaf]).map plain) (absKV root)).isSome := by
  have := C11_get_refines clash path leaf root hc hnd
  simp only [List.map_append, List.map_cons, List.map_nil] at this ⊢
  unfold containsSegs
  cases h : getSegs (path.map (mark clash)) (mark clash leaf) root with
  | ok v => simp only [h] at this; simp [this]
  | error e => simp only [h] at this; simp [this.2]

/-- `del ns[key]`: succeeds exactly when the key is present, and removes exactly that key -/
theorem C11_del_refines (clash : List String) (path : List String) (leaf : String) (root : KV)
    (hc : canonKV clash root = true) (hnd : noDict (path.map (mark clash)) (.ns root) = true) :
    match delSegs (path.map (mark clash)) (mark clash leaf) root with
    | .ok r' => absKV r' = delK ((path ++ [leaf]).map plain) (absKV root)
                ∧ (getK ((path ++ [leaf]).map plain) (absKV root)).isSome ∧ canonKV clash r' = true
    | .error _ => getK ((path ++ [leaf]).map plain) (absKV root) = .none := by
  obtain ⟨h1, h2⟩ := delSegs_spec _ (mark clash leaf) root hnd
  obtain ⟨a1, a2⟩ := abs_delK clash (path ++ [leaf]) root hc
  have hg := abs_getK clash (path ++ [leaf]) root hc
  rw [map_append_mark] at a1 a2 hg
  cases hd : delSegs (path.map (mark clash)) (mark clash leaf) root with
  | ok r' =>
    obtain ⟨e, hs⟩ := h1 r' hd
    subst e
    refine ⟨a1, ?_, a2⟩
    rw [hg]; cases hh : getK (path.map (mark clash) ++ [mark clash leaf]) root <;> simp [hh] at hs ⊢
  | error e =>
    have := h2 e hd
    simp only []
    rw [hg, this]; rfl

/-- `ns.pop(key, default)`: the dictionary's value or the default; the key is removed -/
theorem C11_pop_refines (clash : List String) (path : List String) (leaf : String) (dflt : V) (root : KV)
    (hc : canonKV clash root = true) (hnd : noDict (path.map (mark clash)) (.ns root) = true) :
    ∃ v r', popSegs (path.map (mark clash)) (mark clash leaf) dflt root = .ok (v, r')
      ∧ absKV r' = delK ((path ++ [leaf]).map plain) (absKV root)
      ∧ (getK ((path ++ [leaf]).map plain) (absKV root) = .none → v = dflt)
      ∧ (∀ w, getK (path.map (mark clash) ++ [mark clash leaf]) root = some w → v = w)
      ∧ canonKV clash r' = true := by
  obtain ⟨a1, a2⟩ := abs_delK clash (path ++ [leaf]) root hc
  have hg := abs_getK clash (path ++ [leaf]) root hc
  rw [map_append_mark] at a1 a2 hg
  refine ⟨_, _, popSegs_spec _ (mark clash leaf) dflt root hnd, a1, ?_, ?_, a2⟩
  · intro h
    rw [hg] at h
    cases hh : getK (path.map (mark clash) ++ [mark clash leaf]) root <;> simp [hh] at h ⊢
  · intro w hw
    simp [hw]

/-- every reachable state: any sequence of set / del / pop, of any length -/
theorem C11_refines (clash : List String) (ops : List Op) (root : KV)
    (hc : canonKV clash root = true) (hs : safe clash ops root = true) :
    absKV (runC clash ops root) = runS ops (absKV root) ∧ canonKV clash (runC clash ops root) = true :=
  run_refines clash ops root hc hs

/-- `ns.update(value, key, only_unset)` (a Namespace `value`) is the sequence of its leaf assignments, hence it
    refines the dictionary that assigns every leaf of `value` below `key` (only the absent ones when `only_unset`) -/
theorem C11_update_refines (clash : List String) (value : KV) (pre : List String) (onlyUnset : Bool) (root : KV)
    (hc : canonKV clash root = true)
    (hs : safe clash (updateOps onlyUnset pre (itemsSegs false value)) root = true) :
    absKV (updateSegs clash value pre onlyUnset root)
      = runS (updateOps onlyUnset pre (itemsSegs false value)) (absKV root)
    ∧ canonKV clash (updateSegs clash value pre onlyUnset root) = true := by
  rw [updateSegs_eq_runC]
  exact run_refines clash _ root hc hs

/-- names that coincide with Namespace's own method names are stored and returned like any other name -/
theorem C11_clash (clash : List String) (name : String) (v : V) (root : KV)
    (hc : canonKV clash root = true) :
    getSegs [] (mark clash name) (setSegs [] (mark clash name) v root) = .ok v
    ∧ lookup (plain name) (absKV (setSegs [] (mark clash name) v root)) = some (absV v) := by
  constructor
  · simp [getSegs, setSegs, walk, updateAt, unNs, lookup_insert_same]
  · simp only [setSegs, walk, updateAt, unNs]
    rw [abs_insert clash name v root hc]
    exact lookup_insert_same _ _ _

/-! iteration (`items`, hence `keys` and `values`, with or without branches) yields plain dotted keys and the
   abstracted values: it does not see the marks -/
mutual
theorem C11_items_plain (b : Bool) : ∀ kvs : KV,
    items b (absKV kvs) = (items b kvs).map (fun kv => (kv.1, absV kv.2))
  | [] => rfl
  | (k, .ns sub) :: r => by
    cases b <;>
    simp [absKV, absV, items, unmark, plain, C11_itemsPref_plain _ k.name sub, C11_items_plain _ r]
  | (k, .none) :: r => by simp [absKV, absV, items, unmark, plain, C11_items_plain b r]
  | (k, .atom _) :: r => by simp [absKV, absV, items, unmark, plain, C11_items_plain b r]
  | (k, .lst _) :: r => by simp [absKV, absV, items, unmark, plain, C11_items_plain b r]
  | (k, .tup _) :: r => by simp [absKV, absV, items, unmark, plain, C11_items_plain b r]
  | (k, .dct _) :: r => by simp [absKV, absV, items, unmark, plain, C11_items_plain b r]
theorem C11_itemsPref_plain (b : Bool) (pre : String) : ∀ kvs : KV,
    itemsPref pre b (absKV kvs) = (itemsPref pre b kvs).map (fun kv => (kv.1, absV kv.2))
  | [] => by simp [absKV, itemsPref]
  | (k, .ns sub) :: r => by
    cases b <;>
    simp [absKV, absV, itemsPref, unmark, plain, C11_itemsPref_plain _ (pre ++ "." ++ k.name) sub, C11_itemsPref_plain _ pre r]
  | (k, .none) :: r => by simp [absKV, absV, itemsPref, unmark, plain, C11_itemsPref_plain b pre r]
  | (k, .atom _) :: r => by simp [absKV, absV, itemsPref, unmark, plain, C11_itemsPref_plain b pre r]
  | (k, .lst _) :: r => by simp [absKV, absV, itemsPref, unmark, plain, C11_itemsPref_plain b pre r]
  | (k, .tup _) :: r => by simp [absKV, absV, itemsPref, unmark, plain, C11_itemsPref_plain b pre r]
  | (k, .dct _) :: r => by simp [absKV, absV, itemsPref, unmark, plain, C11_itemsPref_plain b pre r]
end

/-! `as_dict()` returns plain keys: it does not see the marks either -/
mutual
theorem C11_as_dict_plain : ∀ kvs : KV, asDict (absKV kvs) = asDict kvs
  | [] => rfl
  | (k, v) :: r => by
    simp only [absKV, asDict, unmark, plain, C11_as_dictV_plain v, C11_as_dict_plain r]
theorem C11_as_dictV_plain : ∀ v : V, asDictV (absV v) = asDictV v
  | .ns sub => by simp only [absV, asDictV, C11_as_dict_plain sub]
  | .none => rfl
  | .atom _ => rfl
  | .lst _ => rfl
  | .tup _ => rfl
  | .dct _ => rfl
end

/-- conversion from and to dictionaries: `dict_to_namespace(d).as_dict() == d` for every plain nested dictionary
    (string keys without ".", pairwise different at each level, lists holding no dictionaries), of any depth;
    the fuel of the model's `expand_dict` only has to exceed twice the nesting depth -/
theorem C11_dict_roundtrip (clash : List String) (n : Nat) (d : KV)
    (hp : plainKV d = true) (hn : nodupKV d) (hf : 2 * depthKV d + 2 ≤ n) :
    ∃ r, expandDict clash n d = .ok r ∧ asDict r = d :=
  (dict_roundtrip clash n).1 d hp hn hf

/-- … and a list that mixes dictionaries with other values does NOT come back (`as_dict` only converts lists made of
    namespaces): the hypothesis on lists is forced -/
theorem C11_dict_roundtrip_mixed_list_counterexample :
    (expandDict [] 4 [(plain "a", .lst [.dct [(plain "b", .atom 1)], .atom 2])]).map asDict
      = .ok [(plain "a", .lst [.ns [(plain "b", .atom 1)], .atom 2])] := by rfl

/-! ## equality and clone -/

/-- Python `==` is reflexive on every value whose mappings have pairwise different keys -/
theorem C11_eq_refl (v : V) (h : uniqAllV v) : veq v v = true := veq_refl v h

/-- every state reachable from the empty namespace by assignments (of values with unique keys), deletions, pops and
    `only_unset` assignments has unique keys at every depth — through dict values too — and so `ns.clone() == ns` -/
theorem C11_clone_eq (clash : List String) (ops : List Op) (h : ∀ o ∈ ops, opUniq o) :
    uniqAllKV (runC clash ops []) ∧
    veq (.ns (clone (runC clash ops []))) (.ns (runC clash ops [])) = true := by
  have hu : uniqAllKV (runC clash ops []) := uniqAllKV_run clash ops [] h (by simp [uniqAllKV])
  exact ⟨hu, veq_refl _ (by simpa [uniqAllV, clone] using hu)⟩

/-- the hypothesis is needed: with a repeated key (impossible in a Python dict) `==` as modelled is not reflexive -/
theorem C11_eq_refl_needs_unique_keys :
    veq (.dct [(plain "a", .atom 1), (plain "a", .atom 2)]) (.dct [(plain "a", .atom 1), (plain "a", .atom 2)]) = false := by
  simp [veq, kvSub, kvFind]

/-! ## keys / values / truthiness / as_flat agree with `items` -/

/-- `keys()` and `values()` are the two projections of `items()`, position by position -/
theorem C11_keys_values_items (b : Bool) (root : KV) :
    (keys b root).zip (values b root) = items b root ∧
    (keys b root).length = (items b root).length ∧ (values b root).length = (items b root).length :=
  ⟨keys_zip_values b root, keys_length b root, values_length b root⟩

/-- a falsy namespace has no items (the converse is false: a namespace holding only an empty branch is truthy) -/
theorem C11_bool_false_no_items (b : Bool) (root : KV) (h : nonEmpty root = false) : items b root = [] :=
  items_nil_of_not_nonEmpty b root h

example : nonEmpty [(plain "a", .ns [])] = true ∧ items false [(plain "a", .ns [])] = [] := by
  simp [nonEmpty, items, itemsPref]

/-- `as_flat()` holds one attribute per item key, each carrying a value `items()` yields for that key -/
theorem C11_as_flat_items (root : KV) :
    (∀ x ∈ asFlat root, x ∈ items false root) ∧
    (∀ x ∈ items false root, x.1 ∈ (asFlat root).map (·.1)) ∧
    ((asFlat root).map (·.1)).Nodup := by
  refine ⟨fun x hx => ?_, fun x hx => flatFold_keys _ [] hx, flatFold_nodup _ [] (by simp)⟩
  rcases flatFold_mem (items false root) [] hx with h | h
  · exact h
  · cases h

/-! ## strip_meta -/

/-- the result of `strip_meta` holds no meta key at any depth, for every meta-key table -/
theorem C11_strip_meta_free (m : List String) (root : KV) : metaFreeKV m (stripMeta m root) = true := by
  unfold stripMeta; split
  · rename_i h; cases root with
    | nil => rfl
    | cons _ _ => simp at h
  · exact stripKV_metaFree m root

/-- `strip_meta` changes nothing when there is nothing to strip, hence is idempotent -/
theorem C11_strip_meta_id (m : List String) (root : KV) (h : metaFreeKV m root = true) : stripMeta m root = root := by
  unfold stripMeta; split
  · rfl
  · exact stripKV_id m root h

theorem C11_strip_meta_idempotent (m : List String) (root : KV) :
    stripMeta m (stripMeta m root) = stripMeta m root :=
  C11_strip_meta_id m _ (C11_strip_meta_free m root)

/-- every other entry survives `strip_meta` (itself stripped), every meta entry is gone -/
theorem C11_strip_meta_lookup (m : List String) (k : SKey) (root : KV) :
    lookup k (stripMeta m root) = if isMetaName m k then none else (lookup k root).map (stripV m) := by
  unfold stripMeta
  by_cases he : root.isEmpty = true
  · cases root with
    | nil => cases h : isMetaName m k <;> simp [lookup]
    | cons _ _ => simp at he
  · simp only [he]
    cases hk : isMetaName m k
    · simpa using lookup_stripKV m k hk root
    · simpa using lookup_stripKV_meta m k hk root

/-! ## get_sorted_keys -/

/-- the returned keys are in order of non-increasing depth … -/
theorem C11_sorted_keys_sorted (m : List String) (b : Bool) (root : KV) :
    (getSortedKeys m b root).Pairwise (fun x y => depth x ≥ depth y) := getSortedKeys_sorted m b root

/-- … are exactly (as a multiset) the non-meta leaf keys, plus, with `branches`, parents appended behind them … -/
theorem C11_sorted_keys_perm (m : List String) (b : Bool) (root : KV) :
    (getSortedKeys m b root).Perm (unsortedKeys m b root) ∧
    ((keys false root).filter fun k => !isMetaKey m k) <+: unsortedKeys m true root ∧
    unsortedKeys m false root = (keys false root).filter fun k => !isMetaKey m k :=
  ⟨getSortedKeys_perm m b root, by simpa [unsortedKeys] using addParents_prefix _, rfl⟩

/-- … and keys of equal depth keep the order in which `items()` yields them (the sort is stable) -/
theorem C11_sorted_keys_stable (m : List String) (b : Bool) (root : KV) (x y : String)
    (hd : depth x ≥ depth y) (h : [x, y].Sublist (unsortedKeys m b root)) :
    [x, y].Sublist (getSortedKeys m b root) := getSortedKeys_stable m b root x y hd h

/-! executable test (not a theorem; `String.splitOn` does not reduce in the kernel): the regenerated meta-key table
    filters `a.__path__`, parents are appended, deeper keys come first -/
#guard getSortedKeys Jap.Gen.metaKeys true
    [(plain "a", .ns [(plain "b", .ns [(plain "c", .atom 1)]), (plain "__path__", .atom 2)]), (plain "d", .atom 3)]
    = ["a.b.c", "a.b", "d", "a"]

/-! ## non-vacuity: the hypotheses are met by non-trivial states, with the regenerated clash table -/

/-- `keys`, `items`, `get` … really are in the table regenerated from `dir(Namespace)` -/
example : ["items", "keys", "get", "update", "pop", "clone", "values", "as_dict"].all
    (Jap.Gen.clashNames.contains ·) = true := by decide

example :
    let clash := Jap.Gen.clashNames
    let root : KV := [(mark clash "a", .ns [(mark clash "keys", .atom 1)]), (mark clash "items", .lst [.atom 2])]
    canonKV clash root = true ∧
    safe clash [.set ["a", "get"] "pop" (.atom 3), .del ["a"] "keys", .pop [] "items", .setU ["a"] "x" (.atom 4)] root = true
    ∧ safe clash (updateOps true ["a"] (itemsSegs false [(mark clash "values", .ns [(mark clash "b", .atom 7)])])) root = true := by
  decide

example : plainKV [(plain "a", .dct [(plain "keys", .lst [.atom 1, .tup [.atom 2]]), (plain "b", .none)]), (plain "items", .atom 3)] = true
    ∧ 2 * depthKV [(plain "a", .dct [(plain "keys", .lst [.atom 1]), (plain "b", .none)]), (plain "items", .atom 3)] + 2 ≤ 64 := by decide

/-! ## the full statement fails through dict values (open finding C11-through-dict) -/

/-- `ns['a'] = {}; ns['a.keys'] = 5` writes the marked name into the caller's dict … -/
theorem C11_through_dict_counterexample :
    setSegs [mark ["keys"] "a"] (mark ["keys"] "keys") (.atom 5) [(mark ["keys"] "a", .dct [])]
      = [(⟨false, "a"⟩, .dct [(⟨true, "keys"⟩, .atom 5)])] := by rfl

/-- … whereas the nested dictionary replaces the leaf by a branch holding the plain key -/
theorem C11_through_dict_spec :
    setK [plain "a", plain "keys"] (.atom 5) [(plain "a", .dct [])]
      = [(plain "a", .ns [(plain "keys", .atom 5)])] := by rfl

end Jap.Props.C11

/-
C16 — Classes are instantiated in an order compatible with every link.

Property theorems over the model `Jap.Core.Graph` (E5).  All statements quantify over *every*
sequence of `add_edge` calls (any node type with decidable equality, any number of nodes and edges),
every key list and every component list; nothing is bounded.  Helper lemmas: `Jap.Lemmas.Graph`.
-/
import Jap.Lemmas.Graph
import Jap.Lemmas.GraphFlow
import Jap.Lemmas.GraphNested
import Jap.Gen.LinkBookkeeping
import Jap.Gen.LinkFlowSrc

namespace Jap.Props.C16
open Jap.Graph

section topo
variable {α : Type} [DecidableEq α]

/-- The node list of a `DirectedGraph` holds exactly the endpoints of the inserted edges, without duplicates. -/
theorem C16_nodes (es : List (α × α)) :
    (build es).nodes.Nodup ∧ ∀ x, x ∈ (build es).nodes ↔ ∃ e ∈ es, x = e.1 ∨ x = e.2 :=
  ⟨(WF.of_build es).nodup, mem_nodes_build es⟩

/-- C16_topo_ok: a returned order is a permutation of the nodes and every inserted edge goes forward in it. -/
theorem C16_topo_ok (es : List (α × α)) (o : List α) (h : topo es = .ok o) :
    o.Perm (build es).nodes ∧ ∀ e ∈ es, o.idxOf e.1 < o.idxOf e.2 :=
  topo_ok_names es o h

/-- C16_topo_cycle: a reported error names an inserted edge `a → b` that closes a real cycle (`b →* a`). -/
theorem C16_topo_cycle (es : List (α × α)) (e : TopoErr α) (h : topo es = .error e) :
    ∃ a b, e = .cycle a b ∧ (a, b) ∈ es ∧ ReachE es b a :=
  topo_cycle_names es e h

/-- C16_complete: `get_topological_order` succeeds iff the inserted edges are acyclic. -/
theorem C16_complete (es : List (α × α)) : (∃ o, topo es = .ok o) ↔ Acyclic es :=
  topo_complete_names es

/-- …and the structural fuel `n+1` of the model always suffices (the model never reports `internal`),
    so the model agrees with the unbounded recursion of the code on every graph. -/
theorem C16_fuel (es : List (α × α)) : topo es ≠ .error .internal := by
  intro h
  obtain ⟨a, b, hab, _, _⟩ := topo_cycle_names es _ h
  cases hab

/-- The code's boolean `exploring`/`visited` arrays compute the same result as the abstract sort the
    proofs are carried out on (DESIGN Appendix A), for every adjacency function with in-range targets. -/
theorem C16_arrays_refine (adj : Nat → List Nat) (n : Nat) (hadj : ∀ u, u < n → ∀ v ∈ adj u, v < n) :
    topoIdx adj n = Abs.topo adj n :=
  topoIdx_eq_abs adj n hadj

end topo

section reorder
variable {γ : Type}

/-- `rank` is the position of the first key that matches the component (`order.length` if none). -/
theorem C16_rank_first (dest : γ → String) (order : List String) (c : γ) :
    (∀ i k, order[i]? = some k → i < rank (fun k c => keyMatches k (dest c)) order c → keyMatches k (dest c) = false) ∧
    (∀ k, order[rank (fun k c => keyMatches k (dest c)) order c]? = some k → keyMatches k (dest c) = true) ∧
    rank (fun k c => keyMatches k (dest c)) order c ≤ order.length :=
  ⟨fun i k => rank_before _ c order i k, fun k => rank_at _ c order k, rank_le_length _ c order⟩

/-- C16_reorder: the result is a permutation of the components; components matched by an earlier key come
    first (sorted by the rank of their first matching key, unmatched ones last); and the sort is stable
    (for every rank the components of that rank keep their relative order). -/
theorem C16_reorder (dest : γ → String) (order : List String) (comps : List γ) :
    (reorder dest order comps).Perm comps ∧
    (reorder dest order comps).Pairwise
      (fun x y => rank (fun k c => keyMatches k (dest c)) order x ≤ rank (fun k c => keyMatches k (dest c)) order y) ∧
    ∀ j, (reorder dest order comps).filter (fun c => rank (fun k c => keyMatches k (dest c)) order c == j)
        = comps.filter (fun c => rank (fun k c => keyMatches k (dest c)) order c == j) := by
  have hr : reorder dest order comps = reorderRec (fun k c => keyMatches k (dest c)) order comps := reorderBy_eq _ _ _
  rw [hr]
  exact ⟨reorderRec_perm _ order comps, reorderRec_sorted _ order comps, reorderRec_stable _ order comps⟩

end reorder

/-! ### component order of `instantiate_classes`

Full-strength statement (DESIGN `C16_instantiate`), which the code and hence the model do NOT satisfy:

    theorem C16_instantiate (links setOrder dests comps)
        (h : componentOrder links setOrder dests = .ok comps) : SourcesFirst links comps

where `SourcesFirst` says: every source component of a link precedes every component that consumes the
link's target (`feeds`).  It fails when a link targets a component nested inside a component that is ONLY a
*source* of another link: `reorder` lets the key of the enclosing component pull the nested one forward
(known finding `C16-nested-target-in-source`).  Witness below.  What is proved:

* `C16_instantiate_nested` — the statement itself (`SourcesFirst`, every consumer) for link sets of any size with
  sources/targets nested at any depth, under the decidable hypothesis `NestedKeysOK` (Core/Graph): a key matching a
  consumer is the link's target node or a containing TARGET node.  The excluded class is exactly the finding above.
* `C16_reject_cycle_nested` — rejection ⇔ a cycle in the dependencies including containment, under
  `ContainmentCovered`; excluded class = finding `C16-containment-cycle-accepted` (witness `cycLinks`).
* `SourcesTopLevel` — the class of finding `C16-nested-source-after-enclosing-group` (witness `nsrcLinks`: the order
  statement holds there, the source's cfg entry does not survive).
* `C16_instantiate_partial` — the older special case for flat keys (`FlatKeys`), kept. -/

/-- every source component of a link precedes every component that consumes the link's target -/
def SourcesFirst (links : List Link) (comps : List String) : Prop :=
  ∀ l ∈ links, ∀ s ∈ l.sources, ∀ c ∈ comps, feeds c l.target = true → comps.idxOf s < comps.idxOf c

instance (links : List Link) (comps : List String) : Decidable (SourcesFirst links comps) := by
  unfold SourcesFirst; infer_instance

/-- the links `a --> root.child.init_args.p`, `root --> b.p0` (acyclic), declared in this order -/
def badLinks : List Link := [⟨["a"], "root.child.init_args.p"⟩, ⟨["root"], "b.p0"⟩]

/-- the model's component order instantiates `root.child` first, although it is fed from `a` -/
theorem C16_instantiate_witness :
    componentOrder badLinks ["root.child", "b"] ["a", "b", "root", "root.child"]
      = .ok ["root.child", "root", "b", "a"] := rfl

/-- negation of the full-strength statement -/
theorem C16_instantiate_counterexample :
    ¬ ∀ links setOrder dests comps, componentOrder links setOrder dests = .ok comps → SourcesFirst links comps := by
  intro h
  have := h badLinks ["root.child", "b"] ["a", "b", "root", "root.child"] _ C16_instantiate_witness
  revert this
  decide

/-- with the other declaration order of the same two links the order is fine: the outcome depends on the
    order of the `link_arguments` calls -/
example : componentOrder badLinks.reverse ["b", "root.child"] ["a", "b", "root", "root.child"]
    = .ok ["a", "root.child", "root", "b"] := rfl
example : SourcesFirst badLinks.reverse ["a", "root.child", "root", "b"] := by decide

/-- forced hypothesis: every key of the link graph matches only the component of the same name -/
def FlatKeys (links : List Link) (setOrder dests : List String) : Prop :=
  ∀ k ∈ (build (instantiationEdges links setOrder)).nodes, ∀ c ∈ dests, keyMatches k c = true → k = c

instance (links : List Link) (setOrder dests : List String) : Decidable (FlatKeys links setOrder dests) := by
  unfold FlatKeys; infer_instance

/-- C16_instantiate_partial: when the keys are flat, every source component is walked before the component
    its link feeds — whatever the declaration order of the links and of the components. -/
theorem C16_instantiate_partial (links : List Link) (setOrder dests comps : List String)
    (h : componentOrder links setOrder dests = .ok comps) (hflat : FlatKeys links setOrder dests) :
    ∀ l ∈ links, ∀ s ∈ l.sources, s ∈ dests → targetNode l.target ∈ dests →
      comps.idxOf s < comps.idxOf (targetNode l.target) := by
  intro l hl s hs hsd htd
  unfold componentOrder at h
  cases ho : instantiationOrder links setOrder with
  | error e => rw [ho] at h; simp at h
  | ok order =>
    rw [ho] at h
    simp only [Except.ok.injEq] at h
    have hne : links.isEmpty = false := by
      cases links with
      | nil => simp at hl
      | cons _ _ => rfl
    simp only [instantiationOrder, hne, Bool.false_eq_true, if_false] at ho
    have hedge : (s, targetNode l.target) ∈ instantiationEdges links setOrder :=
      List.mem_append_left _ (mem_linkEdges s links l hl hs)
    have hperm := (topo_ok_names _ order ho).1
    have := reorder_forward (instantiationEdges links setOrder) order (sortDesc depth dests) ho
      (fun k hk c hc hm => hflat k (hperm.mem_iff.mp hk) c ((mem_sortDesc depth c dests).mp hc) hm)
      (s, targetNode l.target) hedge ((mem_sortDesc depth s dests).mpr hsd) ((mem_sortDesc depth _ dests).mpr htd)
    rw [h] at this
    exact this

/-- C16_instantiate_nested: for link sets of any size and targets/sources nested at any depth — outside the class
    `¬ NestedKeysOK` — EVERY component that consumes a link's target (the component holding it and every enclosing
    one) is walked after EVERY source component of the link, in every declaration order. -/
theorem C16_instantiate_nested (links : List Link) (setOrder dests comps : List String)
    (h : componentOrder links setOrder dests = .ok comps) (hk : NestedKeysOK links setOrder dests) :
    ∀ l ∈ links, ∀ s ∈ l.sources, s ∈ dests → ∀ c ∈ dests, feeds c l.target = true →
      comps.idxOf s < comps.idxOf c := by
  intro l hl s hs hsd c hcd hf
  unfold componentOrder at h
  cases ho : instantiationOrder links setOrder with
  | error e => rw [ho] at h; simp at h
  | ok order =>
    rw [ho] at h
    simp only [Except.ok.injEq] at h
    have hne : links.isEmpty = false := by
      cases links with
      | nil => simp at hl
      | cons _ _ => rfl
    simp only [instantiationOrder, hne, Bool.false_eq_true, if_false] at ho
    obtain ⟨hperm, hfwd⟩ := topo_ok_names _ order ho
    have hedge : (s, targetNode l.target) ∈ instantiationEdges links setOrder :=
      List.mem_append_left _ (mem_linkEdges s links l hl hs)
    have hso : s ∈ order :=
      hperm.mem_iff.mpr ((mem_nodes_build _ s).mpr ⟨_, hedge, Or.inl rfl⟩)
    have hst := hfwd _ hedge
    rw [← h]
    apply reorder_sources_first (instantiationEdges links setOrder) order (sortDesc depth dests) s c
      ((mem_sortDesc depth s dests).mpr hsd) ((mem_sortDesc depth c dests).mpr hcd) hso
    intro k hko hm
    rcases hk l hl c hcd hf k (hperm.mem_iff.mp hko) hm with rfl | ⟨h1, h2, h3, h4⟩
    · exact hst
    · have he : (targetNode l.target, k) ∈ instantiationEdges links setOrder :=
        List.mem_append_right _ (mem_prefixEdges setOrder _ k h2 h1 h3 h4)
      have := hfwd _ he
      simp only at this hst
      omega

/-- the finding-1 witness is outside the hypothesis: the key `root` is only a source and contains the target `root.child…` -/
theorem C16_nested_excludes_witness : ¬ NestedKeysOK badLinks ["root.child", "b"] ["a", "b", "root", "root.child"] := by
  decide

-- non-vacuity: targets on all three nesting levels of one group that is ALSO a source (it is a target too, so the
-- containment edges exist), four links, keys that are far from flat — inside the hypothesis, and the order is right
def nestedLinks : List Link :=
  [⟨["a"], "root.child.init_args.grandchild.init_args.g"⟩, ⟨["ab"], "root.child.init_args.p"⟩, ⟨["c", "a"], "root.r"⟩,
   ⟨["root"], "x.init_args.p0"⟩]
def nestedDests : List String := ["x", "root.r", "root.r2", "a", "root.child", "ab", "c", "root"]
example : NestedKeysOK nestedLinks ["root.child.init_args.grandchild", "root.child", "root", "x"] nestedDests := by decide
example : ¬ FlatKeys nestedLinks ["root.child.init_args.grandchild", "root.child", "root", "x"] nestedDests := by decide
example : componentOrder nestedLinks ["root.child.init_args.grandchild", "root.child", "root", "x"] nestedDests
    = .ok ["c", "ab", "a", "root.child", "root.r", "root.r2", "root", "x"] := rfl

/-- C16_reject_cycle: a link set whose graph has a cycle makes `instantiation_order` (called by the
    constructor of the link that closes it) fail, naming an edge on a real cycle; and only then. -/
theorem C16_reject_cycle (links : List Link) (setOrder : List String) (hne : links ≠ []) :
    (∃ e, instantiationOrder links setOrder = .error e) ↔ ¬ Acyclic (instantiationEdges links setOrder) := by
  have hne' : links.isEmpty = false := by
    cases links with
    | nil => exact absurd rfl hne
    | cons _ _ => rfl
  simp only [instantiationOrder, hne', Bool.false_eq_true, if_false]
  rw [← topo_complete_names]
  constructor
  · rintro ⟨e, he⟩ ⟨o, ho⟩; rw [he] at ho; cases ho
  · intro hno
    cases h : topo (instantiationEdges links setOrder) with
    | ok o => exact absurd ⟨o, h⟩ hno
    | error e => exact ⟨e, rfl⟩

/-! #### the other two nested classes -/

/-- C16_reject_cycle_nested: outside the class `¬ ContainmentCovered`, `instantiation_order` rejects a link set exactly
    when the construction dependencies INCLUDING containment (an object is built after everything nested in it) have a
    cycle — for nested keys of any depth. -/
theorem C16_reject_cycle_nested (links : List Link) (setOrder : List String) (hne : links ≠ [])
    (hc : ContainmentCovered links setOrder) :
    (∃ e, instantiationOrder links setOrder = .error e) ↔ ¬ Acyclic (fullEdges links setOrder) := by
  rw [C16_reject_cycle links setOrder hne]
  have h1 : ∀ e ∈ instantiationEdges links setOrder, e ∈ fullEdges links setOrder :=
    fun e he => List.mem_append_left _ he
  have h2 : ∀ e ∈ fullEdges links setOrder, e ∈ instantiationEdges links setOrder := by
    intro e he
    rcases List.mem_append.mp he with he | he
    · exact he
    · exact hc e he
  constructor
  · intro hn ha; exact hn (Acyclic.of_subset h1 ha)
  · intro hn ha; exact hn (Acyclic.of_subset h2 ha)

/-- finding C16-containment-cycle-accepted inside the model: `root --> a.p0`, `a --> root.child.init_args.p` is accepted
    although Root needs Child, Child needs A, A needs Root; it is outside `ContainmentCovered` -/
def cycLinks : List Link := [⟨["root"], "a.p0"⟩, ⟨["a"], "root.child.init_args.p"⟩]
theorem C16_containment_cycle_witness :
    instantiationOrder cycLinks ["a", "root.child"] = .ok ["root", "a", "root.child"] ∧
    ¬ Acyclic (fullEdges cycLinks ["a", "root.child"]) ∧ ¬ ContainmentCovered cycLinks ["a", "root.child"] := by
  refine ⟨rfl, ?_, by decide⟩
  intro h
  apply h
  refine ⟨"root", "a", by decide, ?_⟩
  exact .tail (.tail (.refl "a") (show ("a", "root.child") ∈ _ by decide)) (show ("root.child", "root") ∈ _ by decide)

/-- finding C16-nested-source-after-enclosing-group inside the model: `m.child --> c.p0`, `m --> c.p1` is inside
    `NestedKeysOK` — both sources ARE walked before the consumer `c` — but the group `m` enclosing the source `m.child` is
    walked before `c` too (its construction replaces `cfg.m`, so `cfg["m.child"]` is gone): outside `SourcesTopLevel` -/
def nsrcLinks : List Link := [⟨["m.child"], "c.p0"⟩, ⟨["m"], "c.p1"⟩]
theorem C16_nested_source_witness :
    componentOrder nsrcLinks ["c"] ["c", "m", "m.child"] = .ok ["m.child", "m", "c"] ∧
    NestedKeysOK nsrcLinks ["c"] ["c", "m", "m.child"] ∧ ¬ SourcesTopLevel nsrcLinks ["c", "m", "m.child"] := by
  refine ⟨rfl, by decide, by decide⟩

-- the three-level example is inside all three hypotheses
example : ContainmentCovered nestedLinks ["root.child.init_args.grandchild", "root.child", "root", "x"] := by decide
example : SourcesTopLevel nestedLinks nestedDests := by decide
example : ¬ ContainmentCovered badLinks ["root.child", "b"] := by decide

/-! ### value flow: constructor log, received arguments, applied-links bookkeeping

`F` is the opaque table of compute functions; `comps` is the component sequence walked by `instantiate_classes`
(`componentOrder`), each with the flag "constructs a class".  `SourcesReady` (decidable, evaluated by the driver on
every end-to-end scenario) says that every component finds the sources of the links feeding it already constructed;
`C16_sources_ready` derives it from the order theorems for acyclic link sets with owned keys. -/

section flow
variable (F : String → List Val → Val) (links : List FLink) (order : List String)

/-- C16_each_once: whatever the links, the constructor log of one `instantiate_classes` call lists exactly the class
    components of the walked sequence, in that order — so with a duplicate-free sequence every class is constructed
    exactly once (and `C16_reorder` makes the sequence a permutation of the parser's components). -/
theorem C16_each_once (comps : List (String × Bool)) :
    (instantiateClasses F links order comps Cfg.parsed).log.map (·.1) = (comps.filter (·.2)).map (·.1) ∧
    ((comps.map (·.1)).Nodup → ∀ d, (d, true) ∈ comps →
      ((instantiateClasses F links order comps Cfg.parsed).log.map (·.1)).count d = 1) := by
  have hlog : (instantiateClasses F links order comps Cfg.parsed).log.map (·.1) = (comps.filter (·.2)).map (·.1) := by
    unfold instantiateClasses
    rw [(applyLinks_frame F links order none _).2, icLoop_log]
    simp [Cfg.parsed]
  refine ⟨hlog, ?_⟩
  intro hnd d hd
  rw [hlog]
  have hsub : ((comps.filter (·.2)).map (·.1)).Nodup := by
    have : ((comps.filter (·.2)).map (·.1)).Sublist (comps.map (·.1)) := (List.filter_sublist).map _
    exact this.nodup hnd
  have hmem : d ∈ (comps.filter (·.2)).map (·.1) :=
    List.mem_map.mpr ⟨(d, true), List.mem_filter.mpr ⟨hd, rfl⟩, rfl⟩
  rw [hsub.count, if_pos hmem]

/-- C16_fed_value: when the sources are ready along the sequence, (1) every argument a constructor receives through
    a link is `goodValue` of a link one of whose target positions (`targetSlots`: the target key, or — for a target
    inside a list of subclass specs — the position of that parameter in one of the items) it is: `F` applied to the
    sources' CONSTRUCTED objects or their attributes; (2) every class component's constructor call carries a value
    for EVERY target position inside it of every link that feeds it. -/
theorem C16_fed_value (comps : List (String × Bool)) (h : SourcesReady links [] comps) :
    (∀ e ∈ (instantiateClasses F links order comps Cfg.parsed).log, ∀ kv ∈ e.2,
        ∃ l ∈ links, kv.1 ∈ targetSlots l ∧ kv.2 = goodValue F l) ∧
    (∀ d, (d, true) ∈ comps → ∃ e ∈ (instantiateClasses F links order comps Cfg.parsed).log, e.1 = d ∧
        ∀ l ∈ links, feeds d l.target = true → ∀ k ∈ targetSlots l, feeds d k = true → ∃ v, (k, v) ∈ e.2) := by
  obtain ⟨g, _, e⟩ := icLoop_good F links comps Cfg.parsed (Good.parsed F links) h
  have hl : (instantiateClasses F links order comps Cfg.parsed).log = (icLoop F links comps Cfg.parsed).log :=
    (applyLinks_frame F links order none _).2
  rw [hl]
  exact ⟨g.log, e⟩

/-- …and `goodValue` never contains the raw, un-instantiated configuration of a source: its source positions are
    `obj s` or `attr (obj s) a`. -/
theorem C16_fed_value_not_raw (l : FLink) :
    goodValue F l = combine F l.fn (l.sources.map goodSource) ∧
    ∀ s ∈ l.sources, goodSource s = .obj s.1 ∨ ∃ a, goodSource s = .attr (.obj s.1) a := by
  refine ⟨rfl, ?_⟩
  intro s _
  unfold goodSource
  cases s.2 with
  | none => exact Or.inl rfl
  | some a => exact Or.inr ⟨a, rfl⟩

/-! #### `set_target_value`: which positions a link's value is written to -/

/-- C16_plain_target: a link into a parameter of a class group (target action not subclass-typed), a link whose target
    IS a subclass-typed argument, and a link into a parameter that the given subclass spec has, write exactly the
    target key; a link into a parameter the spec does not have writes nothing ("target not found"). -/
theorem C16_plain_target (l : FLink) :
    (l.tsub = false → targetSlots l = [l.target]) ∧
    (l.tsub = true → l.target = l.tdest → targetSlots l = [l.target]) ∧
    (∀ keys, l.tsub = true → l.target ≠ l.tdest → l.parent = .single keys →
      targetSlots l = if keys.contains (childKey l) then [l.target] else []) := by
  refine ⟨?_, ?_, ?_⟩
  · intro h; simp [targetSlots, h]
  · intro h1 h2; simp [targetSlots, h1, h2]
  · intro keys h1 h2 h3; simp [targetSlots, h1, h2, h3]

/-- C16_list_delivery: a link into a parameter of the classes of a LIST of subclass specs (`List[Base]` argument):
    (a) EVERY item that has the parameter is written (`item[child_key] = value`), however many items lack it;
    (b) nothing else is written: every written position is such an item, items without the parameter are untouched. -/
theorem C16_list_delivery (l : FLink) (items : List (Option (List String)))
    (hsub : l.tsub = true) (hne : l.target ≠ l.tdest) (hp : l.parent = .list items) :
    (∀ j it, items[j]? = some it → itemHas (childKey l) it = true → itemKey l.tdest j (childKey l) ∈ targetSlots l) ∧
    (∀ k ∈ targetSlots l, ∃ j it, items[j]? = some it ∧ itemHas (childKey l) it = true ∧ k = itemKey l.tdest j (childKey l)) := by
  constructor
  · intro j it hj hh
    have hany : items.any (itemHas (childKey l)) = true :=
      List.any_eq_true.mpr ⟨it, List.mem_of_getElem? hj, hh⟩
    have := mem_listSlots_of l.tdest (childKey l) items 0 j it hj hh
    simp only [Nat.zero_add] at this
    simp [targetSlots, hsub, hne, hp, hany, this]
  · intro k hk
    simp only [targetSlots, hsub, hne, hp, if_true, if_false] at hk
    by_cases hany : items.any (itemHas (childKey l)) = true
    · simp only [hany, if_true] at hk
      obtain ⟨j, it, h1, h2, h3⟩ := listSlots_mem l.tdest (childKey l) items 0 k hk
      exact ⟨j, it, h1, h2, by simpa using h3⟩
    · simp [hany] at hk

/-- every position `targetSlots` names lies inside the component that holds the target action: the constructor call
    of that component (and of every enclosing one) sees it -/
theorem C16_slots_inside (l : FLink) (d : String) (hd : feeds d l.tdest = true) (hdt : feeds d l.target = true) :
    ∀ k ∈ targetSlots l, feeds d k = true := by
  intro k hk
  unfold targetSlots at hk
  by_cases hsub : l.tsub = true
  · simp only [hsub, if_true] at hk
    by_cases he : l.target = l.tdest
    · simp only [he, if_true, List.mem_singleton] at hk; rw [hk]; exact hd
    · simp only [he, if_false] at hk
      cases hp : l.parent with
      | gone => simp [hp] at hk
      | single keys =>
        simp only [hp] at hk
        split at hk
        · simp only [List.mem_singleton] at hk; rw [hk]; exact hdt
        · simp at hk
      | list items =>
        simp only [hp] at hk
        by_cases hany : items.any (itemHas (childKey l)) = true
        · simp only [hany, if_true] at hk
          obtain ⟨j, it, _, _, h3⟩ := listSlots_mem l.tdest (childKey l) items 0 k hk
          rw [h3]; exact feeds_itemKey d l.tdest (childKey l) _ hd
        · simp [hany] at hk
  · simp only [hsub, Bool.false_eq_true, if_false, List.mem_singleton] at hk
    rw [hk]; exact hdt

/-- hypotheses under which the order theorems give readiness (all decidable on concrete lists): every graph key
    matches exactly the components it owns (`owner`: a class component owns itself, a parameter component `b.p0` is
    owned by `b`); sources are class components owning themselves; whatever consumes a link's target is owned by the
    link's target node. -/
structure OwnedKeys (links : List FLink) (setOrder dests : List String) (isClass : String → Bool)
    (owner : String → String) : Prop where
  nodup : dests.Nodup
  own : ∀ k ∈ (build (instantiationEdges (links.map FLink.toLink) setOrder)).nodes, ∀ c ∈ dests,
    keyMatches k c = true ↔ k = owner c
  src : ∀ l ∈ links, ∀ s ∈ l.sources, s.1 ∈ dests ∧ isClass s.1 = true ∧ owner s.1 = s.1
  cons : ∀ l ∈ links, ∀ c ∈ dests, feeds c l.target = true → owner c = targetNode l.target

/-- C16_sources_ready: for an acyclic link set (the order computation succeeded) with owned keys, along the component
    sequence that `instantiate_classes` walks every component finds the sources of its links constructed —
    in every declaration order of links and components. -/
theorem C16_sources_ready (setOrder dests seq : List String) (isClass : String → Bool) (owner : String → String)
    (h : componentOrder (links.map FLink.toLink) setOrder dests = .ok seq)
    (hk : OwnedKeys links setOrder dests isClass owner) :
    SourcesReady links [] (seq.map fun d => (d, isClass d)) :=
  sourcesReady_of_order links setOrder dests seq isClass owner h hk.nodup hk.own hk.src hk.cons

/-- C16_fed_value_acyclic: the composition — acyclic, owned keys ⇒ every argument received through a link key is
    `F(sources' constructed objects / attributes)`, every class component is fed by all its links, and each class
    component is constructed exactly once. -/
theorem C16_fed_value_acyclic (setOrder dests seq : List String) (isClass : String → Bool) (owner : String → String)
    (h : componentOrder (links.map FLink.toLink) setOrder dests = .ok seq)
    (hk : OwnedKeys links setOrder dests isClass owner) :
    let r := instantiateClasses F links order (seq.map fun d => (d, isClass d)) Cfg.parsed
    (∀ e ∈ r.log, ∀ kv ∈ e.2, ∃ l ∈ links, kv.1 ∈ targetSlots l ∧ kv.2 = goodValue F l) ∧
    (∀ d ∈ seq, isClass d = true → ∃ e ∈ r.log, e.1 = d ∧
      ∀ l ∈ links, feeds d l.target = true → ∀ k ∈ targetSlots l, feeds d k = true → ∃ v, (k, v) ∈ e.2) ∧
    (∀ d ∈ seq, isClass d = true → (r.log.map (·.1)).count d = 1) := by
  have hready := C16_sources_ready links setOrder dests seq isClass owner h hk
  obtain ⟨h1, h2⟩ := C16_fed_value F links order _ hready
  have hmap : (seq.map fun d => (d, isClass d)).map (·.1) = seq := by simp [List.map_map, Function.comp_def]
  have hseqnd : seq.Nodup := by
    have := sourcesReady_seq_nodup links setOrder dests seq h hk.nodup
    exact this
  refine ⟨h1, ?_, ?_⟩
  · intro d hd hc
    exact h2 d (List.mem_map.mpr ⟨d, hd, by rw [hc]⟩)
  · intro d hd hc
    exact (C16_each_once F links order _).2 (by rw [hmap]; exact hseqnd) d (List.mem_map.mpr ⟨d, hd, by rw [hc]⟩)

/-! #### value flow over nested keys; chains -/

/-- C16_sources_ready_nested: readiness along the walked sequence from the nested-keys order theorem — no ownership
    assumption on the keys; sources are class components of the parser. -/
theorem C16_sources_ready_nested (setOrder dests seq : List String) (isClass : String → Bool)
    (h : componentOrder (links.map FLink.toLink) setOrder dests = .ok seq)
    (hnd : dests.Nodup) (hk : NestedKeysOK (links.map FLink.toLink) setOrder dests)
    (hsrc : ∀ l ∈ links, ∀ s ∈ l.sources, s.1 ∈ dests ∧ isClass s.1 = true) :
    SourcesReady links [] (seq.map fun d => (d, isClass d)) := by
  have hperm := componentOrder_perm _ setOrder dests seq h
  have hmap : (seq.map fun d => (d, isClass d)).map (·.1) = seq := by simp [List.map_map, Function.comp_def]
  apply sourcesReady_of_positions
  · rw [hmap]; exact hperm.nodup_iff.mpr hnd
  · intro l hl c hc hf s hs
    obtain ⟨cd, hcd, rfl⟩ := List.mem_map.mp hc
    obtain ⟨hsd, hsc⟩ := hsrc l hl s hs
    refine ⟨List.mem_map.mpr ⟨s.1, hperm.mem_iff.mpr hsd, by rw [hsc]⟩, ?_⟩
    rw [hmap]
    exact C16_instantiate_nested _ setOrder dests seq h hk (FLink.toLink l) (List.mem_map.mpr ⟨l, hl, rfl⟩)
      s.1 (List.mem_map.mpr ⟨s, hs, rfl⟩) hsd cd (hperm.mem_iff.mp hcd) hf

/-- C16_fed_value_nested: the composition over nested keys — for an accepted link set inside `NestedKeysOK`, of any size
    and nesting depth: every argument received through a link position is `F(constructed sources)`, every class
    component's constructor call carries every position inside it of every link feeding it, each class component is
    constructed exactly once, and the constructor call of every source PRECEDES the constructor call of every class
    component that consumes the link. -/
theorem C16_fed_value_nested (setOrder dests seq : List String) (isClass : String → Bool)
    (h : componentOrder (links.map FLink.toLink) setOrder dests = .ok seq)
    (hnd : dests.Nodup) (hk : NestedKeysOK (links.map FLink.toLink) setOrder dests)
    (hsrc : ∀ l ∈ links, ∀ s ∈ l.sources, s.1 ∈ dests ∧ isClass s.1 = true) :
    let r := instantiateClasses F links order (seq.map fun d => (d, isClass d)) Cfg.parsed
    (∀ e ∈ r.log, ∀ kv ∈ e.2, ∃ l ∈ links, kv.1 ∈ targetSlots l ∧ kv.2 = goodValue F l) ∧
    (∀ d ∈ seq, isClass d = true → ∃ e ∈ r.log, e.1 = d ∧
      ∀ l ∈ links, feeds d l.target = true → ∀ k ∈ targetSlots l, feeds d k = true → ∃ v, (k, v) ∈ e.2) ∧
    (∀ d ∈ seq, isClass d = true → (r.log.map (·.1)).count d = 1) ∧
    (∀ l ∈ links, ∀ s ∈ l.sources, ∀ d ∈ seq, isClass d = true → feeds d l.target = true →
      (r.log.map (·.1)).idxOf s.1 < (r.log.map (·.1)).idxOf d) := by
  have hready := C16_sources_ready_nested links setOrder dests seq isClass h hnd hk hsrc
  obtain ⟨h1, h2⟩ := C16_fed_value F links order _ hready
  have hperm := componentOrder_perm _ setOrder dests seq h
  have hmap : (seq.map fun d => (d, isClass d)).map (·.1) = seq := by simp [List.map_map, Function.comp_def]
  have hseqnd : seq.Nodup := hperm.nodup_iff.mpr hnd
  have hlog := (C16_each_once F links order (seq.map fun d => (d, isClass d))).1
  refine ⟨h1, ?_, ?_, ?_⟩
  · intro d hd hc
    exact h2 d (List.mem_map.mpr ⟨d, hd, by rw [hc]⟩)
  · intro d hd hc
    exact (C16_each_once F links order _).2 (by rw [hmap]; exact hseqnd) d (List.mem_map.mpr ⟨d, hd, by rw [hc]⟩)
  · intro l hl s hs d hd hc hf
    obtain ⟨hsd, hsc⟩ := hsrc l hl s hs
    have hpos := C16_instantiate_nested _ setOrder dests seq h hk (FLink.toLink l) (List.mem_map.mpr ⟨l, hl, rfl⟩)
      s.1 (List.mem_map.mpr ⟨s, hs, rfl⟩) hsd d (hperm.mem_iff.mp hd) hf
    show ((instantiateClasses F links order (seq.map fun d => (d, isClass d)) Cfg.parsed).log.map (·.1)).idxOf s.1 < _
    rw [hlog, filter_flag_map]
    exact idxOf_filter_lt isClass seq s.1 d hseqnd (hperm.mem_iff.mpr hsd) hd hsc hc hpos

/-- a chain of components: each one is a source of a link that feeds the next -/
def LinkedTo (links : List FLink) (a b : String) : Prop :=
  ∃ l ∈ links, (∃ s ∈ l.sources, s.1 = a) ∧ feeds b l.target = true

/-- C16_chain_delivery: links whose source is itself fed by another instantiate link, chains `d₀ → d₁ → … → dₙ` of ANY
    length: along the chain the constructor calls happen strictly in chain order (each dᵢ is built — with the values its
    own links deliver, by `C16_fed_value_nested` — before it is read as the source for dᵢ₊₁). -/
theorem C16_chain_delivery (setOrder dests seq : List String) (isClass : String → Bool)
    (h : componentOrder (links.map FLink.toLink) setOrder dests = .ok seq)
    (hnd : dests.Nodup) (hk : NestedKeysOK (links.map FLink.toLink) setOrder dests)
    (hsrc : ∀ l ∈ links, ∀ s ∈ l.sources, s.1 ∈ dests ∧ isClass s.1 = true)
    (chain : List String) (hc : ChainOf (LinkedTo links) chain) (hcl : ∀ d ∈ chain, d ∈ seq ∧ isClass d = true) :
    ChainOf (· < ·) (chain.map fun d =>
      ((instantiateClasses F links order (seq.map fun d => (d, isClass d)) Cfg.parsed).log.map (·.1)).idxOf d) := by
  obtain ⟨_, _, _, hord⟩ := C16_fed_value_nested F links order setOrder dests seq isClass h hnd hk hsrc
  induction chain with
  | nil => trivial
  | cons a r ih =>
    cases r with
    | nil => trivial
    | cons b r' =>
      obtain ⟨⟨l, hl, ⟨s, hs, hsa⟩, hf⟩, hrest⟩ := hc
      refine ⟨?_, ih hrest (fun d hd => hcl d (List.mem_cons_of_mem _ hd))⟩
      have hb := hcl b (by simp)
      have := hord l hl s hs b hb.1 hb.2 hf
      rw [hsa] at this
      exact this

/-- C16_bookkeeping_fresh: for the bookkeeping as extracted from the source (`Jap.Gen.linkStateWrites`: no write
    outside cfg; the set is popped from and stored into cfg), every call of a session — whatever calls came before,
    complete or failed part-way — starts from the applied set of its own cfg; for parsed configurations: empty. -/
theorem C16_bookkeeping_fresh (comps : List (String × Bool)) (carried : List Nat) (calls : List (Cfg × Option Nat)) :
    session Jap.Gen.linkStateWrites F links order comps carried calls = calls.map (fun c => c.1.applied) ∧
    ((∀ c ∈ calls, c.1 = Cfg.parsed) →
      ∀ a ∈ session Jap.Gen.linkStateWrites F links order comps carried calls, a = []) := by
  have h : session Jap.Gen.linkStateWrites F links order comps carried calls = calls.map (fun c => c.1.applied) :=
    session_no_writes F links order comps carried calls
  refine ⟨h, ?_⟩
  intro hp a ha
  rw [h] at ha
  obtain ⟨c, hc, rfl⟩ := List.mem_map.mp ha
  rw [hp c hc]
  rfl

/-- the extracted facts the model's `applyLinks` relies on -/
theorem C16_bookkeeping_in_cfg :
    Jap.Gen.linkStateWrites = [] ∧ Jap.Gen.appliedPoppedFromCfg = true ∧ Jap.Gen.appliedStoredInCfg = true ∧
    Jap.Gen.cfgCopiedFirst = true ∧ Jap.Gen.appliedKey = "__applied_instantiation_links__" := by
  decide

/-- a complete call leaves no bookkeeping behind in its cfg (the final pass pops the key and does not store it) -/
theorem C16_bookkeeping_popped (comps : List (String × Bool)) (cfg : Cfg) (hne : links ≠ []) :
    (instantiateClasses F links order comps cfg).applied = [] := by
  unfold instantiateClasses applyLinks
  have : links.isEmpty = false := by
    cases links with
    | nil => exact absurd rfl hne
    | cons _ _ => rfl
  simp [this]

end flow

/-- sensitivity of `C16_bookkeeping_fresh` to the extracted table: were the set written outside cfg (seed C16-2B),
    a call that fails after its first component would leave link 0 marked for the next call -/
example : session ["parser._applied_instantiation_links"] Val.app [(FLink.plain [("a", none)] "b.p0" none)] ["a", "b"]
    [("b", true), ("a", true)] [] [(Cfg.parsed, some 1), (Cfg.parsed, none)] = [[], [0]] := by decide

/-! ### ties: the statements the models were transcribed from

`Jap.Gen.LinkFlowSrc` is regenerated from /repo on every run (harness/extractors/link_flow_src.py: one string per
statement, docstrings / imports / debug logging dropped).  Each theorem states the text the model was written against;
an edit of any of these statements makes the theorem fail, i.e. breaks the tie and triggers the boosted search. -/

/-- `ActionLink.set_target_value` as transcribed by `targetSlots` (the `any` guard of the list branch, the per-item test, the "target not found" return) -/
theorem tie_set_target_value : Jap.Gen.LinkFlowSrc.setTargetValue = [
  "def set_target_value(action: 'ActionLink', value: Any, cfg: Namespace, logger):",
  "  target_key, target_action = action.target",
  "  assert target_action",
  "  if ActionTypeHint.is_subclass_typehint(target_action, all_subtypes=False, also_lists=True):",
  "    if target_key == target_action.dest:",
  "      target_action._check_type(value)",
  "    else:",
  "      parent = cfg.get(target_action.dest)",
  "      child_key = target_key[len(target_action.dest) + 1:]",
  "      if isinstance(parent, list) and any((isinstance(i, Namespace) and child_key in i for i in parent)):",
  "        for item in parent:",
  "          if child_key in item:",
  "            item[child_key] = value",
  "        return",
  "      if target_key not in cfg:",
  "        return",
  "  cfg[target_key] = value"] := rfl

/-- `ActionLink.apply_instantiation_links` as transcribed by `applyLinks`/`applyOne`/`wanted`/`linkValue` -/
theorem tie_apply_instantiation_links : Jap.Gen.LinkFlowSrc.applyInstantiationLinks = [
  "def apply_instantiation_links(parser, cfg, target=None, order=None):",
  "  if not hasattr(parser, '_links_group'):",
  "    return",
  "  applied_key = '__applied_instantiation_links__'",
  "  applied_links = cfg.pop(applied_key) if applied_key in cfg else set()",
  "  link_actions = get_link_actions(parser, 'instantiate', skip=applied_links)",
  "  if order and link_actions:",
  "    link_actions = ActionLink.reorder(order, link_actions)",
  "  for action in link_actions:",
  "    target_key = action.target[0]",
  "    if not (order or target_key == target or target_key.startswith(f'{target}.')) or is_nested_instantiation_link(action):",
  "      continue",
  "    source_objects = []",
  "    for (source_key, source_action) in action.source:",
  "      source_object = cfg[source_action.dest]",
  "      if source_key == source_action.dest:",
  "        source_objects.append(source_object)",
  "      else:",
  "        attr = split_key_leaf(source_key)[1]",
  "        if ActionTypeHint.is_subclass_typehint(source_action) and (not hasattr(source_object, attr)):",
  "          continue",
  "        source_objects.append(getattr(source_object, attr))",
  "    if not source_objects:",
  "      continue",
  "    else:",
  "      if action.compute_fn is None:",
  "        value = source_objects[0]",
  "      else:",
  "        value = action.call_compute_fn(source_objects)",
  "    ActionLink.set_target_value(action, value, cfg, parser.logger)",
  "    applied_links.add(action)",
  "  if target:",
  "    cfg[applied_key] = applied_links"] := rfl

/-- `ActionLink.instantiation_order` as transcribed by `instantiationEdges`/`instantiationOrder` -/
theorem tie_instantiation_order : Jap.Gen.LinkFlowSrc.instantiationOrder = [
  "def instantiation_order(parser):",
  "  actions = get_link_actions(parser, 'instantiate')",
  "  if actions:",
  "    targets = set()",
  "    graph = DirectedGraph()",
  "    for action in actions:",
  "      target = re.sub('\\\\.init_args$', '', split_key_leaf(action.target[0])[0])",
  "      for (_, source_action) in action.source:",
  "        graph.add_edge(source_action.dest, target)",
  "      targets.add(target)",
  "    targets = sorted(targets, key=lambda x: len(split_key(x)))",
  "    seen_targets = {targets[0]}",
  "    for target in targets[1:]:",
  "      parts = [x.replace('|', '.') for x in target.replace('init_args.', 'init_args|').split('.')]",
  "      for num in range(len(parts) - 1):",
  "        target_prefix = '.'.join(parts[:num + 1])",
  "        if target_prefix in seen_targets:",
  "          graph.add_edge(target, target_prefix)",
  "      seen_targets.add(target)",
  "    return graph.get_topological_order()",
  "  return []"] := rfl

/-- `ActionLink.reorder` as transcribed by `reorderLoop` -/
theorem tie_reorder : Jap.Gen.LinkFlowSrc.reorder = [
  "def reorder(order, components):",
  "  ordered = []",
  "  for key in order:",
  "    after = []",
  "    for component in components:",
  "      if key == component.dest or component.dest.startswith(key + '.'):",
  "        ordered.append(component)",
  "      else:",
  "        after.append(component)",
  "    components = after",
  "  return ordered + components"] := rfl

/-- `DirectedGraph.add_edge` as transcribed by `addEdge` -/
theorem tie_add_edge : Jap.Gen.LinkFlowSrc.addEdge = [
  "def add_edge(self, source, target):",
  "  for node in [source, target]:",
  "    if node not in self.nodes:",
  "      self.nodes.append(node)",
  "  source_targets_list = self.edges_dict[self.nodes.index(source)]",
  "  target_index = self.nodes.index(target)",
  "  if target_index not in source_targets_list:",
  "    source_targets_list.append(target_index)"] := rfl

/-- `DirectedGraph.get_topological_order` as transcribed by `topoIdx` -/
theorem tie_get_topological_order : Jap.Gen.LinkFlowSrc.getTopologicalOrder = [
  "def get_topological_order(self):",
  "  exploring = [False] * len(self.nodes)",
  "  visited = [False] * len(self.nodes)",
  "  order = []",
  "  for source in range(len(self.nodes)):",
  "    if not visited[source]:",
  "      self.topological_sort(source, exploring, visited, order)",
  "  return [self.nodes[n] for n in order]"] := rfl

/-- `DirectedGraph.topological_sort` as transcribed by `visit`/`stepFn` -/
theorem tie_topological_sort : Jap.Gen.LinkFlowSrc.topologicalSort = [
  "def topological_sort(self, source, exploring, visited, order):",
  "  exploring[source] = True",
  "  for target in self.edges_dict[source]:",
  "    if exploring[target]:",
  "      raise ValueError(f'Graph has cycles, found while checking {self.nodes[source]} --> {self.nodes[target]}')",
  "    else:",
  "      if not visited[target]:",
  "        self.topological_sort(target, exploring, visited, order)",
  "  visited[source] = True",
  "  exploring[source] = False",
  "  order.insert(0, source)"] := rfl

/-- the component loop of `ArgumentParser.instantiate_classes` as transcribed by `componentOrder`/`icLoop`/`instantiateClasses` -/
theorem tie_component_loop : Jap.Gen.LinkFlowSrc.componentLoop = [
  "components.sort(key=lambda x: -len(split_key(x.dest)))",
  "order = ActionLink.instantiation_order(self)",
  "components = ActionLink.reorder(order, components)",
  "cfg = strip_meta(cfg)",
  "for component in components:",
  "  ActionLink.apply_instantiation_links(self, cfg, target=component.dest)",
  "  if isinstance(component, ActionTypeHint):",
  "    try:",
  "      value, parent, key = cfg.get_value_and_parent(component.dest)",
  "    except (KeyError, AttributeError):",
  "      pass",
  "    else:",
  "      if value is not None:",
  "        with parser_context(parent_parser=self, nested_links=ActionLink.get_nested_links(self, component), class_instantiators=self._get_instantiators()):",
  "          parent[key] = component.instantiate_classes(value)",
  "  else:",
  "    with parser_context(load_value_mode=self.parser_mode, class_instantiators=self._get_instantiators()):",
  "      component.instantiate_class(component, cfg)",
  "ActionLink.apply_instantiation_links(self, cfg, order=order)"] := rfl

/-! ### non-vacuity -/

-- the sort on a diamond with a tail; `order.insert(0, ·)` puts later roots first
example : topo [("a", "b"), ("c", "b"), ("b", "d")] = .ok ["c", "a", "b", "d"] := rfl
example : Acyclic [("a", "b"), ("c", "b"), ("b", "d")] :=
  (C16_complete _).mp ⟨_, rfl⟩
-- a three-cycle is reported at the edge that closes it; a self loop is a cycle
example : topo [(1, 2), (2, 3), (3, 1)] = .error (.cycle 3 1) := rfl
example : topo [("y", "y")] = .error (.cycle "y" "y") := rfl
example : ¬ Acyclic [(1, 2), (2, 3), (3, 1)] := fun h => by
  obtain ⟨o, ho⟩ := (C16_complete _).mpr h
  cases ho
-- duplicate edges are kept once, nodes in first-occurrence order
example : (build [("a", "b"), ("a", "b"), ("b", "c"), ("a", "c")]).edges = [(0, [1, 2]), (1, [2])] := rfl
example : (build [("b", "a"), ("c", "b")]).nodes = ["b", "a", "c"] := rfl
-- the v4.37 shape: two targets sharing a parent get the extra edge nested target --> parent target
example : instantiationEdges
    [⟨["source_a"], "root.child.init_args.grandchild.init_args.param_grandchild"⟩, ⟨["source_b"], "root.child.init_args.param_child"⟩]
    ["root.child", "root.child.init_args.grandchild"]
    = [("source_a", "root.child.init_args.grandchild"), ("source_b", "root.child"),
       ("root.child.init_args.grandchild", "root.child")] := rfl
-- `reorder`: a key takes `key` itself and `key.…`, not names it merely prefixes; extraction is stable
example : keyMatches "a" "ab" = false := by decide
example : keyMatches "a" "a.b" = true := by decide
example : keyMatches "a.b" "a" = false := by decide
example : reorder id ["a", "c"] ["ab", "a.b", "c", "a", "b"] = ["a.b", "a", "c", "ab", "b"] := rfl
example : rank (fun k c => keyMatches k c) ["a", "c"] "ab" = 2 := by decide
-- `FlatKeys` holds for an ordinary three-component link set, and the partial theorem applies to it
example : FlatKeys [⟨["c"], "a.p0"⟩, ⟨["a"], "b.init_args.p0"⟩, ⟨["c", "a"], "b.init_args.p1"⟩] ["a", "b"] ["a", "b", "c"] := by
  decide
example : componentOrder [⟨["c"], "a.p0"⟩, ⟨["a"], "b.init_args.p0"⟩, ⟨["c", "a"], "b.init_args.p1"⟩] ["a", "b"] ["a", "b", "c"]
    = .ok ["c", "a", "b"] := rfl
-- a link closing a cycle is rejected
example : instantiationOrder [⟨["y"], "x.x1"⟩, ⟨["z"], "y.y1"⟩, ⟨["x"], "z.z2"⟩] ["x", "y", "z"]
    = .error (.cycle "z" "y") := rfl

-- value flow on a three-component chain: ready, logged once each, fed values built from constructed objects
example : SourcesReady [(FLink.plain [("c", none)] "a.p0" none), (FLink.plain [("a", some "at")] "b.init_args.p0" none),
    (FLink.plain [("c", some "at"), ("a", none)] "b.init_args.p1" (some "f2"))] [] [("c", true), ("a.p0", false), ("a", true), ("b", true)] := by
  decide
example : (instantiateClasses Val.app [(FLink.plain [("c", none)] "a.p0" none), (FLink.plain [("a", some "at")] "b.init_args.p0" none)]
    ["c", "a", "b"] [("c", true), ("a.p0", false), ("a", true), ("b", true)] Cfg.parsed).log
    = [("c", []), ("a", [("a.p0", .obj "c")]), ("b", [("b.init_args.p0", .attr (.obj "a") "at")])] := rfl
-- the open finding in the flow model: walked in the order the code computes for `badLinks`, `root.child` is fed the
-- raw, un-instantiated configuration of `a`, and `SourcesReady` fails
example : (instantiateClasses Val.app [(FLink.plain [("a", none)] "root.child.init_args.p" none), (FLink.plain [("root", none)] "b.p0" none)]
    ["root", "b", "a", "root.child"] [("root.child", true), ("root", true), ("b", true), ("a", true)] Cfg.parsed).log
    = [("root.child", [("root.child.init_args.p", .ns "a")]), ("root", [("root.child.init_args.p", .ns "a")]),
       ("b", [("b.p0", .obj "root")]), ("a", [])] := rfl
example : ¬ SourcesReady [(FLink.plain [("a", none)] "root.child.init_args.p" none), (FLink.plain [("root", none)] "b.p0" none)] []
    [("root.child", true), ("root", true), ("b", true), ("a", true)] := by decide

-- a target inside a LIST of subclass specs: three specs, the second one's class lacks the parameter; the first and the
-- third are written, the second is untouched (C16_list_delivery applies: subclass-typed, target below the dest, a list)
def exListLink : FLink :=
  { sources := [("s", some "at")], target := "t.elems.init_args.p0", fn := some "f1", tdest := "t.elems", tsub := true,
    parent := .list [some ["class_path", "init_args", "init_args.p0"], some ["class_path", "init_args", "init_args.q"],
                     some ["class_path", "init_args", "init_args.p0", "init_args.p1"]] }
example : childKey exListLink = "init_args.p0" := by decide
example : targetSlots exListLink = ["t.elems.#0.init_args.p0", "t.elems.#2.init_args.p0"] := by decide
example : exListLink.tsub = true ∧ exListLink.target ≠ exListLink.tdest := by decide
example : (instantiateClasses Val.app [exListLink] ["s", "t.elems"] [("s", true), ("t.elems", true), ("t", true)] Cfg.parsed).log
    = [("s", []),
       ("t.elems", [("t.elems.#0.init_args.p0", .app "f1" [.attr (.obj "s") "at"]), ("t.elems.#2.init_args.p0", .app "f1" [.attr (.obj "s") "at"])]),
       ("t", [("t.elems.#0.init_args.p0", .app "f1" [.attr (.obj "s") "at"]), ("t.elems.#2.init_args.p0", .app "f1" [.attr (.obj "s") "at"])])] := rfl
example : SourcesReady [exListLink] [] [("s", true), ("t.elems", true), ("t", true)] := by decide
example : ∀ k ∈ targetSlots exListLink, feeds "t" k = true :=
  C16_slots_inside exListLink "t" (by decide) (by decide)
-- no item has the parameter / the list is empty: nothing is written; a single spec without the parameter: nothing
example : targetSlots { exListLink with parent := .list [some ["class_path", "init_args.q"], none] } = [] := by decide
example : targetSlots { exListLink with parent := .list [] } = [] := by decide
example : targetSlots { exListLink with parent := .single ["class_path", "init_args", "init_args.q"] } = [] := by decide
example : targetSlots { exListLink with parent := .single ["class_path", "init_args", "init_args.p0"] } = ["t.elems.init_args.p0"] := by
  decide
example : targetSlots (FLink.plain [("c", none)] "a.p0" none) = ["a.p0"] := by decide

-- open finding C16-list-below-subclass-dropped, inside the model: the list is an init_arg of a class given as a subclass
-- spec, so `cfg.get(dest)` is a Namespace whose key paths stop at the list: nothing is written, whatever the items hold
def exSubListLink : FLink :=
  { sources := [("a", some "at")], target := "t.init_args.elems.init_args.p0", fn := none, tdest := "t", tsub := true,
    parent := .single ["class_path", "init_args", "init_args.elems", "init_args.r", "init_args.r2"] }
example : targetSlots exSubListLink = [] := by decide

-- a CHAIN of five components, each fed from the previous one (object / attribute through compute_fn / object / two
-- sources), declared in reverse: inside the hypotheses of C16_fed_value_nested / C16_chain_delivery; the model's log
def chainLinks : List FLink :=
  [FLink.plain [("d", none), ("a", some "bt")] "e.p0" (some "f2"), FLink.plain [("c", none)] "d.p1" none,
   { sources := [("b", some "at")], target := "c.init_args.p0", fn := some "f1", tdest := "c", tsub := true,
     parent := .single ["class_path", "init_args", "init_args.p0"] },
   FLink.plain [("a", none)] "b.p0" none]
def chainDests : List String := ["e", "d", "c", "b", "a"]
example : componentOrder (chainLinks.map FLink.toLink) ["e", "d", "c", "b"] chainDests = .ok ["a", "b", "c", "d", "e"] := rfl
example : NestedKeysOK (chainLinks.map FLink.toLink) ["e", "d", "c", "b"] chainDests := by decide
example : chainDests.Nodup ∧ ∀ l ∈ chainLinks, ∀ s ∈ l.sources, s.1 ∈ chainDests ∧ (fun _ => true) s.1 = true := by decide
example : ChainOf (LinkedTo chainLinks) ["a", "b", "c", "d", "e"] :=
  ⟨⟨_, List.mem_cons_of_mem _ (List.mem_cons_of_mem _ (List.mem_cons_of_mem _ List.mem_cons_self)), ⟨("a", none), by decide, rfl⟩, by decide⟩,
   ⟨_, List.mem_cons_of_mem _ (List.mem_cons_of_mem _ List.mem_cons_self), ⟨("b", some "at"), by decide, rfl⟩, by decide⟩,
   ⟨_, List.mem_cons_of_mem _ List.mem_cons_self, ⟨("c", none), by decide, rfl⟩, by decide⟩,
   ⟨_, List.mem_cons_self, ⟨("d", none), by decide, rfl⟩, by decide⟩, trivial⟩
example : (instantiateClasses Val.app chainLinks ["a", "b", "c", "d", "e"]
      [("a", true), ("b", true), ("c", true), ("d", true), ("e", true)] Cfg.parsed).log
    = [("a", []), ("b", [("b.p0", .obj "a")]), ("c", [("c.init_args.p0", .app "f1" [.attr (.obj "b") "at"])]),
       ("d", [("d.p1", .obj "c")]), ("e", [("e.p0", .app "f2" [.obj "d", .attr (.obj "a") "bt"])])] := rfl

-- `OwnedKeys` is satisfiable by a real component list (parameter components `a.p0`, … owned by their class)
def exLinks : List FLink := [(FLink.plain [("c", none)] "a.p0" none), (FLink.plain [("a", some "at")] "b.init_args.p0" none),
  (FLink.plain [("c", some "at"), ("a", none)] "b.init_args.p1" (some "f2"))]
def exDests : List String := ["a.p0", "a.p1", "c", "b", "a"]
def exOwner (d : String) : String := if d = "a.p0" ∨ d = "a.p1" then "a" else d
def exIsClass (d : String) : Bool := d == "a" || d == "b" || d == "c"
example : componentOrder (exLinks.map FLink.toLink) ["a", "b"] exDests = .ok ["c", "a.p0", "a.p1", "a", "b"] := rfl
example : OwnedKeys exLinks ["a", "b"] exDests exIsClass exOwner :=
  ⟨by decide, by decide, by decide, by decide⟩

end Jap.Props.C16


import Jap.Core.Heap
import Jap.Lemmas.Heap
import Jap.Lemmas.HeapOps
import Jap.Core.HeapHist
import Jap.Core.HeapProc
import Jap.Lemmas.HeapHist
import Jap.Lemmas.HeapSafe
import Jap.Lemmas.HeapHeld
import Jap.Gen.HeapSites
import Jap.Gen.Brackets
import Jap.Gen.NsTables
/-!
C08 — Parse, validate, dump and instantiate never modify what they are given.

Model: `Jap.Heap` (Core/Heap.lean), trees whose containers carry an identity; every operation returns the
list of identities it wrote.  The per-kind copy policy `pol`, the copy sites `cs` and the bracket table are
the ones *regenerated from /repo on every run* (Gen/HeapSites, Gen/Brackets); the `tie_*` theorems pin what
the frame proofs need from them, so reverting fix F10/F11, dropping a clone or a try/finally breaks a proof.

All frame theorems quantify over ALL trees, counters and (for the brackets) all bodies and outcomes.
They come in two forms:
* `…_exact`  : full strength for the code as it is — every written identity that belongs to an argument is
               one of the containers the clone still shares with the argument (`sharedMut pol t`);
* `…_partial`: the property's statement (nothing of the argument is written) under the decidable hypothesis
               `sharesWritable t = false`.  The excluded class — an OrderedDict, or a writable container below
               a tuple subclass — is the open finding C08-ordereddict-shared; `C08_frame_dump_full_fails`
               proves the unrestricted statement false on a witness.
-/
namespace Jap.Props.C08
open Jap.Heap

/-- the copy policy of the code as it is now -/
def pol : Policy :=
  policyOfTable Jap.Gen.HeapSites.kindTable Jap.Gen.HeapSites.stripMetaCopiesEmpty Jap.Gen.HeapSites.dictSubclassContentKept
/-- the copy sites of the code as it is now -/
def cs : Sites := sitesOfTable Jap.Gen.HeapSites.copySites
def metaKeys : List String := Jap.Gen.metaKeys

/-! ## tie: what the proofs need from the regenerated tables -/

/-- `recreate_branches` copies namespaces, dicts, lists and (fix F11) tuples; sets, OrderedDicts and tuple
    subclasses are returned as they are. -/
theorem tie_policy_recreated :
    pol.recreated .ns = true ∧ pol.recreated .dict = true ∧ pol.recreated .list = true ∧ pol.recreated .tuple = true ∧
    pol.recreated .dictsub = true ∧ pol.recreated .set = false ∧ pol.recreated .odict = false ∧ pol.recreated .ntuple = false := by decide

/-- the adapter assigns into lists, dicts, namespaces and OrderedDicts in place; tuples, sets and tuple
    subclasses are copied into a fresh list first. -/
theorem tie_policy_inplace :
    pol.inplace .ns = true ∧ pol.inplace .dict = true ∧ pol.inplace .list = true ∧ pol.inplace .odict = true ∧
    pol.inplace .dictsub = true ∧
    pol.inplace .tuple = false ∧ pol.inplace .set = false ∧ pol.inplace .ntuple = false := by decide

/-- every public operation copies its configuration argument before anything else is done with it
    (dump/instantiate: strip_meta; validate/strip_unknown/merge_config: clone; parse_object: recreate_branches — fix F10;
    get_defaults: recreate_branches(action.default)). -/
theorem tie_copy_sites :
    cs.dump = true ∧ cs.validate = true ∧ cs.mergeFrom = true ∧ cs.mergeTo = true ∧ cs.stripUnknown = true ∧
    cs.instantiate = true ∧ cs.parseObject = true ∧ cs.parseObjectBase = true ∧ cs.getDefaults = true := by decide

/-- `parse_args(args, namespace)` copies both; `save` hands its config to dump/clone only. -/
theorem tie_copy_sites_parse_args :
    cs.parseArgsNs = true ∧ cs.parseArgsArgs = true ∧ cs.saveCfg = true := by decide

/-- all twelve copy sites, as the history theorems need them -/
theorem sitesOk : SitesOk cs :=
  ⟨by decide, by decide, by decide, by decide, by decide, by decide, by decide, by decide, by decide, by decide, by decide, by decide⟩

/-- instances of dict subclasses (plain subclass, defaultdict) are copied WITH their entries (fix 2278288, probed) -/
theorem tie_dict_subclass : pol.subContent = true := by decide

/-- `strip_meta` copies an empty configuration too (fix 3b44d63, probed on the live code) -/
theorem tie_strip_meta_empty : pol.stripEmpty = true := by decide

/-- the live probes of every public entry point that takes a caller-owned object (Gen/HeapSites.entryProbes, one real
    call each, in a child process): the argument is as it was — value, types and identities of every nested container —
    and no list/dict/Namespace of it is part of the result.  An entry point that cannot be probed is a broken tie. -/
theorem tie_entry_probes :
    ["dump.cfg", "validate.cfg", "validate.branch", "merge_config.cfg_from", "merge_config.cfg_to", "strip_unknown.cfg",
     "instantiate_classes.cfg", "instantiate_classes.empty", "strip_meta.empty", "parse_object.cfg_obj.dict",
     "parse_object.cfg_obj.namespace", "parse_object.cfg_base", "parse_args.namespace", "parse_args.namespace.nodefaults",
     "parse_object.cfg_base.nodefaults", "parse_args.args", "parse_env.env",
     "save.cfg.single", "save.cfg.multi", "get_defaults.default", "auto_cli.args"].all
      (fun site => Jap.Gen.HeapSites.entryProbes.lookup site == some "unchanged") = true := by decide

/-- `set_defaults` and `add_argument(default=…)` KEEP the caller's object as the declared default (argparse semantics,
    `self._defaults[dest] = action.default = default`): the model's `setDefault` stores the value itself.  That nothing
    ever writes it is `C08_history_*`; that the caller's own later mutation is seen by the parser is `setDefault_aliases`. -/
theorem tie_defaults_kept :
    Jap.Gen.HeapSites.entryProbes.lookup "set_defaults.value" = some "kept" ∧
    Jap.Gen.HeapSites.entryProbes.lookup "add_argument.default" = some "kept" := by decide

/-- `C08_fresh` counts one object per spec *of the configuration*; that this covers the specs derived from
    signature defaults (lazy_instance) rests on `add_sub_defaults` writing them into `init_args` wherever a class
    spec can sit — as the value, in a list, in a dict — so that no instantiation falls back to the one live default
    object of the signature (probed on the live code). -/
theorem tie_sub_defaults_expanded :
    ["spec", "list", "dict", "instantiated-fresh"].all (fun k => lookupSite k Jap.Gen.HeapSites.subDefaults) = true := by decide

/-! ## the finding class as an explicit decidable predicate -/

def writableKind : Kind → Bool
  | .list | .dict | .ns | .odict | .dictsub => true
  | _ => false

mutual
/-- a list, dict, namespace or OrderedDict somewhere in the value -/
def hasWritable : T → Bool
  | .atom _ => false
  | .node kd _ kids => writableKind kd || hasWritableK kids
def hasWritableK : Kids → Bool
  | [] => false
  | (_, x) :: r => hasWritable x || hasWritableK r
end

mutual
/-- signature of the open finding C08-ordereddict-shared: the value contains an OrderedDict, or a tuple
    subclass (or a set — impossible in Python, set elements are hashable) with a writable container below it -/
def sharesWritable : T → Bool
  | .atom _ => false
  | .node kd _ kids =>
    match kd with
    | .odict => true
    | .ntuple => hasWritableK kids
    | .set => hasWritableK kids
    | _ => sharesWritableK kids
def sharesWritableK : Kids → Bool
  | [] => false
  | (_, x) :: r => sharesWritable x || sharesWritableK r
end

theorem inplace_writable (kd : Kind) : pol.inplace kd = writableKind kd := by
  cases kd <;> decide

mutual
theorem mutIds_nil_of_not_hasWritable : ∀ (t : T), hasWritable t = false → mutIds pol t = []
  | .atom _, _ => by simp [mutIds]
  | .node kd i kids, h => by
    simp only [hasWritable, Bool.or_eq_false_iff] at h
    simp only [mutIds, inplace_writable, h.1, Bool.false_eq_true, ↓reduceIte, List.nil_append]
    exact mutIdsK_nil_of_not_hasWritableK kids h.2
theorem mutIdsK_nil_of_not_hasWritableK : ∀ (ts : Kids), hasWritableK ts = false → mutIdsK pol ts = []
  | [], _ => by simp [mutIdsK]
  | (_, x) :: r, h => by
    simp only [hasWritableK, Bool.or_eq_false_iff] at h
    simp only [mutIdsK, mutIds_nil_of_not_hasWritable x h.1, mutIdsK_nil_of_not_hasWritableK r h.2, List.append_nil]
end

mutual
/-- outside the finding class a clone shares nothing writable with its original -/
theorem sharedMut_nil : ∀ (t : T), sharesWritable t = false → sharedMut pol t = []
  | .atom _, _ => by simp [sharedMut]
  | .node kd i kids, h => by
    cases kd with
    | odict => simp [sharesWritable] at h
    | ntuple =>
      simp only [sharesWritable] at h
      have hr : pol.recreated .ntuple = false := by decide
      have hi : pol.inplace .ntuple = false := by decide
      simp only [sharedMut, hr, Bool.false_eq_true, ↓reduceIte, mutIds, hi, List.nil_append]
      exact mutIdsK_nil_of_not_hasWritableK kids h
    | set =>
      simp only [sharesWritable] at h
      have hr : pol.recreated .set = false := by decide
      have hi : pol.inplace .set = false := by decide
      simp only [sharedMut, hr, Bool.false_eq_true, ↓reduceIte, mutIds, hi, List.nil_append]
      exact mutIdsK_nil_of_not_hasWritableK kids h
    | list =>
      simp only [sharesWritable] at h
      have hr : pol.recreated .list = true := by decide
      simp only [sharedMut, hr, ↓reduceIte]
      exact sharedMutK_nil kids h
    | tuple =>
      simp only [sharesWritable] at h
      have hr : pol.recreated .tuple = true := by decide
      simp only [sharedMut, hr, ↓reduceIte]
      exact sharedMutK_nil kids h
    | dict =>
      simp only [sharesWritable] at h
      have hr : pol.recreated .dict = true := by decide
      simp only [sharedMut, hr, ↓reduceIte]
      exact sharedMutK_nil kids h
    | ns =>
      simp only [sharesWritable] at h
      have hr : pol.recreated .ns = true := by decide
      simp only [sharedMut, hr, ↓reduceIte]
      exact sharedMutK_nil kids h
    | dictsub =>
      simp only [sharesWritable] at h
      have hr : pol.recreated .dictsub = true := by decide
      simp only [sharedMut, hr, ↓reduceIte]
      exact sharedMutK_nil kids h
theorem sharedMutK_nil : ∀ (ts : Kids), sharesWritableK ts = false → sharedMutK pol ts = []
  | [], _ => by simp [sharedMutK]
  | (_, x) :: r, h => by
    simp only [sharesWritableK, Bool.or_eq_false_iff] at h
    simp only [sharedMutK, sharedMut_nil x h.1, sharedMutK_nil r h.2, List.append_nil]
end

/-! ## frame theorems

`ok i := i ∈ args → i ∈ shared`: an identity is acceptable as a write target when it does not belong to
the arguments, or is one of the writable containers their clones still share. -/

theorem fresh_of_bound {args shared : List Nat} {k : Nat} (hk : ∀ j ∈ args, j < k) :
    Fresh (fun i => i ∈ args → i ∈ shared) k := by
  intro j hj hmem
  have := hk j hmem
  omega

/-- C08_frame_dump, exact form: whatever `dump` writes inside its argument is a container that
    `recreate_branches` still shares (an OrderedDict, or something below a tuple subclass). -/
theorem C08_frame_dump_exact (t : T) (k : Nat) (hk : ∀ j ∈ ids t, j < k) :
    ∀ i ∈ (dump pol cs metaKeys t k).writes, i ∈ ids t → i ∈ sharedMut pol t :=
  dump_spec pol cs metaKeys (fun i => i ∈ ids t → i ∈ sharedMut pol t) t k (by decide) (fun _ hi _ => hi) (fresh_of_bound hk)

/-
Full statement (FALSE for the code as it is, see `C08_frame_dump_full_fails`):
  theorem C08_frame_dump (t : T) (k : Nat) (hk : ∀ j ∈ ids t, j < k) :
      ∀ i ∈ (dump pol cs metaKeys t k).writes, i ∉ ids t
-/

/-- the caller's config `Namespace(od=OrderedDict(a=(1, Color.red)))`: dump writes into the OrderedDict 2 -/
def odictWitness : T := T.ns 1 [("od", T.odict 2 [("a", T.tuple 3 [.atom 1, .atom 2])])]

theorem C08_frame_dump_full_fails :
    ¬ (∀ (t : T) (k : Nat), (∀ j ∈ ids t, j < k) → ∀ i ∈ (dump pol cs metaKeys t k).writes, i ∉ ids t) := by
  intro h
  exact absurd (h odictWitness 100 (by decide) 2 (by decide)) (by decide)

/-- C08_frame_dump under the forced hypothesis: every identity `dump` writes is fresh. -/
theorem C08_frame_dump_partial (t : T) (k : Nat) (hk : ∀ j ∈ ids t, j < k) (hs : sharesWritable t = false) :
    ∀ i ∈ (dump pol cs metaKeys t k).writes, i ∉ ids t := by
  intro i hi hmem
  have := C08_frame_dump_exact t k hk i hi hmem
  rw [sharedMut_nil t hs] at this
  simp at this

theorem C08_frame_validate_exact (t : T) (k : Nat) (hk : ∀ j ∈ ids t, j < k) :
    ∀ i ∈ (validate pol cs t k).writes, i ∈ ids t → i ∈ sharedMut pol t :=
  (validate_spec pol cs (fun i => i ∈ ids t → i ∈ sharedMut pol t) t k
    (Or.inl ⟨by decide, fun _ hi _ => hi⟩) (fresh_of_bound hk)).1

/- Full statement (FALSE for the code as it is): ∀ i ∈ (validate pol cs t k).writes, i ∉ ids t -/
theorem C08_frame_validate_full_fails :
    ¬ (∀ (t : T) (k : Nat), (∀ j ∈ ids t, j < k) → ∀ i ∈ (validate pol cs t k).writes, i ∉ ids t) := by
  intro h
  exact absurd (h odictWitness 100 (by decide) 2 (by decide)) (by decide)

theorem C08_frame_validate_partial (t : T) (k : Nat) (hk : ∀ j ∈ ids t, j < k) (hs : sharesWritable t = false) :
    ∀ i ∈ (validate pol cs t k).writes, i ∉ ids t := by
  intro i hi hmem
  have := C08_frame_validate_exact t k hk i hi hmem
  rw [sharedMut_nil t hs] at this
  simp at this

/-- merge_config: neither `cfg_from` nor `cfg_to` is written; the result's writable containers are not theirs -/
theorem C08_frame_merge_exact (src to : T) (k : Nat) (hk : ∀ j ∈ ids src ++ ids to, j < k) :
    (∀ i ∈ (mergeConfig pol cs src to k).writes, i ∈ ids src ++ ids to → i ∈ sharedMut pol src ++ sharedMut pol to) ∧
    (∀ i ∈ mutIds pol (mergeConfig pol cs src to k).val, i ∈ ids src ++ ids to → i ∈ sharedMut pol src ++ sharedMut pol to) := by
  have h := mergeConfig_spec pol cs (fun i => i ∈ ids src ++ ids to → i ∈ sharedMut pol src ++ sharedMut pol to)
    (by decide) src to k
    (Or.inl ⟨by decide, fun i hi _ => List.mem_append.mpr (Or.inl hi)⟩)
    (Or.inl ⟨by decide, fun i hi _ => List.mem_append.mpr (Or.inr hi)⟩) (fresh_of_bound hk)
  exact ⟨h.1, h.2.1⟩

theorem C08_frame_merge_partial (src to : T) (k : Nat) (hk : ∀ j ∈ ids src ++ ids to, j < k)
    (h1 : sharesWritable src = false) (h2 : sharesWritable to = false) :
    (∀ i ∈ (mergeConfig pol cs src to k).writes, i ∉ ids src ∧ i ∉ ids to) ∧
    (∀ i ∈ mutIds pol (mergeConfig pol cs src to k).val, i ∉ ids src ∧ i ∉ ids to) := by
  have h := C08_frame_merge_exact src to k hk
  rw [sharedMut_nil src h1, sharedMut_nil to h2] at h
  constructor
  · intro i hi
    have := h.1 i hi
    simp only [List.append_nil, List.not_mem_nil, imp_false, List.mem_append, not_or] at this
    exact this
  · intro i hi
    have := h.2 i hi
    simp only [List.append_nil, List.not_mem_nil, imp_false, List.mem_append, not_or] at this
    exact this

/-- strip_unknown works on a clone -/
theorem C08_frame_strip_unknown_partial (known : List String) (t : T) (k : Nat) (i0 : Nat) (kids : Kids)
    (ht : t = .node .ns i0 kids) (hk : ∀ j ∈ ids t, j < k) (hs : sharesWritable t = false) :
    ∀ i ∈ (stripUnknown pol cs known t k).writes, i ∉ ids t := by
  have h := stripUnknown_spec pol cs (fun i => i ∈ ids t → i ∈ sharedMut pol t) (by decide) known t k
    (by intro kd hkd; subst ht; simp only [kindOf, Option.some.injEq] at hkd; subst hkd; decide)
    (Or.inl ⟨by decide, fun _ hi _ => hi⟩) (fresh_of_bound hk)
  intro i hi hmem
  have := h.1 i hi hmem
  rw [sharedMut_nil t hs] at this
  simp at this

/-- the arguments of parse_object: the object, the optional base and the parser's declared defaults -/
def poArgs (ds : Kids) (base : Option T) (obj : T) : List Nat :=
  idsK ds ++ (match base with | some b => ids b | none => []) ++ ids obj

def poShared (ds : Kids) (base : Option T) (obj : T) : List Nat :=
  sharedMutK pol ds ++ (match base with | some b => sharedMut pol b | none => []) ++ sharedMut pol obj

/-- parse_object (fix F10: it works on a copy): object, base and declared defaults are written at most in
    what their clones share -/
theorem C08_frame_parse_object_exact (ds : Kids) (base : Option T) (obj : T) (k : Nat)
    (hk : ∀ j ∈ poArgs ds base obj, j < k) :
    ∀ i ∈ (parseObject pol cs ds base obj k).writes, i ∈ poArgs ds base obj → i ∈ poShared ds base obj := by
  apply parseObject_spec pol cs (fun i => i ∈ poArgs ds base obj → i ∈ poShared ds base obj)
    (by decide) (by decide) (by decide) (by decide) (by decide) ds base obj k
  · intro i hi _
    simp only [poShared, List.mem_append]; exact Or.inl (Or.inl hi)
  · intro b hb i hi _
    subst hb
    simp only [poShared, List.mem_append]; exact Or.inl (Or.inr hi)
  · intro i hi _
    simp only [poShared, List.mem_append]; exact Or.inr hi
  · exact fresh_of_bound hk

/- Full statement (FALSE for the code as it is): ∀ i ∈ (parseObject pol cs ds base obj k).writes, i ∉ poArgs ds base obj -/
theorem C08_frame_parse_object_full_fails :
    ¬ (∀ (ds : Kids) (base : Option T) (obj : T) (k : Nat), (∀ j ∈ poArgs ds base obj, j < k) →
        ∀ i ∈ (parseObject pol cs ds base obj k).writes, i ∉ poArgs ds base obj) := by
  intro h
  exact absurd (h [] none odictWitness 100 (by decide) 2 (by decide)) (by decide)

theorem C08_frame_parse_object_partial (ds : Kids) (base : Option T) (obj : T) (k : Nat)
    (hk : ∀ j ∈ poArgs ds base obj, j < k)
    (hds : sharesWritableK ds = false) (hbase : ∀ b, base = some b → sharesWritable b = false)
    (hobj : sharesWritable obj = false) :
    ∀ i ∈ (parseObject pol cs ds base obj k).writes, i ∉ poArgs ds base obj := by
  intro i hi hmem
  have := C08_frame_parse_object_exact ds base obj k hk i hi hmem
  have hb : (match base with | some b => sharedMut pol b | none => []) = [] := by
    cases base with
    | none => rfl
    | some b => exact sharedMut_nil b (hbase b rfl)
  simp only [poShared, sharedMutK_nil ds hds, hb, sharedMut_nil obj hobj, List.append_nil, List.not_mem_nil] at this

theorem stripShared_eq (t : T) : stripShared pol t = sharedMut pol t := by
  simp [stripShared, tie_strip_meta_empty]

/-- instantiate_classes works on `strip_meta(cfg)` — for EVERY configuration, the empty one included (fix F29) -/
theorem C08_frame_instantiate_exact (t : T) (k : Nat) (hk : ∀ j ∈ ids t, j < k) :
    ∀ i ∈ (instantiate pol cs metaKeys t k).writes, i ∈ ids t → i ∈ sharedMut pol t :=
  (instantiate_spec pol cs metaKeys (fun i => i ∈ ids t → i ∈ sharedMut pol t) t k (by decide)
    (fun i hi _ => by rw [stripShared_eq] at hi; exact hi) (fresh_of_bound hk)).1

/- Full statement (FALSE for the code as it is): ∀ i ∈ (instantiate pol cs metaKeys t k).writes, i ∉ ids t -/
theorem C08_frame_instantiate_full_fails :
    ¬ (∀ (t : T) (k : Nat), (∀ j ∈ ids t, j < k) → ∀ i ∈ (instantiate pol cs metaKeys t k).writes, i ∉ ids t) := by
  intro h
  exact absurd (h odictWitness 100 (by decide) 2 (by decide)) (by decide)

theorem C08_frame_instantiate_partial (t : T) (k : Nat) (hk : ∀ j ∈ ids t, j < k) (hs : sharesWritable t = false) :
    ∀ i ∈ (instantiate pol cs metaKeys t k).writes, i ∉ ids t := by
  intro i hi hmem
  have := C08_frame_instantiate_exact t k hk i hi hmem
  rw [sharedMut_nil t hs] at this
  simp at this

/-- regression F29: before fix 3b44d63 `strip_meta` handed an empty configuration back itself, and the objects of
    class groups / the values of instantiation links were assigned into the caller's empty namespace 1 -/
def polBeforeF29 : Policy := { pol with stripEmpty := false }

theorem C08_regression_F29_before : 1 ∈ (instantiate polBeforeF29 cs metaKeys (T.ns 1 []) 100).writes := by decide

theorem C08_regression_F29_now : ∀ i ∈ (instantiate pol cs metaKeys (T.ns 1 []) 100).writes, i ≠ 1 := by decide

/-- regression F31: before fix 2278288 `recreate_branches` iterated the instance `__dict__` of a dict-subclass value
    instead of the mapping: the working copy of `MyDict(a=[…], class_path=…)` came out EMPTY — clone, strip_meta, dump and
    instantiate_classes silently lost its entries (and the class spec inside it was not instantiated) -/
def polBeforeF31 : Policy := { pol with subContent := false }

def dictsubWitness : T := T.ns 1 [("d", T.dictsub 2 [("a", T.list 3 [.atom 1]), ("m", T.ns 4 [("class_path", .atom 9)])])]

theorem C08_regression_F31_before :
    (clone polBeforeF31 dictsubWitness 100).val = T.ns 101 [("d", T.dictsub 100 [])] ∧
    (instantiate polBeforeF31 cs metaKeys dictsubWitness 100).objs = [] := ⟨by rfl, by decide⟩

theorem C08_regression_F31_now :
    (clone pol dictsubWitness 100).val = T.ns 103 [("d", T.dictsub 102 [("a", T.list 100 [.atom 1]), ("m", T.ns 101 [("class_path", .atom 9)])])] ∧
    (instantiate pol cs metaKeys dictsubWitness 100).objs.length = 1 := ⟨by rfl, by decide⟩

/-- in general: a clone has the keys of its original on every level (nothing is lost), for every value -/
theorem C08_clone_keeps_keys (kd : Kind) (i : Nat) (kids : Kids) (k : Nat) (hr : pol.recreated kd = true) :
    ∃ j kids', (clone pol (.node kd i kids) k).val = .node kd j kids' ∧ keysOf kids' = keysOf kids := by
  have hd : (decide (kd = .dictsub) && !pol.subContent) = false := by simp [tie_dict_subclass]
  refine ⟨(recreateK pol [] kids k).next, (recreateK pol [] kids k).val, ?_, recreateK_keys_nil pol kids k⟩
  simp only [clone, recreate, hr, hd, Bool.false_eq_true, ↓reduceIte]

/-- dict-subclass values are outside the finding class: fresh copy, nothing shared -/
example : sharesWritable dictsubWitness = false := by decide

/-! ## declared defaults -/

/-- C08_defaults_unchanged: `get_defaults` hands out copies.  Building the namespace writes nothing of the
    declared defaults, every writable container of the namespace handed out is new, and therefore whatever a
    later parse / dump / instantiation (the worst-case mutator, any mode) writes into that namespace never
    reaches `action.default`. -/
/- Full statement (FALSE for the code as it is): the same without `hs` — an OrderedDict default is handed out itself:
   `(getDefaults pol cs [("od", T.odict 2 [("a", T.list 3 [.atom 1])])] 100)` has the declared OrderedDict 2 among its writes. -/
theorem C08_defaults_unchanged_full_fails :
    2 ∈ (getDefaults pol cs [("od", T.odict 2 [("a", T.list 3 [.atom 1])])] 100).writes := by decide

theorem C08_defaults_unchanged (ds : Kids) (k : Nat) (hk : ∀ j ∈ idsK ds, j < k) (hs : sharesWritableK ds = false)
    (m : Mode) :
    (∀ i ∈ (getDefaults pol cs ds k).writes, i ∉ idsK ds) ∧
    (∀ i ∈ mutIds pol (getDefaults pol cs ds k).val, i ∉ idsK ds) ∧
    (∀ i ∈ (mutT pol m (getDefaults pol cs ds k).val (getDefaults pol cs ds k).next).writes, i ∉ idsK ds) := by
  have hf : Fresh (fun i => i ∉ idsK ds) k := by
    intro j hj hmem; have := hk j hmem; omega
  have h := getDefaults_spec pol cs (fun i => i ∉ idsK ds) (by decide) ds k
    (by rw [sharedMutK_nil ds hs]; intro i hi; simp at hi) hf
  exact ⟨h.1, h.2.1, (mutT_spec pol m (fun i => i ∉ idsK ds) _ _ h.2.1 (hf.mono h.2.2)).1⟩

/-! ## fresh objects -/

/-- C08_fresh: instantiating twice from one configuration builds two disjoint sets of new objects, the same
    number each time — one per class_path spec of the working copy — none of them an identity of the argument. -/
theorem C08_fresh (t : T) (k : Nat) (hk : ∀ j ∈ ids t, j < k) :
    let r1 := instantiate pol cs metaKeys t k
    let r2 := instantiate pol cs metaKeys t r1.next
    r1.objs.Nodup ∧ r2.objs.Nodup ∧ (∀ o ∈ r1.objs, o ∉ r2.objs) ∧
    r1.objs.length = r2.objs.length ∧ (∀ o ∈ r1.objs ++ r2.objs, o ∉ ids t) := by
  intro r1 r2
  have hcs : cs.instantiate = true := by decide
  -- working copies
  let c1 := stripMeta pol metaKeys t k
  have hc1 : k ≤ c1.next := by
    show k ≤ (stripMeta pol metaKeys t k).next
    unfold stripMeta; split
    · exact Nat.le_refl _
    · exact (recreate_spec pol metaKeys (fun _ => True) t k (fun _ _ => trivial) (fun _ _ => trivial)).2
  have e1o : r1.objs = (mutT pol .inst c1.val c1.next).objs := by
    show (instantiate pol cs metaKeys t k).objs = _
    simp only [instantiate, instMut, hcs, copyIf, ↓reduceIte]; rfl
  have e1n : r1.next = (mutT pol .inst c1.val c1.next).next := by
    show (instantiate pol cs metaKeys t k).next = _
    simp only [instantiate, instMut, hcs, copyIf, ↓reduceIte]; rfl
  let c2 := stripMeta pol metaKeys t r1.next
  have hc2 : r1.next ≤ c2.next := by
    show r1.next ≤ (stripMeta pol metaKeys t r1.next).next
    unfold stripMeta; split
    · exact Nat.le_refl _
    · exact (recreate_spec pol metaKeys (fun _ => True) t r1.next (fun _ _ => trivial) (fun _ _ => trivial)).2
  have e2o : r2.objs = (mutT pol .inst c2.val c2.next).objs := by
    show (instantiate pol cs metaKeys t r1.next).objs = _
    simp only [instantiate, instMut, hcs, copyIf, ↓reduceIte]; rfl
  have o1 := mutT_objs pol .inst c1.val c1.next
  have o2 := mutT_objs pol .inst c2.val c2.next
  rw [← e1o, ← e1n] at o1
  rw [← e2o] at o2
  -- the number of specs does not depend on the counter
  have hlen : specCount pol c1.val = specCount pol c2.val := by
    show specCount pol (stripMeta pol metaKeys t k).val = specCount pol (stripMeta pol metaKeys t r1.next).val
    exact specCount_stripMeta pol metaKeys t k r1.next
  refine ⟨o1.2.1, o2.2.1, ?_, ?_, ?_⟩
  · intro o ho ho2
    have a := o1.1 o ho
    have b := o2.1 o ho2
    omega
  · rw [o1.2.2.2, o2.2.2.2]; simpa using hlen
  · intro o ho hmem
    have hb := hk o hmem
    rcases List.mem_append.mp ho with ho | ho
    · have := o1.1 o ho; omega
    · have := o2.1 o ho
      have := o1.2.2.1
      omega

/-- … and that number is the number of specs of the configuration itself (no meta keys involved) -/
theorem C08_fresh_count (t : T) (k : Nat) :
    (instantiate pol cs [] t k).objs.length = specCount pol t := by
  have hcs : cs.instantiate = true := by decide
  have h := mutT_objs pol .inst (recreate pol [] t k).val (recreate pol [] t k).next
  simp only [instantiate, instMut, hcs, copyIf, ↓reduceIte, stripMeta, tie_strip_meta_empty, Bool.not_true, Bool.and_false, Bool.false_eq_true]
  rw [h.2.2.2]
  simp only [↓reduceIte]
  exact specCount_recreate pol tie_dict_subclass t k

/-! ## the remaining entry points: parse_args(args, namespace), validate(branch=), save, parse_string/path/env -/

/-- the caller-side objects of parse_args: declared defaults, the optional namespace, the argv list -/
def paArgs (ds : Kids) (ns : Option T) (argv : T) : List Nat :=
  idsK ds ++ (match ns with | some n => ids n | none => []) ++ ids argv

/-- … and what working copies share with them; the argv list shares nothing (`args = list(args)`) -/
def paShared (ds : Kids) (ns : Option T) : List Nat :=
  sharedMutK pol ds ++ (match ns with | some n => sharedMut pol n | none => [])

/-- parse_args: the namespace handed in goes through merge_config (cloned), the argv list is copied before it is
    stored on the parser and consumed — for EVERY argv value the caller's list is never written -/
theorem C08_frame_parse_args_exact (ds : Kids) (ns : Option T) (argv : T) (k : Nat)
    (hk : ∀ j ∈ paArgs ds ns argv, j < k) :
    ∀ i ∈ (parseArgs pol cs ds ns argv k).writes, i ∈ paArgs ds ns argv → i ∈ paShared ds ns := by
  refine (parseArgs_spec pol cs (fun i => i ∈ paArgs ds ns argv → i ∈ paShared ds ns)
    (by decide) (by decide) (by decide) (by decide) (by decide) ds ns argv k ?_ ?_ (fresh_of_bound hk)).1
  · intro i hi _
    simp only [paShared, List.mem_append]; exact Or.inl hi
  · intro n hn i hi _
    subst hn
    simp only [paShared, List.mem_append]; exact Or.inr hi

theorem C08_frame_parse_args_partial (ds : Kids) (ns : Option T) (argv : T) (k : Nat)
    (hk : ∀ j ∈ paArgs ds ns argv, j < k)
    (hds : sharesWritableK ds = false) (hns : ∀ n, ns = some n → sharesWritable n = false) :
    ∀ i ∈ (parseArgs pol cs ds ns argv k).writes, i ∉ paArgs ds ns argv := by
  intro i hi hmem
  have := C08_frame_parse_args_exact ds ns argv k hk i hi hmem
  have hb : (match ns with | some n => sharedMut pol n | none => []) = [] := by
    cases ns with
    | none => rfl
    | some n => exact sharedMut_nil n (hns n rfl)
  simp only [paShared, sharedMutK_nil ds hds, hb, List.append_nil, List.not_mem_nil] at this

/-- Full statement (FALSE for the code as it is): an OrderedDict inside the namespace handed in is rewritten -/
theorem C08_frame_parse_args_full_fails :
    2 ∈ (parseArgs pol cs [] (some odictWitness) (T.list 50 [.atom 1]) 100).writes := by decide

/-- validate(cfg, branch=b): the clone, not the caller's branch object, is wrapped in the new namespace (seed C08-4B) -/
theorem C08_frame_validate_branch_exact (branch : String) (t : T) (k : Nat) (hk : ∀ j ∈ ids t, j < k) :
    ∀ i ∈ (validateBranch pol cs branch t k).writes, i ∈ ids t → i ∈ sharedMut pol t :=
  (validateBranch_spec pol cs (fun i => i ∈ ids t → i ∈ sharedMut pol t) branch t k
    (Or.inl ⟨by decide, fun _ hi _ => hi⟩) (fresh_of_bound hk)).1

theorem C08_frame_validate_branch_partial (branch : String) (t : T) (k : Nat) (hk : ∀ j ∈ ids t, j < k)
    (hs : sharesWritable t = false) :
    ∀ i ∈ (validateBranch pol cs branch t k).writes, i ∉ ids t := by
  intro i hi hmem
  have := C08_frame_validate_branch_exact branch t k hk i hi hmem
  rw [sharedMut_nil t hs] at this
  simp at this

/-- what wrapping the caller's own branch object would do (seed C08-4B): its list 2 is written -/
theorem C08_validate_branch_without_clone :
    2 ∈ (validateBranch pol { cs with validate := false } "g" (T.ns 1 [("n", T.list 2 [.atom 0])]) 100).writes := by decide

/-- save, single file and multifile (clone, validate, `__path__` entries of the clone replaced, dump) -/
theorem C08_frame_save_exact (multifile : Bool) (t : T) (k : Nat) (hk : ∀ j ∈ ids t, j < k) :
    ∀ i ∈ (save pol cs metaKeys multifile t k).writes, i ∈ ids t → i ∈ sharedMut pol t :=
  (save_spec pol cs metaKeys (fun i => i ∈ ids t → i ∈ sharedMut pol t) multifile t k (by decide) (by decide)
    (fun _ hi _ => hi) (fresh_of_bound hk)).1

theorem C08_frame_save_partial (multifile : Bool) (t : T) (k : Nat) (hk : ∀ j ∈ ids t, j < k)
    (hs : sharesWritable t = false) :
    ∀ i ∈ (save pol cs metaKeys multifile t k).writes, i ∉ ids t := by
  intro i hi hmem
  have := C08_frame_save_exact multifile t k hk i hi hmem
  rw [sharedMut_nil t hs] at this
  simp at this

/-- parse_string / parse_path / parse_env: the loaded value is the library's own; only the declared defaults are
    caller-visible, and they are written at most in what their copies share -/
theorem C08_frame_parse_text_exact (ds : Kids) (shape : T) (k : Nat) (hk : ∀ j ∈ idsK ds, j < k) :
    ∀ i ∈ (parseText pol cs ds shape k).writes, i ∈ idsK ds → i ∈ sharedMutK pol ds :=
  (parseText_spec pol cs (fun i => i ∈ idsK ds → i ∈ sharedMutK pol ds) (by decide) (by decide) (by decide) (by decide)
    ds shape k (fun _ hi _ => hi) (fresh_of_bound hk)).1

theorem C08_frame_parse_text_partial (ds : Kids) (shape : T) (k : Nat) (hk : ∀ j ∈ idsK ds, j < k)
    (hs : sharesWritableK ds = false) :
    ∀ i ∈ (parseText pol cs ds shape k).writes, i ∉ idsK ds := by
  intro i hi hmem
  have := C08_frame_parse_text_exact ds shape k hk i hi hmem
  rw [sharedMutK_nil ds hs] at this
  simp at this

/-! ## histories: any sequence of operations, results fed back as arguments

`St` = declared defaults + the values the caller holds + fresh counter; `Op` = dump, validate(branch), merge_config,
strip_unknown, instantiate_classes, parse_object(+base), parse_args(argv, namespace), parse_string/path/env, save,
get_defaults, set_defaults/add_argument(default) — arguments are indices into what the caller holds, which grows by
every configuration an operation hands out. -/

/-- C08_history, exact form: in a history of ANY length, whatever any operation writes inside an object the caller held
    at the start, or inside a declared default, is a container `recreate_branches` still shares (the open OrderedDict /
    tuple-subclass finding) — whichever results of earlier operations are fed back as arguments, and also when the
    caller's own objects are made declared defaults on the way (`setDefault`). -/
theorem C08_history_exact (ops : List Op) (s : St) (hk : ∀ j ∈ s.ids, j < s.k) :
    ∀ ws ∈ runHist pol cs metaKeys ops s, ∀ w ∈ ws, w ∈ s.ids → w ∈ s.shared pol := by
  apply runHist_spec pol cs metaKeys (fun w => w ∈ s.ids → w ∈ s.shared pol) (by decide) tie_strip_meta_empty sitesOk ops s
  refine ⟨?_, ?_, fresh_of_bound hk⟩
  · intro t ht i hi _
    simp only [St.shared, List.mem_append]
    exact Or.inl (mem_sharedL pol s.env t ht i hi)
  · intro i hi _
    simp only [St.shared, List.mem_append]
    exact Or.inr hi

/-- nothing the caller holds, and no declared default, is in the finding class -/
def histSafe (s : St) : Bool := s.env.all (fun t => !sharesWritable t) && !sharesWritableK s.defaults

theorem sharedL_nil : ∀ (ts : List T), ts.all (fun t => !sharesWritable t) = true → sharedL pol ts = []
  | [], _ => rfl
  | t :: r, h => by
    simp only [List.all_cons, Bool.and_eq_true, Bool.not_eq_true'] at h
    simp only [sharedL, sharedMut_nil t h.1, sharedL_nil r h.2, List.append_nil]

/-- C08_history: outside the finding class NO operation of any history writes any object the caller held at the start
    or any declared default. -/
theorem C08_history_partial (ops : List Op) (s : St) (hk : ∀ j ∈ s.ids, j < s.k) (hs : histSafe s = true) :
    ∀ ws ∈ runHist pol cs metaKeys ops s, ∀ w ∈ ws, w ∉ s.ids := by
  intro ws hws w hw hmem
  have := C08_history_exact ops s hk ws hws w hw hmem
  simp only [histSafe, Bool.and_eq_true, Bool.not_eq_true'] at hs
  simp only [St.shared, sharedL_nil s.env hs.1, sharedMutK_nil s.defaults hs.2, List.append_nil, List.not_mem_nil] at this

/-- … and the invariant survives the history: it can be continued by any further history (the state at the end again
    satisfies what `C08_history_exact` needs of the state at the start, for the same protected objects) -/
theorem C08_history_continues (ops more : List Op) (s : St) (hk : ∀ j ∈ s.ids, j < s.k) :
    ∀ ws ∈ runHist pol cs metaKeys more (endState pol cs metaKeys ops s), ∀ w ∈ ws, w ∈ s.ids → w ∈ s.shared pol := by
  apply runHist_spec pol cs metaKeys (fun w => w ∈ s.ids → w ∈ s.shared pol) (by decide) tie_strip_meta_empty sitesOk more
  apply endState_inv pol cs metaKeys _ (by decide) tie_strip_meta_empty sitesOk ops s
  refine ⟨?_, ?_, fresh_of_bound hk⟩
  · intro t ht i hi _
    simp only [St.shared, List.mem_append]
    exact Or.inl (mem_sharedL pol s.env t ht i hi)
  · intro i hi _
    simp only [St.shared, List.mem_append]
    exact Or.inr hi

/-! ### … and everything the caller holds at ANY time (results of earlier operations included) -/

theorem polOk : PolOk pol := ⟨by decide, by decide, by decide⟩

theorem mem_idsL : ∀ (ts : List T) (t : T), t ∈ ts → ∀ j ∈ ids t, j ∈ idsL ts
  | [], _, h => by simp at h
  | x :: r, t, h => by
    intro j hj
    simp only [idsL, List.mem_append]
    rcases List.mem_cons.mp h with h | h
    · subst h; exact Or.inl hj
    · exact Or.inr (mem_idsL r t h j hj)

theorem stHeld_of (s : St) (hk : ∀ j ∈ s.ids, j < s.k) (hs : histSafe s = true) : StHeld pol s := by
  simp only [histSafe, Bool.and_eq_true, Bool.not_eq_true', List.all_eq_true] at hs
  refine ⟨?_, ⟨sharedMutK_nil s.defaults hs.2, fun j hj => hk j (by simp only [St.ids, List.mem_append]; exact Or.inr hj)⟩⟩
  intro t ht
  exact ⟨sharedMut_nil t (hs.1 t ht), fun j hj => hk j (by simp only [St.ids, List.mem_append]; exact Or.inl (mem_idsL s.env t ht j hj))⟩

/-- the trace is the history: same writes, operation by operation -/
theorem traceHist_writes : ∀ (ops : List Op) (s : St),
    (traceHist pol cs metaKeys ops s).map (fun sw => sw.2) = runHist pol cs metaKeys ops s
  | [], _ => rfl
  | op :: rest, s => by simp only [traceHist, runHist, List.map_cons, traceHist_writes rest]

/-- C08_history, all held: outside the finding class, every operation of a history of any length writes NOTHING of what
    the caller holds or the parser declares at the moment the operation starts — the caller's own objects, the declared
    defaults (the caller's objects among them after set_defaults) and the result of EVERY earlier operation
    (`sw.1.env` = the initial objects followed by every configuration handed out so far).  The proof carries two
    invariants through every primitive: `sharedMut = []` (a working copy shares nothing writable) and "all identities
    below the counter", so that what an operation makes is new for everything that exists. -/
theorem C08_history_all_held (ops : List Op) (s : St) (hk : ∀ j ∈ s.ids, j < s.k) (hs : histSafe s = true)
    (hops : ops.all (fun op => op.shapeSafe pol) = true) :
    ∀ sw ∈ traceHist pol cs metaKeys ops s, ∀ w ∈ sw.2, w ∉ sw.1.ids := by
  intro sw hsw w hw hmem
  have h := traceHist_fresh pol polOk cs metaKeys tie_strip_meta_empty sitesOk ops s (stHeld_of s hk hs) hops sw hsw
  have h1 := h.1.ids_lt w hmem
  have h2 := h.2 w hw
  omega

/-- the finding class is closed under the operations: what an operation hands out is again outside it (and older than
    the counter), so the hypothesis `histSafe` is needed for the INITIAL objects only -/
theorem C08_results_stay_safe (ops : List Op) (s : St) (hk : ∀ j ∈ s.ids, j < s.k) (hs : histSafe s = true)
    (hops : ops.all (fun op => op.shapeSafe pol) = true) :
    ∀ sw ∈ traceHist pol cs metaKeys ops s, (∀ t ∈ sw.1.env, sharedMut pol t = []) ∧ sharedMutK pol sw.1.defaults = [] := by
  intro sw hsw
  have h := (traceHist_fresh pol polOk cs metaKeys tie_strip_meta_empty sitesOk ops s (stHeld_of s hk hs) hops sw hsw).1
  exact ⟨fun t ht => (h.1 t ht).safe, h.2.safe⟩

/- Full statement (FALSE for the code as it is): the same without `histSafe`. -/
theorem C08_history_full_fails :
    ¬ (∀ (ops : List Op) (s : St), (∀ j ∈ s.ids, j < s.k) → ∀ ws ∈ runHist pol cs metaKeys ops s, ∀ w ∈ ws, w ∉ s.ids) := by
  intro h
  exact absurd (h [.dump 0] ⟨[], [odictWitness], 100⟩ (by decide) _ (List.mem_cons_self) 2 (by decide)) (by decide)

theorem lookupK_insertK (key : String) (v : T) : ∀ (to : Kids), lookupK key (insertK key v to) = some v
  | [] => by simp [insertK, lookupK]
  | (k', v') :: r => by
    by_cases hk : k' = key
    · simp [insertK, lookupK, hk]
    · simp [insertK, lookupK, hk, lookupK_insertK key v r]

/-- aliasing in the other direction, characterised: after `set_defaults(dest=obj)` / `add_argument(default=obj)` the
    declared default IS the caller's object (same identities) — a later change the CALLER makes to it is seen by the
    parser (argparse semantics); the library itself never writes it (`C08_history_*` with the object among `s.env`). -/
theorem setDefault_aliases (s : St) (dest : String) (a : Nat) :
    lookupK dest ((Op.next pol cs metaKeys s (.setDefault dest a)).defaults) = some (s.get a) := by
  simp only [Op.next, Op.defaultsAfter]
  exact lookupK_insertK dest (s.get a) s.defaults

/-! ## brackets -/

def rows : List (String × String × Reset) := bracketRows Jap.Gen.Brackets.brackets

/-- C08_brackets (generic part): for every context manager of the package whose table entry says
    `finally`, the variable it sets is, after the `with` block, what it was before — for every value, every
    body (even one that overwrites the variable itself) and every outcome of the body, exceptions included;
    the outcome itself is passed on unchanged. -/
theorem C08_brackets (cm var : String) (reset : Reset) (_hrow : (cm, var, reset) ∈ rows) (hfin : reset = .fin)
    (newVal : Nat) (body : Store → Outcome × Store) (s : Store) :
    (withBracket reset var newVal body s).2 var = s var ∧
    (withBracket reset var newVal body s).1 = (body (s.set var newVal)).1 := by
  subst hfin
  exact ⟨withBracket_fin_restores var newVal body s, withBracket_fin_outcome var newVal body s⟩

/-- the brackets the property needs ARE `finally` brackets in the regenerated table: the working directory and
    `current_path_dir` (change_to_path_dir), `argparse.Namespace` (patch_namespace), every parser_context variable. -/
theorem C08_brackets_needed :
    resetOf "change_to_path_dir" "os.cwd" rows = some .fin ∧
    resetOf "change_to_path_dir" "current_path_dir" rows = some .fin ∧
    resetOf "patch_namespace" "argparse.Namespace" rows = some .fin ∧
    ["parent_parser", "parser_capture", "defaults_cache", "lenient_check", "load_value_mode", "class_instantiators", "nested_links"].all
      (fun v => resetOf "parser_context" v rows == some .fin) = true := by decide

/-- the process-level variables of the property -/
def watched : List String :=
  ["os.cwd", "current_path_dir", "argparse.Namespace", "parent_parser", "parser_capture", "defaults_cache",
   "lenient_check", "load_value_mode", "class_instantiators", "nested_links"]

/-- any library code that touches the watched variables only through `finally` brackets — nested, in
    sequence, inside try/except, with exceptions raised anywhere — leaves all of them as it found them. -/
theorem C08_brackets_compose (prog : Prog) (s : Store) (h : prog.disciplined watched = true) :
    ∀ x ∈ watched, (prog.run s).2 x = s x :=
  Prog.run_restores watched prog s h

/-- what dropping the try/finally would do: a reset placed after the `yield` is skipped when the body raises -/
theorem C08_brackets_after_leaks :
    (withBracket .after "os.cwd" 7 (fun s => (.raised, s)) (fun _ => 0)).2 "os.cwd" = 7 := by decide

/-- what restoring a value recorded elsewhere does (seed C08-B: `chdir = path.cwd`): the variable is not what it was -/
theorem C08_brackets_wrong_value_leaks :
    (withBracket .wrong "os.cwd" 7 (fun s => (.ok, s)) (fun _ => 5)).2 "os.cwd" ≠ 5 := by decide

/-! ## process-level locations of a history: os.environ, sys.argv, the working directory -/

def probes : List (String × String) := Jap.Gen.HeapSites.processProbes

/-- the process-level locations: the bracketed variables plus the two the operations only read -/
def procWatched : List String := watched ++ ["os.environ", "sys.argv"]

/-- the live probes of the process state (Gen/HeapSites.processProbes): around one real call of every entry point —
    15 successful ones (one of them loading a config file from another directory) and 10 that raise midway (inside
    change_to_path_dir among them) — os.environ, sys.argv (object and content), the working directory and
    argparse.Namespace are as before.  A call that cannot be probed is a broken tie. -/
theorem tie_process_probes :
    probes.length = 25 ∧ probes.all (fun r => r.2 == "unchanged") = true := by decide

/-- with the regenerated tables, the process-level skeleton of every operation, for every place where it may raise,
    touches the watched locations only through `finally` brackets and writes neither os.environ nor sys.argv -/
theorem proc_disciplined_sites :
    allProcSites.all (fun sites => Fault.all.all (fun f => (procOfSites rows probes sites f).disciplined procWatched)) = true := by decide

theorem proc_disciplined (op : Op) (f : Fault) : (op.proc rows probes f).disciplined procWatched = true := by
  have h := proc_disciplined_sites
  simp only [List.all_eq_true] at h
  exact h _ (Op.procSites_mem op) f (Fault.mem_all f)

/-- C08_history_process_state: after a history of ANY length of the modelled operations — each of them completing or
    raising before, inside or after its context managers, the caller catching the exception and going on — os.environ
    and sys.argv are what they were and the working directory (like current_path_dir, argparse.Namespace and every
    parser_context variable) is restored. -/
theorem C08_history_process_state : ∀ (h : List (Op × Fault)) (s : Store), ∀ x ∈ procWatched, runProc rows probes h s x = s x
  | [], _, _, _ => rfl
  | (op, f) :: rest, s, x, hx => by
    simp only [runProc]
    rw [C08_history_process_state rest _ x hx]
    exact Prog.run_restores procWatched (op.proc rows probes f) s (proc_disciplined op f) x hx

/-- … and in particular -/
theorem C08_history_environ_argv_cwd (h : List (Op × Fault)) (s : Store) :
    runProc rows probes h s "os.environ" = s "os.environ" ∧ runProc rows probes h s "sys.argv" = s "sys.argv" ∧
    runProc rows probes h s "os.cwd" = s "os.cwd" :=
  ⟨C08_history_process_state h s _ (by decide), C08_history_process_state h s _ (by decide), C08_history_process_state h s _ (by decide)⟩

/-- non-vacuity: a history in which operations do raise (before, inside, after) and work is done inside the brackets -/
def procHist : List (Op × Fault) :=
  [(.parseArgs 1 none, .none), (.parseText (.atom 0), .inside), (.save true 0, .after), (.getDefaults, .before),
   (.dump 0, .inside), (.instantiate 0, .none)]

example : procOutcomes rows probes procHist (fun _ => 3) = [.ok, .raised, .raised, .raised, .raised, .ok] := by decide
example : runProc rows probes procHist (fun _ => 3) "work-done" = 1 ∧ runProc rows probes procHist (fun _ => 3) "os.cwd" = 3 := by decide

/-- what the theorem rests on, negatively: were the reset of change_to_path_dir not in `finally` (a table row saying
    "after"), a parse raising inside it would leave the process in the other directory -/
def rowsCwdAfter : List (String × String × Reset) :=
  rows.map (fun r => if r.1 == "change_to_path_dir" && r.2.1 == "os.cwd" then (r.1, r.2.1, Reset.after) else r)

theorem C08_process_state_needs_finally :
    runProc rowsCwdAfter probes [(.parseText (.atom 0), .inside)] (fun _ => 3) "os.cwd" = 7 := by decide

/-- … and were a probe to see os.environ changed by parse_env, the skeleton would write it -/
theorem C08_process_state_needs_probe :
    runProc rows (("parse_env.env", "CHANGED:os.environ") :: probes) [(.parseText (.atom 0), .none)] (fun _ => 3) "os.environ" = 1 := by decide

/-! ## regression: what sharing below tuples did (finding F11, repaired) -/

/-- the policy before fix 1958065: tuples returned as they are -/
def polBeforeF11 : Policy := { pol with recreated := fun k => k != .tuple && pol.recreated k }

/-- the pre-fix witness: the caller's inner list 7, reachable only through the tuple 2, was written -/
theorem C08_regression_F11_before :
    7 ∈ dumpWrites polBeforeF11 cs (T.list 1 [T.tuple 2 [T.list 7 [.atom 0]]]) 100 := by decide

/-- now proved absent: nothing of the caller's value is written -/
theorem C08_regression_F11_now :
    ∀ i ∈ dumpWrites pol cs (T.list 1 [T.tuple 2 [T.list 7 [.atom 0]]]) 100, i ∉ [1, 2, 7] := by decide

/-- and in general: values built from lists, tuples, dicts, namespaces (and sets of atoms) are outside the finding class -/
example : sharesWritable (T.list 1 [T.tuple 2 [T.list 7 [.atom 0], T.dict 8 [("k", T.set 9 [.atom 1])]]]) = false := by decide

/-- before fix F10 `parse_object` applied the actions to the caller's object: the caller's list 2 was written -/
theorem C08_regression_F10_before :
    2 ∈ (parseObject pol { cs with parseObject := false } [] none (T.dict 1 [("a", T.list 2 [.atom 0])]) 100).writes := by decide

theorem C08_regression_F10_now :
    ∀ i ∈ (parseObject pol cs [] none (T.dict 1 [("a", T.list 2 [.atom 0])]) 100).writes, i ∉ [1, 2] := by decide

/-! ## non-vacuity -/

/-- a non-trivial configuration outside the finding class, with a real write list -/
def sample : T :=
  T.ns 1 [("a", T.list 2 [T.tuple 3 [.atom 1, T.list 4 [T.dict 5 [("k", T.set 6 [.atom 2])]]]]),
          ("m", T.ns 7 [("class_path", .atom 9), ("init_args", T.ns 8 [("sub", T.dict 10 [("class_path", .atom 11)])])])]

example : sharesWritable sample = false := by decide
example : (dump pol cs metaKeys sample 100).writes.length = 18 := by decide
example : (instantiate pol cs metaKeys sample 100).objs = [112, 113] := by decide
example : specCount pol sample = 2 := by decide
example : sharesWritable odictWitness = true := by decide
example : sharedMut pol odictWitness = [2] := by decide
example : (rows.filter (fun r => r.2.2 == .fin)).length ≥ 10 := by decide

/-- a history with real writes: the caller holds a config, an argv list and a nested list; the list is made a declared
    default, then parse_args with the config as namespace, dump / instantiate / merge of the results, multifile save,
    get_defaults, strip_unknown, parse_string, validate(branch), parse_object with a base -/
def histStart : St :=
  { defaults := [("xs", T.list 20 [T.list 21 [.atom 0]])],
    env := [sample, T.list 40 [.atom 1, .atom 2], T.list 50 [T.tuple 51 [.atom 7, T.list 52 [.atom 8]]]],
    k := 100 }
def histOps : List Op :=
  [.setDefault "ys" 2, .parseArgs 1 (some 0), .dump 3, .instantiate 3, .merge 3 0, .save true 5, .getDefaults,
   .stripUnknown ["a"] 6, .parseText (T.dict 0 [("a", T.list 0 [.atom 1])]), .validateBranch "g" 0, .parseObject 0 (some 3)]

example : histSafe histStart = true := by decide
example : (∀ j ∈ histStart.ids, j < histStart.k) := by decide
example : ((runHist pol cs metaKeys histOps histStart).map List.length).foldl (· + ·) 0 > 100 := by decide
example : (endState pol cs metaKeys histOps histStart).env.length = 10 := by decide
example : histOps.all (fun op => op.shapeSafe pol) = true := by decide
/-- what the caller holds grows along the trace: every later operation is judged against all earlier results -/
example : (traceHist pol cs metaKeys histOps histStart).map (fun sw => sw.1.env.length) = [3, 3, 4, 4, 5, 6, 6, 7, 8, 9, 9] := by decide
example : (traceHist pol cs metaKeys histOps histStart).map (fun sw => sw.1.k) ≠ [] := by decide
example : (parseArgs pol cs histStart.defaults (some sample) (T.list 40 [.atom 1, .atom 2]) 100).writes.length > 20 := by decide
example : (save pol cs metaKeys true sample 100).writes.length > (dump pol cs metaKeys sample 100).writes.length := by decide
example : (validateBranch pol cs "g" sample 100).writes.length = (validate pol cs sample 100).writes.length + 1 := by decide

end Jap.Props.C08

import Jap.Core.Heap
import Jap.Lemmas.Heap
import Jap.Lemmas.HeapOps
import Jap.Gen.HeapSites
import Jap.Gen.Brackets
import Jap.Gen.NsTables
/-!
C08 — Parse, validate, dump and instantiate never modify what they are given.

Model: `Jap.Heap` (Core/Heap.lean), trees whose containers carry an identity; every operation returns the
list of identities it wrote.  The per-kind copy policy `pol`, the copy sites `cs` and the bracket table are
the ones *regenerated from /repo on every run* (Gen/HeapSites, Gen/Brackets); the `tie_*` theorems pin what
the frame proofs need from them, so reverting fix F10/F11, dropping a clone or a try/finally breaks a proof.

All frame theorems quantify over ALL trees, counters and (for the brackets) all bodies and outcomes.
They come in two forms:
* `…_exact`  : full strength for the code as it is — every written identity that belongs to an argument is
               one of the containers the clone still shares with the argument (`sharedMut pol t`);
* `…_partial`: the property's statement (nothing of the argument is written) under the decidable hypothesis
               `sharesWritable t = false`.  The excluded class — an OrderedDict, or a writable container below
               a tuple subclass — is the open finding C08-ordereddict-shared; `C08_frame_dump_full_fails`
               proves the unrestricted statement false on a witness.
-/
namespace Jap.Props.C08
open Jap.Heap

/-- the copy policy of the code as it is now -/
def pol : Policy := policyOfTable Jap.Gen.HeapSites.kindTable
/-- the copy sites of the code as it is now -/
def cs : Sites := sitesOfTable Jap.Gen.HeapSites.copySites
def metaKeys : List String := Jap.Gen.metaKeys

/-! ## tie: what the proofs need from the regenerated tables -/

/-- `recreate_branches` copies namespaces, dicts, lists and (fix F11) tuples; sets, OrderedDicts and tuple
    subclasses are returned as they are. -/
theorem tie_policy_recreated :
    pol.recreated .ns = true ∧ pol.recreated .dict = true ∧ pol.recreated .list = true ∧ pol.recreated .tuple = true ∧
    pol.recreated .set = false ∧ pol.recreated .odict = false ∧ pol.recreated .ntuple = false := by decide

/-- the adapter assigns into lists, dicts, namespaces and OrderedDicts in place; tuples, sets and tuple
    subclasses are copied into a fresh list first. -/
theorem tie_policy_inplace :
    pol.inplace .ns = true ∧ pol.inplace .dict = true ∧ pol.inplace .list = true ∧ pol.inplace .odict = true ∧
    pol.inplace .tuple = false ∧ pol.inplace .set = false ∧ pol.inplace .ntuple = false := by decide

/-- every public operation copies its configuration argument before anything else is done with it
    (dump/instantiate: strip_meta; validate/strip_unknown/merge_config: clone; parse_object: recreate_branches — fix F10;
    get_defaults: recreate_branches(action.default)). -/
theorem tie_copy_sites :
    cs.dump = true ∧ cs.validate = true ∧ cs.mergeFrom = true ∧ cs.mergeTo = true ∧ cs.stripUnknown = true ∧
    cs.instantiate = true ∧ cs.parseObject = true ∧ cs.parseObjectBase = true ∧ cs.getDefaults = true := by decide

/-- `parse_args(args, namespace)` copies both; `save` hands its config to dump/clone only. -/
theorem tie_copy_sites_parse_args :
    lookupSite "parse_args.namespace" Jap.Gen.HeapSites.copySites = true ∧
    lookupSite "parse_args.args" Jap.Gen.HeapSites.copySites = true ∧
    lookupSite "save.cfg" Jap.Gen.HeapSites.copySites = true := by decide

/-- `C08_fresh` counts one object per spec *of the configuration*; that this covers the specs derived from
    signature defaults (lazy_instance) rests on `add_sub_defaults` writing them into `init_args` wherever a class
    spec can sit — as the value, in a list, in a dict — so that no instantiation falls back to the one live default
    object of the signature (probed on the live code). -/
theorem tie_sub_defaults_expanded :
    ["spec", "list", "dict", "instantiated-fresh"].all (fun k => lookupSite k Jap.Gen.HeapSites.subDefaults) = true := by decide

/-! ## the finding class as an explicit decidable predicate -/

def writableKind : Kind → Bool
  | .list | .dict | .ns | .odict => true
  | _ => false

mutual
/-- a list, dict, namespace or OrderedDict somewhere in the value -/
def hasWritable : T → Bool
  | .atom _ => false
  | .node kd _ kids => writableKind kd || hasWritableK kids
def hasWritableK : Kids → Bool
  | [] => false
  | (_, x) :: r => hasWritable x || hasWritableK r
end

mutual
/-- signature of the open finding C08-ordereddict-shared: the value contains an OrderedDict, or a tuple
    subclass (or a set — impossible in Python, set elements are hashable) with a writable container below it -/
def sharesWritable : T → Bool
  | .atom _ => false
  | .node kd _ kids =>
    match kd with
    | .odict => true
    | .ntuple => hasWritableK kids
    | .set => hasWritableK kids
    | _ => sharesWritableK kids
def sharesWritableK : Kids → Bool
  | [] => false
  | (_, x) :: r => sharesWritable x || sharesWritableK r
end

theorem inplace_writable (kd : Kind) : pol.inplace kd = writableKind kd := by
  cases kd <;> decide

mutual
theorem mutIds_nil_of_not_hasWritable : ∀ (t : T), hasWritable t = false → mutIds pol t = []
  | .atom _, _ => by simp [mutIds]
  | .node kd i kids, h => by
    simp only [hasWritable, Bool.or_eq_false_iff] at h
    simp only [mutIds, inplace_writable, h.1, Bool.false_eq_true, ↓reduceIte, List.nil_append]
    exact mutIdsK_nil_of_not_hasWritableK kids h.2
theorem mutIdsK_nil_of_not_hasWritableK : ∀ (ts : Kids), hasWritableK ts = false → mutIdsK pol ts = []
  | [], _ => by simp [mutIdsK]
  | (_, x) :: r, h => by
    simp only [hasWritableK, Bool.or_eq_false_iff] at h
    simp only [mutIdsK, mutIds_nil_of_not_hasWritable x h.1, mutIdsK_nil_of_not_hasWritableK r h.2, List.append_nil]
end

mutual
/-- outside the finding class a clone shares nothing writable with its original -/
theorem sharedMut_nil : ∀ (t : T), sharesWritable t = false → sharedMut pol t = []
  | .atom _, _ => by simp [sharedMut]
  | .node kd i kids, h => by
    cases kd with
    | odict => simp [sharesWritable] at h
    | ntuple =>
      simp only [sharesWritable] at h
      have hr : pol.recreated .ntuple = false := by decide
      have hi : pol.inplace .ntuple = false := by decide
      simp only [sharedMut, hr, Bool.false_eq_true, ↓reduceIte, mutIds, hi, List.nil_append]
      exact mutIdsK_nil_of_not_hasWritableK kids h
    | set =>
      simp only [sharesWritable] at h
      have hr : pol.recreated .set = false := by decide
      have hi : pol.inplace .set = false := by decide
      simp only [sharedMut, hr, Bool.false_eq_true, ↓reduceIte, mutIds, hi, List.nil_append]
      exact mutIdsK_nil_of_not_hasWritableK kids h
    | list =>
      simp only [sharesWritable] at h
      have hr : pol.recreated .list = true := by decide
      simp only [sharedMut, hr, ↓reduceIte]
      exact sharedMutK_nil kids h
    | tuple =>
      simp only [sharesWritable] at h
      have hr : pol.recreated .tuple = true := by decide
      simp only [sharedMut, hr, ↓reduceIte]
      exact sharedMutK_nil kids h
    | dict =>
      simp only [sharesWritable] at h
      have hr : pol.recreated .dict = true := by decide
      simp only [sharedMut, hr, ↓reduceIte]
      exact sharedMutK_nil kids h
    | ns =>
      simp only [sharesWritable] at h
      have hr : pol.recreated .ns = true := by decide
      simp only [sharedMut, hr, ↓reduceIte]
      exact sharedMutK_nil kids h
theorem sharedMutK_nil : ∀ (ts : Kids), sharesWritableK ts = false → sharedMutK pol ts = []
  | [], _ => by simp [sharedMutK]
  | (_, x) :: r, h => by
    simp only [sharesWritableK, Bool.or_eq_false_iff] at h
    simp only [sharedMutK, sharedMut_nil x h.1, sharedMutK_nil r h.2, List.append_nil]
end

/-! ## frame theorems

`ok i := i ∈ args → i ∈ shared`: an identity is acceptable as a write target when it does not belong to
the arguments, or is one of the writable containers their clones still share. -/

theorem fresh_of_bound {args shared : List Nat} {k : Nat} (hk : ∀ j ∈ args, j < k) :
    Fresh (fun i => i ∈ args → i ∈ shared) k := by
  intro j hj hmem
  have := hk j hmem
  omega

/-- C08_frame_dump, exact form: whatever `dump` writes inside its argument is a container that
    `recreate_branches` still shares (an OrderedDict, or something below a tuple subclass). -/
theorem C08_frame_dump_exact (t : T) (k : Nat) (hk : ∀ j ∈ ids t, j < k) :
    ∀ i ∈ (dump pol cs metaKeys t k).writes, i ∈ ids t → i ∈ sharedMut pol t :=
  dump_spec pol cs metaKeys (fun i => i ∈ ids t → i ∈ sharedMut pol t) t k (by decide) (fun _ hi _ => hi) (fresh_of_bound hk)

/-
Full statement (FALSE for the code as it is, see `C08_frame_dump_full_fails`):
  theorem C08_frame_dump (t : T) (k : Nat) (hk : ∀ j ∈ ids t, j < k) :
      ∀ i ∈ (dump pol cs metaKeys t k).writes, i ∉ ids t
-/

/-- the caller's config `Namespace(od=OrderedDict(a=(1, Color.red)))`: dump writes into the OrderedDict 2 -/
def odictWitness : T := T.ns 1 [("od", T.odict 2 [("a", T.tuple 3 [.atom 1, .atom 2])])]

theorem C08_frame_dump_full_fails :
    ¬ (∀ (t : T) (k : Nat), (∀ j ∈ ids t, j < k) → ∀ i ∈ (dump pol cs metaKeys t k).writes, i ∉ ids t) := by
  intro h
  exact absurd (h odictWitness 100 (by decide) 2 (by decide)) (by decide)

/-- C08_frame_dump under the forced hypothesis: every identity `dump` writes is fresh. -/
theorem C08_frame_dump_partial (t : T) (k : Nat) (hk : ∀ j ∈ ids t, j < k) (hs : sharesWritable t = false) :
    ∀ i ∈ (dump pol cs metaKeys t k).writes, i ∉ ids t := by
  intro i hi hmem
  have := C08_frame_dump_exact t k hk i hi hmem
  rw [sharedMut_nil t hs] at this
  simp at this

theorem C08_frame_validate_exact (t : T) (k : Nat) (hk : ∀ j ∈ ids t, j < k) :
    ∀ i ∈ (validate pol cs t k).writes, i ∈ ids t → i ∈ sharedMut pol t :=
  (validate_spec pol cs (fun i => i ∈ ids t → i ∈ sharedMut pol t) t k
    (Or.inl ⟨by decide, fun _ hi _ => hi⟩) (fresh_of_bound hk)).1

/- Full statement (FALSE for the code as it is): ∀ i ∈ (validate pol cs t k).writes, i ∉ ids t -/
theorem C08_frame_validate_full_fails :
    ¬ (∀ (t : T) (k : Nat), (∀ j ∈ ids t, j < k) → ∀ i ∈ (validate pol cs t k).writes, i ∉ ids t) := by
  intro h
  exact absurd (h odictWitness 100 (by decide) 2 (by decide)) (by decide)

theorem C08_frame_validate_partial (t : T) (k : Nat) (hk : ∀ j ∈ ids t, j < k) (hs : sharesWritable t = false) :
    ∀ i ∈ (validate pol cs t k).writes, i ∉ ids t := by
  intro i hi hmem
  have := C08_frame_validate_exact t k hk i hi hmem
  rw [sharedMut_nil t hs] at this
  simp at this

/-- merge_config: neither `cfg_from` nor `cfg_to` is written; the result's writable containers are not theirs -/
theorem C08_frame_merge_exact (src to : T) (k : Nat) (hk : ∀ j ∈ ids src ++ ids to, j < k) :
    (∀ i ∈ (mergeConfig pol cs src to k).writes, i ∈ ids src ++ ids to → i ∈ sharedMut pol src ++ sharedMut pol to) ∧
    (∀ i ∈ mutIds pol (mergeConfig pol cs src to k).val, i ∈ ids src ++ ids to → i ∈ sharedMut pol src ++ sharedMut pol to) := by
  have h := mergeConfig_spec pol cs (fun i => i ∈ ids src ++ ids to → i ∈ sharedMut pol src ++ sharedMut pol to)
    (by decide) src to k
    (Or.inl ⟨by decide, fun i hi _ => List.mem_append.mpr (Or.inl hi)⟩)
    (Or.inl ⟨by decide, fun i hi _ => List.mem_append.mpr (Or.inr hi)⟩) (fresh_of_bound hk)
  exact ⟨h.1, h.2.1⟩

theorem C08_frame_merge_partial (src to : T) (k : Nat) (hk : ∀ j ∈ ids src ++ ids to, j < k)
    (h1 : sharesWritable src = false) (h2 : sharesWritable to = false) :
    (∀ i ∈ (mergeConfig pol cs src to k).writes, i ∉ ids src ∧ i ∉ ids to) ∧
    (∀ i ∈ mutIds pol (mergeConfig pol cs src to k).val, i ∉ ids src ∧ i ∉ ids to) := by
  have h := C08_frame_merge_exact src to k hk
  rw [sharedMut_nil src h1, sharedMut_nil to h2] at h
  constructor
  · intro i hi
    have := h.1 i hi
    simp only [List.append_nil, List.not_mem_nil, imp_false, List.mem_append, not_or] at this
    exact this
  · intro i hi
    have := h.2 i hi
    simp only [List.append_nil, List.not_mem_nil, imp_false, List.mem_append, not_or] at this
    exact this

/-- strip_unknown works on a clone -/
theorem C08_frame_strip_unknown_partial (known : List String) (t : T) (k : Nat) (i0 : Nat) (kids : Kids)
    (ht : t = .node .ns i0 kids) (hk : ∀ j ∈ ids t, j < k) (hs : sharesWritable t = false) :
    ∀ i ∈ (stripUnknown pol cs known t k).writes, i ∉ ids t := by
  have h := stripUnknown_spec pol cs (fun i => i ∈ ids t → i ∈ sharedMut pol t) (by decide) known t k
    (by intro kd hkd; subst ht; simp only [kindOf, Option.some.injEq] at hkd; subst hkd; decide)
    (Or.inl ⟨by decide, fun _ hi _ => hi⟩) (fresh_of_bound hk)
  intro i hi hmem
  have := h.1 i hi hmem
  rw [sharedMut_nil t hs] at this
  simp at this

/-- the arguments of parse_object: the object, the optional base and the parser's declared defaults -/
def poArgs (ds : Kids) (base : Option T) (obj : T) : List Nat :=
  idsK ds ++ (match base with | some b => ids b | none => []) ++ ids obj

def poShared (ds : Kids) (base : Option T) (obj : T) : List Nat :=
  sharedMutK pol ds ++ (match base with | some b => sharedMut pol b | none => []) ++ sharedMut pol obj

/-- parse_object (fix F10: it works on a copy): object, base and declared defaults are written at most in
    what their clones share -/
theorem C08_frame_parse_object_exact (ds : Kids) (base : Option T) (obj : T) (k : Nat)
    (hk : ∀ j ∈ poArgs ds base obj, j < k) :
    ∀ i ∈ (parseObject pol cs ds base obj k).writes, i ∈ poArgs ds base obj → i ∈ poShared ds base obj := by
  apply parseObject_spec pol cs (fun i => i ∈ poArgs ds base obj → i ∈ poShared ds base obj)
    (by decide) (by decide) (by decide) (by decide) (by decide) ds base obj k
  · intro i hi _
    simp only [poShared, List.mem_append]; exact Or.inl (Or.inl hi)
  · intro b hb i hi _
    subst hb
    simp only [poShared, List.mem_append]; exact Or.inl (Or.inr hi)
  · intro i hi _
    simp only [poShared, List.mem_append]; exact Or.inr hi
  · exact fresh_of_bound hk

/- Full statement (FALSE for the code as it is): ∀ i ∈ (parseObject pol cs ds base obj k).writes, i ∉ poArgs ds base obj -/
theorem C08_frame_parse_object_full_fails :
    ¬ (∀ (ds : Kids) (base : Option T) (obj : T) (k : Nat), (∀ j ∈ poArgs ds base obj, j < k) →
        ∀ i ∈ (parseObject pol cs ds base obj k).writes, i ∉ poArgs ds base obj) := by
  intro h
  exact absurd (h [] none odictWitness 100 (by decide) 2 (by decide)) (by decide)

theorem C08_frame_parse_object_partial (ds : Kids) (base : Option T) (obj : T) (k : Nat)
    (hk : ∀ j ∈ poArgs ds base obj, j < k)
    (hds : sharesWritableK ds = false) (hbase : ∀ b, base = some b → sharesWritable b = false)
    (hobj : sharesWritable obj = false) :
    ∀ i ∈ (parseObject pol cs ds base obj k).writes, i ∉ poArgs ds base obj := by
  intro i hi hmem
  have := C08_frame_parse_object_exact ds base obj k hk i hi hmem
  have hb : (match base with | some b => sharedMut pol b | none => []) = [] := by
    cases base with
    | none => rfl
    | some b => exact sharedMut_nil b (hbase b rfl)
  simp only [poShared, sharedMutK_nil ds hds, hb, sharedMut_nil obj hobj, List.append_nil, List.not_mem_nil] at this

/-- instantiate_classes works on `strip_meta(cfg)` -/
theorem C08_frame_instantiate_exact (t : T) (k : Nat) (hk : ∀ j ∈ ids t, j < k) :
    ∀ i ∈ (instantiate pol cs metaKeys t k).writes, i ∈ ids t → i ∈ sharedMut pol t :=
  instantiate_spec pol cs metaKeys (fun i => i ∈ ids t → i ∈ sharedMut pol t) t k (by decide) (fun _ hi _ => hi) (fresh_of_bound hk)

/- Full statement (FALSE for the code as it is): ∀ i ∈ (instantiate pol cs metaKeys t k).writes, i ∉ ids t -/
theorem C08_frame_instantiate_full_fails :
    ¬ (∀ (t : T) (k : Nat), (∀ j ∈ ids t, j < k) → ∀ i ∈ (instantiate pol cs metaKeys t k).writes, i ∉ ids t) := by
  intro h
  exact absurd (h odictWitness 100 (by decide) 2 (by decide)) (by decide)

theorem C08_frame_instantiate_partial (t : T) (k : Nat) (hk : ∀ j ∈ ids t, j < k) (hs : sharesWritable t = false) :
    ∀ i ∈ (instantiate pol cs metaKeys t k).writes, i ∉ ids t := by
  intro i hi hmem
  have := C08_frame_instantiate_exact t k hk i hi hmem
  rw [sharedMut_nil t hs] at this
  simp at this

/-! ## declared defaults -/

/-- C08_defaults_unchanged: `get_defaults` hands out copies.  Building the namespace writes nothing of the
    declared defaults, every writable container of the namespace handed out is new, and therefore whatever a
    later parse / dump / instantiation (the worst-case mutator, any mode) writes into that namespace never
    reaches `action.default`. -/
/- Full statement (FALSE for the code as it is): the same without `hs` — an OrderedDict default is handed out itself:
   `(getDefaults pol cs [("od", T.odict 2 [("a", T.list 3 [.atom 1])])] 100)` has the declared OrderedDict 2 among its writes. -/
theorem C08_defaults_unchanged_full_fails :
    2 ∈ (getDefaults pol cs [("od", T.odict 2 [("a", T.list 3 [.atom 1])])] 100).writes := by decide

theorem C08_defaults_unchanged (ds : Kids) (k : Nat) (hk : ∀ j ∈ idsK ds, j < k) (hs : sharesWritableK ds = false)
    (m : Mode) :
    (∀ i ∈ (getDefaults pol cs ds k).writes, i ∉ idsK ds) ∧
    (∀ i ∈ mutIds pol (getDefaults pol cs ds k).val, i ∉ idsK ds) ∧
    (∀ i ∈ (mutT pol m (getDefaults pol cs ds k).val (getDefaults pol cs ds k).next).writes, i ∉ idsK ds) := by
  have hf : Fresh (fun i => i ∉ idsK ds) k := by
    intro j hj hmem; have := hk j hmem; omega
  have h := getDefaults_spec pol cs (fun i => i ∉ idsK ds) (by decide) ds k
    (by rw [sharedMutK_nil ds hs]; intro i hi; simp at hi) hf
  exact ⟨h.1, h.2.1, (mutT_spec pol m (fun i => i ∉ idsK ds) _ _ h.2.1 (hf.mono h.2.2)).1⟩

/-! ## fresh objects -/

/-- C08_fresh: instantiating twice from one configuration builds two disjoint sets of new objects, the same
    number each time — one per class_path spec of the working copy — none of them an identity of the argument. -/
theorem C08_fresh (t : T) (k : Nat) (hk : ∀ j ∈ ids t, j < k) :
    let r1 := instantiate pol cs metaKeys t k
    let r2 := instantiate pol cs metaKeys t r1.next
    r1.objs.Nodup ∧ r2.objs.Nodup ∧ (∀ o ∈ r1.objs, o ∉ r2.objs) ∧
    r1.objs.length = r2.objs.length ∧ (∀ o ∈ r1.objs ++ r2.objs, o ∉ ids t) := by
  intro r1 r2
  have hcs : cs.instantiate = true := by decide
  -- working copies
  let c1 := stripMeta pol metaKeys t k
  have hc1 : k ≤ c1.next := by
    show k ≤ (stripMeta pol metaKeys t k).next
    unfold stripMeta; split
    · exact Nat.le_refl _
    · exact (recreate_spec pol metaKeys (fun _ => True) t k (fun _ _ => trivial) (fun _ _ => trivial)).2
  have e1 : r1 = mutT pol .inst c1.val c1.next := by
    show instantiate pol cs metaKeys t k = _
    simp only [instantiate, instMut, hcs, copyIf, ↓reduceIte]; rfl
  let c2 := stripMeta pol metaKeys t r1.next
  have hc2 : r1.next ≤ c2.next := by
    show r1.next ≤ (stripMeta pol metaKeys t r1.next).next
    unfold stripMeta; split
    · exact Nat.le_refl _
    · exact (recreate_spec pol metaKeys (fun _ => True) t r1.next (fun _ _ => trivial) (fun _ _ => trivial)).2
  have e2 : r2 = mutT pol .inst c2.val c2.next := by
    show instantiate pol cs metaKeys t r1.next = _
    simp only [instantiate, instMut, hcs, copyIf, ↓reduceIte]; rfl
  have o1 := mutT_objs pol .inst c1.val c1.next
  have o2 := mutT_objs pol .inst c2.val c2.next
  rw [← e1] at o1
  rw [← e2] at o2
  -- the number of specs does not depend on the counter
  have hlen : specCount pol c1.val = specCount pol c2.val := by
    show specCount pol (stripMeta pol metaKeys t k).val = specCount pol (stripMeta pol metaKeys t r1.next).val
    exact specCount_stripMeta pol metaKeys t k r1.next
  refine ⟨o1.2.1, o2.2.1, ?_, ?_, ?_⟩
  · intro o ho ho2
    have a := o1.1 o ho
    have b := o2.1 o ho2
    omega
  · rw [o1.2.2.2, o2.2.2.2]; simpa using hlen
  · intro o ho hmem
    have hb := hk o hmem
    rcases List.mem_append.mp ho with ho | ho
    · have := o1.1 o ho; omega
    · have := o2.1 o ho
      have := o1.2.2.1
      omega

/-- … and that number is the number of specs of the configuration itself (no meta keys involved) -/
theorem C08_fresh_count (t : T) (k : Nat) (hne : isEmptyNode t = false) :
    (instantiate pol cs [] t k).objs.length = specCount pol t := by
  have hcs : cs.instantiate = true := by decide
  have h := mutT_objs pol .inst (recreate pol [] t k).val (recreate pol [] t k).next
  simp only [instantiate, instMut, hcs, copyIf, ↓reduceIte, stripMeta, hne, Bool.false_eq_true]
  rw [h.2.2.2]
  simp only [↓reduceIte]
  exact specCount_recreate pol t k

/-! ## brackets -/

def rows : List (String × String × Reset) := bracketRows Jap.Gen.Brackets.brackets

/-- C08_brackets (generic part): for every context manager of the package whose table entry says
    `finally`, the variable it sets is, after the `with` block, what it was before — for every value, every
    body (even one that overwrites the variable itself) and every outcome of the body, exceptions included;
    the outcome itself is passed on unchanged. -/
theorem C08_brackets (cm var : String) (reset : Reset) (_hrow : (cm, var, reset) ∈ rows) (hfin : reset = .fin)
    (newVal : Nat) (body : Store → Outcome × Store) (s : Store) :
    (withBracket reset var newVal body s).2 var = s var ∧
    (withBracket reset var newVal body s).1 = (body (s.set var newVal)).1 := by
  subst hfin
  exact ⟨withBracket_fin_restores var newVal body s, withBracket_fin_outcome var newVal body s⟩

/-- the brackets the property needs ARE `finally` brackets in the regenerated table: the working directory and
    `current_path_dir` (change_to_path_dir), `argparse.Namespace` (patch_namespace), every parser_context variable. -/
theorem C08_brackets_needed :
    resetOf "change_to_path_dir" "os.cwd" rows = some .fin ∧
    resetOf "change_to_path_dir" "current_path_dir" rows = some .fin ∧
    resetOf "patch_namespace" "argparse.Namespace" rows = some .fin ∧
    ["parent_parser", "parser_capture", "defaults_cache", "lenient_check", "load_value_mode", "class_instantiators", "nested_links"].all
      (fun v => resetOf "parser_context" v rows == some .fin) = true := by decide

/-- the process-level variables of the property -/
def watched : List String :=
  ["os.cwd", "current_path_dir", "argparse.Namespace", "parent_parser", "parser_capture", "defaults_cache",
   "lenient_check", "load_value_mode", "class_instantiators", "nested_links"]

/-- any library code that touches the watched variables only through `finally` brackets — nested, in
    sequence, inside try/except, with exceptions raised anywhere — leaves all of them as it found them. -/
theorem C08_brackets_compose (prog : Prog) (s : Store) (h : prog.disciplined watched = true) :
    ∀ x ∈ watched, (prog.run s).2 x = s x :=
  Prog.run_restores watched prog s h

/-- what dropping the try/finally would do: a reset placed after the `yield` is skipped when the body raises -/
theorem C08_brackets_after_leaks :
    (withBracket .after "os.cwd" 7 (fun s => (.raised, s)) (fun _ => 0)).2 "os.cwd" = 7 := by decide

/-- what restoring a value recorded elsewhere does (seed C08-B: `chdir = path.cwd`): the variable is not what it was -/
theorem C08_brackets_wrong_value_leaks :
    (withBracket .wrong "os.cwd" 7 (fun s => (.ok, s)) (fun _ => 5)).2 "os.cwd" ≠ 5 := by decide

/-! ## regression: what sharing below tuples did (finding F11, repaired) -/

/-- the policy before fix 1958065: tuples returned as they are -/
def polBeforeF11 : Policy := { pol with recreated := fun k => k != .tuple && pol.recreated k }

/-- the pre-fix witness: the caller's inner list 7, reachable only through the tuple 2, was written -/
theorem C08_regression_F11_before :
    7 ∈ dumpWrites polBeforeF11 cs (T.list 1 [T.tuple 2 [T.list 7 [.atom 0]]]) 100 := by decide

/-- now proved absent: nothing of the caller's value is written -/
theorem C08_regression_F11_now :
    ∀ i ∈ dumpWrites pol cs (T.list 1 [T.tuple 2 [T.list 7 [.atom 0]]]) 100, i ∉ [1, 2, 7] := by decide

/-- and in general: values built from lists, tuples, dicts, namespaces (and sets of atoms) are outside the finding class -/
example : sharesWritable (T.list 1 [T.tuple 2 [T.list 7 [.atom 0], T.dict 8 [("k", T.set 9 [.atom 1])]]]) = false := by decide

/-- before fix F10 `parse_object` applied the actions to the caller's object: the caller's list 2 was written -/
theorem C08_regression_F10_before :
    2 ∈ (parseObject pol { cs with parseObject := false } [] none (T.dict 1 [("a", T.list 2 [.atom 0])]) 100).writes := by decide

theorem C08_regression_F10_now :
    ∀ i ∈ (parseObject pol cs [] none (T.dict 1 [("a", T.list 2 [.atom 0])]) 100).writes, i ∉ [1, 2] := by decide

/-! ## non-vacuity -/

/-- a non-trivial configuration outside the finding class, with a real write list -/
def sample : T :=
  T.ns 1 [("a", T.list 2 [T.tuple 3 [.atom 1, T.list 4 [T.dict 5 [("k", T.set 6 [.atom 2])]]]]),
          ("m", T.ns 7 [("class_path", .atom 9), ("init_args", T.ns 8 [("sub", T.dict 10 [("class_path", .atom 11)])])])]

example : sharesWritable sample = false := by decide
example : (dump pol cs metaKeys sample 100).writes.length = 18 := by decide
example : (instantiate pol cs metaKeys sample 100).objs = [112, 113] := by decide
example : specCount pol sample = 2 := by decide
example : sharesWritable odictWitness = true := by decide
example : sharedMut pol odictWitness = [2] := by decide
example : (rows.filter (fun r => r.2.2 == .fin)).length ≥ 10 := by decide

end Jap.Props.C08

import Jap.Core.ClassPath
import Jap.Lemmas.ClassPath
import Jap.Gen.ClassPathTables
/-!
# C14 — A class_path is checked against the declared type and built from its config

Model: `Jap.ClassPath` (Core/ClassPath.lean), a transcription of the subclass branch of `adapt_typehints`,
`adapt_class_type`, `subclass_spec_as_namespace`, `resolve_class_path_by_name`,
`discard_init_args_on_class_path_change`, the final defaults/required check and `instantiate_classes`.
All theorems quantify over every class environment `E` (classes, subclass edges, import table), every declared type,
every previous value and every given value; the recursion bound `fuel` is arbitrary (a result, when there is one, has
the stated properties whatever the bound was).

* `C14_checked*`  — an accepted value names an import that is a subclass of the declared type (or a function returning
                    one); its init_args are parameters of exactly THAT class and scalar ones are well typed; this is kept
                    along any sequence of sources, class changes included
* `C14_rejects_*` — a failing import, a non-class, a non-subclass, an unknown init arg, an ill-typed init arg, a missing
                    required init arg, a bare dict for an abstract declared type: each is an error
* `C14_built_*`   — `instantiate` logs exactly one constructor call per spec, the last one of exactly the named class with
                    exactly the init_args keys and the dict_kwargs; object arguments refer to strictly earlier calls
* `C14_short_*`   — a short notation is adapted exactly like the explicit dict it stands for

The statement "a class change discards what the new class does not accept" is TRUE for init_args (`C14_discard`) and
FALSE for dict_kwargs in the code and in the faithful model: `C14_stale_dict_kwargs_witness` (open known finding
C14-stale-dict-kwargs).
-/
namespace Jap.Props.C14
open Jap.ClassPath

/-! ## the literals of `_typehints.py` the model is written against (regenerated from the source on every run) -/

/-- a dict is a class spec (`Val.spec`) when its keys are among these; any other dict is `Val.bare`; a dotted sub-option
    is rooted at `init_args` unless it starts with `dict_kwargs.` -/
theorem C14_tables_pinned :
    Jap.Gen.subclassSpecKeys = ["__path__", "class_path", "dict_kwargs", "init_args"]
    ∧ Jap.Gen.nestedArgRoots = [".", "class_path", "dict_kwargs", "dict_kwargs.", "init_args"]
    -- `_get_instantiators` starts from the parser's own dict and only ADDS the parent's, then the context's, entries
    -- whose key is not there yet (`getInstantiators`)
    ∧ Jap.Gen.getInstantiatorsSteps
        = ["instantiators = self._instantiators or {}",
           "instantiators.update({k: v for k, v in parent_instantiators.items() if k not in instantiators})",
           "instantiators.update({k: v for k, v in context_instantiators.items() if k not in instantiators})"]
    -- `coerceScalar` accepts exactly the (declared, given) pairs the live adapter accepts, with the same result kind
    ∧ (["int", "float", "bool", "str"].all fun d => ["int", "float", "bool", "str"].all fun g =>
        (match coerceScalar d (.lit g "1") with
         | some (.lit r _) => Jap.Gen.scalarCoercions.contains (d, g, r)
         | _ => !(Jap.Gen.scalarCoercions.any fun row => row.1 == d && row.2.1 == g))) = true := by decide

/-! ## accepted values are checked -/

/-- what a successful import check establishes -/
theorem C14_checked_import (E : ClassEnv) (base path cp : String) (params : List IParam)
    (h : checkImport E base path = .ok (cp, params)) :
    (∃ d, importOf E path = some (.cls cp) ∧ isSubclass E cp base = true ∧ lookupClass E cp = some d ∧ params = d.params)
    ∨ (∃ ret, importOf E path = some (.func cp ret params) ∧ isSubclass E ret base = true) := by
  unfold checkImport at h
  split at h
  · cases h
  · rename_i c hi
    split at h
    · rename_i hs
      split at h
      · rename_i d hd
        cases h
        exact Or.inl ⟨d, hi, hs, hd, rfl⟩
      · cases h
    · cases h
  · rename_i p ret ps hi
    split at h
    · rename_i hs
      cases h
      exact Or.inr ⟨ret, hi, hs⟩
    · cases h
  · cases h

/-- ONE assignment: the result is a spec whose class_path passed the import/subclass check against the declared type
    and whose init_args are all parameters of that very class, well typed — provided the previous init_args were valid
    for the previous class (needed only when the class does not change) -/
theorem C14_checked_step (E : ClassEnv) (fuel : Nat) (base : String) (prev : Option Val) (raw s : Val)
    (h : adapt E fuel base prev raw = .ok s)
    (hprev : ∀ pcp pia pdk, prev = some (.spec (some pcp) pia pdk) →
      ∀ path params, checkImport E base path = .ok (pcp, params) → ArgsValid params pia) :
    ∃ cp ia dk path params, s = .spec (some cp) ia dk ∧ checkImport E base path = .ok (cp, params)
      ∧ ArgsValid params ia := by
  cases fuel with
  | zero => simp [adapt] at h
  | succ fuel =>
    simp only [adapt] at h
    split at h
    · cases h
    · rename_i cp0 ia0 dk0 _
      split at h
      · cases h
      · rename_i path _
        split at h
        · cases h
        · rename_i cp params hci
          simp only [adaptClass] at h
          split at h
          · cases h
          · rename_i ia hm
            cases h
            refine ⟨cp, ia, _, path, params, rfl, hci, ?_⟩
            refine mergeArgs_valid _ params _ _ ia ?_ hm
            -- the starting point of the merge is valid for the (new) class
            cases hpp : prevParts prev with
            | none => exact argsValid_nil params
            | some t =>
              obtain ⟨pcp, pia, pdk⟩ := t
              simp only
              split
              · exact keepArgs_valid _ params pia
              · rename_i hne
                have heq : pcp = cp := by simpa using hne
                subst heq
                have hprev' : prev = some (.spec (some pcp) pia pdk) := by
                  unfold prevParts at hpp
                  split at hpp
                  · rename_i cp' ia' dk'
                    cases hpp
                    rfl
                  · cases hpp
                exact hprev pcp pia pdk hprev' path params hci

/-- every class_path has one signature in a Python world; this is the only thing assumed about `E` below -/
def SigDetermined (E : ClassEnv) (base : String) : Prop :=
  ∀ p1 p2 cp ps1 ps2, checkImport E base p1 = .ok (cp, ps1) → checkImport E base p2 = .ok (cp, ps2) →
    ∀ ia, ArgsValid ps1 ia → ArgsValid ps2 ia

/-- ANY sequence of sources (class changes between them included): what is stored in the end names a checked import and
    holds only init_args valid for that very class -/
theorem C14_checked (E : ClassEnv) (fuel : Nat) (base : String) (hdet : SigDetermined E base) :
    ∀ (srcs : List Val) (prev : Option Val) (s : Val),
      (∀ pcp pia pdk, prev = some (.spec (some pcp) pia pdk) →
        ∀ path params, checkImport E base path = .ok (pcp, params) → ArgsValid params pia) →
      srcs ≠ [] →
      adaptSeq E fuel base prev srcs = .ok (some s) →
      ∃ cp ia dk path params, s = .spec (some cp) ia dk ∧ checkImport E base path = .ok (cp, params)
        ∧ ArgsValid params ia
  | [], _, _, _, hne, _ => absurd rfl hne
  | raw :: r, prev, s, hprev, _, h => by
    simp only [adaptSeq] at h
    split at h
    · cases h
    · rename_i s1 hs1
      obtain ⟨cp, ia, dk, path, params, rfl, hci, hv⟩ := C14_checked_step E fuel base prev raw s1 hs1 hprev
      cases r with
      | nil =>
        simp only [adaptSeq] at h
        cases h
        exact ⟨cp, ia, dk, path, params, rfl, hci, hv⟩
      | cons raw2 r2 =>
        refine C14_checked E fuel base hdet (raw2 :: r2) _ s ?_ (by simp) h
        intro pcp pia pdk hp path' params' hci'
        cases hp
        exact hdet path path' cp params params' hci hci' ia hv

/-- from scratch -/
theorem C14_checked_from_scratch (E : ClassEnv) (fuel : Nat) (base : String) (hdet : SigDetermined E base)
    (srcs : List Val) (s : Val) (hne : srcs ≠ []) (h : adaptSeq E fuel base none srcs = .ok (some s)) :
    ∃ cp ia dk path params, s = .spec (some cp) ia dk ∧ checkImport E base path = .ok (cp, params)
      ∧ ArgsValid params ia :=
  C14_checked E fuel base hdet srcs none s (by intro _ _ _ h; cases h) hne h

/-- a class change keeps only the previous init_args that the NEW class has a parameter for and accepts: what is kept
    is valid for the new class, every kept entry stems from an accepted previous one, and a previous init arg without
    parameter in the new class contributes nothing (wherever it stands) -/
theorem C14_discard (rec : String → Option Val → Val → Except Err Val) (params : List IParam) (pia : KV) :
    ArgsValid params (keepArgs rec params pia)
    ∧ (∀ e' ∈ keepArgs rec params pia, ∃ e ∈ pia, e'.1 = e.1 ∧
        ∃ p, findParam params e.1 = some p ∧ isOk (adaptValueWith rec p.ty none e.2) = true)
    ∧ (∀ a b e, pia = a ++ e :: b → findParam params e.1 = none →
        keepArgs rec params pia = keepArgs rec params a ++ keepArgs rec params b) := by
  refine ⟨keepArgs_valid rec params pia, keepArgs_origin rec params pia, ?_⟩
  intro a b e hpia hn
  rw [hpia, keepArgs_append, keepArgs_drops_unknown rec params b e hn]

/-- in particular a `None` carried from the previous class (an explicit `null`, or the completed default of an
    `Optional` parameter) does not survive when the new class's parameter of that name is a non-Optional scalar -/
theorem C14_discard_none (rec : String → Option Val → Val → Except Err Val) (params : List IParam) (a b : KV)
    (e : String × Val) (p : IParam) (t : String) (hp : findParam params e.1 = some p) (hty : p.ty = .scalar t)
    (ht : t ≠ "NoneType") (hn : isNone e.2 = true) :
    keepArgs rec params (a ++ e :: b) = keepArgs rec params a ++ keepArgs rec params b := by
  rw [keepArgs_append, keepArgs_drops_none rec params b e p t hp hty ht hn]

/-- the end of the parse: the stored init_args become exactly the parameters of the named class, in signature order -/
theorem C14_checked_final (E : ClassEnv) (fuel : Nat) (cp : String) (ia dk : KV) (s : Val)
    (h : finalize E (fuel + 1) (.spec (some cp) ia dk) = .ok s) :
    ∃ ia', s = .spec (some cp) ia' dk ∧ ia'.map (·.1) = (paramsOf E cp).map (·.name) := by
  simp only [finalize, finalizeWith] at h
  split at h
  · cases h
  · rename_i ia' hf
    cases h
    exact ⟨ia', rfl, finalizeArgs_keys _ _ ia _ ia' hf⟩

/-! ## everything else is rejected -/

/-- the class_path does not import -/
theorem C14_rejects_missing_import (E : ClassEnv) (fuel : Nat) (base : String) (prev : Option Val) (raw : Val)
    (cp0 path : String) (ia0 dk0 : KV)
    (h1 : asNamespace (prevCpOf E base prev) raw = .ok (cp0, ia0, dk0)) (h2 : resolveName E base cp0 = .ok path)
    (hbad : importOf E path = none) :
    adapt E (fuel + 1) base prev raw = .error .importFail := by
  simp [adapt, h1, h2, checkImport, hbad]

/-- the class_path imports to something that is not a class (nor a function) -/
theorem C14_rejects_non_class (E : ClassEnv) (fuel : Nat) (base : String) (prev : Option Val) (raw : Val)
    (cp0 path : String) (ia0 dk0 : KV)
    (h1 : asNamespace (prevCpOf E base prev) raw = .ok (cp0, ia0, dk0)) (h2 : resolveName E base cp0 = .ok path)
    (hbad : importOf E path = some .other) :
    adapt E (fuel + 1) base prev raw = .error .notSubclass := by
  simp [adapt, h1, h2, checkImport, hbad]

/-- the class_path imports to a class that is not a subclass of the declared type — whether or not init_args are given -/
theorem C14_rejects_non_subclass (E : ClassEnv) (fuel : Nat) (base : String) (prev : Option Val) (raw : Val)
    (cp0 path c : String) (ia0 dk0 : KV)
    (h1 : asNamespace (prevCpOf E base prev) raw = .ok (cp0, ia0, dk0)) (h2 : resolveName E base cp0 = .ok path)
    (hi : importOf E path = some (.cls c)) (hbad : isSubclass E c base = false) :
    adapt E (fuel + 1) base prev raw = .error .notSubclass := by
  simp [adapt, h1, h2, checkImport, hi, hbad]

/-- … or to a function whose return type is not a subclass of the declared type -/
theorem C14_rejects_function_of_other_class (E : ClassEnv) (fuel : Nat) (base : String) (prev : Option Val) (raw : Val)
    (cp0 path p ret : String) (ps : List IParam) (ia0 dk0 : KV)
    (h1 : asNamespace (prevCpOf E base prev) raw = .ok (cp0, ia0, dk0)) (h2 : resolveName E base cp0 = .ok path)
    (hi : importOf E path = some (.func p ret ps)) (hbad : isSubclass E ret base = false) :
    adapt E (fuel + 1) base prev raw = .error .notSubclass := by
  simp [adapt, h1, h2, checkImport, hi, hbad]

/-- an init arg that is not a parameter of the NAMED class (whatever the declared base accepts) -/
theorem C14_rejects_unknown_init_arg (E : ClassEnv) (fuel : Nat) (base : String) (prev : Option Val) (raw : Val)
    (cp0 path cp : String) (params : List IParam) (ia0 dk0 : KV)
    (h1 : asNamespace (prevCpOf E base prev) raw = .ok (cp0, ia0, dk0)) (h2 : resolveName E base cp0 = .ok path)
    (h3 : checkImport E base path = .ok (cp, params))
    (hbad : ∃ e ∈ ia0, findParam params e.1 = none) :
    ∃ err, adapt E (fuel + 1) base prev raw = .error err := by
  obtain ⟨e, he, hn⟩ := hbad
  have hne : ∀ acc ia, mergeArgs (adapt E fuel) params
      (ia0 ++ dk0.filter (fun e => (findParam params e.1).isSome)) acc ≠ .ok ia := by
    intro acc ia hc
    obtain ⟨err, hm⟩ := mergeArgs_unknown (adapt E fuel) params _ acc ⟨e, List.mem_append_left _ he, hn⟩
    rw [hm] at hc
    cases hc
  simp only [adapt, h1, h2, h3, adaptClass]
  split
  · exact ⟨_, rfl⟩
  · rename_i ia heq
    exact absurd heq (hne _ _)

/-- an init arg of a scalar parameter of the named class that the declared type does not accept (`coerceScalar`: only a
    literal of that type, or an int for a float) -/
theorem C14_rejects_ill_typed_init_arg (E : ClassEnv) (fuel : Nat) (base : String) (prev : Option Val) (raw : Val)
    (cp0 path cp : String) (params : List IParam) (ia0 dk0 : KV)
    (h1 : asNamespace (prevCpOf E base prev) raw = .ok (cp0, ia0, dk0)) (h2 : resolveName E base cp0 = .ok path)
    (h3 : checkImport E base path = .ok (cp, params))
    (hbad : ∃ e ∈ ia0, ∃ p t, findParam params e.1 = some p ∧ p.ty = .scalar t ∧ coerceScalar t e.2 = none) :
    ∃ err, adapt E (fuel + 1) base prev raw = .error err := by
  obtain ⟨e, he, p, t, hp, hty, hb⟩ := hbad
  have hne : ∀ acc ia, mergeArgs (adapt E fuel) params
      (ia0 ++ dk0.filter (fun e => (findParam params e.1).isSome)) acc ≠ .ok ia := by
    intro acc ia hc
    obtain ⟨err, hm⟩ := mergeArgs_illTyped (adapt E fuel) params _ acc
      ⟨e, List.mem_append_left _ he, p, t, hp, hty, hb⟩
    rw [hm] at hc
    cases hc
  simp only [adapt, h1, h2, h3, adaptClass]
  split
  · exact ⟨_, rfl⟩
  · rename_i ia heq
    exact absurd heq (hne _ _)

/-- a required parameter of the named class without value at the end of the parse -/
theorem C14_rejects_missing_required (E : ClassEnv) (fuel : Nat) (cp : String) (ia dk : KV) (p : IParam)
    (hp : p ∈ paramsOf E cp) (hreq : p.dflt = none) (hmiss : getKV p.name ia = none) :
    ∃ err, finalize E (fuel + 1) (.spec (some cp) ia dk) = .error err := by
  obtain ⟨err, he⟩ := finalizeArgs_missing (finalizeWith E fuel) [] ia (paramsOf E cp)
    ⟨p, hp, hreq, hmiss, by simp [fallbackValue, getKV]⟩
  exact ⟨err, by simp [finalize, finalizeWith, he]⟩

/-- init_args without class_path (or a bare dict, or a dotted sub-option) for an ABSTRACT declared type with nothing
    given before: there is no class to take them -/
theorem C14_rejects_abstract_without_class (E : ClassEnv) (fuel : Nat) (base : String) (kvs : KV) (k : String) (v : Val)
    (habs : isAbstract E base = true) :
    adapt E (fuel + 1) base none (.bare kvs) = .error .notSpec
    ∧ adapt E (fuel + 1) base none (.spec none kvs []) = .error .notSpec
    ∧ adapt E (fuel + 1) base none (.nested [k] v) = .error .notSpec := by
  simp [adapt, prevCpOf, prevParts, habs, asNamespace]

/-! ## instantiation -/

/-- exactly one constructor call per spec -/
theorem C14_built_once (v : Val) : (instantiate v).length = countSpecs v := by
  obtain ⟨new, h1, h2, _, _⟩ := inst_spec v [] (by intro j hj; cases hj)
  simp only [instantiate, h1, List.nil_append, h2]

/-- the spec itself is constructed LAST (all nested class arguments first), as exactly the named class, with exactly the
    init_args keys (in order) and exactly the dict_kwargs -/
theorem C14_built_root (cp : String) (ia dk : KV) :
    ∃ children args, instantiate (.spec (some cp) ia dk) = children ++ [⟨cp, args, dk.map (fun e => (e.1, rawArg e.2))⟩]
      ∧ children.length = countSpecsKV ia
      ∧ args.map (·.1) = ia.map (·.1) := by
  obtain ⟨new, h1, h2, _, _⟩ := instArgs_spec ia [] (by intro j hj; cases hj)
  refine ⟨(instArgs ia []).1, (instArgs ia []).2, ?_, ?_, instArgs_keys ia []⟩
  · simp [instantiate, inst]
  · simp only [h1, List.nil_append, h2]

/-- children strictly before parents: every object passed to the `j`-th constructor call was built by a call `i < j` -/
theorem C14_built_children_first (v : Val) : Backward (instantiate v) := by
  obtain ⟨_, _, _, h3, _⟩ := inst_spec v [] (by intro j hj; cases hj)
  exact h3

/-- scalars are passed as they are; a nested spec is passed as the object of its own (last) constructor call, which is a
    call of exactly the class the nested spec names -/
theorem C14_built_child (k cp : String) (ia dk rest : KV) (log : List Ctor) :
    ∃ i, (instArgs ((k, .spec (some cp) ia dk) :: rest) log).2.head? = some (k, Arg.obj i)
      ∧ ((instArgs ((k, .spec (some cp) ia dk) :: rest) log).1[i]?).map (·.target) = some cp := by
  obtain ⟨n2, b1⟩ := instArgs_grows rest (inst (.spec (some cp) ia dk) log).1
  refine ⟨(instArgs ia log).1.length, by simp [instArgs, inst], ?_⟩
  simp only [instArgs]
  rw [b1]
  simp [inst]

theorem C14_built_scalar (k ty tok : String) (rest : KV) (log : List Ctor) :
    (instArgs ((k, .lit ty tok) :: rest) log).2.head? = some (k, Arg.lit ty tok) := by
  simp [instArgs, inst]

/-! ## `List[Class]` and `Dict[str, Class]` (the List and Dict branches of `adapt_typehints`, as written) -/

/-- the previous value of an element satisfies the hypothesis of `C14_checked_step` -/
def ElemValid (E : ClassEnv) (base : String) (prev : Option Val) : Prop :=
  ∀ pcp pia pdk, prev = some (.spec (some pcp) pia pdk) →
    ∀ path params, checkImport E base path = .ok (pcp, params) → ArgsValid params pia

/-- the conclusion of `C14_checked_step` for one element -/
def ElemChecked (E : ClassEnv) (base : String) (s : Val) : Prop :=
  ∃ cp ia dk path params, s = .spec (some cp) ia dk ∧ checkImport E base path = .ok (cp, params) ∧ ArgsValid params ia

/-- DICT, per key: adapting a dict value with a (non-empty) previous dict `P` gives the same keys in the same order and, at
    EVERY key `k`, exactly the adaptation of the given value with the previous value of that very key, `P[k]` (absent:
    no previous value) — whatever the position of the key; and conversely these element results make up the result -/
theorem C14_dict_per_key (rec : String → Option Val → Val → Except Err Val) (b : String) (P kvs ys : KV) (hP : P ≠ []) :
    adaptDictWith rec b (some (.dct P)) (.dct kvs) = .ok (.dct ys) ↔
      Pointwise (fun kv y => y.1 = kv.1 ∧ rec b (getKV kv.1 P) kv.2 = .ok y.2) kvs ys := by
  have hprev : ∀ k, dictPrev (some (.dct P)) k = getKV k P := fun k => dictPrev_nonempty P k hP
  rw [show (fun (kv : String × Val) (y : String × Val) => y.1 = kv.1 ∧ rec b (getKV kv.1 P) kv.2 = .ok y.2)
      = (fun kv y => y.1 = kv.1 ∧ rec b (dictPrev (some (.dct P)) kv.1) kv.2 = .ok y.2) from by
    funext kv y; rw [hprev]]
  rw [← adaptEntries_iff]
  simp only [adaptDictWith]
  constructor
  · intro h
    split at h
    · cases h
    · rename_i ys' hys
      cases h
      exact hys
  · intro h
    simp only [h]

/-- … so a key whose earlier value names a class keeps THAT class when the later value is a short form: the class_path a
    short form is completed with is the key's own previous one -/
theorem C14_dict_short_form_uses_own_class (E : ClassEnv) (b cp : String) (ia dk : KV) :
    prevCpOf E b (some (.spec (some cp) ia dk)) = some cp := rfl

/-- the dotted per-key form `--table.KEY=value` sets that one key (the WHOLE dotted remainder is the key) and keeps the
    other keys of the previous dict (each re-adapted with itself as previous value) -/
theorem C14_dict_dotted_key (rec : String → Option Val → Val → Except Err Val) (b : String) (P : KV) (key : List String)
    (v : Val) :
    adaptDictWith rec b (some (.dct P)) (.nested key v)
      = adaptDictWith rec b (some (.dct P)) (.dct (setKV (joinKey key) v P)) := rfl

/-- LIST, per item: when the previous list has the SAME length, item `n` is adapted with `P[n]` as previous value -/
theorem C14_list_per_item (rec : String → Option Val → Val → Except Err Val) (b : String) (P xs ys : List Val)
    (hlen : P.length = xs.length) :
    adaptListWith rec b (some (.lst P)) (.lst xs) = .ok (.lst ys) ↔
      Pointwise (fun (pv : Val × Val) y => rec b (some pv.1) pv.2 = .ok y) (P.zip xs) ys := by
  have hl : listPrevs (some (.lst P)) xs.length = P.map some := by simp [listPrevs, hlen]
  have hz : (P.map some).zip xs = (P.zip xs).map (fun pv => (some pv.1, pv.2)) := by
    rw [List.zip_map_left]
    apply List.map_congr_left
    intro pv _
    rfl
  simp only [adaptListWith, hl]
  have key := adaptItems_iff rec b xs (P.map some) ys (by simp [hlen])
  rw [hz] at key
  have conv := Pointwise.map_left (fun (pv : Val × Val) => ((some pv.1, pv.2) : Option Val × Val))
    (fun (pv : Option Val × Val) y => rec b pv.1 pv.2 = .ok y) (P.zip xs) ys
  rw [← conv, ← key]
  constructor
  · intro h
    split at h
    · cases h
    · rename_i ys' hys
      cases h
      exact hys
  · intro h
    simp only [h]

/-- … and when the length DIFFERS no item has a previous value of its own: every item gets the whole previous list,
    which names no class -/
theorem C14_list_other_length (rec : String → Option Val → Val → Except Err Val) (b : String) (P xs ys : List Val)
    (hlen : P.length ≠ xs.length) :
    adaptListWith rec b (some (.lst P)) (.lst xs) = .ok (.lst ys) ↔
      Pointwise (fun (pv : Option Val × Val) y => rec b pv.1 pv.2 = .ok y)
        ((List.replicate xs.length (some (.lst P))).zip xs) ys := by
  have hl : listPrevs (some (.lst P)) xs.length = List.replicate xs.length (some (.lst P)) := by simp [listPrevs, hlen]
  simp only [adaptListWith, hl]
  rw [← adaptItems_iff rec b xs _ ys (by simp)]
  constructor
  · intro h
    split at h
    · cases h
    · rename_i ys' hys
      cases h
      exact hys
  · intro h
    simp only [h]

/-- a whole list as "previous value" of an item: no class to complete a short form from and no implicit class_path
    (short forms are rejected); a value that names its class is adapted as if there were no previous value at all -/
theorem C14_list_prev_names_no_class (E : ClassEnv) (fuel : Nat) (b : String) (P : List Val) :
    prevCpOf E b (some (.lst P)) = none
    ∧ (∀ s, adapt E fuel b (some (.lst P)) (.lit "str" s) = adapt E fuel b none (.lit "str" s))
    ∧ (∀ cp ia dk, adapt E fuel b (some (.lst P)) (.spec (some cp) ia dk) = adapt E fuel b none (.spec (some cp) ia dk)) := by
  refine ⟨by simp [prevCpOf, prevParts, isNone], ?_, ?_⟩
  · intro s
    cases fuel with
    | zero => rfl
    | succ n => simp only [adapt, asNamespace, prevParts]
  · intro cp ia dk
    cases fuel with
    | zero => rfl
    | succ n => simp only [adapt, asNamespace, prevParts]

/-- `--opt+=value` appends: the old items keep themselves as previous value, the new item has none -/
theorem C14_list_append (rec : String → Option Val → Val → Except Err Val) (b : String) (P : List Val) (v : Val)
    (hv : ∀ xs, v ≠ .lst xs) :
    adaptListAppendWith rec b (some (.lst P)) v
      = (match adaptItems rec b (P.map some ++ [none]) (P ++ [v]) with
         | .error e => .error e
         | .ok ys => .ok (.lst ys)) := by
  cases v with
  | lst xs => exact absurd rfl (hv xs)
  | lit _ _ => rfl
  | spec _ _ _ => rfl
  | bare _ => rfl
  | nested _ _ => rfl
  | dct _ => rfl

theorem adaptEntries_checked (E : ClassEnv) (fuel : Nat) (b : String) (prev : Option Val)
    (hprev : ∀ k, ElemValid E b (dictPrev prev k)) :
    ∀ (kvs ys : KV), adaptEntries (adapt E fuel) b prev kvs = .ok ys → ∀ y ∈ ys, ElemChecked E b y.2 := by
  intro kvs ys h y hy
  obtain ⟨kv, _, _, hr⟩ := ((adaptEntries_iff (adapt E fuel) b prev kvs ys).mp h).of_mem_right y hy
  exact C14_checked_step E fuel b (dictPrev prev kv.1) kv.2 y.2 hr (hprev kv.1)

/-- every element of an accepted dict / list of classes satisfies `C14_checked`: it names an import that is a subclass of
    the declared element type (or a function returning one) with init_args valid for that very class — provided the
    previous elements did -/
theorem C14_checked_containers (E : ClassEnv) (fuel : Nat) (b : String) (prev : Option Val) :
    (∀ kvs r, (∀ k, ElemValid E b (dictPrev prev k)) →
        adaptDictWith (adapt E fuel) b prev (.dct kvs) = .ok r → ∃ ys, r = .dct ys ∧ ∀ y ∈ ys, ElemChecked E b y.2)
    ∧ (∀ xs r, (∀ p ∈ listPrevs prev xs.length, ElemValid E b p) →
        adaptListWith (adapt E fuel) b prev (.lst xs) = .ok r → ∃ ys, r = .lst ys ∧ ∀ y ∈ ys, ElemChecked E b y) := by
  constructor
  · intro kvs r hprev h
    simp only [adaptDictWith] at h
    split at h
    · cases h
    · rename_i ys hys
      cases h
      exact ⟨ys, rfl, adaptEntries_checked E fuel b prev hprev kvs ys hys⟩
  · intro xs r hprev h
    simp only [adaptListWith] at h
    split at h
    · cases h
    · rename_i ys hys
      cases h
      refine ⟨ys, rfl, ?_⟩
      intro y hy
      have hp := (adaptItems_iff (adapt E fuel) b xs (listPrevs prev xs.length) ys (listPrevs_length prev xs.length)).mp hys
      obtain ⟨pv, hpv, hr⟩ := hp.of_mem_right y hy
      exact C14_checked_step E fuel b pv.1 pv.2 y hr (hprev pv.1 (List.of_mem_zip hpv).1)

/-- instantiation of a list / dict of specs: exactly one constructor call per spec (nested ones included), object
    references only backwards (children first), and the elements are built IN CONTAINER ORDER: the log indices of the
    element objects increase strictly and every one of them exists -/
theorem C14_built_containers (xs : List Val) (kvs : KV) :
    ((instantiate (.lst xs)).length = countSpecsList xs ∧ Backward (instantiate (.lst xs))
      ∧ List.Pairwise (· < ·) ((instList xs []).2.filterMap id)
      ∧ ∀ i ∈ (instList xs []).2.filterMap id, i < (instantiate (.lst xs)).length)
    ∧ ((instantiate (.dct kvs)).length = countSpecsKV kvs ∧ Backward (instantiate (.dct kvs))
      ∧ List.Pairwise (· < ·) ((instDict kvs []).2.filterMap (·.2))
      ∧ ∀ i ∈ (instDict kvs []).2.filterMap (·.2), i < (instantiate (.dct kvs)).length) := by
  have hb0 : Backward [] := by intro j hj; cases hj
  constructor
  · obtain ⟨new, h1, h2, h3, h4⟩ := instList_spec xs [] hb0
    refine ⟨by simp [instantiate, inst, h1, h2], by simpa [instantiate, inst] using h3, (instList_sorted xs []).1, ?_⟩
    intro i hi
    simp only [List.mem_filterMap, id_eq, exists_eq_right] at hi
    simpa [instantiate, inst] using h4 i hi
  · obtain ⟨new, h1, h2, h3, h4⟩ := instDict_spec kvs [] hb0
    refine ⟨by simp [instantiate, inst, h1, h2], by simpa [instantiate, inst] using h3, (instDict_sorted kvs []).1, ?_⟩
    intro i hi
    simp only [List.mem_filterMap] at hi
    obtain ⟨e, he, hei⟩ := hi
    simpa [instantiate, inst] using h4 e he i hei

/-- the element object IS the (last) constructor call of the class its spec names -/
theorem C14_built_container_item (cp : String) (ia dk : KV) (rest : List Val) (log : List Ctor) :
    ∃ i, (instList (.spec (some cp) ia dk :: rest) log).2.head? = some (some i)
      ∧ ((instList (.spec (some cp) ia dk :: rest) log).1[i]?).map (·.target) = some cp := by
  obtain ⟨n2, b1⟩ := instList_grows rest (inst (.spec (some cp) ia dk) log).1
  refine ⟨(instArgs ia log).1.length, by simp [instList, inst, objIdx], ?_⟩
  simp only [instList]
  rw [b1]
  simp [inst]

/-! ## which instantiator builds the object -/

/-- the instantiators a (sub)parser registered itself come BEFORE the ones it inherits: when one of its own matches the
    class, the object is built by the first matching own one, whatever the parent parser or the context registered -/
theorem C14_instantiator_own_first (E : ClassEnv) (own parent ctx : List Instantiator) (cls : String) (i : Instantiator)
    (h : own.find? (instMatches E cls) = some i) :
    pickInstantiator E (getInstantiators own parent ctx) cls = i.tag := by
  simp [pickInstantiator, getInstantiators, List.find?_append, h]

/-- … and an inherited one is used only when none of the own ones matches: then the first matching one of the parent
    (among those whose key the parser does not have itself) -/
theorem C14_instantiator_parent_next (E : ClassEnv) (own parent ctx : List Instantiator) (cls : String) (i : Instantiator)
    (h0 : own.find? (instMatches E cls) = none)
    (h : (parent.filter (fun k => !(own.any (sameKey k)))).find? (instMatches E cls) = some i) :
    pickInstantiator E (getInstantiators own parent ctx) cls = i.tag := by
  simp only [pickInstantiator, getInstantiators, List.find?_append, h0, Option.none_or, h, Option.some_or]

/-! ## short notations -/

/-- `--opt=Name` is `--opt {"class_path": "Name"}` -/
theorem C14_short_name (E : ClassEnv) (fuel : Nat) (base : String) (prev : Option Val) (name : String) :
    adapt E fuel base prev (.lit "str" name) = adapt E fuel base prev (.spec (some name) [] []) :=
  adapt_congr E fuel base prev _ _ (fun _ => rfl)

/-- `--opt.k=v` (equally `--opt.init_args.k=v`) is the bare dict `{k: v}` and is `{"init_args": {k: v}}` -/
theorem C14_short_dotted (E : ClassEnv) (fuel : Nat) (base : String) (prev : Option Val) (k : String) (v : Val) :
    adapt E fuel base prev (.nested [k] v) = adapt E fuel base prev (.bare [(k, v)])
    ∧ adapt E fuel base prev (.bare [(k, v)]) = adapt E fuel base prev (.spec none [(k, v)] []) := by
  constructor
  · apply adapt_congr
    intro pc
    simp [asNamespace]
  · exact adapt_congr E fuel base prev _ _ (fun _ => rfl)

/-- `--opt.dict_kwargs.k=v` is `{"dict_kwargs": {k: v}}` -/
theorem C14_short_dict_kwargs (E : ClassEnv) (fuel : Nat) (base : String) (prev : Option Val) (k : String) (v : Val) :
    adapt E fuel base prev (.nested ["dict_kwargs", k] v) = adapt E fuel base prev (.spec none [] [(k, v)]) :=
  adapt_congr E fuel base prev _ _ (fun _ => rfl)

/-- a sub-option of a nested class argument, `--opt.k.rest=v`, is the bare dict `{k: NestedArg(rest, v)}`: the class
    parser receives the remaining dotted key for its own argument `k` -/
theorem C14_short_dotted_deep (E : ClassEnv) (fuel : Nat) (base : String) (prev : Option Val)
    (k r : String) (rest : List String) (v : Val) (hk : k ≠ "dict_kwargs") :
    adapt E fuel base prev (.nested (k :: r :: rest) v) = adapt E fuel base prev (.bare [(k, .nested (r :: rest) v)]) := by
  apply adapt_congr
  intro pc
  simp only [asNamespace]
  split <;> simp_all

/-- GENERAL form: whatever the notation, adapting the explicit dict `{class_path: <resolved path>, init_args, dict_kwargs}`
    that `shortToExplicit` computes gives exactly the same result (import paths of classes contain a dot) -/
theorem C14_short (E : ClassEnv) (fuel : Nat) (base : String) (prev : Option Val) (raw ex : Val)
    (hdot : ∀ c ∈ E.classes, isDotted c.path = true)
    (h : shortToExplicit E base prev raw = .ok ex) :
    adapt E fuel base prev ex = adapt E fuel base prev raw := by
  unfold shortToExplicit at h
  split at h
  · cases h
  · rename_i cp0 ia0 dk0 hns
    split at h
    · cases h
    · rename_i path hr
      cases h
      cases fuel with
      | zero => rfl
      | succ n =>
        have hid := resolveName_idem E base cp0 path hdot hr
        have hex : ∀ pc, asNamespace pc (.spec (some path) ia0 dk0) = .ok (path, ia0, dk0) := fun _ => rfl
        simp only [adapt, hex, hid, hns, hr]

/-! ## `SigDetermined` holds in every environment whose imports are classes -/

theorem C14_sig_determined_of_classes (E : ClassEnv) (base : String)
    (h : ∀ path p r ps, importOf E path ≠ some (.func p r ps)) : SigDetermined E base := by
  intro p1 p2 cp ps1 ps2 h1 h2 ia hv
  rcases C14_checked_import E base p1 cp ps1 h1 with ⟨d1, _, _, hl1, rfl⟩ | ⟨ret, hi, _⟩
  · rcases C14_checked_import E base p2 cp ps2 h2 with ⟨d2, _, _, hl2, rfl⟩ | ⟨ret, hi, _⟩
    · rw [hl1] at hl2
      cases hl2
      exact hv
    · exact absurd hi (h _ _ _ _)
  · exact absurd hi (h _ _ _ _)

/-! ## non-vacuity and the dict_kwargs finding on a concrete family -/

/-- `Base(a: int = 1)`, `Sub(Base)(a: int = 1, b: str = "x")`, `Sub2(Base)(c: int, a: int = 2)`, `KW(Base)(a: int = 1, **kw)`,
    `Other(a: int = 1)` unrelated, `Owner(dep: Base, n: int = 0)`, abstract `Abs`, a non-class -/
def exE : ClassEnv :=
  ⟨[⟨"m.Base", "Base", [⟨"a", .scalar "int", some (.lit "int" "1")⟩], false⟩,
    ⟨"m.Sub", "Sub", [⟨"a", .scalar "int", some (.lit "int" "1")⟩, ⟨"b", .scalar "str", some (.lit "str" "x")⟩], false⟩,
    ⟨"m.Sub2", "Sub2", [⟨"c", .scalar "int", none⟩, ⟨"a", .scalar "int", some (.lit "int" "2")⟩], false⟩,
    ⟨"m.KW", "KW", [⟨"a", .scalar "int", some (.lit "int" "1")⟩], false⟩,
    ⟨"m.Other", "Other", [⟨"a", .scalar "int", some (.lit "int" "1")⟩], false⟩,
    ⟨"m.Owner", "Owner", [⟨"dep", .cls "m.Base", none⟩, ⟨"n", .scalar "int", some (.lit "int" "0")⟩], false⟩,
    ⟨"m.Abs", "Abs", [], true⟩],
   [("m.Sub", "m.Base"), ("m.Sub2", "m.Base"), ("m.KW", "m.Base")],
   [("m.Base", .cls "m.Base"), ("m.Sub", .cls "m.Sub"), ("m.Sub2", .cls "m.Sub2"), ("m.KW", .cls "m.KW"),
    ("m.Other", .cls "m.Other"), ("m.Owner", .cls "m.Owner"), ("m.Abs", .cls "m.Abs"), ("m.five", .other)]⟩

def okSpec (r : Except Err (Option Val)) (cp : String) (keys : List String) (dkKeys : List String) : Bool :=
  match r with
  | .ok (some (.spec (some c) ia dk)) => c == cp && ia.map (·.1) == keys && dk.map (·.1) == dkKeys
  | _ => false

def isErr (r : Except Err (Option Val)) (e : Err) : Bool :=
  match r with
  | .error e' => e' == e
  | _ => false

/-- accepted: name only, dotted sub-option, class change keeping `a` and dropping `b`, nested class argument -/
example :
    okSpec (adaptAll exE 8 "m.Base" [.lit "str" "Sub", .nested ["b"] (.lit "str" "w")]) "m.Sub" ["a", "b"] [] = true
    ∧ okSpec (adaptAll exE 8 "m.Base" [.spec (some "Sub") [("a", .lit "int" "5"), ("b", .lit "str" "k")] [],
                                       .lit "str" "Sub2", .nested ["c"] (.lit "int" "1")]) "m.Sub2" ["c", "a"] [] = true
    ∧ okSpec (adaptAll exE 8 "m.Owner" [.nested ["dep"] (.lit "str" "Sub"), .nested ["dep", "b"] (.lit "str" "w")])
        "m.Owner" ["dep", "n"] [] = true := by decide

/-- rejected: unrelated class (with and without init_args), non-class, missing import, unknown / ill-typed / missing
    required init arg, bare dict for an abstract type -/
example :
    isErr (adaptAll exE 8 "m.Base" [.lit "str" "m.Other"]) .notSubclass = true
    ∧ isErr (adaptAll exE 8 "m.Base" [.spec (some "m.Other") [("a", .lit "int" "2")] []]) .notSubclass = true
    ∧ isErr (adaptAll exE 8 "m.Base" [.lit "str" "m.five"]) .notSubclass = true
    ∧ isErr (adaptAll exE 8 "m.Base" [.lit "str" "m.Missing"]) .importFail = true
    ∧ isErr (adaptAll exE 8 "m.Base" [.spec (some "Sub") [("zz", .lit "int" "1")] []]) .unknownKey = true
    ∧ isErr (adaptAll exE 8 "m.Base" [.spec (some "Sub") [("c", .lit "int" "1")] []]) .unknownKey = true
    ∧ isErr (adaptAll exE 8 "m.Base" [.spec (some "Sub") [("a", .lit "str" "no")] []]) .illTyped = true
    ∧ isErr (adaptAll exE 8 "m.Base" [.lit "str" "Sub2"]) .missingRequired = true
    ∧ isErr (adaptAll exE 8 "m.Abs" [.bare []]) .notSpec = true := by decide

/-- the constructor log of `Owner(dep=Sub(a=1, b='w'), n=0)`: the nested object first, passed as object 0 -/
example :
    (match adaptAll exE 8 "m.Owner" [.nested ["dep"] (.lit "str" "Sub"), .nested ["dep", "b"] (.lit "str" "w")] with
     | .ok (some s) => instantiate s
     | _ => [])
    = [⟨"m.Sub", [("a", .lit "int" "1"), ("b", .lit "str" "w")], []⟩,
       ⟨"m.Owner", [("dep", .obj 0), ("n", .lit "int" "0")], []⟩] := by decide

example : SigDetermined exE "m.Base" := by
  apply C14_sig_determined_of_classes
  intro path p r ps h
  unfold importOf at h
  split at h
  · rename_i e he
    have hm := List.mem_of_find?_eq_some he
    simp only [exE, List.mem_cons, List.mem_nil_iff, or_false] at hm
    rcases hm with rfl | rfl | rfl | rfl | rfl | rfl | rfl | rfl <;> simp at h
  · cases h

/-! ## several class-typed options in one parser: the work-list walk of the merge (`merge_config`) -/

/-- the statements of `ActionTypeHint.discard_init_args_on_class_path_change` (the walk) and of the module-level
    `discard_init_args_on_class_path_change` / `resolve_class_path_by_name` / the Dataclass-like test that `discardWalk`,
    `keepArgs`, `resolveName`, `dataFieldsOf` transcribe, as they stand in the source (regenerated on every run) -/
theorem C14_statements_pinned :
    Jap.Gen.discardPruneSep = "."
    ∧ Jap.Gen.discardWalkPrune = ["keys = keys[:num + 1] + [k for k in keys[num + 1:] if not k.startswith(key + '.')]"]
    ∧ Jap.Gen.discardWalkGuard = ["is_subclass_spec(prev_val) and is_subclass_spec(val)", "isinstance(action, ActionTypeHint)", "prev_sub_cfg"]
    ∧ Jap.Gen.discardModuleGuard = ["prev_val and 'init_args' in prev_val and (prev_val['class_path'] != value['class_path'])"]
    ∧ Jap.Gen.discardModuleDrops = ["if not action:\n    del_args[key] = prev_val.init_args.pop(key)"]
    ∧ Jap.Gen.dataclassSpecTest = ["is_subclass_spec(val) and get_import_path(typehint) == val.get('class_path')"]
    ∧ Jap.Gen.resolveByNameTests = ["'.' not in class_path", "name in subclass_dict", "len(name_subclasses) > 1"]
    ∧ Jap.Gen.adaptClassTypeDictKwargs
        = ["if _find_action(parser, key):\n    init_args[key] = dict_kwargs.pop(key)",
           "if prev_val and prev_val.get('class_path') == value['class_path'] and prev_val.get('dict_kwargs'):\n    dict_kwargs = {**prev_val.get('dict_kwargs'), **dict_kwargs}"] :=
  ⟨rfl, rfl, rfl, rfl, rfl, rfl, rfl, rfl⟩

theorem prefix_has_dot (a k : List Char) (h : (a ++ ['.']).isPrefixOf k = true) : '.' ∈ k := by
  rw [List.isPrefixOf_iff_prefix] at h
  obtain ⟨t, rfl⟩ := h
  simp

/-- EVERY option is looked at: a key without a dot (an option of the parser itself) that holds a class spec on both
    sides of the merge is handled by the walk, whatever the other keys of the work list are called (`opt` / `opt2`,
    `model` / `model_ema`: a name that has another option's name as a string prefix is NOT below that option) and wherever
    it stands.  The separator is the literal of the source. -/
theorem C14_walk_handles_every_option (both : String → Bool) :
    ∀ (n : Nat) (keys : List String), keys.length ≤ n → ∀ k ∈ keys, both k = true → '.' ∉ k.toList →
      k ∈ discardWalk Jap.Gen.discardPruneSep both n keys
  | 0, keys, hn, k, hk, _, _ => by
    have : keys = [] := List.eq_nil_of_length_eq_zero (Nat.le_zero.mp hn)
    subst this
    cases hk
  | n + 1, [], _, k, hk, _, _ => by cases hk
  | n + 1, key :: rest, hn, k, hk, hb, hdot => by
    simp only [discardWalk]
    rcases List.mem_cons.mp hk with rfl | hr
    · simp [hb]
    · have hlen : rest.length ≤ n := by simpa using hn
      split
      · refine List.mem_cons_of_mem _ (C14_walk_handles_every_option both n _ ?_ k ?_ hb hdot)
        · exact Nat.le_trans (List.length_filter_le _ _) hlen
        · refine List.mem_filter.mpr ⟨hr, ?_⟩
          have hsep : Jap.Gen.discardPruneSep.toList = ['.'] := by decide
          cases hc : isChildKey Jap.Gen.discardPruneSep key k with
          | false => rfl
          | true =>
            simp only [isChildKey, hsep] at hc
            exact absurd (prefix_has_dot _ _ hc) hdot
      · exact C14_walk_handles_every_option both n rest hlen k hr hb hdot

/-- … and only keys that hold a class spec on both sides are handled, each at most where it stands in the work list -/
theorem C14_walk_handles_only_specs (sep : String) (both : String → Bool) :
    ∀ (n : Nat) (keys : List String), ∀ k ∈ discardWalk sep both n keys, k ∈ keys ∧ both k = true
  | 0, _, k, hk => by simp [discardWalk] at hk
  | n + 1, [], k, hk => by simp [discardWalk] at hk
  | n + 1, key :: rest, k, hk => by
    simp only [discardWalk] at hk
    split at hk
    · rename_i hb
      rcases List.mem_cons.mp hk with rfl | hr
      · exact ⟨List.mem_cons_self, hb⟩
      · obtain ⟨h1, h2⟩ := C14_walk_handles_only_specs sep both n _ k hr
        exact ⟨List.mem_cons_of_mem _ (List.mem_filter.mp h1).1, h2⟩
    · obtain ⟨h1, h2⟩ := C14_walk_handles_only_specs sep both n rest k hk
      exact ⟨List.mem_cons_of_mem _ h1, h2⟩

/-- non-vacuity: the flat keys of `{opt: Spec, opt2: Spec}`; both options are handled, the sub-keys of `opt` are not
    walked again -/
example :
    discardWalk Jap.Gen.discardPruneSep (fun k => k == "opt" || k == "opt2") 8
      ["opt", "opt.class_path", "opt.init_args", "opt.init_args.a", "opt2", "opt2.class_path", "opt2.init_args", "opt2.init_args.a"]
    = ["opt", "opt2"] := by decide

/-! ## dataclass-typed values in class_path form (Optional / List / Dict / Union members) -/

/-- a class_path is accepted for a dataclass type ONLY when it is the import path of the declared dataclass itself —
    identity of the path, not of the simple name — and then the stored fields are all fields of THAT dataclass, well
    typed (provided the previous ones were) -/
theorem C14_data_class_path_identity (fields : List IParam) (decl cp : String) (prev ia dk : KV) (r : Val)
    (hprev : ArgsValid fields prev)
    (h : adaptData fields decl prev (.spec (some cp) ia dk) = .ok r) :
    cp = decl ∧ ∃ kv, r = .bare kv ∧ ArgsValid fields kv := by
  simp only [adaptData, dataFieldsOf] at h
  split at h
  · cases h
  · rename_i kvs hk
    split at hk
    · rename_i heq
      cases hk
      split at h
      · cases h
      · rename_i kv hm
        cases h
        exact ⟨by simpa using heq, kv, rfl, mergeArgs_valid _ fields _ _ kv hprev hm⟩
    · cases hk

/-- a class_path that differs from the declared dataclass's path — same simple name or not — is rejected by the
    dataclass arm -/
theorem C14_data_rejects_other_class (fields : List IParam) (decl cp : String) (prev ia dk : KV) (hne : cp ≠ decl) :
    adaptData fields decl prev (.spec (some cp) ia dk) = .error .unknownKey := by
  simp [adaptData, dataFieldsOf, hne]

/-- `Union[Dataclass, Class]` / `Union[Class, Dataclass]`: whatever the order of the members, an accepted class_path either
    IS the declared dataclass (stored as its fields) or passed the import / subclass check of the class member and holds
    init_args valid for that very class -/
theorem C14_union_data_class (E : ClassEnv) (fuel : Nat) (fields : List IParam) (decl b cp : String) (ia dk : KV) (r : Val)
    (h : adaptUnion2 (adaptData fields decl []) (adapt E fuel b none) (.spec (some cp) ia dk) = .ok r
       ∨ adaptUnion2 (adapt E fuel b none) (adaptData fields decl []) (.spec (some cp) ia dk) = .ok r) :
    (cp = decl ∧ ∃ kv, r = .bare kv ∧ ArgsValid fields kv) ∨ ElemChecked E b r := by
  have hd : ∀ r, adaptData fields decl [] (.spec (some cp) ia dk) = .ok r →
      (cp = decl ∧ ∃ kv, r = .bare kv ∧ ArgsValid fields kv) :=
    fun r hr => C14_data_class_path_identity fields decl cp [] ia dk r (argsValid_nil fields) hr
  have hc : ∀ r, adapt E fuel b none (.spec (some cp) ia dk) = .ok r → ElemChecked E b r :=
    fun r hr => C14_checked_step E fuel b none _ r hr (by intro _ _ _ hp; cases hp)
  rcases h with h | h <;> simp only [adaptUnion2] at h <;> split at h
  · rename_i r' hr'
    cases h
    exact Or.inl (hd _ hr')
  · exact Or.inr (hc _ h)
  · rename_i r' hr'
    cases h
    exact Or.inr (hc _ hr')
  · exact Or.inl (hd _ h)

/-- non-vacuity on the concrete family: `Other` as a dataclass `d.Other(a: int = 1)` next to the class `m.Other`: the
    exact path is taken, the same-named class of another module is rejected for `Optional[d.Other]` and goes through the
    class member for `Union[d.Other, m.Base]` (where `m.Sub` is built and `m.Other` rejected) -/
example :
    (match adaptData [⟨"a", .scalar "int", some (.lit "int" "1")⟩] "d.Other" [] (.spec (some "d.Other") [("a", .lit "int" "3")] []) with
     | .ok (.bare kv) => kv.map (·.1) == ["a"]
     | _ => false) = true
    ∧ isOk (adaptData [⟨"a", .scalar "int", some (.lit "int" "1")⟩] "d.Other" [] (.spec (some "m.Other") [("a", .lit "int" "3")] [])) = false
    ∧ (match adaptUnion2 (adaptData [⟨"a", .scalar "int", some (.lit "int" "1")⟩] "d.Other" []) (adapt exE 8 "m.Base" none)
          (.spec (some "m.Sub") [("a", .lit "int" "3")] []) with
       | .ok (.spec (some c) _ _) => c == "m.Sub"
       | _ => false) = true
    ∧ isOk (adaptUnion2 (adaptData [⟨"a", .scalar "int", some (.lit "int" "1")⟩] "d.Other" []) (adapt exE 8 "m.Base" none)
          (.spec (some "m.Other") [("a", .lit "int" "3")] [])) = false := by decide

/-! ## `Union[Dataclass, Class]`: what is finally BUILT (the final check re-adapts the stored value) -/

/-- the dataclass `d.Other(a: int = 1)` next to the classes of `exE` -/
def exFields : List IParam := [⟨"a", .scalar "int", some (.lit "int" "1")⟩]
def exDataFirst : UnionTy := ⟨exFields, "d.Other", "m.Base", true⟩
def exClsFirst : UnionTy := ⟨exFields, "d.Other", "m.Base", false⟩

/-- FULL STATEMENT (false in the code and in the faithful model): for every accepted `{class_path: cp, …}` the class that
    is finally built is the class `cp` names.
    OPEN FINDING C14-union-dataclass-spec-rebuilt-as-class-arm, negation witness: `Union[m.Base, d.Other]` given
    `{class_path: d.Other, init_args: {a: 3}}` — the dataclass member stores the fields `{a: 3}`, the final check hands
    them to the first member, `m.Base` (concrete, has a parameter `a`), and `m.Base(a=3)` is built.  With the members in
    the other order the dataclass is built. -/
theorem C14_union_rebuilt_witness :
    (match unionAll exE 8 exClsFirst [.spec (some "d.Other") [("a", .lit "int" "3")] []] with
     | .ok (some r) => builtClass "d.Other" r == some "m.Base"
     | _ => false) = true
    ∧ (match unionAll exE 8 exDataFirst [.spec (some "d.Other") [("a", .lit "int" "3")] []] with
       | .ok (some r) => builtClass "d.Other" r == some "d.Other"
       | _ => false) = true := by decide

/-- the class of the finding, as a decidable predicate on what the first assignment stored: the class member is listed
    first and takes the stored field namespace as init_args of its own (implicit) class_path -/
def RebuiltClass (E : ClassEnv) (fuel : Nat) (U : UnionTy) (s : Val) : Prop :=
  U.dataFirst = false ∧ ∃ kv, s = .bare kv ∧ isOk (adapt E fuel U.b none (.bare kv)) = true

/-- OUTSIDE that class the final check keeps the member that took the value: an accepted class_path that is finally
    stored (and built) as the declared dataclass IS the dataclass's own path, with valid fields; anything else passed
    the class member's import / subclass check both times and holds init_args valid for that class.  (`hnd`: the
    dataclass is not itself importable as a subclass of the class member.) -/
theorem C14_union_built_partial (E : ClassEnv) (fuel : Nat) (U : UnionTy) (cp : String) (ia dk : KV) (s r : Val)
    (hsc : ScalarFields U.fields)
    (h1 : unionAdapt E fuel U none (.spec (some cp) ia dk) = .ok s)
    (h2 : unionAdapt E fuel U none s = .ok r)
    (hex : ¬ RebuiltClass E fuel U s)
    (hnd : ∀ c ia' dk', s = .spec (some c) ia' dk' → c ≠ U.decl) :
    (cp = U.decl ∧ ∃ kv kv', s = .bare kv ∧ r = .bare kv' ∧ builtClass U.decl r = some U.decl ∧ ArgsValid U.fields kv')
    ∨ (ElemChecked E U.b s ∧ ElemChecked E U.b r) := by
  have hda : ∀ v, dataArm U none v = adaptData U.fields U.decl [] v := fun v => by simp [dataArm, dataPrev]
  -- what the first assignment stored
  have hs : (cp = U.decl ∧ ∃ kv, s = .bare kv ∧ ArgsValid U.fields kv) ∨ ElemChecked E U.b s := by
    have hd : ∀ s, dataArm U none (.spec (some cp) ia dk) = .ok s → (cp = U.decl ∧ ∃ kv, s = .bare kv ∧ ArgsValid U.fields kv) :=
      fun s hs => C14_data_class_path_identity U.fields U.decl cp [] ia dk s (argsValid_nil _) (by rw [← hda]; exact hs)
    have hc : ∀ s, adapt E fuel U.b none (.spec (some cp) ia dk) = .ok s → ElemChecked E U.b s :=
      fun s hs => C14_checked_step E fuel U.b none _ s hs (by intro _ _ _ hp; cases hp)
    simp only [unionAdapt] at h1
    split at h1 <;> simp only [adaptUnion2] at h1 <;> split at h1
    · rename_i s' hs'; cases h1; exact Or.inl (hd _ hs')
    · exact Or.inr (hc _ h1)
    · rename_i s' hs'; cases h1; exact Or.inr (hc _ hs')
    · exact Or.inl (hd _ h1)
  rcases hs with ⟨hcp, kv, rfl, hv⟩ | hchk
  · -- stored as fields: the dataclass member takes them again
    obtain ⟨kv', hm⟩ := mergeArgs_ok_of_valid (fun _ _ _ => .error .notSpec) U.fields hsc kv [] hv
    have hdata : dataArm U none (.bare kv) = .ok (.bare kv') := by simp [hda, adaptData, dataFieldsOf, hm]
    have hv' : ArgsValid U.fields kv' := mergeArgs_valid _ U.fields kv [] kv' (argsValid_nil _) hm
    refine Or.inl ⟨hcp, kv, kv', rfl, ?_, ?_, hv'⟩
    · simp only [unionAdapt] at h2
      split at h2 <;> simp only [adaptUnion2] at h2
      · rw [hdata] at h2; cases h2; rfl
      · rename_i hdf
        split at h2
        · rename_i r' hr'
          exact absurd ⟨by simpa using hdf, kv, rfl, by simp [isOk, hr']⟩ hex
        · rw [hdata] at h2; cases h2; rfl
    · have : r = .bare kv' := by
        simp only [unionAdapt] at h2
        split at h2 <;> simp only [adaptUnion2] at h2
        · rw [hdata] at h2; cases h2; rfl
        · rename_i hdf
          split at h2
          · rename_i r' hr'
            exact absurd ⟨by simpa using hdf, kv, rfl, by simp [isOk, hr']⟩ hex
          · rw [hdata] at h2; cases h2; rfl
      rw [this]; rfl
  · -- stored as a class spec: the dataclass member rejects it, the class member checks it again
    obtain ⟨c, ia', dk', path, params, rfl, hci, hvv⟩ := hchk
    have hne : c ≠ U.decl := hnd c ia' dk' rfl
    have hdata : ∀ x, dataArm U none (.spec (some c) ia' dk') ≠ .ok x := by
      intro x hx
      rw [hda, C14_data_rejects_other_class U.fields U.decl c [] ia' dk' hne] at hx
      cases hx
    have hc : adapt E fuel U.b none (.spec (some c) ia' dk') = .ok r := by
      simp only [unionAdapt] at h2
      split at h2 <;> simp only [adaptUnion2] at h2 <;> split at h2
      · rename_i r' hr'; exact absurd hr' (hdata _)
      · exact h2
      · rename_i r' hr'; cases h2; exact hr'
      · exact absurd h2 (hdata _)
    exact Or.inr ⟨⟨c, ia', dk', path, params, rfl, hci, hvv⟩,
      C14_checked_step E fuel U.b none _ r hc (by intro _ _ _ hp; cases hp)⟩

/-- non-vacuity of `C14_union_built_partial`: both orders with a class of the class member (`m.Sub`), and the dataclass
    itself with the dataclass listed first, are outside the excluded class and satisfy the other hypotheses -/
example :
    (∃ s r, unionAdapt exE 8 exClsFirst none (.spec (some "m.Sub") [("a", .lit "int" "3")] []) = .ok s
      ∧ unionAdapt exE 8 exClsFirst none s = .ok r ∧ builtClass "d.Other" r = some "m.Sub")
    ∧ (∃ s r, unionAdapt exE 8 exDataFirst none (.spec (some "d.Other") [("a", .lit "int" "3")] []) = .ok s
      ∧ unionAdapt exE 8 exDataFirst none s = .ok r ∧ builtClass "d.Other" r = some "d.Other"
      ∧ ¬ RebuiltClass exE 8 exDataFirst s) := by
  refine ⟨⟨_, _, rfl, rfl, rfl⟩, ⟨_, _, rfl, rfl, rfl, ?_⟩⟩
  intro h
  exact absurd h.1 (by decide)

example : ScalarFields exFields := by
  intro p hp
  simp only [exFields, List.mem_cons, List.mem_nil_iff, or_false] at hp
  subst hp
  exact ⟨"int", Or.inl rfl⟩

/-- OPEN FINDING C14-union-dataclass-class-change-rejected, negation witness of "a valid class change between sources is
    accepted": each of the two values alone is a valid configuration of `Union[d.Other, m.Base]`; given one after the
    other — dataclass then class, or class then dataclass, in either member order — the parse fails: the second value is
    merged key by key into the stored namespace of the first (`unionStore`), resp. the dataclass member meets the stored
    class spec as its previous field values (`dataPrev`) -/
theorem C14_union_kind_change_rejected_witness :
    let d : Val := .spec (some "d.Other") [("a", .lit "int" "3")] []
    let c : Val := .spec (some "m.Sub") [("b", .lit "str" "w")] []
    isOk (unionAll exE 8 exDataFirst [d]) = true ∧ isOk (unionAll exE 8 exDataFirst [c]) = true
    ∧ isOk (unionAll exE 8 exDataFirst [d, c]) = false ∧ isOk (unionAll exE 8 exDataFirst [c, d]) = false
    ∧ isOk (unionAll exE 8 exClsFirst [d, c]) = false ∧ isOk (unionAll exE 8 exClsFirst [c, d]) = false := by decide

/-! ## containers of classes at ANY depth (`List[Dict[str, Optional[Base]]]`, …) -/

/-- every class spec inside an accepted value, at whatever depth the type puts it, names an import that is a subclass of
    ITS declared element type (or a function returning one) and holds init_args valid for that very class -/
def CheckedC (E : ClassEnv) : CTy → Val → Prop
  | .cls b, v => ElemChecked E b v
  | .opt t, v => isNone v = true ∨ CheckedC E t v
  | .list t, v => ∃ ys, v = .lst ys ∧ ∀ y ∈ ys, CheckedC E t y
  | .dict t, v => ∃ ys, v = .dct ys ∧ ∀ y ∈ ys, CheckedC E t y.2

theorem listPrevs_none (n : Nat) : listPrevs none n = List.replicate n none := rfl

/-- by structural induction over the type: an accepted value (no previous value: a first source) is checked at every
    depth -/
theorem C14_checked_nested (E : ClassEnv) (fuel : Nat) :
    ∀ (t : CTy) (v r : Val), adaptC E fuel t none v = .ok r → CheckedC E t r
  | .cls b, v, r, h => by
    simp only [adaptC] at h
    exact C14_checked_step E fuel b none v r h (by intro _ _ _ hp; cases hp)
  | .opt t, v, r, h => by
    simp only [adaptC] at h
    split at h
    · rename_i hn
      cases h
      exact Or.inl hn
    · exact Or.inr (C14_checked_nested E fuel t v r h)
  | .list t, v, r, h => by
    simp only [adaptC, adaptListWith] at h
    split at h
    · cases h
    · rename_i xs _
      split at h
      · cases h
      · rename_i ys hys
        cases h
        refine ⟨ys, rfl, ?_⟩
        intro y hy
        have hp := (adaptItems_iff (fun _ p x => adaptC E fuel t p x) "" xs (listPrevs none xs.length) ys
          (listPrevs_length none xs.length)).mp hys
        obtain ⟨pv, hpv, hr⟩ := hp.of_mem_right y hy
        have hnone : pv.1 = none := by
          have := (List.of_mem_zip hpv).1
          rw [listPrevs_none] at this
          exact (List.mem_replicate.mp this).2
        rw [hnone] at hr
        exact C14_checked_nested E fuel t pv.2 y hr
  | .dict t, v, r, h => by
    simp only [adaptC, adaptDictWith] at h
    split at h
    · cases h
    · rename_i kvs _
      split at h
      · cases h
      · rename_i ys hys
        cases h
        refine ⟨ys, rfl, ?_⟩
        intro y hy
        obtain ⟨kv, _, _, hr⟩ := ((adaptEntries_iff (fun _ p x => adaptC E fuel t p x) "" none kvs ys).mp hys).of_mem_right y hy
        exact C14_checked_nested E fuel t kv.2 y.2 hr

/-- non-vacuity: `Dict[str, List[Optional[m.Base]]]` with a class name, a dict spec and a None two levels down is accepted
    (and completed); an unrelated class at the same depth is rejected -/
example :
    (match adaptCAll exE 8 (.dict (.list (.opt (.cls "m.Base"))))
        (.dct [("k", .lst [.lit "str" "Sub", .lit "NoneType" "None", .spec (some "m.Sub2") [("c", .lit "int" "4")] []])]) with
     | .ok (.dct [(_, .lst [.spec (some a) _ _, .lit "NoneType" _, .spec (some b) _ _])]) => a == "m.Sub" && b == "m.Sub2"
     | _ => false) = true
    ∧ (match adaptCAll exE 8 (.dict (.list (.opt (.cls "m.Base")))) (.dct [("k", .lst [.lit "str" "m.Other"])]) with
       | .error e => e == .notSubclass
       | _ => false) = true := by decide

/-- non-vacuity of `C14_walk_handles_only_specs`: a key that holds no spec is not handled even when it stands first -/
example : discardWalk "." (fun k => k == "opt2") 4 ["seed", "opt2", "opt2.class_path"] = ["opt2"] := by decide

/-- OPEN FINDING C14-dotted-sub-option-into-dict-entry.  `--table.dec.init_args.b=8` for `--table: Dict[str, Base]` whose
    entry `dec` is a `Sub2`: the Dict branch takes the whole remainder as ONE key, so the value `8` is adapted as the
    class of a new entry `dec.init_args.b` (an import failure) instead of becoming the init arg `b` of the entry `dec`;
    with a value that names a class, an entry under that odd key is silently added -/
theorem C14_dotted_into_dict_entry_witness :
    (match adaptArgAll exE 8 (.dictOf "m.Base")
        [{ raw := .dct [("dec", .spec (some "Sub2") [("c", .lit "int" "1")] [])] },
         { raw := .nested ["dec", "init_args", "c"] (.lit "str" "8") }] with
     | .error e => e == .importFail
     | _ => false) = true
    ∧ (match adaptArgAll exE 8 (.dictOf "m.Base")
        [{ raw := .dct [("dec", .spec (some "Sub2") [("c", .lit "int" "1")] [])] },
         { raw := .nested ["dec", "init_args", "c"] (.lit "str" "Sub") }] with
     | .ok (some (.dct kvs)) => kvs.map (·.1) == ["dec", "dec.init_args.c"]
     | _ => false) = true := by decide

/-- OPEN FINDING C14-stale-dict-kwargs.  `{class_path: KW, dict_kwargs: {x: 1}}` then `--opt=Sub`: the class changes, the
    init_args that `Sub` does not accept would be discarded, but the dict_kwargs of `KW` are still there — and `Sub`
    has no parameter `x` -/
theorem C14_stale_dict_kwargs_witness :
    okSpec (adaptAll exE 8 "m.Base" [.spec (some "KW") [] [("x", .lit "int" "1")], .lit "str" "Sub"]) "m.Sub" ["a", "b"] ["x"] = true
    ∧ (findParam (paramsOf exE "m.Sub") "x").isNone = true := by decide

end Jap.Props.C14

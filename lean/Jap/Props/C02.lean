/-
C02 — accepted values conform to the declared type; acceptance is compositional.
Property theorems only; helper lemmas are in Jap/Lemmas/Adapt*.lean.
-/
import Jap.Core.Adapt
import Jap.Core.AdaptPins
import Jap.Gen.AdaptTables
import Jap.Lemmas.AdaptStr
import Jap.Lemmas.AdaptRestr
namespace Jap.Props.C02
open Jap.Adapt

/-! ### ties to the regenerated tables -/

/-- the `if/elif` chain of `adapt_typehints` has the branches, in the order, the model was written against -/
theorem tie_branch_order : Jap.Gen.adaptBranches = branchOrder := by first | rfl | exact ⟨rfl, rfl⟩ | exact ⟨rfl, rfl, rfl⟩
theorem tie_branch_tests : Jap.Gen.adaptBranchTests = Pins.adaptBranchTests := by first | rfl | exact ⟨rfl, rfl⟩ | exact ⟨rfl, rfl, rfl⟩
theorem tie_leaf_types : Jap.Gen.leafTypes = leafNames := by first | rfl | exact ⟨rfl, rfl⟩ | exact ⟨rfl, rfl, rfl⟩
theorem tie_origin_class : Jap.Gen.originClass = Pins.originClass ∧ Jap.Gen.seqOrMapProbe = Pins.seqOrMapProbe := by first | rfl | exact ⟨rfl, rfl⟩ | exact ⟨rfl, rfl, rfl⟩
theorem tie_origin_sets : Jap.Gen.sequenceOrigins = Pins.sequenceOrigins ∧ Jap.Gen.mappingOrigins = Pins.mappingOrigins
    ∧ Jap.Gen.tupleSetOrigins = Pins.tupleSetOrigins := by first | rfl | exact ⟨rfl, rfl⟩ | exact ⟨rfl, rfl, rfl⟩
theorem tie_union_branch : Jap.Gen.unionBranchSrc = Pins.unionBranchSrc := by first | rfl | exact ⟨rfl, rfl⟩ | exact ⟨rfl, rfl, rfl⟩
theorem tie_leaf_branch : Jap.Gen.leafBranchSrc = Pins.leafBranchSrc := by first | rfl | exact ⟨rfl, rfl⟩ | exact ⟨rfl, rfl, rfl⟩
theorem tie_literal_branch : Jap.Gen.literalBranchSrc = Pins.literalBranchSrc := by first | rfl | exact ⟨rfl, rfl⟩ | exact ⟨rfl, rfl, rfl⟩
theorem tie_enum_branch : Jap.Gen.enumBranchSrc = Pins.enumBranchSrc := by first | rfl | exact ⟨rfl, rfl⟩ | exact ⟨rfl, rfl, rfl⟩
theorem tie_tuple_branch : Jap.Gen.tupleArityTest = Pins.tupleArityTest ∧ Jap.Gen.tupleElemSrc = Pins.tupleElemSrc := by first | rfl | exact ⟨rfl, rfl⟩ | exact ⟨rfl, rfl, rfl⟩
theorem tie_container_elems : Jap.Gen.seqElemSrc = Pins.seqElemSrc ∧ Jap.Gen.mapElemSrc = Pins.mapElemSrc := by first | rfl | exact ⟨rfl, rfl⟩ | exact ⟨rfl, rfl, rfl⟩
theorem tie_sort_src : Jap.Gen.sortSrc = Pins.sortSrc := by first | rfl | exact ⟨rfl, rfl⟩ | exact ⟨rfl, rfl, rfl⟩
theorem tie_check_type : Jap.Gen.checkTypeSkeleton = Pins.checkTypeSkeleton ∧ Jap.Gen.isValidStringSrc = Pins.isValidStringSrc := by first | rfl | exact ⟨rfl, rfl⟩ | exact ⟨rfl, rfl, rfl⟩

/-! every statement of the branches the model transcribes (not only the decisive ones), the whole of `_check_type`,
    the loader front end (`parse_value_or_config`, `load_value`, `load_basic`) and, from typing.py, what the
    restricted / registered leaves of the model transcribe -/
theorem tie_prologue : Jap.Gen.adaptPrologueSrc = Pins.adaptPrologueSrc ∧ Jap.Gen.adaptEpilogueSrc = Pins.adaptEpilogueSrc
    ∧ Jap.Gen.adaptSignature = Pins.adaptSignature := by first | rfl | exact ⟨rfl, rfl⟩ | exact ⟨rfl, rfl, rfl⟩ | exact ⟨rfl, rfl, rfl, rfl⟩ | exact ⟨rfl, rfl, rfl, rfl, rfl⟩
theorem tie_any_branch : Jap.Gen.anyBranchSrc = Pins.anyBranchSrc := by first | rfl | exact ⟨rfl, rfl⟩ | exact ⟨rfl, rfl, rfl⟩ | exact ⟨rfl, rfl, rfl, rfl⟩ | exact ⟨rfl, rfl, rfl, rfl, rfl⟩
theorem tie_registered_branch : Jap.Gen.registeredBranchSrc = Pins.registeredBranchSrc := by first | rfl | exact ⟨rfl, rfl⟩ | exact ⟨rfl, rfl, rfl⟩ | exact ⟨rfl, rfl, rfl, rfl⟩ | exact ⟨rfl, rfl, rfl, rfl, rfl⟩
theorem tie_container_branches : Jap.Gen.tupleSetBranchSrc = Pins.tupleSetBranchSrc ∧ Jap.Gen.sequenceBranchSrc = Pins.sequenceBranchSrc
    ∧ Jap.Gen.mappingBranchSrc = Pins.mappingBranchSrc := by first | rfl | exact ⟨rfl, rfl⟩ | exact ⟨rfl, rfl, rfl⟩ | exact ⟨rfl, rfl, rfl, rfl⟩ | exact ⟨rfl, rfl, rfl, rfl, rfl⟩
theorem tie_check_type_src : Jap.Gen.checkTypeSrc = Pins.checkTypeSrc := by first | rfl | exact ⟨rfl, rfl⟩ | exact ⟨rfl, rfl, rfl⟩ | exact ⟨rfl, rfl, rfl, rfl⟩ | exact ⟨rfl, rfl, rfl, rfl, rfl⟩
theorem tie_loader_front : Jap.Gen.parseValueOrConfigSrc = Pins.parseValueOrConfigSrc ∧ Jap.Gen.loadValueSrc = Pins.loadValueSrc
    ∧ Jap.Gen.loadBasicSrc = Pins.loadBasicSrc := by first | rfl | exact ⟨rfl, rfl⟩ | exact ⟨rfl, rfl, rfl⟩ | exact ⟨rfl, rfl, rfl, rfl⟩ | exact ⟨rfl, rfl, rfl, rfl, rfl⟩
/-- `restricted_string_type.validation_fn` uses `cls._regex.match` (a match from the start, `Re.accepts`), the number
    types compare `cls._type(v)` after the bool / non-integer guards, `__new__` validates and then casts -/
theorem tie_restricted_validation : Jap.Gen.restrictedNumberValidationSrc = Pins.restrictedNumberValidationSrc
    ∧ Jap.Gen.restrictedStringValidationSrc = Pins.restrictedStringValidationSrc ∧ Jap.Gen.typeCoreNewSrc = Pins.typeCoreNewSrc
    ∧ Jap.Gen.restrictedOperators = Pins.restrictedOperators := by first | rfl | exact ⟨rfl, rfl⟩ | exact ⟨rfl, rfl, rfl⟩ | exact ⟨rfl, rfl, rfl, rfl⟩ | exact ⟨rfl, rfl, rfl, rfl, rfl⟩
theorem tie_registered_type : Jap.Gen.registeredTypeSrc = Pins.registeredTypeSrc ∧ Jap.Gen.addTypeRegisterSrc = Pins.addTypeRegisterSrc := by first | rfl | exact ⟨rfl, rfl⟩ | exact ⟨rfl, rfl, rfl⟩ | exact ⟨rfl, rfl, rfl, rfl⟩ | exact ⟨rfl, rfl, rfl, rfl, rfl⟩

/-- probe list of the extractor: `[int, List[int], NoneType, Dict[str,int], str, Tuple[int], Set[int], NoneType, List[str]]` -/
def sortProbe : List (Nat × Ty) :=
  [(0, .int), (1, .list .int), (2, .none), (3, .dict .str .int), (4, .str), (5, .tuple [.int]), (6, .set .int), (7, .none), (8, .list .str)]

/-- the model visits Union members in the order the real `sort_subtypes_for_union` produces on the probe -/
theorem tie_sort_probe :
    (sortedMembers (.str "x") (·.2) sortProbe).map (·.1) = Jap.Gen.sortProbeStr ∧
    (sortedMembers (.int 1) (·.2) sortProbe).map (·.1) = Jap.Gen.sortProbeNonStr := by first | rfl | exact ⟨rfl, rfl⟩ | exact ⟨rfl, rfl, rfl⟩


/-! ## the property

`adapt O false orig t v` is what `adapt_typehints` does with one value (`orig` = the original argument string,
`none` inside containers); `checkType O t v` is `ActionTypeHint._check_type`, the entry point of both channels:
`adaptStr O t s = checkType O t (.str s)` for an argument string, `checkType O t v` for a value given to
`parse_object`.  `O` is the loader (PyYAML etc.), universally quantified everywhere. -/

/-- a small table-driven loader for the witnesses -/
def O0 : Oracle where
  yaml s := if s = "null" then some .null else if s = "1" then some (.int 1) else if s = "[1]" then some (.list [.int 1])
            else some (.str s)
  loadAny s := some (.str s)
  bigFlt _ := some "?"
  intOf s := if s = "1" then some 1 else if s = "01" then some 1 else .none

/-! ### soundness: accepted values conform

Full statement (FALSE for the code and hence for the model):
  `theorem C02_sound : adapt O false orig t v = .ok w → Conforms O.rnumOk t w`
It fails in exactly two ways, both known findings: `Literal` membership is tested with Python `==`
(row 5e), and the keys of a `Dict[str, V]` are not looked at. -/

/-- counterexample 1 (finding C02-literal-pyeq): `Literal[1, 2]` accepts `True` and returns it -/
theorem C02_sound_fails_literal :
    adapt O0 false .none (.literal [.int 1, .int 2]) (.bool true) = .ok (.bool true) ∧
    conf O0.rnumOk (.literal [.int 1, .int 2]) (.bool true) = false := by
  constructor <;> rfl

/-- counterexample 2 (finding C02-dict-key-unchecked): `Dict[str, int]` accepts `{1: 2}` -/
theorem C02_sound_fails_dict_key :
    adapt O0 false .none (.dict .str .int) (.dict [(.int 1, .int 2)]) = .ok (.dict [(.int 1, .int 2)]) ∧
    conf O0.rnumOk (.dict .str .int) (.dict [(.int 1, .int 2)]) = false := by
  constructor <;> rfl

/-- **soundness at full strength for the validator relaxed at exactly these two points**: for every type hint,
    value, original string and loader, what the adapter returns conforms when Literal members are compared
    with `==` and dictionary keys are ignored -/
theorem C02_sound_relaxed (O : Oracle) (t : Ty) (orig : Option String) (v w : Val)
    (h : adapt O false orig t v = .ok w) : confL O.rnumOk true true t w = true :=
  sound_gen O true true t orig v w (by simp) (by simp) h

/-- only the Literal relaxation is needed when the value has string keys only (what JSON can express) -/
theorem C02_sound_keys (O : Oracle) (t : Ty) (orig : Option String) (v w : Val) (hk : strKeys v = true)
    (h : adapt O false orig t v = .ok w) : confL O.rnumOk true false t w = true :=
  sound_gen O true false t orig v w (by simp) (fun _ => hk) h

/-- only the key relaxation is needed when every Literal has string members only -/
theorem C02_sound_literals (O : Oracle) (t : Ty) (orig : Option String) (v w : Val) (hl : litStrOnly t = true)
    (h : adapt O false orig t v = .ok w) : confL O.rnumOk false true t w = true :=
  sound_gen O false true t orig v w (fun _ => hl) (by simp) h

/-- **C02_sound_partial**: strict conformance under the two forced hypotheses -/
theorem C02_sound_partial (O : Oracle) (t : Ty) (orig : Option String) (v w : Val)
    (hl : litStrOnly t = true) (hk : strKeys v = true)
    (h : adapt O false orig t v = .ok w) : Conforms O.rnumOk t w :=
  sound_gen O false false t orig v w (fun _ => hl) (fun _ => hk) h

/-- the hypotheses are satisfiable by a non-trivial case (a conversion at every level) -/
example : litStrOnly (.dict .int (.union [.tuple [.float, .literal [.str "a"]], .none])) = true ∧
    strKeys (.dict [(.str "1", .list [.str "1", .str "a"])]) = true ∧
    adapt O0 false .none (.dict .int (.union [.tuple [.float, .literal [.str "a"]], .none]))
      (.dict [(.str "1", .list [.str "1", .str "a"])]) = .ok (.dict [(.int 1, .tuple [.flt "1.0", .str "a"])]) := by
  refine ⟨rfl, rfl, rfl⟩

/-- soundness of the whole `_check_type` (both channels), relaxed and strict -/
theorem C02_sound_checkType_relaxed (O : Oracle) (t : Ty) (v w : Val) (h : checkType O t v = .ok w) :
    confL O.rnumOk true true t w = true :=
  checkType_sound O true true t v w (by simp) (by simp) h

theorem C02_sound_checkType_partial (O : Oracle) (t : Ty) (v w : Val)
    (hl : litStrOnly t = true) (hk : strKeys (parseValueOrConfig O v) = true)
    (h : checkType O t v = .ok w) : Conforms O.rnumOk t w :=
  checkType_sound O false false t v w (fun _ => hl) (fun _ => hk) h

/-! ### a value of the right shape is never rejected

Full statement (FALSE): `Conforms O.rnumOk t v → accepts O t v`.  It fails for a `Set` whose element type has an
alternative that converts the element to something unhashable (finding C02-set-element-becomes-unhashable). -/

/-- counterexample: `Set[Union[List[int], Tuple[int, ...]]]` rejects the conforming `{(1, 2)}` … -/
theorem C02_shape_fails_set :
    conf O0.rnumOk (.set (.union [.list .int, .tupleVar .int])) (.set [.tuple [.int 1, .int 2]]) = true ∧
    adapt O0 false .none (.set (.union [.list .int, .tupleVar .int])) (.set [.tuple [.int 1, .int 2]]) = .error .type := by
  constructor <;> rfl

/-- … which the permuted Union accepts: inside a Set, acceptance depends on the member order -/
theorem C02_shape_set_order_dependent :
    adapt O0 false .none (.set (.union [.tupleVar .int, .list .int])) (.set [.tuple [.int 1, .int 2]])
      = .ok (.set [.tuple [.int 1, .int 2]]) := by rfl

/-- **C02_shape_partial**: when every Set in the hint has an element type whose adapted values are always
    hashable (`setSafe`), a conforming value is accepted — whatever the loader and the original string -/
theorem C02_shape_partial (O : Oracle) (t : Ty) (orig : Option String) (v : Val)
    (hs : setSafe t = true) (hc : Conforms O.rnumOk t v) : isOk (adapt O false orig t v) = true :=
  shape_gen O t orig v hc hs

example : setSafe (.set (.union [.tuple [.int, .enum 0 ["a"]], .literal [.int 1], .none])) = true := by rfl

/-- the same through `_check_type` for a non-string value (`parse_object`) -/
theorem C02_shape_checkType (O : Oracle) (t : Ty) (v : Val) (hv : isStr v = false)
    (hs : setSafe t = true) (hc : Conforms O.rnumOk t v) : isOk (checkType O t v) = true := by
  rw [checkType_nonstr O t v hv]; exact shape_gen O t .none v hc hs

/-! ### containers are accepted exactly when every element is (value channel and, identically, inside an
    argument string: elements never see the original string) -/

theorem C02_list_iff (O : Oracle) (orig : Option String) (t : Ty) (xs : List Val) :
    isOk (adapt O false orig (.list t) (.list xs)) = true ↔ ∀ x ∈ xs, accepts O t x = true := by
  rw [list_isOk O orig t (.list xs) xs rfl, List.all_eq_true]
  simp [accepts, isOk_eq_not_isErr]

theorem C02_tupleVar_iff (O : Oracle) (orig : Option String) (t : Ty) (xs : List Val) :
    isOk (adapt O false orig (.tupleVar t) (.list xs)) = true ↔ ∀ x ∈ xs, accepts O t x = true := by
  rw [tupleVar_isOk O orig t (.list xs) xs rfl, List.all_eq_true]
  simp [accepts, isOk_eq_not_isErr]

/-- fixed-arity tuples: the arity has to match, and then position by position -/
theorem C02_tuple_iff (O : Oracle) (orig : Option String) (ts : List Ty) (xs : List Val) :
    isOk (adapt O false orig (.tuple ts) (.list xs)) = true ↔
      xs.length = ts.length ∧ ∀ tx ∈ ts.zip xs, accepts O tx.1 tx.2 = true := by
  rw [tuple_isOk_iff O orig ts (.list xs) xs rfl]
  simp [accepts, isOk_eq_not_isErr]

theorem C02_dict_iff (O : Oracle) (orig : Option String) (t : Ty) (kvs : List (DKey × Val)) :
    isOk (adapt O false orig (.dict .str t) (.dict kvs)) = true ↔ ∀ kv ∈ kvs, accepts O t kv.2 = true := by
  rw [dictStr_isOk, List.all_eq_true]
  simp [accepts, isOk_eq_not_isErr]

/-- `Dict[int, V]`: the keys have to be castable, then value by value (on the dictionary after the cast) -/
theorem C02_dict_int_iff (O : Oracle) (orig : Option String) (t : Ty) (kvs : List (DKey × Val)) :
    isOk (adapt O false orig (.dict .int t) (.dict kvs)) = true ↔
      ∃ kvs', castKeys O false kvs [] = .ok kvs' ∧ ∀ kv ∈ kvs', accepts O t kv.2 = true := by
  rw [dictInt_isOk]
  cases castKeys O false kvs [] with
  | error e => simp
  | ok kvs' => simp [accepts, isOk_eq_not_isErr]

/-- Sets: element-wise when the element type is hashable (see `C02_shape_fails_set` otherwise) -/
theorem C02_set_iff (O : Oracle) (orig : Option String) (t : Ty) (xs : List Val) (ht : hashTy t = true) :
    isOk (adapt O false orig (.set t) (.list xs)) = true ↔ ∀ x ∈ xs, accepts O t x = true := by
  rw [set_isOk_hashTy O orig t (.list xs) xs rfl ht, List.all_eq_true]
  simp [accepts, isOk_eq_not_isErr]

/-! ### a Union is accepted exactly when a member accepts, whatever the order -/

/-- value channel (no original string: elements of containers, values given to `parse_object`) -/
theorem C02_union_iff (O : Oracle) (ts : List Ty) (v : Val) :
    accepts O (.union ts) v = true ↔ ∃ t ∈ ts, accepts O t v = true := by
  have := union_isOk O false .none ts v
  simp only [rescued, Option.isSome_none, Bool.false_and, Bool.or_false] at this
  simp only [accepts, ← isOk_eq_not_isErr, this, List.any_eq_true]

theorem C02_union_perm (O : Oracle) (v : Val) {ts ts' : List Ty} (h : ts.Perm ts') :
    accepts O (.union ts) v = accepts O (.union ts') v := by
  rw [Bool.eq_iff_iff, C02_union_iff, C02_union_iff]
  constructor
  · rintro ⟨t, hm, ha⟩; exact ⟨t, h.mem_iff.mp hm, ha⟩
  · rintro ⟨t, hm, ha⟩; exact ⟨t, h.mem_iff.mpr hm, ha⟩

/-- with an original string: a member accepts, or the value is not a string and `str` is a member (the rescue) -/
theorem C02_union_iff_orig (O : Oracle) (o : String) (ts : List Ty) (v : Val) :
    isOk (adapt O false (some o) (.union ts) v) = true ↔
      (∃ t ∈ ts, isOk (adapt O false (some o) t v) = true) ∨ (isStr v = false ∧ Ty.str ∈ ts) := by
  rw [union_isOk]
  simp only [rescued, Option.isSome_some, Bool.true_and, Bool.or_eq_true, List.any_eq_true, Bool.and_eq_true,
    Bool.not_eq_true']
  constructor
  · rintro (h | ⟨h1, t, hm, h2⟩)
    · exact Or.inl h
    · have := isStrTy_eq h2; subst this; exact Or.inr ⟨h1, hm⟩
  · rintro (h | ⟨h1, hm⟩)
    · exact Or.inl h
    · exact Or.inr ⟨h1, .str, hm, rfl⟩

/-- **string channel: permutation invariance holds without hypothesis** (after the repairs of rows 5/5b/5c) -/
theorem C02_union_perm_str (O : Oracle) (s : String) {ts ts' : List Ty} (h : ts.Perm ts') :
    acceptsStr O (.union ts) s = acceptsStr O (.union ts') s := by
  simp only [acceptsStr, adaptStr, ← isOk_eq_not_isErr, checkType_union_isOk]
  rw [h.any_eq, h.any_eq, h.any_eq]

/- string channel, Union versus members.  Full statement (FALSE):
     `acceptsStr O (.union ts) s ↔ ∃ t ∈ ts, acceptsStr O t s`
   A member that fails on the loaded value with a non-`ValueError` exception (Enum lookup of an unhashable
   value) is not retried with the original text when it stands alone, while the Union catches the exception
   and is retried as a whole (finding C02-enum-unhashable-no-retry). -/

def O1 : Oracle where
  yaml s := if s = "[1]" then some (.list [.int 1]) else some (.str s)
  loadAny s := some (.str s)
  bigFlt _ := some "?"
  intOf _ := .none

/-- counterexample: an Enum with a member named `[1]`; `Union[E, int]` accepts the text `[1]`, `E` alone and
    `int` alone reject it -/
theorem C02_union_iff_str_fails :
    acceptsStr O1 (.union [.enum 3 ["[1]"], .int]) "[1]" = true ∧
    acceptsStr O1 (.enum 3 ["[1]"]) "[1]" = false ∧ acceptsStr O1 .int "[1]" = false := by
  refine ⟨rfl, rfl, rfl⟩

/-- **C02_union_iff_str_partial** -/
theorem C02_union_iff_str_partial (O : Oracle) (ts : List Ty) (s : String)
    (hte : ts.all (fun t => !isTypeErr (adapt O false (some s) t (parseValueOrConfig O (.str s)))) = true) :
    acceptsStr O (.union ts) s = true ↔ ∃ t ∈ ts, acceptsStr O t s = true := by
  simp only [acceptsStr, adaptStr, ← isOk_eq_not_isErr]
  rw [union_str_iff O ts s hte, List.any_eq_true]

example : ([Ty.str, .int, .list .float, .none].all
    (fun t => !isTypeErr (adapt O0 false (some "[1]") t (parseValueOrConfig O0 (.str "[1]"))))) = true := by rfl

/-- one direction needs no hypothesis: what a member accepts, the Union accepts -/
theorem C02_union_str_of_member (O : Oracle) (ts : List Ty) (s : String) (t : Ty) (hm : t ∈ ts)
    (h : acceptsStr O t s = true) : acceptsStr O (.union ts) s = true := by
  simp only [acceptsStr, adaptStr, ← isOk_eq_not_isErr] at h ⊢
  rw [checkType_union_isOk]
  rw [checkType_str_isOk] at h
  simp only [Bool.or_eq_true, Bool.and_eq_true, List.any_eq_true] at h ⊢
  rcases h with h | ⟨_, h⟩
  · exact Or.inl (Or.inl (Or.inl ⟨t, hm, h⟩))
  · exact Or.inl (Or.inr ⟨t, hm, h⟩)

/-! ### strings that only look like another type -/

/-- **a `str` argument is returned verbatim**, whatever the loader makes of its text -/
theorem C02_str_verbatim (O : Oracle) (s : String) : adaptStr O .str s = .ok (.str s) :=
  checkType_str O s

/-- the `_is_valid_string` fallback never decides anything (it is dead code on this grammar) -/
theorem C02_fallback_dead (O : Oracle) (t : Ty) (v : Val) (e : Err)
    (h : adapt O false (origOf v) t (parseValueOrConfig O v) = .error e) :
    isValidString t (parseValueOrConfig O v) = false := by
  cases hv : isValidString t (parseValueOrConfig O v) with
  | false => rfl
  | true =>
    have := isValidString_isOk O (origOf v) t _ hv
    rw [h] at this; simp at this


/-! ### restricted types (`restricted_number_type` / `restricted_string_type`) as leaves anywhere in the grammar

`Ty.rnum b k` is the restricted type number `k` with base type `b`; its restriction is `O.rnumOk k`.  `Conforms`
includes the restriction, so every theorem above (soundness, shape, the container and Union iffs, permutation
invariance) covers restricted leaves at any depth, for EVERY predicate.  Below the predicate is the one
*computed* from the specification of the type (`Oracle.withRestr O tab`): the `(comparison, reference)` pairs and
the join of a number type, the regular expression of a string type with the meaning of `regex.match`. -/

/-- **restricted leaf, exactly**: accepted iff the value converts to the base type and the converted value
    satisfies the restriction; the converted value is the result -/
theorem C02_restricted_exact (O : Oracle) (orig : Option String) (b : RBase) (k : Nat) (v w : Val) :
    adapt O false orig (.rnum b k) v = .ok w ↔ rnumConv O b v = some w ∧ O.rnumOk k w = true :=
  rnum_exact O orig b k v w

/-- **restricted string type with regular expression `r`**: exactly the strings that `r` matches FROM THEIR START
    (`regex.match`), returned verbatim; nothing else (numbers, None, containers) -/
theorem C02_restricted_str_exact (O : Oracle) (tab : RTab) (orig : Option String) (k : Nat) (r : Re)
    (hk : tab k = some (.re r)) (v w : Val) :
    adapt (O.withRestr tab) false orig (.rnum .str k) v = .ok w ↔ ∃ s, v = .str s ∧ w = .str s ∧ r.accepts s = true :=
  rstr_exact O tab orig k r hk v w

/-- **restricted number type**: exactly the values that convert and satisfy the comparisons joined by and / or -/
theorem C02_restricted_num_exact (O : Oracle) (tab : RTab) (orig : Option String) (b : RBase) (k : Nat) (isOr : Bool)
    (rs : List (Cmp × Num)) (hk : tab k = some (.num isOr rs)) (v w : Val) :
    adapt (O.withRestr tab) false orig (.rnum b k) v = .ok w ↔
      rnumConv O b v = some w ∧ ∃ x, numOfVal w = some x ∧ numOk isOr rs x = true :=
  rnumber_exact O tab orig b k isOr rs hk v w

/-- **soundness with computed predicates**: whatever the adapter accepts for a type hint with restricted leaves
    nested anywhere conforms, the predicates of the specifications included (validator relaxed at Literal `==`
    and dict keys; strict under the hypotheses of `C02_sound_partial`, which is stated for every oracle) -/
theorem C02_sound_restricted (O : Oracle) (tab : RTab) (t : Ty) (orig : Option String) (v w : Val)
    (h : adapt (O.withRestr tab) false orig t v = .ok w) : confL (O.withRestr tab).rnumOk true true t w = true :=
  sound_gen (O.withRestr tab) true true t orig v w (by simp) (by simp) h

/-- `[0-9a-f]+$` and `v[0-9]+\.[0-9]+`: two user-defined restricted string types (not anchored with `^`) -/
def hexRe : Re := .cat (.cat (.cls false [(48, 57), (97, 102)]) (.star (.cls false [(48, 57), (97, 102)]))) .eol
def verRe : Re :=
  .cat (.cls false [(118, 118)]) (.cat (.cat (.cls false [(48, 57)]) (.star (.cls false [(48, 57)])))
    (.cat (.cls false [(46, 46)]) (.cat (.cls false [(48, 57)]) (.star (.cls false [(48, 57)])))))
def tab0 : RTab := fun k =>
  if k = 0 then some (.re hexRe) else if k = 1 then some (.re verRe)
  else if k = 2 then some (.num false [(.gt, .dec 0 0), (.le, .dec 10 (-1))])       -- 0 < v <= 1.0
  else if k = 3 then some (.num true [(.lt, .dec 0 0), (.ge, .dec 10 0)])            -- v < 0 or v >= 10
  else .none

/-- non-vacuity: restricted leaves inside `Optional[List[Union[Hex, int]]]`, `Dict[str, Ver]`, `Tuple[Hex, Unit]`;
    a matching element is accepted, an element that only CONTAINS a match is refused, and so is the container -/
example :
    adapt (O0.withRestr tab0) false .none (.union [.list (.union [.rnum .str 0, .int]), .none]) (.list [.str "00ff", .int 3])
      = .ok (.list [.str "00ff", .int 3]) ∧
    adapt (O0.withRestr tab0) false .none (.union [.list (.union [.rnum .str 0, .int]), .none]) (.list [.str "g-ff", .int 3])
      = .error .value ∧
    adapt (O0.withRestr tab0) false .none (.dict .str (.rnum .str 1)) (.dict [(.str "a", .str "v1.0"), (.str "b", .str "dev1.0")])
      = .error .value ∧
    adapt (O0.withRestr tab0) false .none (.tuple [.rnum .str 0, .rnum .float 2]) (.list [.str "0a", .flt "0.5"])
      = .ok (.tuple [.str "0a", .flt "0.5"]) ∧
    adapt (O0.withRestr tab0) false .none (.tuple [.rnum .str 0, .rnum .float 2]) (.list [.str "0a", .flt "1.5"])
      = .error .value ∧
    adapt (O0.withRestr tab0) false .none (.set (.rnum .int 3)) (.list [.int (-1), .int 10, .int 12])
      = .ok (.set [.int (-1), .int 10, .int 12]) ∧
    adapt (O0.withRestr tab0) false .none (.set (.rnum .int 3)) (.list [.int (-1), .int 5]) = .error .value := by
  refine ⟨rfl, rfl, rfl, rfl, rfl, rfl, rfl⟩

/-- non-vacuity of `C02_sound_restricted` / `C02_shape_partial` on these types -/
example : conf (O0.withRestr tab0).rnumOk (.tuple [.rnum .str 0, .rnum .float 2]) (.tuple [.str "0a", .flt "0.5"]) = true ∧
    conf (O0.withRestr tab0).rnumOk (.tuple [.rnum .str 0, .rnum .float 2]) (.tuple [.str "x0a", .flt "0.5"]) = false ∧
    setSafe (.set (.tuple [.rnum .str 0, .rnum .float 2])) = true := by
  refine ⟨rfl, rfl, rfl⟩

/-- **`match` is not `search`**: a string that merely contains a match is refused (`regex.match` anchors at the
    start); `search` would let it through — the difference a one-word edit of `validation_fn` makes -/
theorem C02_match_not_search :
    hexRe.accepts "xx00ff" = false ∧ hexRe.searches "xx00ff" = true ∧
    verRe.accepts "rev1.2" = false ∧ verRe.searches "rev1.2" = true ∧
    adapt (O0.withRestr tab0) false .none (.list (.rnum .str 0)) (.list [.str "0a", .str "zzff"]) = .error .value := by
  refine ⟨rfl, rfl, rfl, rfl, rfl⟩

/-- what `match` accepts, `search` accepts … -/
theorem C02_match_search (r : Re) (s : String) (h : r.accepts s = true) : r.searches s = true :=
  accepts_searches r s h

/-- … and for a pattern that starts with `^` the two agree on every string (why no anchored pattern — every
    pattern that ships with the library or occurs in its tests — can tell them apart) -/
theorem C02_search_anchored (r : Re) (s : String) : (Re.cat .bol r).searches s = (Re.cat .bol r).accepts s :=
  searches_anchored r s

/-- **string channel: an argument of a restricted string type is judged on its text alone** — whatever the
    loader makes of the text (`null`, `[1]`, `0x1f`): accepted exactly when the predicate holds, returned verbatim -/
theorem C02_restricted_str_verbatim (O : Oracle) (k : Nat) (s : String) :
    adaptStr O (.rnum .str k) s = if O.rnumOk k (.str s) then .ok (.str s) else .error .type :=
  checkType_rstr O k s

example : adaptStr (O0.withRestr tab0) (.rnum .str 0) "1" = .ok (.str "1") ∧
    adaptStr (O0.withRestr tab0) (.rnum .str 0) "null" = .error .type ∧
    adaptStr (O0.withRestr tab0) (.rnum .str 0) "0x1f" = .error .type := by
  refine ⟨rfl, rfl, rfl⟩

/-! ### containers in the string channel

An argument text for a container type is accepted exactly when what the loader made of it is accepted: the
retry with the original text and the `_is_valid_string` fallback never apply to a container type.  Elements are
judged in the value channel (they never see the argument text). -/

theorem C02_container_str (O : Oracle) (t : Ty) (s : String) (ht : isContainerTy t = true) :
    acceptsStr O t s = isOk (adapt O false (some s) t (parseValueOrConfig O (.str s))) := by
  simp only [acceptsStr, adaptStr, ← isOk_eq_not_isErr]
  exact checkType_container O t s ht

theorem C02_list_iff_str (O : Oracle) (t : Ty) (s : String) :
    acceptsStr O (.list t) s = true ↔
      ∃ xs, seqItems (parseValueOrConfig O (.str s)) = some xs ∧ ∀ x ∈ xs, accepts O t x = true := by
  rw [C02_container_str O _ s rfl]
  cases hs : seqItems (parseValueOrConfig O (.str s)) with
  | none => simp [adapt, hs]
  | some xs =>
    rw [list_isOk O (some s) t _ xs hs, List.all_eq_true]
    simp [accepts, isOk_eq_not_isErr]

theorem C02_tupleVar_iff_str (O : Oracle) (t : Ty) (s : String) :
    acceptsStr O (.tupleVar t) s = true ↔
      ∃ xs, seqItems (parseValueOrConfig O (.str s)) = some xs ∧ ∀ x ∈ xs, accepts O t x = true := by
  rw [C02_container_str O _ s rfl]
  cases hs : seqItems (parseValueOrConfig O (.str s)) with
  | none => simp [adapt, hs]
  | some xs =>
    rw [tupleVar_isOk O (some s) t _ xs hs, List.all_eq_true]
    simp [accepts, isOk_eq_not_isErr]

theorem C02_tuple_iff_str (O : Oracle) (ts : List Ty) (s : String) :
    acceptsStr O (.tuple ts) s = true ↔
      ∃ xs, seqItems (parseValueOrConfig O (.str s)) = some xs ∧ xs.length = ts.length ∧
        ∀ tx ∈ ts.zip xs, accepts O tx.1 tx.2 = true := by
  rw [C02_container_str O _ s rfl]
  cases hs : seqItems (parseValueOrConfig O (.str s)) with
  | none => simp [adapt, hs]
  | some xs =>
    rw [tuple_isOk_iff O (some s) ts _ xs hs]
    simp [accepts, isOk_eq_not_isErr]

theorem C02_set_iff_str (O : Oracle) (t : Ty) (s : String) (ht : hashTy t = true) :
    acceptsStr O (.set t) s = true ↔
      ∃ xs, seqItems (parseValueOrConfig O (.str s)) = some xs ∧ ∀ x ∈ xs, accepts O t x = true := by
  rw [C02_container_str O _ s rfl]
  cases hs : seqItems (parseValueOrConfig O (.str s)) with
  | none => simp [adapt, hs]
  | some xs =>
    rw [set_isOk_hashTy O (some s) t _ xs hs ht, List.all_eq_true]
    simp [accepts, isOk_eq_not_isErr]

theorem C02_dict_iff_str (O : Oracle) (t : Ty) (s : String) :
    acceptsStr O (.dict .str t) s = true ↔
      ∃ kvs, parseValueOrConfig O (.str s) = .dict kvs ∧ ∀ kv ∈ kvs, accepts O t kv.2 = true := by
  rw [C02_container_str O _ s rfl]
  cases hv : parseValueOrConfig O (.str s) with
  | dict kvs =>
    rw [dictStr_isOk, List.all_eq_true]
    simp [accepts, isOk_eq_not_isErr]
  | _ => simp [adapt]

/-- non-vacuity: `--k=[1]` for `List[int]` and `List[str]` -/
example : acceptsStr O0 (.list .int) "[1]" = true ∧ acceptsStr O0 (.list .str) "[1]" = false ∧
    acceptsStr O0 (.tuple [.int]) "[1]" = true ∧ acceptsStr O0 (.tuple [.int, .int]) "[1]" = false ∧
    acceptsStr O0 (.set .float) "[1]" = true ∧ acceptsStr O0 (.list .int) "1" = false := by
  refine ⟨rfl, rfl, rfl, rfl, rfl, rfl⟩


/-! ### Enum, None and Optional, exactly -/

/-- **Enum**: exactly the members of THIS Enum (returned as they are) and the names of its members (converted) -/
theorem C02_enum_exact (O : Oracle) (orig : Option String) (c : Nat) (ms : List String) (v w : Val) :
    adapt O false orig (.enum c ms) v = .ok w ↔
      (∃ n, v = .enum c n ∧ n ∈ ms ∧ w = .enum c n) ∨ (∃ s, v = .str s ∧ s ∈ ms ∧ w = .enum c s) :=
  enum_exact O orig c ms v w

/-- **None**: exactly `None` and the texts the loader reads as null -/
theorem C02_none_exact (O : Oracle) (orig : Option String) (v w : Val) :
    adapt O false orig .none v = .ok w ↔ loadIfStr O v = .null ∧ w = .null :=
  none_exact O orig v w

/-- **Optional[t]** accepts exactly what `t` accepts, `None`, and the texts the loader reads as null — wherever
    `None` is written among the members -/
theorem C02_optional_iff (O : Oracle) (t : Ty) (v : Val) :
    accepts O (.union [t, .none]) v = true ↔ accepts O t v = true ∨ loadIfStr O v = .null := by
  rw [C02_union_iff]
  have hn : accepts O .none v = true ↔ loadIfStr O v = .null := by
    simp only [accepts, ← isOk_eq_not_isErr, isOk_iff]
    constructor
    · rintro ⟨w, hw⟩; exact ((none_exact O .none v w).mp hw).1
    · intro h; exact ⟨.null, (none_exact O .none v .null).mpr ⟨h, rfl⟩⟩
  constructor
  · rintro ⟨t', hm, ha⟩
    rcases List.mem_cons.mp hm with rfl | hm
    · exact Or.inl ha
    · have : t' = .none := by simpa using hm
      subst this; exact Or.inr (hn.mp ha)
  · rintro (h | h)
    · exact ⟨t, by simp, h⟩
    · exact ⟨.none, by simp, hn.mpr h⟩

example : accepts O0 (.union [.enum 0 ["red"], .none]) (.str "null") = true ∧
    accepts O0 (.union [.none, .enum 0 ["red"]]) (.str "red") = true ∧
    accepts O0 (.union [.enum 0 ["red"], .none]) (.str "blue") = false := by
  refine ⟨rfl, rfl, rfl⟩

/-! ### the two known deviations of soundness, characterised exactly -/

/-- **dictionary keys (finding C02-dict-key-unchecked)**: `Dict[str, V]` hands the keys of the given dictionary
    through untouched … -/
theorem C02_dict_keys_verbatim (O : Oracle) (orig : Option String) (t : Ty) (kvs ys : List (DKey × Val))
    (h : adapt O false orig (.dict .str t) (.dict kvs) = .ok (.dict ys)) : ys.map Prod.fst = kvs.map Prod.fst :=
  dictStr_keys O orig t kvs ys h

/-- … so its result conforms strictly EXACTLY when every key of the given dictionary is a string (the values
    conform under the hypotheses of `C02_sound_partial`).  `Dict[int, V]` casts its keys and is sound
    (`C02_sound_literals` with `castKeys`): a non-string key under `Dict[str, _]` is the only way a key can be wrong -/
theorem C02_dict_key_exact (O : Oracle) (orig : Option String) (t : Ty) (kvs : List (DKey × Val)) (w : Val)
    (hl : litStrOnly t = true) (hv : ∀ kv ∈ kvs, strKeys kv.2 = true)
    (h : adapt O false orig (.dict .str t) (.dict kvs) = .ok w) :
    Conforms O.rnumOk (.dict .str t) w ↔ ∀ kv ∈ kvs, kv.1.isStr = true :=
  dictStr_conf_iff O orig t kvs w hl hv h

example : adapt O0 false .none (.dict .str .int) (.dict [(.str "a", .str "1"), (.int 1, .int 2)])
      = .ok (.dict [(.str "a", .int 1), (.int 1, .int 2)]) := by rfl

/-- **Literal (finding C02-literal-pyeq)**: what a `Literal` accepts either IS one of its members, or is `==` to a
    member of another kind (`Lit.confused`) … -/
theorem C02_literal_exact (O : Oracle) (orig : Option String) (ls : List Lit) (v w : Val)
    (h : adapt O false orig (.literal ls) v = .ok w) :
    Conforms O.rnumOk (.literal ls) w ∨ ∃ l ∈ ls, l.confused w = true :=
  literal_result O orig ls v w h

/-- … which happens exactly between bool / int / float denoting the same number (`True` / `1.0` for `Literal[1]`,
    `1` / `0.0` for `Literal[True]` / `Literal[False]`), never for a string member … -/
theorem C02_literal_confusion_kinds (l : Lit) (w : Val) :
    l.confused w = true ↔
      (match l, w with
       | .int i, .bool b => i = (if b then 1 else 0)
       | .int i, .flt r => fltAsInt r = some i
       | .bool b, .int i => (if b then 1 else 0) = i
       | .bool b, .flt r => fltAsInt r = some (if b then 1 else 0)
       | _, _ => False) :=
  Lit.confused_iff l w

/-- … and every such value IS accepted and returned unchanged (from a config file; argv text is converted by the
    member kinds first) -/
theorem C02_literal_confused_accepted (O : Oracle) (orig : Option String) (ls : List Lit) (l : Lit) (w : Val)
    (hl : l ∈ ls) (hc : l.confused w = true) : adapt O false orig (.literal ls) w = .ok w :=
  literal_confused_accepted O orig ls l w hl hc

example : (Lit.int 1).confused (.bool true) = true ∧ (Lit.int 1).confused (.flt "1.0") = true ∧
    (Lit.bool false).confused (.int 0) = true ∧ (Lit.int 1).confused (.int 1) = false ∧
    (Lit.str "1").confused (.int 1) = false := by
  refine ⟨rfl, rfl, rfl, rfl, rfl⟩

/-! ### arguments that have a default

`adapt_typehints` returns early when `type(val) in {str, bool, int, float} and val == default` (Python `==`, so
`True == 1 == 1.0`).  The default is only passed by the retry of `_check_type`, which only happens for a value that
is a `str`: `checkTypeD O t (some d) v` is `_check_type` of an argument with default `d`. -/

/-- without a default nothing changes -/
theorem C02_default_none (O : Oracle) (t : Ty) (v : Val) : checkTypeD O t .none v = checkType O t v :=
  checkTypeD_none O t v

/-- the early return can only hand back a STRING that is the default itself: every other result comes from the
    adapter (so a `bool` / `float` that merely equals an `int` default is never let through) -/
theorem C02_default_result (O : Oracle) (t : Ty) (d v w : Val) (h : checkTypeD O t (some d) v = .ok w) :
    (∃ orig val, adapt O false orig t val = .ok w) ∨ (∃ s, v = .str s ∧ w = .str s ∧ d = .str s) :=
  checkTypeD_result O t d v w h

/-- **C02_sound_with_default**: when the default conforms, every accepted value conforms (relaxed validator, no
    further hypothesis; strict validator under the two hypotheses of `C02_sound_partial`) -/
theorem C02_sound_with_default (O : Oracle) (t : Ty) (d v w : Val) (hd : confL O.rnumOk true true t d = true)
    (h : checkTypeD O t (some d) v = .ok w) : confL O.rnumOk true true t w = true :=
  checkTypeD_sound O true true t d v w (by simp) (by simp) hd h

theorem C02_sound_with_default_partial (O : Oracle) (t : Ty) (d v w : Val)
    (hl : litStrOnly t = true) (hk : strKeys (parseValueOrConfig O v) = true) (hd : Conforms O.rnumOk t d)
    (h : checkTypeD O t (some d) v = .ok w) : Conforms O.rnumOk t w :=
  checkTypeD_sound O false false t d v w (fun _ => hl) (fun _ => hk) hd h

/-- where it fails: a string SENTINEL default that does not conform is returned for the equal text
    (`type=int, default='auto'`, `--k=auto`; finding C02-string-sentinel-default) -/
theorem C02_sound_with_default_fails_sentinel :
    checkTypeD O0 .int (some (.str "auto")) (.str "auto") = .ok (.str "auto") ∧ conf O0.rnumOk .int (.str "auto") = false := by
  exact ⟨rfl, rfl⟩

/-- the kind confusion of `==` is not reachable through `_check_type`: `type=int, default=1` refuses `True` and `1.0` -/
theorem C02_default_no_kind_confusion :
    checkTypeD O0 .int (some (.int 1)) (.bool true) = .error .type ∧
    checkTypeD O0 .int (some (.int 1)) (.flt "1.0") = .error .type ∧
    checkTypeD O0 (.union [.int, .list .int]) (some (.int 1)) (.bool true) = .error .type := by
  exact ⟨rfl, rfl, rfl⟩

/-- the early return itself, whoever calls it with a default (`serialize` does): it is sound when the default
    conforms and a value equal to the default is of the default's own kind (`noKindConfusion`) … -/
theorem C02_sound_early_return (O : Oracle) (t : Ty) (orig : Option String) (d v w : Val)
    (hd : confL O.rnumOk true true t d = true) (hn : isSBIF v = true → pyEq v d = true → noKindConfusion v d = true)
    (h : adaptD O false orig (some d) t v = .ok w) : confL O.rnumOk true true t w = true :=
  adaptD_sound O true true t orig d v w (by simp) (by simp) hd hn h

/-- … and not otherwise: called directly with default `1`, it returns `True` for an `int` -/
theorem C02_early_return_kind_confusion :
    adaptD O0 false .none (some (.int 1)) .int (.bool true) = .ok (.bool true) ∧ conf O0.rnumOk .int (.bool true) = false := by
  exact ⟨rfl, rfl⟩

example : noKindConfusion (.int 1) (.int 1) = true ∧ noKindConfusion (.bool true) (.int 1) = false := ⟨rfl, rfl⟩

end Jap.Props.C02

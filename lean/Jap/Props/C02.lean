/-
C02 — accepted values conform to the declared type; acceptance is compositional.
Property theorems only; helper lemmas are in Jap/Lemmas/Adapt*.lean.
-/
import Jap.Core.Adapt
import Jap.Core.AdaptPins
import Jap.Gen.AdaptTables
namespace Jap.Props.C02
open Jap.Adapt

/-! ### ties to the regenerated tables -/

/-- the `if/elif` chain of `adapt_typehints` has the branches, in the order, the model was written against -/
theorem tie_branch_order : Jap.Gen.adaptBranches = branchOrder := by first | rfl | exact ⟨rfl, rfl⟩ | exact ⟨rfl, rfl, rfl⟩
theorem tie_branch_tests : Jap.Gen.adaptBranchTests = Pins.adaptBranchTests := by first | rfl | exact ⟨rfl, rfl⟩ | exact ⟨rfl, rfl, rfl⟩
theorem tie_leaf_types : Jap.Gen.leafTypes = leafNames := by first | rfl | exact ⟨rfl, rfl⟩ | exact ⟨rfl, rfl, rfl⟩
theorem tie_origin_class : Jap.Gen.originClass = Pins.originClass ∧ Jap.Gen.seqOrMapProbe = Pins.seqOrMapProbe := by first | rfl | exact ⟨rfl, rfl⟩ | exact ⟨rfl, rfl, rfl⟩
theorem tie_origin_sets : Jap.Gen.sequenceOrigins = Pins.sequenceOrigins ∧ Jap.Gen.mappingOrigins = Pins.mappingOrigins
    ∧ Jap.Gen.tupleSetOrigins = Pins.tupleSetOrigins := by first | rfl | exact ⟨rfl, rfl⟩ | exact ⟨rfl, rfl, rfl⟩
theorem tie_union_branch : Jap.Gen.unionBranchSrc = Pins.unionBranchSrc := by first | rfl | exact ⟨rfl, rfl⟩ | exact ⟨rfl, rfl, rfl⟩
theorem tie_leaf_branch : Jap.Gen.leafBranchSrc = Pins.leafBranchSrc := by first | rfl | exact ⟨rfl, rfl⟩ | exact ⟨rfl, rfl, rfl⟩
theorem tie_literal_branch : Jap.Gen.literalBranchSrc = Pins.literalBranchSrc := by first | rfl | exact ⟨rfl, rfl⟩ | exact ⟨rfl, rfl, rfl⟩
theorem tie_enum_branch : Jap.Gen.enumBranchSrc = Pins.enumBranchSrc := by first | rfl | exact ⟨rfl, rfl⟩ | exact ⟨rfl, rfl, rfl⟩
theorem tie_tuple_branch : Jap.Gen.tupleArityTest = Pins.tupleArityTest ∧ Jap.Gen.tupleElemSrc = Pins.tupleElemSrc := by first | rfl | exact ⟨rfl, rfl⟩ | exact ⟨rfl, rfl, rfl⟩
theorem tie_container_elems : Jap.Gen.seqElemSrc = Pins.seqElemSrc ∧ Jap.Gen.mapElemSrc = Pins.mapElemSrc := by first | rfl | exact ⟨rfl, rfl⟩ | exact ⟨rfl, rfl, rfl⟩
theorem tie_sort_src : Jap.Gen.sortSrc = Pins.sortSrc := by first | rfl | exact ⟨rfl, rfl⟩ | exact ⟨rfl, rfl, rfl⟩
theorem tie_check_type : Jap.Gen.checkTypeSkeleton = Pins.checkTypeSkeleton ∧ Jap.Gen.isValidStringSrc = Pins.isValidStringSrc := by first | rfl | exact ⟨rfl, rfl⟩ | exact ⟨rfl, rfl, rfl⟩

/-- probe list of the extractor: `[int, List[int], NoneType, Dict[str,int], str, Tuple[int], Set[int], NoneType, List[str]]` -/
def sortProbe : List (Nat × Ty) :=
  [(0, .int), (1, .list .int), (2, .none), (3, .dict .str .int), (4, .str), (5, .tuple [.int]), (6, .set .int), (7, .none), (8, .list .str)]

/-- the model visits Union members in the order the real `sort_subtypes_for_union` produces on the probe -/
theorem tie_sort_probe :
    (sortedMembers (.str "x") (·.2) sortProbe).map (·.1) = Jap.Gen.sortProbeStr ∧
    (sortedMembers (.int 1) (·.2) sortProbe).map (·.1) = Jap.Gen.sortProbeNonStr := by first | rfl | exact ⟨rfl, rfl⟩ | exact ⟨rfl, rfl, rfl⟩

end Jap.Props.C02

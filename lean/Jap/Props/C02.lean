/-
C02 — accepted values conform to the declared type; acceptance is compositional.
Property theorems only; helper lemmas are in Jap/Lemmas/Adapt*.lean.
-/
import Jap.Core.Adapt
import Jap.Core.AdaptPins
import Jap.Gen.AdaptTables
import Jap.Lemmas.AdaptStr
namespace Jap.Props.C02
open Jap.Adapt

/-! ### ties to the regenerated tables -/

/-- the `if/elif` chain of `adapt_typehints` has the branches, in the order, the model was written against -/
theorem tie_branch_order : Jap.Gen.adaptBranches = branchOrder := by first | rfl | exact ⟨rfl, rfl⟩ | exact ⟨rfl, rfl, rfl⟩
theorem tie_branch_tests : Jap.Gen.adaptBranchTests = Pins.adaptBranchTests := by first | rfl | exact ⟨rfl, rfl⟩ | exact ⟨rfl, rfl, rfl⟩
theorem tie_leaf_types : Jap.Gen.leafTypes = leafNames := by first | rfl | exact ⟨rfl, rfl⟩ | exact ⟨rfl, rfl, rfl⟩
theorem tie_origin_class : Jap.Gen.originClass = Pins.originClass ∧ Jap.Gen.seqOrMapProbe = Pins.seqOrMapProbe := by first | rfl | exact ⟨rfl, rfl⟩ | exact ⟨rfl, rfl, rfl⟩
theorem tie_origin_sets : Jap.Gen.sequenceOrigins = Pins.sequenceOrigins ∧ Jap.Gen.mappingOrigins = Pins.mappingOrigins
    ∧ Jap.Gen.tupleSetOrigins = Pins.tupleSetOrigins := by first | rfl | exact ⟨rfl, rfl⟩ | exact ⟨rfl, rfl, rfl⟩
theorem tie_union_branch : Jap.Gen.unionBranchSrc = Pins.unionBranchSrc := by first | rfl | exact ⟨rfl, rfl⟩ | exact ⟨rfl, rfl, rfl⟩
theorem tie_leaf_branch : Jap.Gen.leafBranchSrc = Pins.leafBranchSrc := by first | rfl | exact ⟨rfl, rfl⟩ | exact ⟨rfl, rfl, rfl⟩
theorem tie_literal_branch : Jap.Gen.literalBranchSrc = Pins.literalBranchSrc := by first | rfl | exact ⟨rfl, rfl⟩ | exact ⟨rfl, rfl, rfl⟩
theorem tie_enum_branch : Jap.Gen.enumBranchSrc = Pins.enumBranchSrc := by first | rfl | exact ⟨rfl, rfl⟩ | exact ⟨rfl, rfl, rfl⟩
theorem tie_tuple_branch : Jap.Gen.tupleArityTest = Pins.tupleArityTest ∧ Jap.Gen.tupleElemSrc = Pins.tupleElemSrc := by first | rfl | exact ⟨rfl, rfl⟩ | exact ⟨rfl, rfl, rfl⟩
theorem tie_container_elems : Jap.Gen.seqElemSrc = Pins.seqElemSrc ∧ Jap.Gen.mapElemSrc = Pins.mapElemSrc := by first | rfl | exact ⟨rfl, rfl⟩ | exact ⟨rfl, rfl, rfl⟩
theorem tie_sort_src : Jap.Gen.sortSrc = Pins.sortSrc := by first | rfl | exact ⟨rfl, rfl⟩ | exact ⟨rfl, rfl, rfl⟩
theorem tie_check_type : Jap.Gen.checkTypeSkeleton = Pins.checkTypeSkeleton ∧ Jap.Gen.isValidStringSrc = Pins.isValidStringSrc := by first | rfl | exact ⟨rfl, rfl⟩ | exact ⟨rfl, rfl, rfl⟩

/-- probe list of the extractor: `[int, List[int], NoneType, Dict[str,int], str, Tuple[int], Set[int], NoneType, List[str]]` -/
def sortProbe : List (Nat × Ty) :=
  [(0, .int), (1, .list .int), (2, .none), (3, .dict .str .int), (4, .str), (5, .tuple [.int]), (6, .set .int), (7, .none), (8, .list .str)]

/-- the model visits Union members in the order the real `sort_subtypes_for_union` produces on the probe -/
theorem tie_sort_probe :
    (sortedMembers (.str "x") (·.2) sortProbe).map (·.1) = Jap.Gen.sortProbeStr ∧
    (sortedMembers (.int 1) (·.2) sortProbe).map (·.1) = Jap.Gen.sortProbeNonStr := by first | rfl | exact ⟨rfl, rfl⟩ | exact ⟨rfl, rfl, rfl⟩


/-! ## the property

`adapt O false orig t v` is what `adapt_typehints` does with one value (`orig` = the original argument string,
`none` inside containers); `checkType O t v` is `ActionTypeHint._check_type`, the entry point of both channels:
`adaptStr O t s = checkType O t (.str s)` for an argument string, `checkType O t v` for a value given to
`parse_object`.  `O` is the loader (PyYAML etc.), universally quantified everywhere. -/

/-- a small table-driven loader for the witnesses -/
def O0 : Oracle where
  yaml s := if s = "null" then some .null else if s = "1" then some (.int 1) else if s = "[1]" then some (.list [.int 1])
            else some (.str s)
  loadAny s := some (.str s)
  bigFlt _ := some "?"
  intOf s := if s = "1" then some 1 else if s = "01" then some 1 else .none

/-! ### soundness: accepted values conform

Full statement (FALSE for the code and hence for the model):
  `theorem C02_sound : adapt O false orig t v = .ok w → Conforms t w`
It fails in exactly two ways, both known findings: `Literal` membership is tested with Python `==`
(row 5e), and the keys of a `Dict[str, V]` are not looked at. -/

/-- counterexample 1 (finding C02-literal-pyeq): `Literal[1, 2]` accepts `True` and returns it -/
theorem C02_sound_fails_literal :
    adapt O0 false .none (.literal [.int 1, .int 2]) (.bool true) = .ok (.bool true) ∧
    conf (.literal [.int 1, .int 2]) (.bool true) = false := by
  constructor <;> rfl

/-- counterexample 2 (finding C02-dict-key-unchecked): `Dict[str, int]` accepts `{1: 2}` -/
theorem C02_sound_fails_dict_key :
    adapt O0 false .none (.dict .str .int) (.dict [(.int 1, .int 2)]) = .ok (.dict [(.int 1, .int 2)]) ∧
    conf (.dict .str .int) (.dict [(.int 1, .int 2)]) = false := by
  constructor <;> rfl

/-- **soundness at full strength for the validator relaxed at exactly these two points**: for every type hint,
    value, original string and loader, what the adapter returns conforms when Literal members are compared
    with `==` and dictionary keys are ignored -/
theorem C02_sound_relaxed (O : Oracle) (t : Ty) (orig : Option String) (v w : Val)
    (h : adapt O false orig t v = .ok w) : confL true true t w = true :=
  sound_gen O true true t orig v w (by simp) (by simp) h

/-- only the Literal relaxation is needed when the value has string keys only (what JSON can express) -/
theorem C02_sound_keys (O : Oracle) (t : Ty) (orig : Option String) (v w : Val) (hk : strKeys v = true)
    (h : adapt O false orig t v = .ok w) : confL true false t w = true :=
  sound_gen O true false t orig v w (by simp) (fun _ => hk) h

/-- only the key relaxation is needed when every Literal has string members only -/
theorem C02_sound_literals (O : Oracle) (t : Ty) (orig : Option String) (v w : Val) (hl : litStrOnly t = true)
    (h : adapt O false orig t v = .ok w) : confL false true t w = true :=
  sound_gen O false true t orig v w (fun _ => hl) (by simp) h

/-- **C02_sound_partial**: strict conformance under the two forced hypotheses -/
theorem C02_sound_partial (O : Oracle) (t : Ty) (orig : Option String) (v w : Val)
    (hl : litStrOnly t = true) (hk : strKeys v = true)
    (h : adapt O false orig t v = .ok w) : Conforms t w :=
  sound_gen O false false t orig v w (fun _ => hl) (fun _ => hk) h

/-- the hypotheses are satisfiable by a non-trivial case (a conversion at every level) -/
example : litStrOnly (.dict .int (.union [.tuple [.float, .literal [.str "a"]], .none])) = true ∧
    strKeys (.dict [(.str "1", .list [.str "1", .str "a"])]) = true ∧
    adapt O0 false .none (.dict .int (.union [.tuple [.float, .literal [.str "a"]], .none]))
      (.dict [(.str "1", .list [.str "1", .str "a"])]) = .ok (.dict [(.int 1, .tuple [.flt "1.0", .str "a"])]) := by
  refine ⟨rfl, rfl, rfl⟩

/-- soundness of the whole `_check_type` (both channels), relaxed and strict -/
theorem C02_sound_checkType_relaxed (O : Oracle) (t : Ty) (v w : Val) (h : checkType O t v = .ok w) :
    confL true true t w = true :=
  checkType_sound O true true t v w (by simp) (by simp) h

theorem C02_sound_checkType_partial (O : Oracle) (t : Ty) (v w : Val)
    (hl : litStrOnly t = true) (hk : strKeys (parseValueOrConfig O v) = true)
    (h : checkType O t v = .ok w) : Conforms t w :=
  checkType_sound O false false t v w (fun _ => hl) (fun _ => hk) h

/-! ### a value of the right shape is never rejected

Full statement (FALSE): `Conforms t v → accepts O t v`.  It fails for a `Set` whose element type has an
alternative that converts the element to something unhashable (finding C02-set-element-becomes-unhashable). -/

/-- counterexample: `Set[Union[List[int], Tuple[int, ...]]]` rejects the conforming `{(1, 2)}` … -/
theorem C02_shape_fails_set :
    conf (.set (.union [.list .int, .tupleVar .int])) (.set [.tuple [.int 1, .int 2]]) = true ∧
    adapt O0 false .none (.set (.union [.list .int, .tupleVar .int])) (.set [.tuple [.int 1, .int 2]]) = .error .type := by
  constructor <;> rfl

/-- … which the permuted Union accepts: inside a Set, acceptance depends on the member order -/
theorem C02_shape_set_order_dependent :
    adapt O0 false .none (.set (.union [.tupleVar .int, .list .int])) (.set [.tuple [.int 1, .int 2]])
      = .ok (.set [.tuple [.int 1, .int 2]]) := by rfl

/-- **C02_shape_partial**: when every Set in the hint has an element type whose adapted values are always
    hashable (`setSafe`), a conforming value is accepted — whatever the loader and the original string -/
theorem C02_shape_partial (O : Oracle) (t : Ty) (orig : Option String) (v : Val)
    (hs : setSafe t = true) (hc : Conforms t v) : isOk (adapt O false orig t v) = true :=
  shape_gen O t orig v hc hs

example : setSafe (.set (.union [.tuple [.int, .enum 0 ["a"]], .literal [.int 1], .none])) = true := by rfl

/-- the same through `_check_type` for a non-string value (`parse_object`) -/
theorem C02_shape_checkType (O : Oracle) (t : Ty) (v : Val) (hv : isStr v = false)
    (hs : setSafe t = true) (hc : Conforms t v) : isOk (checkType O t v) = true := by
  rw [checkType_nonstr O t v hv]; exact shape_gen O t .none v hc hs

/-! ### containers are accepted exactly when every element is (value channel and, identically, inside an
    argument string: elements never see the original string) -/

theorem C02_list_iff (O : Oracle) (orig : Option String) (t : Ty) (xs : List Val) :
    isOk (adapt O false orig (.list t) (.list xs)) = true ↔ ∀ x ∈ xs, accepts O t x = true := by
  rw [list_isOk O orig t (.list xs) xs rfl, List.all_eq_true]
  simp [accepts, isOk_eq_not_isErr]

theorem C02_tupleVar_iff (O : Oracle) (orig : Option String) (t : Ty) (xs : List Val) :
    isOk (adapt O false orig (.tupleVar t) (.list xs)) = true ↔ ∀ x ∈ xs, accepts O t x = true := by
  rw [tupleVar_isOk O orig t (.list xs) xs rfl, List.all_eq_true]
  simp [accepts, isOk_eq_not_isErr]

/-- fixed-arity tuples: the arity has to match, and then position by position -/
theorem C02_tuple_iff (O : Oracle) (orig : Option String) (ts : List Ty) (xs : List Val) :
    isOk (adapt O false orig (.tuple ts) (.list xs)) = true ↔
      xs.length = ts.length ∧ ∀ tx ∈ ts.zip xs, accepts O tx.1 tx.2 = true := by
  rw [tuple_isOk_iff O orig ts (.list xs) xs rfl]
  simp [accepts, isOk_eq_not_isErr]

theorem C02_dict_iff (O : Oracle) (orig : Option String) (t : Ty) (kvs : List (DKey × Val)) :
    isOk (adapt O false orig (.dict .str t) (.dict kvs)) = true ↔ ∀ kv ∈ kvs, accepts O t kv.2 = true := by
  rw [dictStr_isOk, List.all_eq_true]
  simp [accepts, isOk_eq_not_isErr]

/-- `Dict[int, V]`: the keys have to be castable, then value by value (on the dictionary after the cast) -/
theorem C02_dict_int_iff (O : Oracle) (orig : Option String) (t : Ty) (kvs : List (DKey × Val)) :
    isOk (adapt O false orig (.dict .int t) (.dict kvs)) = true ↔
      ∃ kvs', castKeys O false kvs [] = .ok kvs' ∧ ∀ kv ∈ kvs', accepts O t kv.2 = true := by
  rw [dictInt_isOk]
  cases castKeys O false kvs [] with
  | error e => simp
  | ok kvs' => simp [accepts, isOk_eq_not_isErr]

/-- Sets: element-wise when the element type is hashable (see `C02_shape_fails_set` otherwise) -/
theorem C02_set_iff (O : Oracle) (orig : Option String) (t : Ty) (xs : List Val) (ht : hashTy t = true) :
    isOk (adapt O false orig (.set t) (.list xs)) = true ↔ ∀ x ∈ xs, accepts O t x = true := by
  rw [set_isOk_hashTy O orig t (.list xs) xs rfl ht, List.all_eq_true]
  simp [accepts, isOk_eq_not_isErr]

/-! ### a Union is accepted exactly when a member accepts, whatever the order -/

/-- value channel (no original string: elements of containers, values given to `parse_object`) -/
theorem C02_union_iff (O : Oracle) (ts : List Ty) (v : Val) :
    accepts O (.union ts) v = true ↔ ∃ t ∈ ts, accepts O t v = true := by
  have := union_isOk O false .none ts v
  simp only [rescued, Option.isSome_none, Bool.false_and, Bool.or_false] at this
  simp only [accepts, ← isOk_eq_not_isErr, this, List.any_eq_true]

theorem C02_union_perm (O : Oracle) (v : Val) {ts ts' : List Ty} (h : ts.Perm ts') :
    accepts O (.union ts) v = accepts O (.union ts') v := by
  rw [Bool.eq_iff_iff, C02_union_iff, C02_union_iff]
  constructor
  · rintro ⟨t, hm, ha⟩; exact ⟨t, h.mem_iff.mp hm, ha⟩
  · rintro ⟨t, hm, ha⟩; exact ⟨t, h.mem_iff.mpr hm, ha⟩

/-- with an original string: a member accepts, or the value is not a string and `str` is a member (the rescue) -/
theorem C02_union_iff_orig (O : Oracle) (o : String) (ts : List Ty) (v : Val) :
    isOk (adapt O false (some o) (.union ts) v) = true ↔
      (∃ t ∈ ts, isOk (adapt O false (some o) t v) = true) ∨ (isStr v = false ∧ Ty.str ∈ ts) := by
  rw [union_isOk]
  simp only [rescued, Option.isSome_some, Bool.true_and, Bool.or_eq_true, List.any_eq_true, Bool.and_eq_true,
    Bool.not_eq_true']
  constructor
  · rintro (h | ⟨h1, t, hm, h2⟩)
    · exact Or.inl h
    · have := isStrTy_eq h2; subst this; exact Or.inr ⟨h1, hm⟩
  · rintro (h | ⟨h1, hm⟩)
    · exact Or.inl h
    · exact Or.inr ⟨h1, .str, hm, rfl⟩

/-- **string channel: permutation invariance holds without hypothesis** (after the repairs of rows 5/5b/5c) -/
theorem C02_union_perm_str (O : Oracle) (s : String) {ts ts' : List Ty} (h : ts.Perm ts') :
    acceptsStr O (.union ts) s = acceptsStr O (.union ts') s := by
  simp only [acceptsStr, adaptStr, ← isOk_eq_not_isErr, checkType_union_isOk]
  rw [h.any_eq, h.any_eq, h.any_eq]

/- string channel, Union versus members.  Full statement (FALSE):
     `acceptsStr O (.union ts) s ↔ ∃ t ∈ ts, acceptsStr O t s`
   A member that fails on the loaded value with a non-`ValueError` exception (Enum lookup of an unhashable
   value) is not retried with the original text when it stands alone, while the Union catches the exception
   and is retried as a whole (finding C02-enum-unhashable-no-retry). -/

def O1 : Oracle where
  yaml s := if s = "[1]" then some (.list [.int 1]) else some (.str s)
  loadAny s := some (.str s)
  bigFlt _ := some "?"
  intOf _ := .none

/-- counterexample: an Enum with a member named `[1]`; `Union[E, int]` accepts the text `[1]`, `E` alone and
    `int` alone reject it -/
theorem C02_union_iff_str_fails :
    acceptsStr O1 (.union [.enum 3 ["[1]"], .int]) "[1]" = true ∧
    acceptsStr O1 (.enum 3 ["[1]"]) "[1]" = false ∧ acceptsStr O1 .int "[1]" = false := by
  refine ⟨rfl, rfl, rfl⟩

/-- **C02_union_iff_str_partial** -/
theorem C02_union_iff_str_partial (O : Oracle) (ts : List Ty) (s : String)
    (hte : ts.all (fun t => !isTypeErr (adapt O false (some s) t (parseValueOrConfig O (.str s)))) = true) :
    acceptsStr O (.union ts) s = true ↔ ∃ t ∈ ts, acceptsStr O t s = true := by
  simp only [acceptsStr, adaptStr, ← isOk_eq_not_isErr]
  rw [union_str_iff O ts s hte, List.any_eq_true]

example : ([Ty.str, .int, .list .float, .none].all
    (fun t => !isTypeErr (adapt O0 false (some "[1]") t (parseValueOrConfig O0 (.str "[1]"))))) = true := by rfl

/-- one direction needs no hypothesis: what a member accepts, the Union accepts -/
theorem C02_union_str_of_member (O : Oracle) (ts : List Ty) (s : String) (t : Ty) (hm : t ∈ ts)
    (h : acceptsStr O t s = true) : acceptsStr O (.union ts) s = true := by
  simp only [acceptsStr, adaptStr, ← isOk_eq_not_isErr] at h ⊢
  rw [checkType_union_isOk]
  rw [checkType_str_isOk] at h
  simp only [Bool.or_eq_true, Bool.and_eq_true, List.any_eq_true] at h ⊢
  rcases h with h | ⟨_, h⟩
  · exact Or.inl (Or.inl (Or.inl ⟨t, hm, h⟩))
  · exact Or.inl (Or.inr ⟨t, hm, h⟩)

/-! ### strings that only look like another type -/

/-- **a `str` argument is returned verbatim**, whatever the loader makes of its text -/
theorem C02_str_verbatim (O : Oracle) (s : String) : adaptStr O .str s = .ok (.str s) :=
  checkType_str O s

/-- the `_is_valid_string` fallback never decides anything (it is dead code on this grammar) -/
theorem C02_fallback_dead (O : Oracle) (t : Ty) (v : Val) (e : Err)
    (h : adapt O false (origOf v) t (parseValueOrConfig O v) = .error e) :
    isValidString t (parseValueOrConfig O v) = false := by
  cases hv : isValidString t (parseValueOrConfig O v) with
  | false => rfl
  | true =>
    have := isValidString_isOk O (origOf v) t _ hv
    rw [h] at this; simp at this


/-! ### arguments that have a default

`adapt_typehints` returns early when `type(val) in {str, bool, int, float} and val == default` (Python `==`, so
`True == 1 == 1.0`).  The default is only passed by the retry of `_check_type`, which only happens for a value that
is a `str`: `checkTypeD O t (some d) v` is `_check_type` of an argument with default `d`. -/

/-- without a default nothing changes -/
theorem C02_default_none (O : Oracle) (t : Ty) (v : Val) : checkTypeD O t .none v = checkType O t v :=
  checkTypeD_none O t v

/-- the early return can only hand back a STRING that is the default itself: every other result comes from the
    adapter (so a `bool` / `float` that merely equals an `int` default is never let through) -/
theorem C02_default_result (O : Oracle) (t : Ty) (d v w : Val) (h : checkTypeD O t (some d) v = .ok w) :
    (∃ orig val, adapt O false orig t val = .ok w) ∨ (∃ s, v = .str s ∧ w = .str s ∧ d = .str s) :=
  checkTypeD_result O t d v w h

/-- **C02_sound_with_default**: when the default conforms, every accepted value conforms (relaxed validator, no
    further hypothesis; strict validator under the two hypotheses of `C02_sound_partial`) -/
theorem C02_sound_with_default (O : Oracle) (t : Ty) (d v w : Val) (hd : confL true true t d = true)
    (h : checkTypeD O t (some d) v = .ok w) : confL true true t w = true :=
  checkTypeD_sound O true true t d v w (by simp) (by simp) hd h

theorem C02_sound_with_default_partial (O : Oracle) (t : Ty) (d v w : Val)
    (hl : litStrOnly t = true) (hk : strKeys (parseValueOrConfig O v) = true) (hd : Conforms t d)
    (h : checkTypeD O t (some d) v = .ok w) : Conforms t w :=
  checkTypeD_sound O false false t d v w (fun _ => hl) (fun _ => hk) hd h

/-- where it fails: a string SENTINEL default that does not conform is returned for the equal text
    (`type=int, default='auto'`, `--k=auto`; finding C02-string-sentinel-default) -/
theorem C02_sound_with_default_fails_sentinel :
    checkTypeD O0 .int (some (.str "auto")) (.str "auto") = .ok (.str "auto") ∧ conf .int (.str "auto") = false := by
  exact ⟨rfl, rfl⟩

/-- the kind confusion of `==` is not reachable through `_check_type`: `type=int, default=1` refuses `True` and `1.0` -/
theorem C02_default_no_kind_confusion :
    checkTypeD O0 .int (some (.int 1)) (.bool true) = .error .type ∧
    checkTypeD O0 .int (some (.int 1)) (.flt "1.0") = .error .type ∧
    checkTypeD O0 (.union [.int, .list .int]) (some (.int 1)) (.bool true) = .error .type := by
  exact ⟨rfl, rfl, rfl⟩

/-- the early return itself, whoever calls it with a default (`serialize` does): it is sound when the default
    conforms and a value equal to the default is of the default's own kind (`noKindConfusion`) … -/
theorem C02_sound_early_return (O : Oracle) (t : Ty) (orig : Option String) (d v w : Val)
    (hd : confL true true t d = true) (hn : isSBIF v = true → pyEq v d = true → noKindConfusion v d = true)
    (h : adaptD O false orig (some d) t v = .ok w) : confL true true t w = true :=
  adaptD_sound O true true t orig d v w (by simp) (by simp) hd hn h

/-- … and not otherwise: called directly with default `1`, it returns `True` for an `int` -/
theorem C02_early_return_kind_confusion :
    adaptD O0 false .none (some (.int 1)) .int (.bool true) = .ok (.bool true) ∧ conf .int (.bool true) = false := by
  exact ⟨rfl, rfl⟩

example : noKindConfusion (.int 1) (.int 1) = true ∧ noKindConfusion (.bool true) (.int 1) = false := ⟨rfl, rfl⟩

end Jap.Props.C02

import Jap.Core.Namespace
import Jap.Gen.NsTables

/-
JSON-lines driver for E5 (Channels model, property C05).  Run with
  lake env lean --run Drv/Channels.lean < ops.jsonl
One JSON object per input line, one JSON object per output line.

wire formats
  value    : int | true/false | null | "str" | {"f": "<JSON number token>"} | [scalars] | {"d": [[key, int], …]}
             | {"yn": {"word": str, "negWord": str|null}}
  namespace: {"n": [[name, namespace-or-value], …]}
  parser   : {"prefix": str|null, "decls": [{"key": [seg, …], "kind": "json" | "raw" | {"yesno": "bare"|"opt"|"one"}
             | {"nlist": ["n1"|"n2"|"plus"|"star", elemRaw]}}, …]}   (clash table = Jap.Gen.clashNames)
  settings : [[[seg, …], value], …]
typed part (op "typed"):
  type     : "int"|"float"|"bool"|"str"|"none" | {"enum": [name…]} | {"union": [type…]} | {"list": type} | {"dict": type}
             | {"tupleVar": type} | {"tuple": [type…]} | {"tdict": [[name…], [type…]]}
  pvalue   : null | true/false | int | "str" | {"f": "<token>"} | {"fi": int} | [pvalue…] | {"d": [[key, pvalue]…]} | {"t": [pvalue…]}
  {"op":"typed","t":type,"v":pvalue,"s":text|null,"L":[[text,pvalue]…],"Y":[[text,pvalue]…]}
     -> {"value": viaValue, "text": viaText (when s is given), "noStrTop":…, "noEnumName":…}   (the loaders as finite tables)
-/
import Lean.Data.Json
import Jap.Core.Channels
import Jap.Core.ChannelsTyped
import Jap.Gen.NsTables

open Lean Jap.NS Jap.Channels

def scalarOfJson : Json → Option Scalar
  | .null => some .null
  | .bool b => some (.bool b)
  | .num n => if n.exponent = 0 then some (.int n.mantissa) else none
  | .str s => some (.str s)
  | .obj o =>
    match (Json.obj o).getObjVal? "f" with
    | .ok (.str t) =>
      match readNum t.toList with
      | some tok => if wfTok tok then some (.num tok) else none
      | none => none
    | _ => none
  | _ => none

def pairOfJson : Json → Option (String × Int)
  | .arr #[.str k, .num n] => if n.exponent = 0 then some (k, n.mantissa) else none
  | _ => none

def valOfJson : Json → Option Val
  | .arr xs => (traverse scalarOfJson xs.toList).map .list
  | .obj o =>
    match (Json.obj o).getObjVal? "d" with
    | .ok (.arr ps) => (traverse pairOfJson ps.toList).map .dict
    | _ =>
      match (Json.obj o).getObjVal? "yn" with
      | .ok y =>
        match y.getObjVal? "word", y.getObjVal? "negWord" with
        | .ok (.str w), .ok (.str nw) => some (.yesno ⟨w, some nw⟩)
        | .ok (.str w), _ => some (.yesno ⟨w, none⟩)
        | _, _ => none
      | _ => (scalarOfJson (.obj o)).map .sc
  | j => (scalarOfJson j).map .sc

def scalarToJson : Scalar → Json
  | .int i => .num (JsonNumber.fromInt i)
  | .bool b => .bool b
  | .null => .null
  | .str s => .str s
  | .num t => Json.mkObj [("f", .str (String.ofList (tokChars t)))]

def valToJson : Val → Json
  | .sc s => scalarToJson s
  | .list xs => .arr (xs.map scalarToJson).toArray
  | .dict kvs => Json.mkObj [("d", .arr (kvs.map fun kv => Json.arr #[.str kv.1, .num (JsonNumber.fromInt kv.2)]).toArray)]
  | .yesno w => Json.mkObj [("yn", Json.mkObj [("word", .str w.word), ("negWord", match w.negWord with | some nw => .str nw | none => .null)])]

def optToJson {α : Type} (f : α → Json) : Option α → Json
  | some a => Json.mkObj [("some", f a)]
  | none => .null

def charsOfV : List V → Option (List Char)
  | [] => some []
  | .atom a :: r => (charsOfV r).map (Char.ofNat a.toNat :: ·)
  | _ => none

/-- inverse of `enc` on namespace values -/
partial def vToJson : V → Json
  | .none => .null
  | .atom a => .num (JsonNumber.fromInt a)
  | .tup [.atom 0, .atom b] => .bool (b != 0)
  | .tup [.atom 1, .lst cs] =>
    match charsOfV cs with
    | some l => .str (String.ofList l)
    | none => Json.mkObj [("bad", "str")]
  | .tup [.atom 2, .lst cs] =>
    match charsOfV cs with
    | some l => Json.mkObj [("f", .str (String.ofList l))]
    | none => Json.mkObj [("bad", "num")]
  | .tup _ => Json.mkObj [("bad", "tup")]
  | .lst xs => .arr (xs.map vToJson).toArray
  | .dct kvs => Json.mkObj [("d", .arr (kvs.map fun kv => Json.arr #[.str kv.1.name, vToJson kv.2]).toArray)]
  | .ns kvs => Json.mkObj [("n", .arr (kvs.map fun kv => Json.arr #[.str kv.1.name, vToJson kv.2]).toArray)]

def clash : List String := Jap.Gen.clashNames

partial def nsOfJson : Json → Option V
  | .obj o =>
    match (Json.obj o).getObjVal? "n" with
    | .ok (.arr es) =>
      (traverse (fun e => match e with
        | .arr #[.str k, v] => (nsOfJson v).map (fun x => (mark clash k, x))
        | _ => none) es.toList).map .ns
    | _ => (valOfJson (.obj o)).map enc
  | j => (valOfJson j).map enc

def strList : Json → List String
  | .arr xs => xs.toList.filterMap fun j => match j with | .str s => some s | _ => none
  | _ => []

def keyOfJson (j : Json) : Option Key := keyOfSegs (strList j)

def getStr? (j : Json) (k : String) : Option String :=
  match j.getObjVal? k with
  | .ok (.str s) => some s
  | _ => none

def getD (j : Json) (k : String) : Json :=
  match j.getObjVal? k with
  | .ok v => v
  | _ => .null

def kindOfJson : Json → Option Kind
  | .str "json" => some .json
  | .str "raw" => some .raw
  | j =>
    match j.getObjVal? "yesno" with
    | .ok (.str "bare") => some (.yesno .bare)
    | .ok (.str "opt") => some (.yesno .opt)
    | .ok (.str "one") => some (.yesno .one)
    | _ =>
      match j.getObjVal? "nlist" with
      | .ok (.arr #[.str n, .bool er]) =>
        match n with
        | "n1" => some (.nlist .n1 er)
        | "n2" => some (.nlist .n2 er)
        | "plus" => some (.nlist .plus er)
        | "star" => some (.nlist .star er)
        | _ => none
      | _ => none

def parserOfJson (j : Json) : Option Parser := do
  let decls ← match getD j "decls" with
    | .arr ds => traverse (fun d => do
        let k ← keyOfJson (getD d "key")
        let kind ← kindOfJson (getD d "kind")
        pure (⟨k, kind⟩ : Decl)) ds.toList
    | _ => none
  pure ⟨clash, getStr? j "prefix", decls⟩

def settingsOfJson : Json → Option Settings
  | .arr es => traverse (fun e => match e with
      | .arr #[k, v] => do
        let k' ← keyOfJson k
        let v' ← valOfJson v
        pure (k', v')
      | _ => none) es.toList
  | _ => none

def channelOfString : String → Option Channel
  | "argv" => some .argv
  | "cfgNested" => some .cfgNested
  | "cfgDotted" => some .cfgDotted
  | "objNested" => some .objNested
  | "objDotted" => some .objDotted
  | "env" => some .env
  | _ => none

def sourceToJson : Source → Json
  | .argv groups => Json.mkObj [("argv", .arr (groups.map fun g => Json.arr (g.map Json.str).toArray).toArray)]
  | .cfgNested ls => Json.mkObj [("cfgNested", .arr (ls.map fun e => Json.arr #[.arr (e.1.map Json.str).toArray, .str e.2]).toArray)]
  | .cfgDotted is => Json.mkObj [("cfgDotted", .arr (is.map fun e => Json.arr #[.str e.1, .str e.2]).toArray)]
  | .objNested ls => Json.mkObj [("objNested", .arr (ls.map fun e => Json.arr #[.arr (e.1.map Json.str).toArray, valToJson e.2]).toArray)]
  | .objDotted is => Json.mkObj [("objDotted", .arr (is.map fun e => Json.arr #[.str e.1, valToJson e.2]).toArray)]
  | .env vs => Json.mkObj [("env", .arr (vs.map fun e => Json.arr #[.str e.1, .str e.2]).toArray)]

/-! ## typed part -/
open Jap.Channels.Typed in
partial def tyOfJson : Json → Option Ty
  | .str "int" => some .int
  | .str "float" => some .float
  | .str "bool" => some .bool
  | .str "str" => some .str
  | .str "none" => some .none
  | j =>
    match j.getObjVal? "enum", j.getObjVal? "union", j.getObjVal? "list", j.getObjVal? "dict", j.getObjVal? "tupleVar",
          j.getObjVal? "tuple", j.getObjVal? "tdict" with
    | .ok e, _, _, _, _, _, _ => some (.enum (strList e))
    | _, .ok (.arr ts), _, _, _, _, _ => (traverse tyOfJson ts.toList).map .union
    | _, _, .ok t, _, _, _, _ => (tyOfJson t).map .list
    | _, _, _, .ok t, _, _, _ => (tyOfJson t).map .dict
    | _, _, _, _, .ok t, _, _ => (tyOfJson t).map .tupleVar
    | _, _, _, _, _, .ok (.arr ts), _ => (traverse tyOfJson ts.toList).map .tuple
    | _, _, _, _, _, _, .ok (.arr #[ns, .arr ts]) => (traverse tyOfJson ts.toList).map (.tdict (strList ns))
    | _, _, _, _, _, _, _ => none

open Jap.Channels.Typed in
partial def pvOfJson : Json → Option PV
  | .null => some .none
  | .bool b => some (.bool b)
  | .num n => if n.exponent = 0 then some (.int n.mantissa) else none
  | .str s => some (.str s)
  | .arr xs => (traverse pvOfJson xs.toList).map .list
  | .obj o =>
    match (Json.obj o).getObjVal? "f", (Json.obj o).getObjVal? "fi", (Json.obj o).getObjVal? "d", (Json.obj o).getObjVal? "t" with
    | .ok (.str t), _, _, _ =>
      match readNum t.toList with
      | some tok => if wfTok tok then some (.num tok) else none
      | none => none
    | _, .ok (.num n), _, _ => if n.exponent = 0 then some (.fint n.mantissa) else none
    | _, _, .ok (.arr ps), _ =>
      (traverse (fun e => match e with
        | .arr #[.str k, v] => (pvOfJson v).map (fun x => (k, x))
        | _ => none) ps.toList).map .dict
    | _, _, _, .ok (.arr xs) => (traverse pvOfJson xs.toList).map .tuple
    | _, _, _, _ => none

open Jap.Channels.Typed in
partial def pvToJson : PV → Json
  | .none => .null
  | .bool b => .bool b
  | .int i => .num (JsonNumber.fromInt i)
  | .num t => Json.mkObj [("f", .str (String.ofList (tokChars t)))]
  | .fint i => Json.mkObj [("fi", .num (JsonNumber.fromInt i))]
  | .str s => .str s
  | .list xs => .arr (xs.map pvToJson).toArray
  | .dict kvs => Json.mkObj [("d", .arr (kvs.map fun kv => Json.arr #[.str kv.1, pvToJson kv.2]).toArray)]
  | .tuple xs => Json.mkObj [("t", .arr (xs.map pvToJson).toArray)]

open Jap.Channels.Typed in
def tabOfJson : Json → Option (List (String × PV))
  | .arr es => traverse (fun e => match e with
      | .arr #[.str k, v] => (pvOfJson v).map (fun x => (k, x))
      | _ => none) es.toList
  | .null => some []
  | _ => none

open Jap.Channels.Typed in
def stepTyped (j : Json) : Json :=
  match tyOfJson (getD j "t"), pvOfJson (getD j "v"), tabOfJson (getD j "L"), tabOfJson (getD j "Y") with
  | some t, some v, some lt, some yt =>
    let L := tableLoader lt
    let Y := tableLoader yt
    let base := [("value", optToJson pvToJson (viaValue L Y t v)), ("noStrTop", .bool (noStrTop t)),
      ("origReset", Json.arr #[.bool Jap.Gen.ChannelSrc.origResetTupleSet, .bool Jap.Gen.ChannelSrc.origResetList,
        .bool Jap.Gen.ChannelSrc.origResetDict, .bool Jap.Gen.ChannelSrc.origResetTypedDict])]
    match getStr? j "s" with
    | some s => Json.mkObj (base ++ [("text", optToJson pvToJson (viaText L Y t s)), ("noEnumName", .bool (noEnumName s t)),
        ("textOk", .bool (decide (strip s.toList ≠ []) && decide (strip s.toList ≠ ['-'])))])
    | none => Json.mkObj base
  | _, _, _, _ => Json.mkObj [("bad", .str "typed arguments")]

def bad (msg : String) : Json := Json.mkObj [("bad", .str msg)]

def step (j : Json) : Json :=
  match getStr? j "op" with
  | some "typed" => stepTyped j
  | some "envvar" =>
    match keyOfJson (getD j "key") with
    | some k =>
      let pfx := getStr? j "prefix"
      let name := envVar pfx k
      Json.mkObj [("v", .str name),
        ("back", optToJson (fun (k : Key) => Json.arr (k.segs.map Json.str).toArray) (keyOfEnvVar pfx name)),
        ("dest", .str (dest k)),
        ("segs", .arr ((segsOf (destL k)).map Json.str).toArray),
        ("safe", .bool (envSafe k && wfKey k)), ("noUpper", .bool (noUpper k))]
    | none => bad "key"
  | some "text" =>
    match valOfJson (getD j "v") with
    | some v => Json.mkObj [("t", .str (textOf v)), ("arg", .str (argText v)), ("back", optToJson valToJson (loadText (textOf v))),
        ("safe", .bool (safeVal v))]
    | none => bad "value"
  | some "load" =>
    match getStr? j "t" with
    | some t => Json.mkObj [("v", optToJson valToJson (loadText t))]
    | none => bad "text"
  | some "basic" =>
    match getStr? j "t" with
    | some t =>
      match loadBasic t with
      | .notLoaded => Json.mkObj [("v", "notLoaded")]
      | .float => Json.mkObj [("v", "float")]
      | .bool b => Json.mkObj [("v", Json.mkObj [("some", .bool b)])]
      | .null => Json.mkObj [("v", Json.mkObj [("some", .null)])]
      | .int i => Json.mkObj [("v", Json.mkObj [("some", .num (JsonNumber.fromInt i))])]
    | none => bad "text"
  | some "yn" =>
    match getStr? j "t" with
    | some t => Json.mkObj [("v", match boolWord t.toList with | some b => .bool b | none => .null)]
    | none => bad "text"
  | some "branch" =>
    match parserOfJson (getD j "parser"), getStr? j "key" with
    | some P, some k => Json.mkObj [("v", .bool (isBranchKey P k.toList))]
    | _, _ => bad "branch arguments"
  | some "tables" =>
    Json.mkObj [("branchKeyDotBoundary", .bool Jap.Gen.branchKeyDotBoundary), ("groupActionFirst", .bool Jap.Gen.groupActionFirst)]
  | some "render" =>
    match parserOfJson (getD j "parser"), settingsOfJson (getD j "settings"), (getStr? j "channel").bind channelOfString with
    | some P, some S, some c => Json.mkObj [("src", sourceToJson (render P c S))]
    | _, _, _ => bad "render arguments"
  | some "apply" =>
    match parserOfJson (getD j "parser"), settingsOfJson (getD j "settings"), (getStr? j "channel").bind channelOfString,
          nsOfJson (getD j "ns") with
    | some P, some S, some c, some (.ns base) =>
      Json.mkObj [("r", optToJson (fun r => vToJson (.ns r)) (apply P (render P c S) base)),
        ("good", .bool (goodParser P && goodSettings P S)), ("covers", .bool (covers P S base))]
    | _, _, _, _ => bad "apply arguments"
  | _ => bad "op"

partial def loop (h : IO.FS.Stream) (out : IO.FS.Stream) : IO Unit := do
  let line ← h.getLine
  if line.isEmpty then return ()
  match Json.parse line with
  | .error e =>
    out.putStrLn (Json.mkObj [("bad-json", .str e)]).compress
    loop h out
  | .ok j =>
    out.putStrLn (step j).compress
    loop h out

def main : IO Unit := do
  let stdin ← IO.getStdin
  let stdout ← IO.getStdout
  loop stdin stdout

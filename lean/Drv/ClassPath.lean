/-
JSON-lines driver for E10b (class_path model).  Run with
  lake env lean --run Drv/ClassPath.lean < cases.jsonl
Input lines
  {"setenv": ENV}                                  -> {"env": n-classes}      (the environment stays for the following lines)
  {"base": path, "sources": [VAL], "fuel": n, "default": VAL|null}
                                                   -> {"ok": VAL | null, "ctors": [CTOR]} | {"err": kind}
  {"explicit": VAL, "prev": VAL|null, "base": path}-> {"ok": VAL} | {"err": kind}    (shortToExplicit)
  {"walk": {"keys": [s], "both": [s]}}             -> {"handled": [s]}                (discardWalk with the separator of the source)
  {"dataspec": {"decl": path, "val": VAL}}         -> {"fields": [[k, VAL]] | null}   (dataFieldsOf)
  {"dcarg": {"kind": "optData"|"listData"|"dictData"|"dataOrCls"|"clsOrData", "decl": path, "fields": [PARAM], "base": path, "values": [VAL]}}
                                                   -> {"ok": VAL|null, "built": path|null} | {"err": kind}   (dataAll / unionAll)
  {"cty": CTY, "value": VAL, "fuel": n}            -> {"ok": VAL, "ctors": [CTOR]} | {"err": kind}            (adaptCAll)
     CTY = ["cls", path] | ["opt", CTY] | ["list", CTY] | ["dict", CTY]
ENV   = {"classes":[{"path":s,"name":s,"abstract":b,"params":[PARAM]}], "edges":[[sub,super]],
         "imports":[[path, {"k":"cls","path":s} | {"k":"func","path":s,"ret":s,"params":[PARAM]} | {"k":"other"}]]}
PARAM = {"name":s, "ty":["scalar"|"optScalar"|"cls"|"optCls", s], "dflt": [] | [VAL]}
VAL   = {"lit":[ty,tok]} | {"spec":{"cp":null|s,"ia":[[k,VAL]],"dk":[[k,VAL]]}} | {"bare":[[k,VAL]]} | {"nested":[[k..],VAL]}
        | {"lst":[VAL]} | {"dct":[[k,VAL]]}
  {"aty": ["listOf"|"dictOf"|"cls"|"optCls", base], "sources": [{"raw": VAL, "append": bool}], "fuel": n}
                                                   -> {"ok": VAL|null, "ctors": [CTOR], "arg": ARG} | {"err": kind}
CTOR  = {"target":s,"args":[[k,ARG]],"kwargs":[[k,ARG]]},  ARG = {"lit":[ty,tok]} | {"obj":n} | "raw"
-/
import Lean.Data.Json
import Jap.Core.ClassPath
import Jap.Gen.ClassPathTables

open Lean Jap.ClassPath

def getArr (j : Json) (k : String) : List Json :=
  match j.getObjVal? k with
  | .ok (.arr xs) => xs.toList
  | _ => []

def getStr (j : Json) (k : String) : String :=
  match j.getObjVal? k with
  | .ok (.str s) => s
  | _ => ""

def getBool (j : Json) (k : String) : Bool :=
  match j.getObjVal? k with
  | .ok (.bool b) => b
  | _ => false

def getNat (j : Json) (k : String) (d : Nat) : Nat :=
  match j.getObjVal? k with
  | .ok (.num n) => n.mantissa.toNat
  | _ => d

partial def valOfJson (j : Json) : Val :=
  let kvs (xs : List Json) : KV := xs.filterMap fun x => match x with
    | .arr #[.str k, v] => some (k, valOfJson v)
    | _ => none
  match j.getObjVal? "lit" with
  | .ok (.arr #[.str ty, .str tok]) => .lit ty tok
  | _ =>
  match j.getObjVal? "spec" with
  | .ok s =>
    let cp := match s.getObjVal? "cp" with | .ok (.str c) => some c | _ => none
    .spec cp (kvs (getArr s "ia")) (kvs (getArr s "dk"))
  | _ =>
  match j.getObjVal? "bare" with
  | .ok (.arr xs) => .bare (kvs xs.toList)
  | _ =>
  match j.getObjVal? "nested" with
  | .ok (.arr #[.arr ks, v]) => .nested (ks.toList.filterMap fun x => match x with | .str s => some s | _ => none) (valOfJson v)
  | _ =>
  match j.getObjVal? "lst" with
  | .ok (.arr xs) => .lst (xs.toList.map valOfJson)
  | _ =>
  match j.getObjVal? "dct" with
  | .ok (.arr xs) => .dct (kvs xs.toList)
  | _ => .lit "NoneType" "None"

partial def valToJson : Val → Json
  | .lit ty tok => Json.mkObj [("lit", .arr #[.str ty, .str tok])]
  | .spec cp ia dk => Json.mkObj [("spec", Json.mkObj [
      ("cp", match cp with | some c => .str c | none => .null),
      ("ia", .arr (ia.map fun e => Json.arr #[.str e.1, valToJson e.2]).toArray),
      ("dk", .arr (dk.map fun e => Json.arr #[.str e.1, valToJson e.2]).toArray)])]
  | .bare kvs => Json.mkObj [("bare", .arr (kvs.map fun e => Json.arr #[.str e.1, valToJson e.2]).toArray)]
  | .nested ks v => Json.mkObj [("nested", .arr #[.arr (ks.map Json.str).toArray, valToJson v])]
  | .lst xs => Json.mkObj [("lst", .arr (xs.map valToJson).toArray)]
  | .dct kvs => Json.mkObj [("dct", .arr (kvs.map fun e => Json.arr #[.str e.1, valToJson e.2]).toArray)]

def tyOfJson (j : Json) : PTy :=
  match j with
  | .arr #[.str "cls", .str b] => .cls b
  | .arr #[.str "optCls", .str b] => .optCls b
  | .arr #[.str "optScalar", .str t] => .optScalar t
  | .arr #[.str "listOf", .str b] => .listOf b
  | .arr #[.str "dictOf", .str b] => .dictOf b
  | .arr #[.str _, .str t] => .scalar t
  | _ => .scalar "?"

instance : Inhabited CTy := ⟨.cls "?"⟩

partial def ctyOfJson (j : Json) : CTy :=
  match j with
  | .arr #[.str "opt", t] => .opt (ctyOfJson t)
  | .arr #[.str "list", t] => .list (ctyOfJson t)
  | .arr #[.str "dict", t] => .dict (ctyOfJson t)
  | .arr #[.str _, .str b] => .cls b
  | _ => .cls "?"

def paramOfJson (j : Json) : IParam :=
  { name := getStr j "name", ty := tyOfJson (j.getObjVal? "ty" |>.toOption |>.getD .null),
    dflt := match getArr j "dflt" with
      | v :: _ => some (valOfJson v)
      | [] => none }

def envOfJson (j : Json) : ClassEnv :=
  { classes := (getArr j "classes").map fun c =>
      { path := getStr c "path", name := getStr c "name", abstract := getBool c "abstract",
        params := (getArr c "params").map paramOfJson },
    edges := (getArr j "edges").filterMap fun e => match e with
      | .arr #[.str a, .str b] => some (a, b)
      | _ => none,
    imports := (getArr j "imports").filterMap fun e => match e with
      | .arr #[.str p, i] =>
        let imp : Import := match getStr i "k" with
          | "cls" => .cls (getStr i "path")
          | "func" => .func (getStr i "path") (getStr i "ret") ((getArr i "params").map paramOfJson)
          | _ => .other
        some (p, imp)
      | _ => none }

def errStr : Err → String
  | .fuel => "fuel"
  | .notSpec => "notSpec"
  | .importFail => "importFail"
  | .notSubclass => "notSubclass"
  | .ambiguous => "ambiguous"
  | .unknownKey => "unknownKey"
  | .illTyped => "illTyped"
  | .missingRequired => "missingRequired"
  | .notList => "notList"
  | .notDict => "notDict"

def argToJson : Arg → Json
  | .lit ty tok => Json.mkObj [("lit", .arr #[.str ty, .str tok])]
  | .obj n => Json.mkObj [("obj", .num (JsonNumber.fromNat n))]
  | .raw => .str "raw"
  | .lst l => Json.mkObj [("lst", .arr (l.map fun o => match o with | some i => Json.num (JsonNumber.fromNat i) | none => Json.null).toArray)]
  | .dct l => Json.mkObj [("dct", .arr (l.map fun e => Json.arr #[.str e.1, match e.2 with | some i => Json.num (JsonNumber.fromNat i) | none => Json.null]).toArray)]

def ctorToJson (c : Ctor) : Json :=
  Json.mkObj [("target", .str c.target),
    ("args", .arr (c.args.map fun e => Json.arr #[.str e.1, argToJson e.2]).toArray),
    ("kwargs", .arr (c.kwargs.map fun e => Json.arr #[.str e.1, argToJson e.2]).toArray)]

def step (E : ClassEnv) (j : Json) : Json × ClassEnv :=
  match j.getObjVal? "setenv" with
  | .ok e =>
    let E' := envOfJson e
    (Json.mkObj [("env", .num (JsonNumber.fromNat E'.classes.length))], E')
  | _ =>
  match j.getObjVal? "instantiators" with
  | .ok spec =>
    let parse (k : String) : List Instantiator :=
      let regs : List (Instantiator × Bool) := (getArr spec k).filterMap fun x => match x with
        | .arr #[.str tag, .str c, .bool sub, .bool prepend] => some (({ tag := tag, cls := c, subclasses := sub } : Instantiator), prepend)
        | _ => none
      regs.foldl (fun reg e => addInstantiator reg e.1 e.2) []
    let l := getInstantiators (parse "own") (parse "parent") (parse "ctx")
    (Json.mkObj [("tag", .str (pickInstantiator E l (getStr j "cls"))), ("order", .arr (l.map fun i => Json.str i.tag).toArray)], E)
  | _ =>
  match j.getObjVal? "walk" with
  | .ok w =>
    -- the work-list walk of the merge: flat keys in order, and the keys that hold a class spec on both sides
    let strs (k : String) : List String := (getArr w k).filterMap fun x => match x with | .str s => some s | _ => none
    let keys := strs "keys"
    let both := strs "both"
    (Json.mkObj [("handled", .arr ((discardWalk Jap.Gen.discardPruneSep (fun k => both.contains k) keys.length keys).map Json.str).toArray)], E)
  | _ =>
  match j.getObjVal? "dcarg" with
  | .ok d =>
    -- a dataclass-typed argument (alone, or in a Union with a class member) over several sources, final check included
    let fields := (getArr d "fields").map paramOfJson
    let decl := getStr d "decl"
    let vals := (getArr d "values").map valOfJson
    let kind := getStr d "kind"
    let res : Except Err (Option Val) :=
      if kind == "dataOrCls" then unionAll E (getNat j "fuel" 24) ⟨fields, decl, getStr d "base", true⟩ vals
      else if kind == "clsOrData" then unionAll E (getNat j "fuel" 24) ⟨fields, decl, getStr d "base", false⟩ vals
      else dataAll fields decl (kind == "optData") vals
    match res with
    | .error e => (Json.mkObj [("err", .str (errStr e))], E)
    | .ok none => (Json.mkObj [("ok", .null), ("built", .null)], E)
    | .ok (some r) =>
      (Json.mkObj [("ok", valToJson r), ("built", match builtClass decl r with | some c => .str c | none => .null)], E)
  | _ =>
  match j.getObjVal? "cty" with
  | .ok t =>
    match adaptCAll E (getNat j "fuel" 24) (ctyOfJson t) (valOfJson (j.getObjVal? "value" |>.toOption |>.getD .null)) with
    | .error e => (Json.mkObj [("err", .str (errStr e))], E)
    | .ok r => (Json.mkObj [("ok", valToJson r), ("ctors", .arr ((instantiate r).map ctorToJson).toArray)], E)
  | _ =>
  match j.getObjVal? "dataspec" with
  | .ok d =>
    -- which dict is parsed as the fields of the declared dataclass
    match dataFieldsOf (getStr d "decl") (valOfJson (d.getObjVal? "val" |>.toOption |>.getD .null)) with
    | some kv => (Json.mkObj [("fields", .arr (kv.map fun e => Json.arr #[.str e.1, valToJson e.2]).toArray)], E)
    | none => (Json.mkObj [("fields", .null)], E)
  | _ =>
  match j.getObjVal? "explicit" with
  | .ok v =>
    let prev := match j.getObjVal? "prev" with
      | .ok .null => none
      | .ok p => some (valOfJson p)
      | _ => none
    match shortToExplicit E (getStr j "base") prev (valOfJson v) with
    | .ok r => (Json.mkObj [("ok", valToJson r)], E)
    | .error e => (Json.mkObj [("err", .str (errStr e))], E)
  | _ =>
    match j.getObjVal? "aty" with
    | .ok aty =>
      -- an argument of any modelled type: sources are {"raw": VAL, "append": bool}
      let srcs : List Src := (getArr j "sources").map fun x =>
        { raw := valOfJson (x.getObjVal? "raw" |>.toOption |>.getD .null), append := getBool x "append" }
      match adaptArgAll E (getNat j "fuel" 24) (tyOfJson aty) srcs with
      | .error e => (Json.mkObj [("err", .str (errStr e))], E)
      | .ok none => (Json.mkObj [("ok", .null), ("ctors", .arr #[])], E)
      | .ok (some s) =>
        let r := inst s []
        (Json.mkObj [("ok", valToJson s), ("ctors", .arr (r.1.map ctorToJson).toArray), ("arg", argToJson r.2)], E)
    | _ =>
    let srcs := (getArr j "sources").map valOfJson
    let dflt := match j.getObjVal? "default" with
      | .ok .null => none
      | .ok d => some (valOfJson d)
      | _ => none
    match adaptAllWithDefault E (getNat j "fuel" 24) (getStr j "base") dflt srcs with
    | .error e => (Json.mkObj [("err", .str (errStr e))], E)
    | .ok none => (Json.mkObj [("ok", .null), ("ctors", .arr #[])], E)
    | .ok (some s) =>
      (Json.mkObj [("ok", valToJson s), ("ctors", .arr ((instantiate s).map ctorToJson).toArray)], E)

partial def loop (h : IO.FS.Stream) (out : IO.FS.Stream) (E : ClassEnv) : IO Unit := do
  let line ← h.getLine
  if line.isEmpty then return ()
  match Json.parse line with
  | .error e =>
    out.putStrLn (Json.mkObj [("bad-json", .str e)]).compress
    loop h out E
  | .ok j =>
    let (r, E') := step E j
    out.putStrLn r.compress
    loop h out E'

def main : IO Unit := do
  let stdin ← IO.getStdin
  let stdout ← IO.getStdout
  loop stdin stdout ⟨[], [], []⟩

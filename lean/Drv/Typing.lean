/-
JSON-lines driver for E8 (Typing model).  Run with
  lake env lean --run Drv/Typing.lean < ops.jsonl
One JSON object per input line, one JSON object per output line.

Wire format of values (VAL): JSON integer = Python int; {"b":bool}; {"q":[num,den]} = finite float given
exactly; {"f":"nan"|"inf"|"-inf"}; {"s":text}; null = any other object.
-/
import Lean.Data.Json
import Jap.Core.Typing
import Jap.Core.TypingReg
import Jap.Core.Scalar
import Jap.Gen.Registered

open Lean Jap.Typing

def getStr (j : Json) (k : String) : String :=
  match j.getObjVal? k with
  | .ok (.str s) => s
  | _ => ""

def getArr (j : Json) (k : String) : List Json :=
  match j.getObjVal? k with
  | .ok (.arr xs) => xs.toList
  | _ => []

def intOfJson : Json → Option Int
  | .num n => if n.exponent = 0 then some n.mantissa else none
  | _ => none

def xnumOfJson (j : Json) : Option XNum :=
  match j with
  | .num n => if n.exponent = 0 then some (.fin (n.mantissa : Rat)) else none
  | .obj _ =>
    match j.getObjVal? "q" with
    | .ok (.arr #[a, b]) =>
      match intOfJson a, intOfJson b with
      | some x, some y => some (.fin (mkRat x y.toNat))
      | _, _ => none
    | _ =>
      match j.getObjVal? "f" with
      | .ok (.str "nan") => some .nan
      | .ok (.str "inf") => some (.inf false)
      | .ok (.str "-inf") => some (.inf true)
      | _ => none
  | _ => none

def valOfJson (j : Json) : PyVal :=
  match j with
  | .num n => if n.exponent = 0 then .int n.mantissa else .other
  | .obj _ =>
    match j.getObjVal? "b" with
    | .ok (.bool b) => .bool b
    | _ =>
      match j.getObjVal? "s" with
      | .ok (.str s) => .str s.toList
      | _ =>
        match xnumOfJson j with
        | some x => .float x
        | none => .other
  | _ => .other

def intToJson (i : Int) : Json := .num (JsonNumber.fromInt i)

def xnumToJson : XNum → Json
  | .fin q => Json.mkObj [("q", .arr #[intToJson q.num, intToJson q.den])]
  | .nan => Json.mkObj [("f", "nan")]
  | .inf false => Json.mkObj [("f", "inf")]
  | .inf true => Json.mkObj [("f", "-inf")]

def errToJson : Err → Json
  | .value => Json.mkObj [("err", "ValueError")]
  | .type => Json.mkObj [("err", "TypeError")]
  | .overflow => Json.mkObj [("err", "OverflowError")]

def bvalToJson : BVal → Json
  | .i n => Json.mkObj [("ok", intToJson n), ("t", "int")]
  | .f x => Json.mkObj [("ok", xnumToJson x), ("t", "float")]

def baseOf (s : String) : Base := if s = "int" then .int else .float
def joinOf (s : String) : Join := if s = "or" then .or else .and

def restrOfJson (j : Json) : Option Restr :=
  match j with
  | .arr #[.str sym, r] =>
    match Op.ofSymbol sym, xnumOfJson r with
    | some o, some x => some (o, x)
    | _, _ => none
  | _ => none

partial def reOfJson (j : Json) : Re :=
  let kids := (getArr j "a").map reOfJson
  match getStr j "k" with
  | "eps" => .eps
  | "cls" =>
    let neg := match j.getObjVal? "neg" with
      | .ok (.bool b) => b
      | _ => false
    let rs := (getArr j "r").filterMap fun p =>
      match p with
      | .arr #[a, b] => match intOfJson a, intOfJson b with
        | some x, some y => some (x.toNat, y.toNat)
        | _, _ => none
      | _ => none
    .cls neg rs
  | "cat" => kids.foldr (fun a b => .cat a b) .eps
  | "alt" => match kids with
    | [] => .eps
    | k :: ks => ks.foldl (fun a b => .alt a b) k
  | "star" => match kids with
    | k :: _ => .star k
    | [] => .eps
  | "eol" => .eol
  | "bol" => .bol
  | "meol" => .meol
  | "mbol" => .mbol
  | _ => .eps

def intsOf (j : Json) (k : String) : List Int := (getArr j k).filterMap intOfJson

def step (j : Json) : Json :=
  match getStr j "op" with
  | "num" =>
    let b := baseOf (getStr j "base")
    let jn := joinOf (getStr j "join")
    let rsj := getArr j "rs"
    let rs := rsj.filterMap restrOfJson
    if rs.length ≠ rsj.length then Json.mkObj [("bad", "restrictions")] else
    Json.mkObj [("r", .arr ((getArr j "vals").map fun v =>
      match validateNum b rs jn (valOfJson v) with
      | .ok x => bvalToJson x
      | .error e => errToJson e).toArray)]
  | "refok" =>
    match refOk (baseOf (getStr j "base")) (valOfJson (j.getObjValD "ref")) with
    | .ok t => Json.mkObj [("ok", .bool t)]
    | .error e => errToJson e
  | "cast" =>
    let b := baseOf (getStr j "base")
    Json.mkObj [("r", .arr ((getArr j "vals").map fun v =>
      match castBase b (valOfJson v) with
      | .ok x => bvalToJson x
      | .error e => errToJson e).toArray)]
  | "str" =>
    let re : Option Re := match j.getObjVal? "name" with
      | .ok (.str n) => (Jap.Gen.Registered.predefinedStrRe.find? (fun p => p.1 = n)).map (·.2)
      | _ => some (reOfJson (j.getObjValD "re"))
    match re with
    | none => Json.mkObj [("bad", "regex name")]
    | some r =>
      Json.mkObj [("r", .arr ((getArr j "vals").map fun v =>
        match validateStr r.accepts (valOfJson v) with
        | .ok s => Json.mkObj [("ok", .str (String.ofList s))]
        | .error e => errToJson e).toArray)]
  | "range_ser" =>
    match intsOf j "r" with
    | [a, b, c] => Json.mkObj [("s", .str (String.ofList (rangeSer ⟨a, b, c⟩)))]
    | _ => Json.mkObj [("bad", "range")]
  | "range_deser" =>
    match rangeDeser (getStr j "s").toList with
    | .ok r => Json.mkObj [("ok", .arr #[intToJson r.start, intToJson r.stop, intToJson r.step])]
    | .error e => errToJson e
  | "td_str" =>
    match intsOf j "td" with
    | [d, s, us] => Json.mkObj [("s", .str (String.ofList (tdStr ⟨d, s.toNat, us.toNat⟩)))]
    | _ => Json.mkObj [("bad", "td")]
  | "td_deser" =>
    -- through `RegisteredType.deserializer` (the registered-type branch of the adapter): declared exceptions become ValueError
    match adaptReg (codecHandler tdStr tdDeser) false (.basic (getStr j "s").toList) with
    | .ok (.inst t) => Json.mkObj [("ok", .arr #[intToJson t.days, intToJson t.secs, intToJson t.us])]
    | .ok (.basic _) => Json.mkObj [("bad", "basic")]
    | .error .valueError => errToJson .value
    | .error .propagated => Json.mkObj [("err", "Other:propagated")]
  | "b64_enc" => Json.mkObj [("s", .str (String.ofList (b64encode ((intsOf j "b").map Int.toNat))))]
  | "b64_dec" =>
    match b64decode (getStr j "s").toList with
    | .ok bs => Json.mkObj [("ok", .arr (bs.map fun b => intToJson (b : Nat)).toArray)]
    | .error e => errToJson e
  | "uuid_str" =>
    match intsOf j "u" with
    | [u] => Json.mkObj [("s", .str (String.ofList (uuidStr u.toNat)))]
    | _ => Json.mkObj [("bad", "uuid")]
  | "uuid_deser" =>
    match uuidDeser (getStr j "s").toList with
    | .ok u => Json.mkObj [("ok", intToJson (u : Nat))]
    | .error e => errToJson e
  | "complex_str" =>
    let partOf (pj : Json) : Part :=
      let neg := match pj.getObjVal? "neg" with
        | .ok (.bool b) => b
        | _ => false
      let tok : Tok := match getStr pj "t" with
        | "inf" => .inf
        | "nan" => .nan
        | _ =>
          let ex : Option (Bool × List Char) := match pj.getObjVal? "ex" with
            | .ok (.arr #[.bool n, .str ds]) => some (n, ds.toList)
            | _ => none
          .dec (getStr pj "ip").toList (getStr pj "fp").toList ex
      ⟨neg, tok⟩
    Json.mkObj [("s", .str (String.ofList (complexStr (partOf (j.getObjValD "re")) (partOf (j.getObjValD "im")))))]
  | "complex_parse" =>
    let partJ (p : Part) : Json := .str (String.ofList ((if p.neg then ['-'] else []) ++
      (match p.tok with
        | .dec ip fp ex => (if ip = [] then ['0'] else ip) ++ '.' :: (if fp = [] then ['0'] else fp) ++
            (match ex with | none => [] | some (n, ds) => 'e' :: (if n then '-' else '+') :: ds)
        | .inf => "inf".toList
        | .nan => "nan".toList)))
    match complexParse (getStr j "s").toList with
    | some (x, y) => Json.mkObj [("ok", .arr #[partJ x, partJ y])]
    | none => errToJson .value
  | "resolve" =>
    let q := Jap.Scalar.jrun 0 (Jap.Scalar.classes (getStr j "s").toList)
    Json.mkObj [("l", intToJson (Jap.Scalar.tagL q : Nat)), ("d", intToJson (Jap.Scalar.tagD q : Nat))]
  | "sortkey" =>
    let rsj := getArr j "rs"
    let rs := rsj.filterMap restrOfJson
    if rs.length ≠ rsj.length then Json.mkObj [("bad", "restrictions")] else
    Json.mkObj [("r", .arr ((sortR rs).map fun r => Json.arr #[.str r.1.symbol, xnumToJson r.2]).toArray)]
  | "create_hist" =>
    -- a history of `restricted_number_type` calls on a registry that starts with the given bound names
    let names0 := (getArr j "names").filterMap fun x => match x with | .str s => some s | _ => none
    let stepOne (acc : TReg × List Json) (c : Json) : TReg × List Json :=
      let rsj := getArr c "rs"
      let rs := rsj.filterMap restrOfJson
      if rs.length ≠ rsj.length then (acc.1, acc.2 ++ [Json.mkObj [("bad", "restrictions")]]) else
      match createNum acc.1 (getStr c "name") (baseOf (getStr c "base")) rs (joinOf (getStr c "join")) with
      | .ok (r', cls) => (r', acc.2 ++ [Json.mkObj [("id", intToJson (cls.id : Nat)), ("name", .str cls.name)]])
      | .error e => (acc.1, acc.2 ++ [errToJson e])
    Json.mkObj [("r", .arr (((getArr j "calls").foldl stepOne (⟨[], names0, 0⟩, [])).2).toArray)]
  | "str_hist" =>
    let names0 := (getArr j "names").filterMap fun x => match x with | .str s => some s | _ => none
    let stepOne (acc : SReg × List Json) (c : Json) : SReg × List Json :=
      let fl := match intOfJson (c.getObjValD "flags") with | some n => n.toNat | none => 0
      match createStr acc.1 (getStr c "name") (getStr c "pattern") fl with
      | .ok (r', cls) => (r', acc.2 ++ [Json.mkObj [("id", intToJson (cls.id : Nat)), ("flags", intToJson (cls.flags : Nat))]])
      | .error e => (acc.1, acc.2 ++ [errToJson e])
    Json.mkObj [("r", .arr (((getArr j "calls").foldl stepOne (⟨[], names0, 0⟩, [])).2).toArray)]
  | "autoname" =>
    let rs : List (Op × Int) := (getArr j "rs").filterMap fun x => match x with
      | .arr #[.str sym, r] => match Op.ofSymbol sym, intOfJson r with
        | some o, some i => some (o, i)
        | _, _ => none
      | _ => none
    Json.mkObj [("name", .str (autoName (baseOf (getStr j "base")) rs (joinOf (getStr j "join")))),
                ("expr", .str (exprText rs (joinOf (getStr j "join"))))]
  | "reg_hist" =>
    -- a history of register_type / register_type_on_first_use / get_registered_type calls; classes are 0..n-1
    let n := match intOfJson (j.getObjValD "n") with | some k => k.toNat | none => 0
    let natOf (c : Json) (k : String) : Nat := match intOfJson (c.getObjValD k) with | some i => i.toNat | none => 0
    let boolOf (c : Json) (k : String) : Bool := match c.getObjVal? k with | .ok (.bool b) => b | _ => false
    let ukeyOf (c : Json) : Option (Nat × Bool) := match c.getObjVal? "ukey" with
      | .ok (.arr #[k, .bool t]) => (intOfJson k).map fun i => (i.toNat, t)
      | _ => none
    let hOf (c : Json) : HandlerId := ⟨natOf c "cls", natOf c "ser", natOf c "deser", natOf c "exc", natOf c "check"⟩
    let snap (st : HReg) : Json :=
      Json.mkObj [("h", .arr ((List.range n).map fun t => match st.handlerOf t with
          | some h => Json.arr #[intToJson (h.ser : Nat), intToJson (h.deser : Nat), intToJson (h.check : Nat)]
          | none => Json.null).toArray),
        ("p", .arr (((List.range n).filter fun t => (assocGet st.pending t).isSome).map fun t => intToJson (t : Nat)).toArray),
        ("u", .arr (st.ukeys.map fun p => Json.arr #[intToJson (p.1 : Nat), intToJson (p.2 : Nat)]).toArray)]
    let stepOne (acc : HReg × List Json) (c : Json) : HReg × List Json :=
      match getStr c "k" with
      | "reg" =>
        let r := registerType acc.1 (hOf c) (boolOf c "fail") (ukeyOf c)
        (r.1, acc.2 ++ [Json.mkObj [("res", if r.2.isSome then "ValueError" else "ok"), ("st", snap r.1)]])
      | "pend" =>
        let st' : HReg := { acc.1 with pending := assocSet acc.1.pending (natOf c "cls") ⟨hOf c, boolOf c "fail", ukeyOf c⟩ }
        (st', acc.2 ++ [Json.mkObj [("res", "ok"), ("st", snap st')]])
      | _ =>
        let g := getRegistered acc.1 (natOf c "cls")
        (g.1, acc.2 ++ [Json.mkObj [("res", match g.2 with
          | some h => Json.arr #[intToJson (h.ser : Nat), intToJson (h.deser : Nat), intToJson (h.check : Nat)]
          | none => Json.null), ("st", snap g.1)]])
    Json.mkObj [("r", .arr (((getArr j "calls").foldl stepOne (⟨[], [], [], none⟩, [])).2).toArray)]
  | "secret" => Json.mkObj [("s", .str (secretSer (getStr j "s")))]
  | "decimal" =>
    match SerKind.ofName (getStr j "ser"), xnumOfJson (j.getObjValD "d") with
    | some k, some (.fin q) => Json.mkObj [("r", xnumToJson (decimalRoundTrip k q))]
    | _, _ => Json.mkObj [("bad", "decimal")]
  | op => Json.mkObj [("bad-op", .str op)]

partial def loop (h : IO.FS.Stream) (out : IO.FS.Stream) : IO Unit := do
  let line ← h.getLine
  if line.isEmpty then return ()
  match Json.parse line with
  | .error e =>
    out.putStrLn (Json.mkObj [("bad-json", .str e)]).compress
    loop h out
  | .ok j =>
    out.putStrLn (step j).compress
    loop h out

def main : IO Unit := do
  let stdin ← IO.getStdin
  let stdout ← IO.getStdout
  loop stdin stdout

/-
JSON-lines driver for the link model (C15).  Run with
  lake env lean --run Drv/Links.lean < ops.jsonl
One JSON object per input line, one per output line.  State: the current parser.

  {"op":"new","actions":[["a","arg"],["opt","subclass"]],"required":["a"]}
  {"op":"link","sources":["a","g"],"coerce":[false,true],"target":"b","fn":3|null}
  {"op":"parse","inputs":[["argv","a",5], ...]}
  {"op":"apply","cfg":NS}     apply_parsing_links only
  {"op":"common","cfg":NS}    links + required
  {"op":"strip","cfg":NS}
  {"op":"dumpkeys","cfg":NS}
  {"op":"history","ops":[{"link":{"sources":..,"coerce":..,"target":..,"fn":..}} | {"parse":[inputs],"epoch":n}, ...]}
                              the model's `runOps` on the current parser (which becomes `stateAfter`)

Values: null, integers, arrays (lists), {"t":[..]} tuples, {"d":[[k,v]..]} dicts, {"n":[[k,v]..]} namespaces.
Strings and other opaque Python values travel as dicts with one `$`-key (see harness/props/c15.py).
-/
import Lean.Data.Json
import Jap.Core.Links
import Jap.Core.LinksTree
import Jap.Core.LinksHist

open Lean Jap.NS Jap.Links

def keyOf (s : String) : Key :=
  if s = "" then [] else (s.splitOn ".").map fun seg => (⟨false, seg⟩ : SKey)

def keyStr (k : Key) : String := String.intercalate "." (k.map (·.name))

partial def vOfJson : Json → Except String V
  | .null => .ok .none
  | .num n => .ok (.atom n.mantissa)
  | .arr xs => do
    let ys ← xs.toList.mapM vOfJson
    pure (.lst ys)
  | .obj o => do
    let j := Json.obj o
    if let .ok (.arr xs) := j.getObjVal? "t" then
      let ys ← xs.toList.mapM vOfJson
      pure (.tup ys)
    else if let .ok (.arr xs) := j.getObjVal? "d" then
      let ys ← xs.toList.mapM kvOfJson
      pure (.dct ys)
    else if let .ok (.arr xs) := j.getObjVal? "n" then
      let ys ← xs.toList.mapM kvOfJson
      pure (.ns ys)
    else .error "bad object"
  | _ => .error "bad value"
where
  kvOfJson : Json → Except String (SKey × V)
    | .arr #[.str k, v] => do
      let v' ← vOfJson v
      pure (⟨false, k⟩, v')
    | _ => .error "bad kv"

partial def vToJson : V → Json
  | .none => .null
  | .atom a => .num (JsonNumber.fromInt a)
  | .lst xs => .arr (xs.map vToJson).toArray
  | .tup xs => Json.mkObj [("t", .arr (xs.map vToJson).toArray)]
  | .dct kvs => Json.mkObj [("d", .arr (kvs.map fun kv => Json.arr #[.str kv.1.name, vToJson kv.2]).toArray)]
  | .ns kvs => Json.mkObj [("n", .arr (kvs.map fun kv => Json.arr #[.str kv.1.name, vToJson kv.2]).toArray)]

/-! the table of compute functions, mirrored by index in harness/props/c15.py (`FN_TABLE`) -/

def strTag : SKey := ⟨false, "$s"⟩

def intOf : V → Option Int
  | .atom a => some a
  | _ => none

def sumInts : List V → Option Int
  | [] => some 0
  | v :: r => do
    let a ← intOf v
    let b ← sumInts r
    pure (a + b)

def leafInts : KV → List V
  | [] => []
  | (_, .atom a) :: r => .atom a :: leafInts r
  | _ :: r => leafInts r

def upperCode (c : Int) : Int := if 97 ≤ c && c ≤ 122 then c - 32 else c

def strV (s : String) : V := .dct [(strTag, .lst (s.toList.map fun c => V.atom c.toNat))]

/-- `type(x).__name__` of a wire value -/
def tyName : V → String
  | .none => "NoneType"
  | .atom _ => "int"
  | .lst _ => "list"
  | .tup _ => "tuple"
  | .ns _ => "Namespace"
  | .dct [(k, v)] =>
    if k.name = "$b" then "bool" else if k.name = "$s" then "str" else if k.name = "$f" then "float"
    else if k.name = "$o" then
      match v with
      | .lst cs => String.ofList (cs.map fun c => match c with | .atom a => Char.ofNat a.toNat | _ => '?')
      | _ => "dict"
    else "dict"
  | .dct _ => "dict"

def fnTable (n : Nat) (args : List V) : Option V :=
  match n, args with
  | 0, [x] => some x                                        -- lambda x: x
  | 1, xs => (sumInts xs).map .atom                         -- lambda *a: sum(a)   (ints)
  | 2, [.lst xs] => some (.atom xs.length)                  -- len
  | 2, [.tup xs] => some (.atom xs.length)
  | 2, [.dct [(k, .lst cs)]] => if k = strTag then some (.atom cs.length) else some (.atom 1)
  | 2, [.dct kvs] => some (.atom kvs.length)
  | 3, xs => some (.tup xs)                                 -- lambda *a: tuple(a)
  | 4, [.dct [(k, .lst cs)]] =>                             -- str.upper
    if k = strTag then
      some (.dct [(k, .lst (cs.map fun c => match c with | .atom a => .atom (upperCode a) | w => w))])
    else none
  | 5, [.ns kvs] => (sumInts (leafInts kvs)).map .atom      -- sum of the int fields of a group (namespace or dict)
  | 5, [.dct kvs] => (sumInts (leafInts kvs)).map .atom
  | 6, xs => some (.lst xs)                                 -- lambda *a: list(a)
  | 7, [.atom a] => some (.atom (2 * a))                    -- lambda x: 2 * x
  | 8, [] => some (.atom 42)                                -- lambda: 42
  | 9, _ => none                                            -- raises
  | 10, [.ns _] => some (.atom 1)                           -- what did the function receive?
  | 10, [.dct _] => some (.atom 2)
  | 10, [_] => some (.atom 0)
  | 11, [.atom a, .atom b] => some (.atom (a * 10 + b))     -- lambda a, b: 10 * a + b   (argument order)
  | 12, xs => some (.lst (xs.map fun x => .lst [strV (tyName x), x]))   -- lambda *a: [[type(x).__name__, x] for x in a]
  | 13, [x] => some (strV (tyName x))                       -- lambda x: type(x).__name__
  | 14, [.atom a] => some (.atom a)                         -- lambda x: x + EPOCH   (EPOCH = 0; see `envAt`)
  | _, _ => none

/-- the compute functions in the state of the world `e`: function 14 reads `EPOCH = e` -/
def fnTableAt (e : Nat) (n : Nat) (args : List V) : Option V :=
  match n, args with
  | 14, [.atom a] => some (.atom (a + e))
  | _, _ => fnTable n args

/-- type checks are parameters of the model: the harness compares well-typed cases only -/
def env : Env := { F := fnTable, chk := fun _ _ => true, valid := fun _ => true }

def envAt (e : Nat) : Env := { F := fnTableAt e, chk := fun _ _ => true, valid := fun _ => true }

def getStr (j : Json) (k : String) : String :=
  match j.getObjVal? k with
  | .ok (.str s) => s
  | _ => ""

def getArr (j : Json) (k : String) : List Json :=
  match j.getObjVal? k with
  | .ok (.arr xs) => xs.toList
  | _ => []

def getV (j : Json) (k : String) : V :=
  match j.getObjVal? k with
  | .ok v => match vOfJson v with
    | .ok x => x
    | .error _ => .none
  | _ => .none

def getKV (j : Json) (k : String) : KV :=
  match getV j k with
  | .ns kvs => kvs
  | _ => []

def kindOf (s : String) : AKind :=
  match s with
  | "subclass" => .subclass
  | "subclassL" => .subclassL
  | "link" => .link
  | _ => .arg

def kindStr : AKind → String
  | .arg => "arg" | .subclass => "subclass" | .subclassL => "subclassL" | .link => "link"

def chanOf (s : String) : Chan :=
  match s with
  | "default" => .dflt | "env" => .env | "config" => .config | "object" => .object | _ => .argv

def lerrStr : LErr → String
  | .multiNoFn => "multiNoFn" | .doubleTarget => "doubleTarget" | .sourceIsTarget => "sourceIsTarget" | .selfLink => "selfLink"
  | .targetIsSource => "targetIsSource" | .noAction => "noAction" | .badSubclassTarget => "badSubclassTarget"

def perrStr : PErr → String
  | .linkCall => "linkCall" | .missingSource => "missingSource" | .computeFn => "computeFn"
  | .invalid => "invalid" | .required => "required"

def optsOfJson (j : Json) : List (String × Action) :=
  (getArr j "opts").map fun x =>
    match x with
    | .arr #[.str o, .str d, .str k] => (o, (⟨keyOf d, kindOf k⟩ : Action))
    | _ => ("", ⟨[], .arg⟩)

def parserJson (p : Parser) : Json :=
  Json.mkObj [
    ("actions", .arr (p.actions.map fun a => Json.arr #[.str (keyStr a.dest), .str (kindStr a.kind)]).toArray),
    ("required", .arr (p.required.map fun k => Json.str (keyStr k)).toArray),
    ("opts", .arr (p.optActs.map fun oa => Json.arr #[.str oa.1, .str (keyStr oa.2.dest), .str (kindStr oa.2.kind)]).toArray),
    ("links", .arr (p.links.map fun l => Json.arr #[.str (keyStr l.target),
        .str (match l.kind with | .plain => "plain" | .initArg n => "initArg:" ++ keyStr (l.target.take n)),
        .arr (l.sources.map fun s => Json.bool s.sub).toArray]).toArray)]

def resKV (r : Except PErr KV) : Json :=
  match r with
  | .ok cfg => Json.mkObj [("ok", vToJson (.ns cfg))]
  | .error e => Json.mkObj [("err", .str (perrStr e))]

/-- subcommand names as values: the wire form of a Python string -/
def names : Names :=
  { nameOf := fun v =>
      match v with
      | .dct [(k, .lst cs)] =>
        if k = strTag && !cs.isEmpty then
          some ⟨false, String.ofList (cs.map fun c => match c with | .atom a => Char.ofNat a.toNat | _ => '?')⟩
        else .none
      | _ => .none
    nameVal := fun k => .dct [(strTag, .lst (k.name.toList.map fun c => V.atom c.toNat))] }

structure St where
  p : Parser := default
  t : PTree := default

partial def treeOfJson (j : Json) : PTree :=
  let acts := (getArr j "actions").map fun a =>
    match a with
    | .arr #[.str d, .str k] => (⟨keyOf d, kindOf k⟩ : Action)
    | _ => ⟨[], .arg⟩
  let req := (getArr j "required").map fun r => match r with | .str s => keyOf s | _ => []
  let grp := match j.getObjVal? "group" with | .ok (.bool b) => b | _ => false
  let sreq := match j.getObjVal? "subreq" with | .ok (.bool b) => b | _ => false
  let choices := (getArr j "choices").map fun c =>
    match c with
    | .arr #[.str n, t] => ((⟨false, n⟩ : SKey), treeOfJson t)
    | _ => (⟨false, ""⟩, default)
  .node { actions := acts, required := req, links := [], optActs := optsOfJson j } grp ⟨false, getStr j "dest"⟩ sreq choices

partial def nodeAt : PTree → List SKey → Option PTree
  | t, [] => some t
  | .node _ _ _ _ choices, s :: rest =>
    match choices.find? (fun c => c.1 == s) with
    | some c => nodeAt c.2 rest
    | none => none

def nodeJson (t : Option PTree) : Json :=
  match t with
  | some (.node p g _ _ _) => Json.mkObj [("parser", parserJson p), ("group", .bool g)]
  | none => .null

def step (st : St) (j : Json) : Json × St :=
  let p := st.p
  match getStr j "op" with
  | "new" =>
    let acts := (getArr j "actions").map fun a =>
      match a with
      | .arr #[.str d, .str k] => (⟨keyOf d, kindOf k⟩ : Action)
      | _ => ⟨[], .arg⟩
    let req := (getArr j "required").map fun r => match r with | .str s => keyOf s | _ => []
    let p' : Parser := { actions := acts, required := req, links := [], optActs := optsOfJson j }
    (parserJson p', { st with p := p' })
  | "link" =>
    let srcs := (getArr j "sources").map fun s => match s with | .str s => keyOf s | _ => []
    let co := (getArr j "coerce").map fun b => match b with | .bool b => b | _ => false
    let fn := match j.getObjVal? "fn" with
      | .ok (.num n) => some n.mantissa.toNat
      | _ => none
    match addLink p srcs co (keyOf (getStr j "target")) fn with
    | .ok p' => (Json.mkObj [("r", "ok"), ("parser", parserJson p')], { st with p := p' })
    | .error e => (Json.mkObj [("r", "ValueError"), ("why", .str (lerrStr e))], st)
  | "parse" =>
    let ins := (getArr j "inputs").map fun i =>
      match i with
      | .arr #[.str c, .str k, v] => (⟨chanOf c, keyOf k, (vOfJson v).toOption.getD .none⟩ : Input)
      | _ => ⟨.argv, [], .none⟩
    (resKV (parse env p ins), st)
  | "history" =>
    let ops := (getArr j "ops").map fun o =>
      match o.getObjVal? "link" with
      | .ok l =>
        let srcs := (getArr l "sources").map fun s => match s with | .str s => keyOf s | _ => []
        let co := (getArr l "coerce").map fun b => match b with | .bool b => b | _ => false
        let fn := match l.getObjVal? "fn" with
          | .ok (.num n) => some n.mantissa.toNat
          | _ => none
        Op.link ⟨srcs, co, keyOf (getStr l "target"), fn⟩
      | .error _ =>
        let ins := (getArr o "parse").map fun i =>
          match i with
          | .arr #[.str c, .str k, v] => (⟨chanOf c, keyOf k, (vOfJson v).toOption.getD .none⟩ : Input)
          | _ => ⟨.argv, [], .none⟩
        let e := match o.getObjVal? "epoch" with | .ok (.num n) => n.mantissa.toNat | _ => 0
        Op.parse e ins
    let outs := (runOps envAt p ops).map fun o =>
      match o with
      | .linked (.ok p') => Json.mkObj [("r", "ok"), ("parser", parserJson p')]
      | .linked (.error e) => Json.mkObj [("r", "ValueError"), ("why", .str (lerrStr e))]
      | .parsed r => resKV r
    (Json.mkObj [("outs", .arr outs.toArray)], { st with p := stateAfter envAt p ops })
  | "apply" => (resKV (applyParsingLinks env p.links (getKV j "cfg")), st)
  | "common" => (resKV (parseCommon env p (getKV j "cfg")), st)
  | "strip" => (Json.mkObj [("s", vToJson (.ns (stripLinkTargetKeys p (getKV j "cfg"))))], st)
  | "dumpkeys" => (Json.mkObj [("keys", .arr ((dumpKeys p (getKV j "cfg")).map Json.str).toArray)], st)
  -- parser trees
  | "newtree" =>
    let t := match j.getObjVal? "tree" with | .ok tj => treeOfJson tj | _ => default
    (nodeJson (some t), { st with t := t })
  | "linkat" =>
    let path := (getArr j "path").map fun s => match s with | .str s => (⟨false, s⟩ : SKey) | _ => ⟨false, ""⟩
    let srcs := (getArr j "sources").map fun s => match s with | .str s => keyOf s | _ => []
    let co := (getArr j "coerce").map fun b => match b with | .bool b => b | _ => false
    let fn := match j.getObjVal? "fn" with
      | .ok (.num n) => some n.mantissa.toNat
      | _ => none
    match addLinkAt st.t path ⟨srcs, co, keyOf (getStr j "target"), fn⟩ with
    | .ok t' => (Json.mkObj [("r", "ok"), ("node", nodeJson (nodeAt t' path))], { st with t := t' })
    | .error e =>
      let t' := markGroupAt st.t path
      (Json.mkObj [("r", "ValueError"), ("why", .str (lerrStr e)), ("node", nodeJson (nodeAt t' path))], { st with t := t' })
  | "applytree" =>
    let off := match j.getObjVal? "off" with | .ok (.bool b) => b | _ => false
    (resKV (applyTree env names off st.t (getKV j "cfg")), st)
  | "striptree" =>
    match stripTree names st.t (getKV j "cfg") with
    | .ok c => (Json.mkObj [("s", vToJson (.ns c))], st)
    | .error e => (Json.mkObj [("err", .str (perrStr e))], st)
  | "parsetree" =>
    let ins := (getArr j "inputs").map fun i =>
      match i with
      | .arr #[.str c, .str k, v] => (⟨chanOf c, keyOf k, (vOfJson v).toOption.getD .none⟩ : Input)
      | _ => ⟨.argv, [], .none⟩
    (resKV (parseT env names st.t ins), st)
  | op => (Json.mkObj [("bad-op", .str op)], st)

partial def loop (h : IO.FS.Stream) (out : IO.FS.Stream) (st : St) : IO Unit := do
  let line ← h.getLine
  if line.isEmpty then return ()
  match Json.parse line with
  | .error e =>
    out.putStrLn (Json.mkObj [("bad-json", .str e)]).compress
    loop h out st
  | .ok j =>
    let (r, st') := step st j
    out.putStrLn r.compress
    loop h out st'

def main : IO Unit := do
  let stdin ← IO.getStdin
  let stdout ← IO.getStdout
  loop stdin stdout {}

/-
JSON-lines driver for E9 (Resolver model).  Run with
  lake env lean --run Drv/Resolver.lean < cases.jsonl
One JSON object per input line, one JSON object per output line.

  {"prog":{"entries":[E,...] (, "mods":[{"globals":[[symbol,entry],...],"flip":b},...], "modOf":[m,...], "cmDef":[[definer,...],...]
           = a program spread over modules: ["entry",s] / ["attr",s] / ["cmeth",s,j] hold SYMBOLS, linked by `link`)},"queries":[{"q":["entry",i] | ["cmeth",c,j],"names":[n,...]},...]}
     E        = {"fn":C} | {"cls":{"init":C|null,"mro":[i,...],"meths":[C,...],"cmeths":[C,...]}}
     C        = {"params":[{"name":s,"ty":[atom,...],"dflt":null|{"tok":s,"key":s,"str":s},"kind":"pk"|"ko"},...],
                 "varkw":b,"uses":[{"g":"a"|{"const":b}|{"branch":i},"u":U},...]}
     U        = {"pop":[n,D]} | {"get":[n,D]} | {"popin":[n,D]} (a pop inside the argument list of the call before it) | {"super":{"frm":null|i,"k":k,"given":[n,...]}}
              | {"call":{"t":["entry",i]|["self",j]|["cls"]|["cmeth",c,j]|["attr",i],"k":k,"given":[n,...]}}
                ("cmeths" of a class = the classmethods it offers, inherited ones included; ["cmeth",c,j] = `Cls_c.factory_j(…)`;
                 ["attr",i] = `self._kw = kwargs` … `entry_i(…, **self._kw)` in a method/property)
  -> {"results":[{"out":"ok"|"crash"|"nofuel","params":[{"name","ty","dflt":null|{"tok":s}|{"cond":s},"kind","otuple"},...],
                  "accepts":[b,...],"binder":[null | param (the definition that binds the name at run time),...]},...],"wf":b,"acyclic":b,"noclash":b,"bound":n,"agree":b}
     ("nameSym":[symbol of the __name__ of entry i,...], "localImp":[[symbol,[library module, identifier symbol]],...] optional;
      `out`/`params` are computed on `linkS` (the program as the resolver reads it), `accepts`/wf/acyclic/noclash on `linkD`
      (as Python runs it); agree = noForeignTwoArgSuper && noShadowedLocalImport)
     wf = the decidable hypothesis `WfProg` of theorem C13_exact holds for the program
-/
import Lean.Data.Json
import Jap.Core.ResolverMod

open Lean Jap.Resolver

def jStr (j : Json) (k : String) : String :=
  match j.getObjVal? k with
  | .ok (.str s) => s
  | _ => ""

def jBool (j : Json) (k : String) : Bool :=
  match j.getObjVal? k with
  | .ok (.bool b) => b
  | _ => false

def jNat (j : Json) : Nat :=
  match j with
  | .num n => n.mantissa.toNat
  | _ => 0

def jNatK (j : Json) (k : String) : Nat :=
  match j.getObjVal? k with
  | .ok v => jNat v
  | _ => 0

def jArr (j : Json) (k : String) : List Json :=
  match j.getObjVal? k with
  | .ok (.arr xs) => xs.toList
  | _ => []

def jStrs (j : Json) (k : String) : List String :=
  (jArr j k).filterMap fun x => match x with
    | .str s => some s
    | _ => none

def dvalOf (j : Json) : DVal := ⟨jStr j "tok", jStr j "key", jStr j "str"⟩

def paramOf (j : Json) : Param :=
  { name := jStr j "name",
    ty := jStrs j "ty",
    dflt := match j.getObjVal? "dflt" with
      | .ok (.obj o) => .val (dvalOf (.obj o))
      | _ => .empty,
    kind := if jStr j "kind" == "ko" then .kwOnly else .posOrKw }

def guardOf (j : Json) : Guard :=
  match j.getObjVal? "g" with
  | .ok (.obj o) =>
    match (Json.obj o).getObjVal? "const" with
    | .ok (.bool b) => .const b
    | _ => .branch (jNatK (.obj o) "branch")
  | _ => .always

def targetOf (j : Json) : Target :=
  match j with
  | .arr #[.str "entry", i] => .entry (jNat i)
  | .arr #[.str "self", i] => .selfMeth (jNat i)
  | .arr #[.str "cmeth", c, i] => .classMeth (jNat c) (jNat i)
  | .arr #[.str "attr", i] => .attrEntry (jNat i)
  | _ => .clsSelf

def useOf (j : Json) : Use :=
  match j.getObjVal? "pop" with
  | .ok (.arr #[.str n, d]) => .pop n (dvalOf d)
  | _ =>
    match j.getObjVal? "get" with
    | .ok (.arr #[.str n, d]) => .get n (dvalOf d)
    | _ =>
     match j.getObjVal? "popin" with
     | .ok (.arr #[.str n, d]) => .popIn n (dvalOf d)
     | _ =>
      match j.getObjVal? "super" with
      | .ok s =>
        let frm := match s.getObjVal? "frm" with
          | .ok (.num n) => some n.mantissa.toNat
          | _ => none
        .superCall frm (jNatK s "k") (jStrs s "given")
      | _ =>
        match j.getObjVal? "call" with
        | .ok s =>
          let t := match s.getObjVal? "t" with
            | .ok t => targetOf t
            | _ => .clsSelf
          .call t (jNatK s "k") (jStrs s "given")
        | _ => .get "" ⟨"", "", ""⟩

def guseOf (j : Json) : GUse :=
  ⟨guardOf j, match j.getObjVal? "u" with
    | .ok u => useOf u
    | _ => .get "" ⟨"", "", ""⟩⟩

def callableOf (j : Json) : Callable :=
  { params := (jArr j "params").map paramOf,
    varkw := jBool j "varkw",
    uses := (jArr j "uses").map guseOf }

def entryOf (j : Json) : Entry :=
  match j.getObjVal? "fn" with
  | .ok c => .fn (callableOf c)
  | _ =>
    match j.getObjVal? "cls" with
    | .ok k =>
      .cls { init := match k.getObjVal? "init" with
               | .ok (.obj o) => some (callableOf (.obj o))
               | _ => none,
             mro := (jArr k "mro").map jNat,
             meths := (jArr k "meths").map callableOf,
             cmeths := (jArr k "cmeths").map callableOf }
    | _ => .fn ⟨[], false, []⟩

def pairOf (j : Json) : Nat × Nat :=
  match j with
  | .arr #[a, b] => (jNat a, jNat b)
  | _ => (0, 0)

def moduleOf (j : Json) : Jap.Resolver.Module :=
  { globals := (jArr j "globals").map pairOf, flip := jBool j "flip" }

def pairNatOf (j : Json) : Nat × (Nat × Nat) :=
  match j with
  | .arr #[a, .arr #[b, c]] => (jNat a, (jNat b, jNat c))
  | _ => (0, (0, 0))

/-- a program spread over modules (`"mods"` present: targets hold symbols, see Core/ResolverMod): (as the resolver
    reads it, as Python runs it, the two lookups agree); a plain program is both -/
def progsOf (j : Json) : Prog × Prog × Bool :=
  match j.getObjVal? "prog" with
  | .ok p =>
    let src : Prog := ⟨(jArr p "entries").map entryOf, []⟩
    match p.getObjVal? "mods" with
    | .ok (.arr ms) =>
      let MP : MProg :=
        { src := src, modOf := (jArr p "modOf").map jNat,
          cmDef := (jArr p "cmDef").map (fun r => match r with
            | .arr xs => xs.toList.map jNat
            | _ => []),
          mods := ms.toList.map moduleOf,
          nameSym := (jArr p "nameSym").map jNat,
          localImp := (jArr p "localImp").map pairNatOf }
      (linkS MP, linkD MP, noForeignTwoArgSuper MP && noShadowedLocalImport MP)
    | _ => (src, src, true)
  | _ => (⟨[], []⟩, ⟨[], []⟩, true)

def cidOf (j : Json) : CId :=
  match j with
  | .arr #[.str "entry", i] => .entry (jNat i)
  | .arr #[.str "cmeth", c, i] => .cmeth (jNat c) (jNat i)
  | _ => .entry 0

def paramToJson (p : Param) : Json :=
  Json.mkObj [
    ("name", .str p.name),
    ("ty", .arr (p.ty.map Json.str).toArray),
    ("dflt", match p.dflt with
      | .empty => .null
      | .val v => Json.mkObj [("tok", .str v.tok)]
      | .cond s => Json.mkObj [("cond", .str s)]),
    ("kind", .str (match p.kind with
      | .posOrKw => "pk"
      | .kwOnly => "ko")),
    ("otuple", .bool p.otuple)]

def answer (S P : Prog) (q : Json) : Json :=
  let c := match q.getObjVal? "q" with
    | .ok x => cidOf x
    | _ => .entry 0
  let ns := jStrs q "names"
  let out := resolveOut S c
  let (tag, ps) := match out with
    | .ok ps => ("ok", ps)
    | .crash => ("crash", [])
    | .nofuel => ("nofuel", [])
  Json.mkObj [
    ("out", .str tag),
    ("params", .arr (ps.map paramToJson).toArray),
    ("accepts", .arr (ns.map fun n => Json.bool (accepts P c n)).toArray),
    ("binder", .arr (ns.map fun n => match binder P c n with
      | some q => paramToJson q
      | none => Json.null).toArray)]

def step (j : Json) : Json :=
  let (S, P, agree) := progsOf j
  Json.mkObj [
    ("results", .arr ((jArr j "queries").map (answer S P)).toArray),
    ("agree", .bool agree),
    ("wf", .bool (WfProg P)),
    ("acyclic", .bool P.acyclic),
    ("noclash", .bool (noPopClash P)),
    ("bound", .num (JsonNumber.fromNat P.bound))]

partial def loop (h : IO.FS.Stream) (out : IO.FS.Stream) : IO Unit := do
  let line ← h.getLine
  if line.isEmpty then return ()
  match Json.parse line with
  | .error e =>
    out.putStrLn (Json.mkObj [("bad-json", .str e)]).compress
    loop h out
  | .ok j =>
    out.putStrLn (step j).compress
    loop h out

def main : IO Unit := do
  let stdin ← IO.getStdin
  let stdout ← IO.getStdout
  loop stdin stdout

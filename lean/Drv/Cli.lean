/-
JSON-lines driver for E10a (auto_cli model).  Run with
  lake env lean --run Drv/Cli.lean < cases.jsonl
Input  {"asPos":bool, "single":bool, "comps":[{"key":[..], "comp":COMP}], "path":[..], "given":GIVEN}
       optional "ext": {"poTop":[s], "poSub":[s], "sdTop":[[k,VAL]], "sdSub":[[k,VAL]]} (single component only): positional-only names and set_defaults -> autoCliX
  COMP  = {"kind":"func","name":s,"sig":SIG} | {"kind":"cls","name":s,"init":SIG,"methods":[{"name":s,"sig":SIG}]}
  SIG   = [{"name":s,"kind":"pk"|"ko"|"vp"|"vk","dflt":[]|[VAL],"optional":bool}]
  VAL   = null | string
  GIVEN = {"top":[[k,VAL]],"method":null|s,"sub":[[k,VAL]],"cfgTop":VAL,"cfgSub":VAL}
Output {"parsers":{"top":[ARG],"methods":[[name,[ARG]]]}, "run":{"calls":[{"t":s,"args":[[k,VAL]]}],"ret":VAL}} or "err":kind
  ARG = [dest, positional, [] | [VAL]]
-/
import Lean.Data.Json
import Jap.Core.Cli

open Lean Jap.Cli

def valOfJson : Json → Val
  | .str s => .tok s
  | _ => .none

def valToJson : Val → Json
  | .none => .null
  | .tok s => .str s

def getArr (j : Json) (k : String) : List Json :=
  match j.getObjVal? k with
  | .ok (.arr xs) => xs.toList
  | _ => []

def getStr (j : Json) (k : String) : String :=
  match j.getObjVal? k with
  | .ok (.str s) => s
  | _ => ""

def getBool (j : Json) (k : String) : Bool :=
  match j.getObjVal? k with
  | .ok (.bool b) => b
  | _ => false

def getVal (j : Json) (k : String) : Val :=
  match j.getObjVal? k with
  | .ok v => valOfJson v
  | _ => .none

def kindOf : String → Kind
  | "ko" => .kwOnly
  | "vp" => .varPos
  | "vk" => .varKw
  | _ => .posOrKw

def paramOfJson (j : Json) : Param :=
  { name := getStr j "name", kind := kindOf (getStr j "kind"),
    dflt := match getArr j "dflt" with
      | v :: _ => some (valOfJson v)
      | [] => none,
    optional := getBool j "optional" }

def sigOfJson (j : Json) (k : String) : Sig := (getArr j k).map paramOfJson

def compOfJson (j : Json) : Comp :=
  if getStr j "kind" == "cls" then
    .cls (getStr j "name") (sigOfJson j "init") ((getArr j "methods").map fun m => ⟨getStr m "name", sigOfJson m "sig"⟩)
  else .func (getStr j "name") (sigOfJson j "sig")

def strList (j : Json) (k : String) : List String :=
  (getArr j k).filterMap fun x => match x with | .str s => some s | _ => none

def kvOfJson (j : Json) (k : String) : KV :=
  (getArr j k).filterMap fun x => match x with
    | .arr #[.str a, v] => some (a, valOfJson v)
    | _ => none

def givenOfJson (j : Json) : Given :=
  { top := kvOfJson j "top",
    method := match j.getObjVal? "method" with | .ok (.str s) => some s | _ => none,
    sub := kvOfJson j "sub", cfgTop := getVal j "cfgTop", cfgSub := getVal j "cfgSub" }

def targetStr : Target → String
  | .func f => "func:" ++ f
  | .init c => "init:" ++ c
  | .method c m => "method:" ++ c ++ "." ++ m

def body : Body := fun t _ => .tok (targetStr t)

def kvToJson (kv : KV) : Json := .arr (kv.map fun e => Json.arr #[.str e.1, valToJson e.2]).toArray

def argToJson (a : Arg) : Json :=
  .arr #[.str a.dest, .bool a.positional, .arr (match a.default with | some d => #[valToJson d] | none => #[])]

def argsToJson (as : List Arg) : Json := .arr (as.map argToJson).toArray

def errStr : Err → String
  | .construction => "construction"
  | .parse => "parse"
  | .typeError => "typeError"
  | .crash => "crash"
  | .typeErrorAfter _ => "typeError"

def parsersToJson (asPos : Bool) : Comp → Json
  | .func _ sig => Json.mkObj [("top", argsToJson (parserOfSig asPos sig)), ("methods", .arr #[])]
  | .cls _ init ms => Json.mkObj [("top", argsToJson (parserOfSig asPos init)),
      ("methods", .arr (ms.map fun m => Json.arr #[.str m.name, argsToJson (parserOfSig asPos m.sig)]).toArray)]

def step (j : Json) : Json :=
  let asPos := getBool j "asPos"
  let comps : Comps := (getArr j "comps").map fun e =>
    (strList e "key", compOfJson (e.getObjVal? "comp" |>.toOption |>.getD .null))
  let path := strList j "path"
  let g := givenOfJson (j.getObjVal? "given" |>.toOption |>.getD .null)
  let sel := if getBool j "single" then (comps.head?.map (·.2)) else lookupComp path comps
  let parsers := match sel with
    | some c => parsersToJson asPos c
    | none => .null
  let ext : Option Ext := match j.getObjVal? "ext" with
    | .ok e => some { poTop := strList e "poTop", poSub := strList e "poSub", sdTop := kvOfJson e "sdTop", sdSub := kvOfJson e "sdSub" }
    | _ => none
  let res := if getBool j "single" then
      match comps.head?, ext with
      | some (_, c), some x => autoCliX body asPos c x g
      | some (_, c), none => autoCli body asPos c g
      | none, _ => .error .crash
    else autoCliTree body asPos comps path g
  match res with
  | .ok r => Json.mkObj [("parsers", parsers),
      ("run", Json.mkObj [("calls", .arr (r.calls.map fun c => Json.mkObj [("t", .str (targetStr c.target)), ("args", kvToJson c.args)]).toArray),
                          ("ret", valToJson r.ret)])]
  | .error e =>
    let done := match e with
      | .typeErrorAfter c => [c]
      | _ => []
    Json.mkObj [("parsers", parsers), ("err", .str (errStr e)),
      ("calls", .arr (done.map fun c => Json.mkObj [("t", .str (targetStr c.target)), ("args", kvToJson c.args)]).toArray)]

partial def loop (h : IO.FS.Stream) (out : IO.FS.Stream) : IO Unit := do
  let line ← h.getLine
  if line.isEmpty then return ()
  match Json.parse line with
  | .error e => out.putStrLn (Json.mkObj [("bad-json", .str e)]).compress
  | .ok j => out.putStrLn (step j).compress
  loop h out

def main : IO Unit := do
  let stdin ← IO.getStdin
  let stdout ← IO.getStdout
  loop stdin stdout

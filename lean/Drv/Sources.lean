/-
JSON-lines driver for the engine "Sources" (C04).  Run with
  lake env lean --run Drv/Sources.lean < cases.jsonl
One case per input line:
  {"parser": {"args": [{"dest": [seg…], "kind": "scalar|list|dict|config", "default": VAL}…],
              "env_prefix": STR|null, "default_env": BOOL, "os_default_env": STR|null},
   "files": [TREE|null …]  (or "patterns": [STR…], "glob": [[PATTERN, [FILE…]]…], "contents": [[FILE, TREE|null]…]: the model orders them),
   "env": [[NAME, VAL]…]  (os.environ),  "call": {"defaults": BOOL, "env_arg": BOOL|null, "environ": [[NAME, VAL]…]|null}?,
   "argv": [{"t":"set|append","k":[seg…],"v":VAL} | {"t":"item","k":[seg…],"i":STR,"v":VAL} | {"t":"cfg","k":[seg…],"tree":TREE}…],
   "method": "args|env|string|object", "tree": TREE?}
VAL  = null | INT | {"s": STR} | [VAL…] | {"d": [[STR, VAL]…]} | {"n": [[STR, VAL]…]};  TREE = {"d": [[STR, VAL]…]}
Output: {"model": VAL, "ok": BOOL, "ref": VAL, "domain": BOOL, "guard": BOOL}  — the model pipeline's namespace, its
acceptance, `refFold` over the flattened sources, whether the case satisfies the hypotheses `wfParser`/`srcWf`/`treeOk` of
the theorems of Props/C04, and whether the guard `envPlain` of C04_order holds at every non-config key.
A case with "method": "tree" is a HISTORY ON A PARSER TREE:
  {"method": "tree", "parser": ROOT PARSER (default_env / os_default_env: construction time), "shape": {"flag": BOOL, "subs": [[NAME, SHAPE]…]},
   "setters": [[[NAME…], STR|null, BOOL]…]  (path of the parser whose `default_env` is assigned, JSONARGPARSE_DEFAULT_ENV then, value),
   "path": [NAME…] (chosen subcommands), "levels": [{"name": NAME, "parser": {"args": […]}, "argv": […], "on_argv": BOOL?, "env_sub": BOOL?}…] (below the root, in order;
   on_argv: named on the command line; env_sub: the parser's subcommand variable names the next level), "env_sub": BOOL? (the root's),
   "argv": root's items, "env": …, "call": …}
Output: {"levels": [VAL…], "flags": [BOOL…], "ok": BOOL, "ref": [VAL…], "domain": BOOL, "uniform": BOOL, "guard": BOOL}: the namespace of every
level of the path (model), the flags the model's setter leaves along the path, and the per-level reference fold with the
environment read iff the ROOT call reads it.  Scalars are opaque to the model: ints travel as `atom (2*i)`, strings as `atom (2*code+1)`.
-/
import Lean.Data.Json
import Jap.Core.Sources
import Jap.Core.SourcesSub

open Lean Jap.NS Jap.Src

def strCode (s : String) : Nat := s.toUTF8.foldl (fun acc b => acc * 256 + b.toNat) 1

partial def codeBytes (n : Nat) (acc : List UInt8) : List UInt8 :=
  if n ≤ 1 then acc else codeBytes (n / 256) (UInt8.ofNat (n % 256) :: acc)

def codeStr (n : Nat) : String :=
  match String.fromUTF8? (ByteArray.mk (codeBytes n []).toArray) with
  | some s => s
  | none => "?"

def key (s : String) : SKey := ⟨false, s⟩

partial def vOfJson : Json → Except String V
  | .null => .ok .none
  | .num n => .ok (.atom (2 * n.mantissa))
  | .arr xs => do
    let ys ← xs.toList.mapM vOfJson
    pure (.lst ys)
  | .obj o => do
    let j := Json.obj o
    if let .ok (.str s) := j.getObjVal? "s" then
      pure (.atom (2 * (strCode s : Int) + 1))
    else if let .ok (.arr xs) := j.getObjVal? "d" then
      let ys ← xs.toList.mapM kvOfJson
      pure (.dct ys)
    else if let .ok (.arr xs) := j.getObjVal? "n" then
      let ys ← xs.toList.mapM kvOfJson
      pure (.ns ys)
    else .error "bad object"
  | _ => .error "bad value"
where
  kvOfJson : Json → Except String (SKey × V)
    | .arr #[.str k, v] => do
      let v' ← vOfJson v
      pure (key k, v')
    | _ => .error "bad kv"

partial def vToJson : V → Json
  | .none => .null
  | .atom a =>
    if a % 2 = 0 then .num (JsonNumber.fromInt (a / 2))
    else Json.mkObj [("s", .str (codeStr ((a - 1) / 2).toNat))]
  | .lst xs => .arr (xs.map vToJson).toArray
  | .tup xs => Json.mkObj [("t", .arr (xs.map vToJson).toArray)]
  | .dct kvs => Json.mkObj [("d", .arr (kvs.map fun kv => Json.arr #[.str kv.1.name, vToJson kv.2]).toArray)]
  | .ns kvs => Json.mkObj [("n", .arr (kvs.map fun kv => Json.arr #[.str kv.1.name, vToJson kv.2]).toArray)]

def getV (j : Json) (k : String) : Except String V :=
  match j.getObjVal? k with
  | .ok v => vOfJson v
  | .error _ => .ok .none

def treeOfJson (j : Json) : Except String KV := do
  match ← vOfJson j with
  | .dct kvs => pure kvs
  | _ => throw "tree expected"

def keyOfJson (j : Json) : Except String Key :=
  match j with
  | .arr xs => xs.toList.mapM (fun x => match x with
    | .str s => .ok (key s)
    | _ => .error "bad key segment")
  | _ => .error "bad key"

def kindOfString : String → Except String Kind
  | "scalar" => .ok .scalar
  | "list" => .ok .list
  | "dict" => .ok .dict
  | "config" => .ok .config
  | s => .error ("bad kind " ++ s)

def optStr (j : Json) (k : String) : Option String :=
  match j.getObjVal? k with
  | .ok (.str s) => some s
  | _ => none

def arrOf (j : Json) (k : String) : List Json :=
  match j.getObjVal? k with
  | .ok (.arr xs) => xs.toList
  | _ => []

def parserOfJson (j : Json) : Except String Parser := do
  let args ← (arrOf j "args").mapM (fun a => do
    let dest ← keyOfJson (← a.getObjVal? "dest")
    let kind ← kindOfString (← (← a.getObjVal? "kind").getStr?)
    let dflt ← getV a "default"
    pure ({ dest := dest, kind := kind, default := dflt } : Arg))
  let de := match j.getObjVal? "default_env" with
    | .ok (.bool b) => b
    | _ => false
  pure { args := args, envPrefix := optStr j "env_prefix", defaultEnv := de, osDefaultEnv := optStr j "os_default_env" }

def itemOfJson (j : Json) : Except String Item := do
  let t ← (← j.getObjVal? "t").getStr?
  let k ← keyOfJson (← j.getObjVal? "k")
  match t with
  | "set" => pure (.set k (← getV j "v"))
  | "append" => pure (.append k (← getV j "v"))
  | "item" => pure (.item k (key (← (← j.getObjVal? "i").getStr?)) (← getV j "v"))
  | "cfg" => pure (.cfg k (← treeOfJson (← j.getObjVal? "tree")))
  | _ => throw ("bad item " ++ t)

def envOfJson (xs : List Json) : Except String (List (String × V)) :=
  xs.mapM (fun e => match e with
    | .arr #[.str n, v] => do pure (n, ← vOfJson v)
    | _ => throw "bad env entry")

def callOfJson (j : Json) : Except String Call := do
  let defaults := match j.getObjVal? "defaults" with
    | .ok (.bool b) => b
    | _ => true
  let envArg := match j.getObjVal? "env_arg" with
    | .ok (.bool b) => some b
    | _ => none
  let environ ← match j.getObjVal? "environ" with
    | .ok (.arr xs) => do pure (some (← envOfJson xs.toList))
    | _ => pure none
  pure { defaults := defaults, envArg := envArg, environ := environ }

def strList (j : Json) : List String :=
  match j with
  | .arr xs => xs.toList.filterMap (fun x => match x with | .str s => some s | _ => none)
  | _ => []

def runCase (j : Json) : Except String Json := do
  let p ← parserOfJson (← j.getObjVal? "parser")
  -- default config files: either the ordered contents ("files"), or the listed entries + the match relation + the contents,
  -- from which the MODEL computes the order (`_get_default_config_files`)
  let files ← match j.getObjVal? "patterns" with
    | .ok pats => do
      let globTab := (arrOf j "glob").filterMap (fun e => match e with
        | .arr #[.str pat, names] => some (pat, strList names)
        | _ => none)
      let contents ← (arrOf j "contents").mapM (fun e => match e with
        | .arr #[.str n, .null] => pure (n, (none : Option KV))
        | .arr #[.str n, t] => do pure (n, some (← treeOfJson t))
        | _ => throw "bad contents entry")
      let glob := fun (pat : String) => ((globTab.find? (·.1 == pat)).map (·.2)).getD []
      let content := fun (n : String) => ((contents.find? (·.1 == n)).map (·.2)).getD none
      pure (resolveFiles (fun a b => decide (a ≤ b)) glob content (strList pats))
    | .error _ => (arrOf j "files").mapM (fun f => match f with
      | .null => pure none
      | t => do pure (some (← treeOfJson t)))
  let env ← envOfJson (arrOf j "env")
  let argv ← (arrOf j "argv").mapM itemOfJson
  let src : Sources := { files := files, env := env, argv := argv }
  let call ← match j.getObjVal? "call" with
    | .ok c => callOfJson c
    | .error _ => pure {}
  let method ← (← j.getObjVal? "method").getStr?
  let tree ← match j.getObjVal? "tree" with
    | .ok t => treeOfJson t
    | .error _ => pure []
  let callEnv : Call := { call with envArg := some true }
  let merged := call.defaults || call.envArg == some true
  let (cfg, itemsOk, asg, callUsed) ← match method with
    | "args" => pure (parseArgsC p src call, argv.all (itemOk p), asgAllC p src call, call)
    | "env" => pure (parseEnvC p src call, true, asgBaseC p src callEnv, callEnv)
    | "string" => pure (parseStringC p src call tree, true,
        (if merged then asgBaseC p src call else []) ++ asgTree (expand p tree), call)
    | "object" => pure (parseObjectC p src call tree, true, asgBaseC p src call ++ asgTree (expand p tree), call)
    | m => throw ("bad method " ++ m)
  -- is the case inside the domain of the theorems of Props/C04, and does the guard of C04_order hold at every non-config key?
  let treeWf := if method == "string" || method == "object" then treeOk p (expand p tree) && (method != "string" || merged) else true
  let srcUsed : Sources := if method == "args" then src else { src with argv := [] }
  let inDomain := wfParser p && srcWfC p srcUsed callUsed && treeWf && itemsOk
  let guard := !(callUsed.defaults && envRead p callUsed.envArg) ||
    p.args.all (fun a => a.kind == .config || envPlain p (environOf src callUsed) a.dest)
  pure (Json.mkObj [("model", vToJson (.ns cfg)), ("ok", .bool (itemsOk && valid p cfg)),
                    ("ref", vToJson (.ns (refFold asg []))), ("domain", .bool inDomain), ("guard", .bool guard)])

partial def shapeOfJson (j : Json) : PT :=
  let f := match j.getObjVal? "flag" with
    | .ok (.bool b) => b
    | _ => false
  .node f ((arrOf j "subs").filterMap (fun e => match e with
    | .arr #[.str n, t] => some (n, shapeOfJson t)
    | _ => none))

/-- outside the model's assumptions: a config with `k+` for an own key and for a section key at once (order of `cfg.keys()`), or a
    section `k+` whose previous value would be read at a SCALAR-typed key of the outer parser (whether that scalar is promoted
    to a one-element list depends on its adapting to the element type, which the model's opaque atoms do not carry) -/
def secClash (L : Level) (below : List Level) (e : KV) : Bool :=
  let secPlus := (leaves (sectionPart (nextName below) e)).filter (fun kv => isPlus kv.1)
  !secPlus.isEmpty && ((leaves (ownPart (nextName below) e)).any (fun kv => isPlus kv.1) ||
    secPlus.any (fun kv => match findArgT below (base kv.1) with
      | some a => (findArg L.p a.dest).any (fun b => b.kind == .scalar)
      | none => false))

def runTree (j : Json) : Except String Json := do
  let p0 ← parserOfJson (← j.getObjVal? "parser")
  let env ← envOfJson (arrOf j "env")
  let argv0 ← (arrOf j "argv").mapM itemOfJson
  let call ← match j.getObjVal? "call" with
    | .ok c => callOfJson c
    | .error _ => pure {}
  let shape := match j.getObjVal? "shape" with
    | .ok sh => shapeOfJson sh
    | .error _ => PT.node false []
  let setters ← (arrOf j "setters").mapM (fun e => match e with
    | .arr #[path, os, .bool b] => pure (strList path, (match os with | .str s => some s | _ => none), b)
    | _ => throw "bad setter")
  let path := match j.getObjVal? "path" with
    | .ok pth => strList pth
    | .error _ => []
  let below ← (arrOf j "levels").mapM (fun l => do
    let name ← (← l.getObjVal? "name").getStr?
    let p ← parserOfJson (← l.getObjVal? "parser")
    let argv ← (arrOf l "argv").mapM itemOfJson
    let flag := fun (k : String) (dflt : Bool) => match l.getObjVal? k with
      | .ok (.bool b) => b
      | _ => dflt
    pure ({ name := name, p := p, src := { files := [], env := env, argv := argv }, onArgv := flag "on_argv" true, envSub := flag "env_sub" false } : Level))
  let rootEnvSub := match j.getObjVal? "env_sub" with
    | .ok (.bool b) => b
    | _ => false
  let root : Level := { name := "", p := p0, src := { files := [], env := env, argv := argv0 }, envSub := rootEnvSub }
  let lv := root :: chainPrefixes p0 below
  let tree := runSetters setters (build p0.osDefaultEnv p0.defaultEnv shape)
  let flags := flagsOn path tree
  let flagged := flagLevels lv flags
  let tmethod := optStr j "tmethod"
  let otree ← match j.getObjVal? "tree" with
    | .ok t => treeOfJson t
    | .error _ => pure []
  let res := if tmethod == some "object" then parseObjectT call flagged otree else parseTreeT call tree path lv
  let b := match flagged with
    | L :: _ => envRead L.p call.envArg
    | [] => false
  let callB : Call := { call with envArg := some b }
  -- a config that holds `k+` both for an own key and for a section key: outside the model's assumption
  let rec inter : List Level → Bool
    | [] => false
    | L :: below =>
      (L.src.argv.any (fun it => match it with
        | .cfg _ t =>
          let e := expandT L below t
          secClash L below e
        | _ => false)) || inter below
  let interO := match flagged with
    | L :: below =>
      secClash L below (expandT L below otree)
    | [] => false
  let hasSec : List Level → Bool
    | L :: below => L.src.argv.any (fun it => match it with
        | .cfg _ t => !(sectionPart (nextName below) (expandT L below t)).isEmpty
        | _ => false)
    | [] => false
  let ok := (flagged.zip res).all (fun x => x.1.src.argv.all (itemOk x.1.p) && valid x.1.p x.2)
  let dom := tmethod != some "object" && !hasSec flagged &&
    flagged.all (fun L => wfParser L.p && srcWfC L.p L.src call && L.src.argv.all (itemOk L.p))
  let uni := flagged.all (fun L => envRead L.p call.envArg == b)
  let guard := flagged.all (fun L => !(call.defaults && b) ||
    L.p.args.all (fun a => a.kind == .config || envPlain L.p (environOf L.src call) a.dest))
  pure (Json.mkObj [("levels", .arr (res.map (fun c => vToJson (.ns c))).toArray), ("flags", .arr (flags.map Json.bool).toArray),
                    ("ok", .bool ok), ("ref", .arr (flagged.map (fun L => vToJson (.ns (refFold (asgAllC L.p L.src callB) [])))).toArray),
                    ("domain", .bool dom), ("uniform", .bool uni), ("guard", .bool guard),
                    ("interleave", .bool (if tmethod == some "object" then interO else inter flagged))])

partial def loop (h : IO.FS.Stream) (out : IO.FS.Stream) : IO Unit := do
  let line ← h.getLine
  if line.isEmpty then return ()
  match Json.parse line with
  | .error e => out.putStrLn (Json.mkObj [("bad-json", .str e)]).compress
  | .ok j =>
    match (if (j.getObjVal? "method").toOption == some (Json.str "tree") then runTree j else runCase j) with
    | .ok r => out.putStrLn r.compress
    | .error e => out.putStrLn (Json.mkObj [("bad-case", .str e)]).compress
  loop h out

def main : IO Unit := do
  let stdin ← IO.getStdin
  let stdout ← IO.getStdout
  loop stdin stdout

/-
JSON-lines driver for E12 (persistent parser state, C09).  Run with
  lake env lean --run Drv/PState.lean < lines.jsonl
Lines:
  {"cmd":"reset","descs":[{"exit":bool,"shtab":bool,"linked":[nat…]}…]}      fresh world for these parsers
  {"cmd":"op","p":nat,"op":{…}}                                              one operation on parser p
Every line answers with the outcome class, the carrier values that flowed into the answer and the state
of all carriers afterwards.  The facts are the regenerated ones (Gen/PState.lean).
-/
import Lean.Data.Json
import Jap.Core.PState
import Jap.Lemmas.PStateFacts

open Lean Jap.PState

def getBool (j : Json) (k : String) (dflt : Bool := false) : Bool :=
  match j.getObjVal? k with
  | .ok (.bool b) => b
  | _ => dflt

def getNat (j : Json) (k : String) : Nat :=
  match j.getObjVal? k with
  | .ok (.num n) => n.mantissa.toNat
  | _ => 0

def getStr (j : Json) (k : String) : String :=
  match j.getObjVal? k with
  | .ok (.str s) => s
  | _ => ""

def getArr (j : Json) (k : String) : List Json :=
  match j.getObjVal? k with
  | .ok (.arr xs) => xs.toList
  | _ => []

def getObj? (j : Json) (k : String) : Option Json :=
  match j.getObjVal? k with
  | .ok .null => none
  | .ok v => some v
  | _ => none

def optBool (j : Json) (k : String) : Option Bool :=
  match j.getObjVal? k with
  | .ok (.bool b) => some b
  | _ => none

def flagsOf (j : Json) : Flags :=
  { comments := getBool j "comments", skipDefault := getBool j "skip_default", skipNull := getBool j "skip_null" }

def tokOf (j : Json) : Tok :=
  let fails := getBool j "fails"
  match getStr j "k" with
  | "plain" => { kind := .plain (getBool j "cls"), fails := fails }
  | "deep" => { kind := .deep, fails := fails }
  | "dc" => { kind := .dc (getBool j "nested") (getBool j "onAction") (getBool j "hasPrev"), fails := fails }
  | "pc" => { kind := .printConfig (flagsOf ((getObj? j "flags").getD (Json.mkObj []))), fails := fails }
  | "cfg" => { kind := .cfg (getBool j "dumpFails"), fails := fails }
  | "help" => { kind := .help, fails := fails }
  | "class_help" => { kind := .classHelp (optBool j "trailing"), fails := fails }
  | _ => { kind := .plain false, fails := fails }

def vtokOf (j : Json) : VTok :=
  let fails := getBool j "fails"
  match getStr j "k" with
  | "dc" => { kind := .dc (getBool j "onAction") (getBool j "hasPrev"), fails := fails }
  | _ => { kind := .plain (getBool j "cls"), fails := fails }

def tailOf (j : Json) : Tail :=
  { unrec := getBool j "unrec", subMissing := getBool j "subMissing", lateFail := getBool j "lateFail",
    clsFinal := getBool j "clsFinal", dcFinal := getBool j "dcFinal", typed := getBool j "typed" true,
    sdFails := getBool j "sdFails", sdEscapes := getBool j "sdEscapes" }

def kwOf (j : Json) : KW := { env := optBool j "env", defaults := getBool j "defaults" true }

def cfgOf (j : Json) : CfgArg :=
  { id := getNat j "id", invalid := getBool j "invalid", late := getBool j "late", stripFails := getBool j "stripFails", tail := tailOf ((getObj? j "tail").getD (Json.mkObj [])) }

def opOf (j : Json) : Op :=
  match getStr j "t" with
  | "parse_args" =>
    let sub := (getObj? j "sub").map fun s =>
      ({ idx := getNat s "idx", argsId := getNat s "id", toks := (getArr s "toks").map tokOf, unrec := getBool s "unrec" } : SubCall)
    .parseArgs { id := getNat j "id", kw := kwOf ((getObj? j "kw").getD (Json.mkObj [])), toks := (getArr j "toks").map tokOf,
                 sub := sub, tail := tailOf ((getObj? j "tail").getD (Json.mkObj [])) }
  | "parse_other" =>
    .parseOther { id := getNat j "id", loadFails := getBool j "loadFails", toks := (getArr j "toks").map vtokOf,
                  tail := tailOf ((getObj? j "tail").getD (Json.mkObj [])) }
  | "get_defaults" => .getDefaults
  | "dump" =>
    let dk := (getObj? j "dk").getD (Json.mkObj [])
    .dump (cfgOf j) { skipValidation := getBool dk "skip_validation", skipNone := getBool dk "skip_none" true } (getBool j "skip_default")
  | "validate" => .validate (cfgOf j)
  | "instantiate" => .instantiate (cfgOf j)
  | _ => .formatHelp

def prefJson : PRef → Json
  | .root p => Json.str s!"root:{p}"
  | .sub p i => Json.str s!"sub:{p}:{i}"
  | .eph => Json.str "eph"

def optJson {α : Type} (f : α → Json) : Option α → Json
  | none => .null
  | some x => f x

def kwJson (k : KW) : Json := Json.mkObj [("env", optJson Json.bool k.env), ("defaults", .bool k.defaults)]
def dkJson (d : DK) : Json := Json.mkObj [("skip_validation", .bool d.skipValidation), ("skip_none", .bool d.skipNone)]
def natJson (n : Nat) : Json := .num (JsonNumber.fromNat n)

def pendingJson (pd : Pending) : Json :=
  Json.mkObj [("comments", .bool pd.flags.comments), ("skip_default", .bool pd.flags.skipDefault),
              ("skip_null", .bool pd.flags.skipNull), ("key", optJson natJson pd.key)]

def outcomeJson : Outcome → Json
  | .result => Json.mkObj [("k", "result")]
  | .argError => Json.mkObj [("k", "error")]
  | .raised => Json.mkObj [("k", "raise")]
  | .exit c cfg h => Json.mkObj [("k", "exit"), ("code", natJson c), ("config", .bool cfg), ("help", .bool h)]

def inflJson : Infl → Json
  | .kw k => Json.mkObj [("kw", optJson kwJson k)]
  | .args a => Json.mkObj [("args", optJson natJson a)]
  | .dk d => Json.mkObj [("dk", optJson dkJson d)]
  | .lenient b => Json.mkObj [("lenient", .bool b)]
  | .parent p => Json.mkObj [("parent", optJson prefJson p)]
  | .linked l => Json.mkObj [("linked", .arr (l.map natJson).toArray)]
  | .dcDefault d => Json.mkObj [("dc", optJson natJson d)]
  | .wired b => Json.mkObj [("wired", .bool b)]

def stateJson (n nsub : Nat) (w : World) : Json :=
  Json.mkObj [
    ("kw", optJson kwJson w.parseKwargs), ("sap", optJson prefJson w.subclassArgParser), ("dk", optJson dkJson w.dumpKwargs),
    ("lenient", .bool w.lenient), ("parent", optJson prefJson w.parentParser),
    ("parsers", .arr ((List.range n).map fun p => Json.mkObj [
      ("pending", optJson pendingJson (w.pending p)),
      ("args", optJson natJson (w.lastArgs (.root p))),
      ("subargs", .arr ((List.range nsub).map fun i => optJson natJson (w.lastArgs (.sub p i))).toArray),
      ("shtab", .bool (w.shtabAdded p)),
      ("linked", .arr ((w.linked p).map natJson).toArray),
      ("wired", .bool (w.wired p)),
      ("dc", optJson natJson (w.dcDefault p))]).toArray)]

structure St where
  descs : List PDesc := []
  w : World := init fun _ => { exitOnError := false, shtab := false, linked0 := [] }

def descFn (ds : List PDesc) : Nat → PDesc := fun p => ds.getD p { exitOnError := false, shtab := false, linked0 := [] }

def handle (st : St) (j : Json) : Json × St :=
  match getStr j "cmd" with
  | "reset" =>
    let ds := (getArr j "descs").map fun d =>
      ({ exitOnError := getBool d "exit", shtab := getBool d "shtab", linked0 := (getArr d "linked").map fun x =>
          match x with | .num n => n.mantissa.toNat | _ => 0 } : PDesc)
    let w := init (descFn ds)
    (Json.mkObj [("state", stateJson ds.length 2 w)], { descs := ds, w := w })
  | "op" =>
    let p := getNat j "p"
    let op := opOf ((getObj? j "op").getD (Json.mkObj []))
    let r := step genFacts (descFn st.descs) st.w (p, op)
    (Json.mkObj [("out", outcomeJson r.2.cls), ("infl", .arr (r.2.infl.map inflJson).toArray),
                 ("state", stateJson st.descs.length 2 r.1)], { st with w := r.1 })
  | c => (Json.mkObj [("bad-cmd", .str c)], st)

partial def loop (h : IO.FS.Stream) (out : IO.FS.Stream) (st : St) : IO Unit := do
  let line ← h.getLine
  if line.isEmpty then return ()
  match Json.parse line with
  | .error e =>
    out.putStrLn (Json.mkObj [("bad-json", .str e)]).compress
    loop h out st
  | .ok j =>
    let (r, st') := handle st j
    out.putStrLn r.compress
    loop h out st'

def main : IO Unit := do
  let stdin ← IO.getStdin
  let stdout ← IO.getStdout
  loop stdin stdout {}

/-
JSON-lines driver for the engine "Validate" (C06, C07).  Run with
  lake env lean --run Drv/Validate.lean < ops.jsonl
One JSON object per input line, one JSON object per output line.

wire format
  value : null | true | false | <int> | "text" | {"f": "<float repr>"} | [v, ...] | {"d": [[k, v], ...]}
  node  : {"k":"leaf","ty":T,"req":b,"def":v?} | {"k":"group","whole":b,"fields":[[name,node],...]}
        | {"k":"class","req":b,"imp":path?,"classes":[[path,[[name,node],...]],...]} | {"k":"list","req":b,"item":node}
        | {"k":"sub","req":b,"choices":[[name,[[name,node],...]],...]} | {"k":"optdc","req":b,"fields":[[name,node],...]}
  ops   : {"op":"spec","fields":[[name,node],...],"load":[[text, value],...]}     sets the current parser + load oracle
          {"op":"validate","cfg":value}
          {"op":"argv","opts":[...],"cfg":value}
          {"op":"table"}
          {"op":"posopt","enabled":b,"acts":[[dest,positional,hasValue],...],"unk":[token,...]}   `_positional_optionals` + the leftover step
          {"op":"branch","keys":[[level, key],...]}                                 `_is_branch_key` of the parser at `level`
          {"op":"decl","style":S,"key":k,"fields":[{"name","ty","def"?}, ...]}     C07: action table of one style
          {"op":"parse7", ...}                                                      C07: see `parse7`
          {"op":"declR","style":S,"key":k,"D":dmap,"fields":[fieldR,...]}           C07, recursive field lists with declared defaults
          {"op":"parseR", ... ,"items":[{"t":"opt","p":[..],"plus":b,"v":text}|{"t":"wholeOpt"|"wholeEnv","p":[..],"v":value}|{"t":"tree","v":dict}]}
  fieldR: {"name","ty","def"?,"stated"?} | {"name","declared":dmap,"sub":[fieldR,...]};  dmap: [[k,{"v":value}] | [k,{"m":dmap}], ...]
-/
import Lean.Data.Json
import Jap.Core.Validate
import Jap.Core.Styles
import Jap.Core.ValidateArgv

open Lean Jap.Validate

partial def valOfJson : Json → Except String Val
  | .null => .ok .null
  | .bool b => .ok (.bool b)
  | .num n => .ok (.int n.mantissa)
  | .str s => .ok (.str s)
  | .arr xs => do
    let ys ← xs.toList.mapM valOfJson
    pure (.list ys)
  | .obj o => do
    let j := Json.obj o
    if let .ok (.str r) := j.getObjVal? "f" then pure (.flt r)
    else if let .ok (.arr xs) := j.getObjVal? "d" then
      let ys ← xs.toList.mapM (fun (x : Json) => match x with
        | .arr #[.str k, v] => do
          let v' ← valOfJson v
          pure (k, v')
        | _ => .error "bad kv")
      pure (.dict ys)
    else .error "bad object"

partial def valToJson : Val → Json
  | .null => .null
  | .bool b => .bool b
  | .int i => .num (JsonNumber.fromInt i)
  | .str s => .str s
  | .flt r => Json.mkObj [("f", .str r)]
  | .list xs => .arr (xs.map valToJson).toArray
  | .dict kvs => Json.mkObj [("d", .arr (kvs.map fun kv => Json.arr #[.str kv.1, valToJson kv.2]).toArray)]

def tyOfString : String → Except String Ty
  | "int" => .ok .int
  | "str" => .ok .str
  | "bool" => .ok .bool
  | "float" => .ok .float
  | "optInt" => .ok .optInt
  | "listInt" => .ok .listInt
  | "optListInt" => .ok .optListInt
  | "optDictStrInt" => .ok .optDictStrInt
  | "optTupleIntStr" => .ok .optTupleIntStr
  | "optLitAB" => .ok .optLitAB
  | s => .error ("bad ty " ++ s)

def tyToString : Ty → String
  | .int => "int" | .str => "str" | .bool => "bool" | .float => "float" | .optInt => "optInt" | .listInt => "listInt"
  | .optListInt => "optListInt" | .optDictStrInt => "optDictStrInt" | .optTupleIntStr => "optTupleIntStr" | .optLitAB => "optLitAB"

def jBool (j : Json) (k : String) : Bool :=
  match j.getObjVal? k with
  | .ok (.bool b) => b
  | _ => false

def jStr (j : Json) (k : String) : String :=
  match j.getObjVal? k with
  | .ok (.str s) => s
  | _ => ""

def jArr (j : Json) (k : String) : List Json :=
  match j.getObjVal? k with
  | .ok (.arr xs) => xs.toList
  | _ => []

mutual
partial def nodeOfJson (j : Json) : Except String Node := do
  match jStr j "k" with
  | "leaf" =>
    let ty ← tyOfString (jStr j "ty")
    let d ← match j.getObjVal? "def" with
      | .ok v => do
        let v' ← valOfJson v
        pure (some v')
      | .error _ => pure none
    pure (.leaf ty (jBool j "req") d)
  | "group" =>
    let fs ← fieldsOfJson (jArr j "fields")
    pure (.group (jBool j "whole") fs)
  | "class" =>
    let cs ← (jArr j "classes").mapM choiceOfJson
    let imp := match j.getObjVal? "imp" with
      | .ok (.str c) => some c
      | _ => none
    pure (.classArg (jBool j "req") imp cs)
  | "list" =>
    match j.getObjVal? "item" with
    | .ok it => do
      let n ← nodeOfJson it
      pure (.listOf (jBool j "req") n)
    | .error _ => .error "list without item"
  | "sub" =>
    let cs ← (jArr j "choices").mapM choiceOfJson
    pure (.subcommands (jBool j "req") cs)
  | "optdc" =>
    let fs ← fieldsOfJson (jArr j "fields")
    pure (.optGroup (jBool j "req") fs)
  | s => .error ("bad node kind " ++ s)
partial def fieldsOfJson (xs : List Json) : Except String Fields :=
  xs.mapM (fun (x : Json) => match x with
    | .arr #[.str k, n] => do
      let n' ← nodeOfJson n
      pure (k, n')
    | _ => .error "bad field")
partial def choiceOfJson (x : Json) : Except String (String × Fields) :=
  match x with
  | .arr #[.str k, .arr fs] => do
    let fs' ← fieldsOfJson fs.toList
    pure (k, fs')
  | _ => .error "bad choice"
end

def segToJson : Seg → Json
  | .key s => .str s
  | .idx i => .num (JsonNumber.fromNat i)

def relOf (full : Path) (cut : Nat) : String :=
  ".".intercalate ((full.drop cut).map fun s => match s with | .key k => k | .idx i => toString i)

def errToJson : Err → Json
  | .unknown f c => Json.mkObj [("r", "err"), ("kind", "unknown"), ("full", .arr (f.map segToJson).toArray), ("rel", .str (relOf f c))]
  | .required f c => Json.mkObj [("r", "err"), ("kind", "required"), ("full", .arr (f.map segToJson).toArray), ("rel", .str (relOf f c))]
  | .type f c => Json.mkObj [("r", "err"), ("kind", "type"), ("full", .arr (f.map segToJson).toArray), ("rel", .str (relOf f c))]
  | .noSubcommand f c => Json.mkObj [("r", "err"), ("kind", "nosub"), ("full", .arr (f.map segToJson).toArray), ("rel", .str (relOf f c))]
  | .unrecognized a => Json.mkObj [("r", "err"), ("kind", "unrecognized"), ("arg", .str a)]

def rToJson : R → Json
  | .ok () => Json.mkObj [("r", "ok")]
  | .error e => errToJson e

def styleOfString : String → Except String Style
  | "dotted" => .ok .dotted
  | "dataclass" => .ok .dataclass
  | "class" => .ok .classArgs
  | "inner" => .ok .inner
  | s => .error s

def fieldsOfJson7 (xs : List Json) : Except String (List Field) :=
  xs.mapM fun (x : Json) => do
    let ty ← tyOfString (jStr x "ty")
    let d ← match x.getObjVal? "def" with
      | .ok v => do
        let v' ← valOfJson v
        pure (some v')
      | .error _ => pure none
    pure ⟨jStr x "name", ty, d⟩

def itemOfJson (x : Json) : Except String Item := do
  let v ← match x.getObjVal? "v" with
    | .ok v => valOfJson v
    | .error _ => pure Val.null
  match jStr x "t" with
  | "opt" => pure (.opt (jStr x "k") v)
  | "wholeOpt" => pure (.wholeOpt v)
  | "wholeEnv" => pure (.wholeEnv v)
  | "tree" => match v with
    | .dict kvs => pure (.tree kvs)
    | _ => .error "tree item is not a dict"
  | t => .error ("bad item " ++ t)

def tableToJson (t : Table) : Json :=
  Json.mkObj [
    ("entries", .arr (t.entries.map fun e => Json.mkObj [("name", .str e.name), ("dest", .str e.dest),
      ("opts", .arr (e.optKeys.map Json.str).toArray), ("ty", .str (tyToString e.ty)), ("def", valToJson e.default)]).toArray),
    ("required", .arr (t.required.map Json.str).toArray),
    ("whole", match t.whole with | some k => .str k | none => .null)]

partial def dmapOfJson (xs : List Json) : Except String DMap :=
  xs.mapM fun (x : Json) => match x with
    | .arr #[.str k, d] =>
      match d.getObjVal? "m" with
      | .ok (.arr m) => do
        let m' ← dmapOfJson m.toList
        pure (k, DVal.map m')
      | _ =>
        match d.getObjVal? "v" with
        | .ok v => do
          let v' ← valOfJson v
          pure (k, DVal.val v')
        | .error _ => .error "bad dval"
    | _ => .error "bad dmap entry"

partial def fieldsROfJson (xs : List Json) : Except String (List FieldR) :=
  xs.mapM fun (x : Json) => do
    match x.getObjVal? "sub" with
    | .ok (.arr fs) =>
      let fs' ← fieldsROfJson fs.toList
      let d ← dmapOfJson (jArr x "declared")
      pure (FieldR.sub (jStr x "name") d fs')
    | _ =>
      let ty ← tyOfString (jStr x "ty")
      let d ← match x.getObjVal? "def" with
        | .ok v => do
          let v' ← valOfJson v
          pure (some v')
        | .error _ => pure none
      let st ← match x.getObjVal? "stated" with
        | .ok v => do
          let v' ← valOfJson v
          pure (some v')
        | .error _ => pure none
      pure (FieldR.leaf (jStr x "name") ty d st)

def pathOfJson (j : Json) (k : String) : List String :=
  (jArr j k).filterMap fun (x : Json) => match x with
    | .str s => some s
    | _ => none

def itemROfJson (x : Json) : Except String ItemR := do
  let v ← match x.getObjVal? "v" with
    | .ok v => valOfJson v
    | .error _ => pure Val.null
  match jStr x "t" with
  | "opt" => pure (.opt (pathOfJson x "p") (jBool x "plus") v)
  | "wholeOpt" => pure (.wholeOpt (pathOfJson x "p") v)
  | "wholeEnv" => pure (.wholeEnv (pathOfJson x "p") v)
  | "tree" => match v with
    | .dict kvs => pure (.tree kvs)
    | _ => .error "tree item is not a dict"
  | t => .error ("bad item " ++ t)

def dotted (p : List String) : String := ".".intercalate p

def tableRToJson (t : TableR) : Json :=
  Json.mkObj [
    ("entries", .arr (t.entries.map fun e => Json.mkObj [("dest", .str (dotted e.path)),
      ("opts", .arr ((dotted e.path :: (if e.plus then [dotted e.path ++ "+"] else [])).map Json.str).toArray),
      ("ty", .str (tyToString e.ty)), ("def", valToJson e.default)]).toArray),
    ("required", .arr (t.required.map fun p => Json.str (dotted p)).toArray),
    ("wholes", .arr (t.wholes.map fun p => Json.str (dotted p)).toArray)]

structure St where
  fields : Fields := []
  load : List (String × Val) := []

def mkLoad (tbl : List (String × Val)) : String → Val :=
  fun s => match assoc s tbl with
    | some v => v
    | none => .str s

def step (st : St) (j : Json) : Json × St :=
  match jStr j "op" with
  | "spec" =>
    match fieldsOfJson (jArr j "fields") with
    | .error e => (Json.mkObj [("bad-spec", .str e)], st)
    | .ok fs =>
      let tbl := (jArr j "load").filterMap (fun (x : Json) => match x with
        | .arr #[.str k, v] => match valOfJson v with
          | .ok v' => some (k, v')
          | .error _ => none
        | _ => none)
      (Json.mkObj [("r", "ok")], { fields := fs, load := tbl })
  | "validate" =>
    match j.getObjVal? "cfg" with
    | .ok c =>
      match valOfJson c with
      | .ok (.dict kvs) => (rToJson (validate (mkLoad st.load) st.fields kvs), st)
      | .ok _ => (Json.mkObj [("bad-cfg", "not a dict")], st)
      | .error e => (Json.mkObj [("bad-cfg", .str e)], st)
    | .error _ => (Json.mkObj [("bad-cfg", "missing")], st)
  | "table" =>
    let acts := flatten "" "" st.fields
    (.arr (acts.map fun a => Json.arr #[.str (a.level ++ a.dest), .arr (a.optKeys.map Json.str).toArray,
        .str (match a.kind with | .arg => "arg" | .cls => "arg" | .whole => "whole" | .sub => "sub"), .bool a.required]).toArray, st)
  | "branch" =>
    let acts := flatten "" "" st.fields
    let keys := (jArr j "keys").filterMap (fun (x : Json) => match x with
      | .arr #[.str l, .str k] => some (l, k)
      | _ => none)
    (.arr (keys.map fun lk => Json.bool (isBranchKey acts lk.1 lk.2)).toArray, st)
  | "argv" =>
    let opts := (jArr j "opts").filterMap (fun (x : Json) => match x with
      | .arr #[.str l, .str k] => some (l, k)
      | _ => none)
    match j.getObjVal? "cfg" with
    | .ok c =>
      match valOfJson c with
      | .ok (.dict kvs) => (rToJson (parseArgv (mkLoad st.load) st.fields opts kvs), st)
      | _ => (Json.mkObj [("bad-cfg", "not a dict")], st)
    | .error _ => (Json.mkObj [("bad-cfg", "missing")], st)
  | "posopt" =>
    -- `_positional_optionals`: {"enabled":b,"acts":[[dest,positional,hasValue],...],"unk":[token,...]}
    let acts := (jArr j "acts").filterMap (fun (x : Json) => match x with
      | .arr #[.str d, .bool p, .bool h] => some (PAct.mk d p h)
      | _ => none)
    let unk := (jArr j "unk").filterMap (fun (x : Json) => match x with
      | .str s => some s
      | _ => none)
    let res := positionalOptionals (jBool j "enabled") acts unk
    (Json.mkObj [("asg", .arr (res.1.map fun a => Json.arr #[.str a.1, .str a.2]).toArray), ("rest", .arr (res.2.map Json.str).toArray),
      ("verdict", match leftoverVerdict (jBool j "enabled") acts unk with | .ok _ => "ok" | .error _ => "unrecognized")], st)
  | "decl" =>
    match styleOfString (jStr j "style"), fieldsOfJson7 (jArr j "fields") with
    | .ok sty, .ok fs => (tableToJson (decl sty (jStr j "key") fs), st)
    | .error e, _ => (Json.mkObj [("bad-style", .str e)], st)
    | _, .error e => (Json.mkObj [("bad-fields", .str e)], st)
  | "parse7" =>
    match styleOfString (jStr j "style"), fieldsOfJson7 (jArr j "fields"), (jArr j "items").mapM itemOfJson with
    | .ok sty, .ok fs, .ok items =>
      let tbl := (jArr j "load").filterMap (fun (x : Json) => match x with
        | .arr #[.str k, v] => match valOfJson v with
          | .ok v' => some (k, v')
          | .error _ => none
        | _ => none)
      match parse7 (mkLoad tbl) (decl sty (jStr j "key") fs) (jStr j "key") items with
      | .ok cfg => (Json.mkObj [("r", "ok"), ("cfg", valToJson (.dict cfg))], st)
      | .error e => (errToJson e, st)
    | .error e, _, _ => (Json.mkObj [("bad-style", .str e)], st)
    | _, .error e, _ => (Json.mkObj [("bad-fields", .str e)], st)
    | _, _, .error e => (Json.mkObj [("bad-items", .str e)], st)
  | "declR" =>
    match styleOfString (jStr j "style"), fieldsROfJson (jArr j "fields"), dmapOfJson (jArr j "D") with
    | .ok sty, .ok fs, .ok d => (tableRToJson (declR sty (jStr j "key") d fs), st)
    | .error e, _, _ => (Json.mkObj [("bad-style", .str e)], st)
    | _, .error e, _ => (Json.mkObj [("bad-fields", .str e)], st)
    | _, _, .error e => (Json.mkObj [("bad-D", .str e)], st)
  | "parseR" =>
    match styleOfString (jStr j "style"), fieldsROfJson (jArr j "fields"), dmapOfJson (jArr j "D"), (jArr j "items").mapM itemROfJson with
    | .ok sty, .ok fs, .ok d, .ok items =>
      let tbl := (jArr j "load").filterMap (fun (x : Json) => match x with
        | .arr #[.str k, v] => match valOfJson v with
          | .ok v' => some (k, v')
          | .error _ => none
        | _ => none)
      let key := jStr j "key"
      match parseR (mkLoad tbl) (declR sty key d fs) (specR (sty != .dotted) key fs) items with
      | .ok cfg => (Json.mkObj [("r", "ok"), ("cfg", valToJson (.dict cfg))], st)
      | .error e => (errToJson e, st)
    | .error e, _, _, _ => (Json.mkObj [("bad-style", .str e)], st)
    | _, .error e, _, _ => (Json.mkObj [("bad-fields", .str e)], st)
    | _, _, .error e, _ => (Json.mkObj [("bad-D", .str e)], st)
    | _, _, _, .error e => (Json.mkObj [("bad-items", .str e)], st)
  | op => (Json.mkObj [("bad-op", .str op)], st)

partial def loop (h : IO.FS.Stream) (out : IO.FS.Stream) (st : St) : IO Unit := do
  let line ← h.getLine
  if line.isEmpty then return ()
  match Json.parse line with
  | .error e =>
    out.putStrLn (Json.mkObj [("bad-json", .str e)]).compress
    loop h out st
  | .ok j =>
    let (r, st') := step st j
    out.putStrLn r.compress
    loop h out st'

def main : IO Unit := do
  let stdin ← IO.getStdin
  let stdout ← IO.getStdout
  loop stdin stdout {}

/-
JSON-lines driver for E13 (ExcFlow).  Run with
  lake env lean --run Drv/ExcFlow.lean < queries.jsonl
Queries (one JSON object per line, one answer per line):
  {"q":"cert"}                                   the flight tables for every (mode, exit_on_error), as number lists
                                                 (harness/extractors/excflow.py turns them into Jap/Gen/ExcFlowCert.lean)
  {"q":"routeStage","top":b,"mode":"yaml","stage":"checkType","exc":"ValueError"}
                                                 per public method: every outcome over all call paths + is the class designed there
  {"q":"routePath","top":b,"mode":"yaml","root":"body.parseObject","path":["applyActions",..],"exc":"KeyError"}
  {"q":"stageRaises","mode":"yaml"}              designed classes per stage
  {"q":"tables"}                                 a summary of the regenerated tables (for the evidence file)
  {"q":"staticLeaves"}                           per leaf function: every statically possible (class, origin) with covered / excused,
                                                 and the list of those that are neither (search hints when C03_static_raises fails)
Imports only the model and the regenerated tables.
-/
import Lean.Data.Json
import Jap.Core.ExcFlow
import Jap.Gen.ExcFlow
import Jap.Core.ExcFlowRaises
import Jap.Gen.ExcFlowRaises

open Lean Jap.ExcFlow

def T : Tables := Jap.Gen.ExcFlow.tables

def lastName (s : String) : String := (s.splitOn ".").getLast!

def excName (e : Exc) : String := lastName (reprStr e)
def stageName (s : Stage) : String := lastName (reprStr s)
def modeName (m : Mode) : String := lastName (reprStr m)
def methodName (m : Method) : String := lastName (reprStr m)
def tagName (t : Tag) : String := lastName (reprStr t)

def regionName : Region → String
  | .body m => "body." ++ methodName m
  | .innerBody m => "innerBody." ++ methodName m
  | .subBody m => "subBody." ++ methodName m
  | r => lastName (reprStr r)

def findBy {α : Type} (all : List α) (name : α → String) (s : String) : Option α := all.find? (fun a => name a == s)

def outcomeName : Outcome → String
  | .ok => "ok"
  | .argErr => "argErr"
  | .exit n => s!"exit {n}"
  | .escapes c => "escapes " ++ excName c

def sigJson : Sig → Json
  | .cont => Json.str "cont"
  | .exc c t => Json.mkObj [("exc", excName c), ("tag", tagName t)]
  | .exit n t => Json.mkObj [("exit", n), ("tag", tagName t)]

def getStr (j : Json) (k : String) : String :=
  match j.getObjVal? k with
  | .ok (.str s) => s
  | _ => ""

def getBool (j : Json) (k : String) : Bool :=
  match j.getObjVal? k with
  | .ok (.bool b) => b
  | _ => false

def getStrs (j : Json) (k : String) : List String :=
  match j.getObjVal? k with
  | .ok (.arr xs) => xs.toList.filterMap (fun x => match x with | .str s => some s | _ => none)
  | _ => []

def actName : Act → String
  | .callsError => "callsError"
  | .raises c => "raises " ++ excName c
  | .same => "same"
  | .swallow => "swallow"

def refName : ExcRef → String
  | .cls c => excName c
  | .loader => "<loader exceptions of the mode>"
  | .loaderOf m => "<loader exceptions of " ++ modeName m ++ ">"
  | .deser => "<deserializer_exceptions>"

def wrapperAll : List Wrapper :=
  Method.all.map Wrapper.outer ++
  [.knownArgs, .pathOwn, .pathRead, .dataclassBranch, .links, .getDefaults, .defaultPaths, .validate, .required, .lcpm, .checkValueKey, .envList,
   .checkType, .checkTypeLoad, .vocPath, .anyLoad, .leafLoad, .annotated, .registered, .enumLookup, .typeImport, .floatConv,
   .unionTry, .subclassBranch, .callableBranch, .anyClasses, .dictKwargsLoad, .discard, .applyConfigPath,
   .applyConfigStr, .configLoad, .helpImport, .yamlLoad]

def wrapperName : Wrapper → String
  | .outer m => "outer." ++ methodName m
  | w => lastName (reprStr w)

def answer (j : Json) : Json :=
  match getStr j "q" with
  | "cert" =>
    Json.arr (Mode.all.flatMap (fun mode => [false, true].map (fun (top : Bool) =>
      Json.mkObj [("mode", Json.str (modeName mode)), ("top", Json.bool top),
        ("table", Json.arr ((flight T mode top).map (fun l => Json.arr (l.map (fun (n : Nat) => (n : Json))).toArray)).toArray)]))).toArray
  | "routeStage" =>
    match findBy Mode.all modeName (getStr j "mode"), findBy Stage.all stageName (getStr j "stage"),
          findBy Exc.all excName (getStr j "exc") with
    | some mode, some st, some c =>
      let top := getBool j "top"
      -- seed the class where regions of the stage are designed to raise it; an undesigned class: at every region of the stage
      let designedAt : Region → Bool := fun r => (born T mode false false r).contains (.exc c (bornTag r))
      let designedHere := Region.all.any (fun r => stageOf r = some st && designedAt r)
      let seed : St → List Sig := fun s =>
        if stageOf s.1 = some st && (designedAt s.1 || !designedHere) then [.exc c (bornTag s.1)] else []
      let F := flightIter T mode top seed rounds
      let outs (m : Method) : List Json :=
        ((roots m).flatMap (fun r => (F.sigs (r, top)).map (fun s => stepRegion T mode top top r s))).foldl
          (fun acc s =>
            let j := Json.mkObj [("o", Json.str (outcomeName (outcome T top s))), ("tag", Json.str (tagName s.tag))]
            if acc.contains j then acc else acc ++ [j]) []
      Json.mkObj [("designed", Json.bool designedHere),
        ("outcomes", Json.mkObj (Method.all.map (fun m => (methodName m, Json.arr (outs m).toArray))))]
    | _, _, _ => Json.mkObj [("error", "bad mode/stage/exc")]
  | "routeRegion" =>
    -- every outcome, per public method and over all call paths, of class `exc` raised inside region `region`
    match findBy Mode.all modeName (getStr j "mode"), findBy Region.all regionName (getStr j "region"),
          findBy Exc.all excName (getStr j "exc") with
    | some mode, some r, some c =>
      let top := getBool j "top"
      let s : Sig := .exc c (bornTag r)
      let designedHere := (born T mode false false r).contains s
      let seed : St → List Sig := fun st => if st.1 = r then [s] else []
      let F := flightIter T mode top seed rounds
      let outs (m : Method) : List Json :=
        ((roots m).flatMap (fun rt => (F.sigs (rt, top)).map (fun s => stepRegion T mode top top rt s))).foldl
          (fun acc s =>
            let j := Json.mkObj [("o", Json.str (outcomeName (outcome T top s))), ("tag", Json.str (tagName s.tag))]
            if acc.contains j then acc else acc ++ [j]) []
      Json.mkObj [("designed", Json.bool designedHere),
        ("stage", match stageOf r with | some st => Json.str (stageName st) | none => Json.null),
        ("outcomes", Json.mkObj (Method.all.map (fun m => (methodName m, Json.arr (outs m).toArray))))]
    | _, _, _ => Json.mkObj [("error", "bad mode/region/exc")]
  | "regions" =>
    Json.mkObj (Region.all.map (fun r => (regionName r,
      Json.mkObj [("stage", match stageOf r with | some st => Json.str (stageName st) | none => Json.null),
                  ("wrappers", Json.arr ((wrappers r).map (fun w => Json.str (wrapperName w))).toArray),
                  ("children", Json.arr ((children r).map (fun c => Json.str (regionName c))).toArray)])))
  | "routePath" =>
    match findBy Mode.all modeName (getStr j "mode"), findBy Region.all regionName (getStr j "root"),
          findBy Exc.all excName (getStr j "exc") with
    | some mode, some root, some c =>
      let top := getBool j "top"
      let path := (getStrs j "path").filterMap (findBy Region.all regionName)
      let lf := leaf root path
      let s : Sig := .exc c (bornTag lf)
      Json.mkObj [("valid", Json.bool (chain root path)), ("leaf", Json.str (regionName lf)),
        ("designed", Json.bool ((born T mode top (effLeaf T top path) lf).contains s)),
        ("signal", sigJson (routeSig T mode top root path s)),
        ("outcome", Json.str (outcomeName (routePath T mode top root path s)))]
    | _, _, _ => Json.mkObj [("error", "bad mode/root/exc")]
  | "stageRaises" =>
    match findBy Mode.all modeName (getStr j "mode") with
    | some mode =>
      Json.mkObj (Stage.all.map (fun st => (stageName st, Json.arr ((stageRaises T mode st).map (fun c => Json.str (excName c))).toArray)))
    | none => Json.mkObj [("error", "bad mode")]
  | "tables" =>
    Json.mkObj [
      ("handlers", Json.mkObj (wrapperAll.map (fun w =>
        (wrapperName w, Json.mkObj [("caught", Json.arr ((T.handler w).caught.map (fun r => Json.str (refName r))).toArray),
                                    ("act", actName (T.handler w).act)])))),
      ("loaderExc", Json.mkObj (Mode.all.map (fun m => (modeName m, Json.arr ((T.loaderExc m).map (fun c => Json.str (excName c))).toArray)))),
      ("errorExit", match T.error.exitStatus with | some n => (n : Json) | none => Json.null),
      ("errorRaises", match T.error.raisesWhenNoExit with | some c => Json.str (excName c) | none => Json.null),
      ("subInherited", Json.arr (T.subInherited.map Json.str).toArray), ("printConfigCleanup", Json.str (lastName (reprStr T.printConfigCleanup))), ("plainExit", (T.plainExit : Json)), ("innerExitOnError", Json.bool T.innerExitOnError), ("helpExitOnError", match T.helpExitOnError with | some b => Json.bool b | none => Json.str "inherits"),
      ("regions", (Region.all.length : Json)), ("states", (St.all.length : Json))]
  | "staticLeaves" =>
    let ls := Jap.Gen.ExcFlowRaises.leaves
    Json.mkObj [
      ("leaves", Json.arr (ls.map (fun l => Json.mkObj [("name", Json.str l.name), ("region", Json.str (regionName l.region)),
        ("classes", Json.arr ((l.escapes.map (fun o => excName o.cls)).eraseDups.map Json.str).toArray),
        ("origins", (l.escapes.length : Json)),
        ("covered", ((l.escapes.filter (fun o => l.modes.all (fun mode => covered T mode l o.cls))).length : Json)),
        ("excused", Json.arr ((l.escapes.filter (fun o => !(l.modes.all (fun mode => covered T mode l o.cls)) && excuses.any (excusedBy l o))).map
          (fun o => Json.str (excName o.cls ++ " @ " ++ o.expr))).toArray)])).toArray),
      ("uncovered", Json.arr ((uncovered T excuses ls).map (fun (n, c, e) =>
        Json.mkObj [("leaf", Json.str n), ("class", Json.str (excName c)), ("origin", Json.str e)])).toArray)]
  | q => Json.mkObj [("bad-query", q)]

partial def loop (h : IO.FS.Stream) (out : IO.FS.Stream) : IO Unit := do
  let line ← h.getLine
  if line.isEmpty then return ()
  match Json.parse line with
  | .error e => out.putStrLn (Json.mkObj [("bad-json", .str e)]).compress
  | .ok j => out.putStrLn (answer j).compress
  loop h out

def main : IO Unit := do
  let stdin ← IO.getStdin
  let stdout ← IO.getStdout
  loop stdin stdout

/-
JSON-lines driver for E7 (effect model of ArgumentParser.save).  Run with
  lake env lean --run Drv/Save.lean < cases.jsonl
Input line:
  {"fs":[[path,content],...], "env":{"noparent":[..],"ro":[..],"nonfile":[..]},
   "path":str, "overwrite":bool|null, "multifile":bool|null, "format_ok":bool,
   "dump":{"text":str}|{"fail":kind}, "wr":{"open":bool,"write":bool}, "validate_ok":bool,
   "subs":[{"path":str,"kind":"cfg"|"content","text":{..},"src":str,"read_ok":bool,"wr":{..}},...]}
`null`/absent overwrite and multifile mean "keyword not passed" (the model's defaults).
"env" may hold "links":[[spelling,resolved],...]: every target goes through `Env.resolve` (`saveR`).
A line with "branch":"fsspec" runs `saveFsspec` instead ("branch":"fsspec-old" + "probe_ok":bool: the regression
record `saveFsspecOld`).
Output line: {"outcome":"ok"|kind, "fs":[[path,content],...], "early":bool, "written":nat}
-/
import Lean.Data.Json
import Jap.Core.Save
import Jap.Lemmas.Save
import Jap.Lemmas.SavePartial

open Lean Jap.Save

def getStr (j : Json) (k : String) : String :=
  match j.getObjVal? k with
  | .ok (.str s) => s
  | _ => ""

def getBoolD (j : Json) (k : String) (d : Bool) : Bool :=
  match j.getObjVal? k with
  | .ok (.bool b) => b
  | _ => d

def getArr (j : Json) (k : String) : List Json :=
  match j.getObjVal? k with
  | .ok (.arr xs) => xs.toList
  | _ => []

def getStrs (j : Json) (k : String) : List String :=
  (getArr j k).filterMap fun x => match x with | .str s => some s | _ => none

def getObj (j : Json) (k : String) : Json :=
  match j.getObjVal? k with
  | .ok v => v
  | _ => Json.mkObj []

def errOfString : String → Err
  | "format" => .format
  | "path" => .path
  | "refuse" => .refuse
  | "invalid" => .invalid
  | "unserialisable" => .unserialisable
  | "os" => .os
  | "notImplemented" => .notImplemented
  | _ => .io

def errToString : Err → String
  | .format => "format"
  | .path => "path"
  | .refuse => "refuse"
  | .invalid => "invalid"
  | .unserialisable => "unserialisable"
  | .os => "os"
  | .io => "io"
  | .notImplemented => "notImplemented"

def outcomeOf (j : Json) : Outcome :=
  match j.getObjVal? "text" with
  | .ok (.str s) => .text s
  | _ => .fail (errOfString (getStr j "fail"))

def wrOf (j : Json) : Wr := { openOk := getBoolD j "open" true, writeOk := getBoolD j "write" true }

def subOf (j : Json) : Sub :=
  { path := getStr j "path",
    kind := if getStr j "kind" == "content" then .content else .cfg,
    text := outcomeOf (getObj j "text"),
    src := getStr j "src",
    readOk := getBoolD j "read_ok" true,
    wr := wrOf (getObj j "wr") }

def fsOf (j : Json) : FS :=
  (getArr j "fs").filterMap fun x => match x with
    | .arr #[.str p, .str c] => some (p, c)
    | _ => none

def linksOf (j : Json) : List (String × String) :=
  (getArr j "links").filterMap fun x => match x with
    | .arr #[.str p, .str c] => some (p, c)
    | _ => none

def outJson (r : Result) (early : Bool) (written : Nat) : Json :=
  let out := match r.1 with
    | .ok _ => "ok"
    | .error x => errToString x
  Json.mkObj [("outcome", .str out),
              ("fs", .arr (r.2.map fun pc => Json.arr #[.str pc.1, .str pc.2]).toArray),
              ("early", .bool early), ("written", .num written)]

def stepFsspec (j : Json) : Json :=
  let dflt : FInput := { path := "", dump := .text "" }
  let i : FInput :=
    { path := getStr j "path",
      overwrite := getBoolD j "overwrite" dflt.overwrite,
      multifile := getBoolD j "multifile" dflt.multifile,
      formatOk := getBoolD j "format_ok" true,
      probeOk := getBoolD j "probe_ok" true,
      dump := outcomeOf (getObj j "dump"),
      wr := wrOf (getObj j "wr") }
  if getStr j "branch" == "fsspec-old" then outJson (saveFsspecOld (fsOf j) i) (!i.formatOk || !i.probeOk) 0
  else outJson (saveFsspec (fsOf j) i) true 0

def step (j : Json) : Json :=
  if getStr j "branch" == "fsspec" || getStr j "branch" == "fsspec-old" then stepFsspec j else
  let dflt : Input := { path := "", dump := .text "" }
  let e := getObj j "env"
  let env : Env := { noParent := getStrs e "noparent", roParent := getStrs e "ro", nonFile := getStrs e "nonfile",
                     links := linksOf e }
  let fs := fsOf j
  let i : Input :=
    { path := getStr j "path",
      overwrite := getBoolD j "overwrite" dflt.overwrite,
      multifile := getBoolD j "multifile" dflt.multifile,
      formatOk := getBoolD j "format_ok" true,
      dump := outcomeOf (getObj j "dump"),
      wr := wrOf (getObj j "wr"),
      validateOk := getBoolD j "validate_ok" true,
      subs := (getArr j "subs").map subOf }
  let ir := i.resolved env
  outJson (saveR env fs i) (failsByFirstOpen env fs ir) (writtenCount env fs ir)

partial def loop (h : IO.FS.Stream) (out : IO.FS.Stream) : IO Unit := do
  let line ← h.getLine
  if line.isEmpty then return ()
  match Json.parse line with
  | .error e => out.putStrLn (Json.mkObj [("bad-json", .str e)]).compress
  | .ok j => out.putStrLn (step j).compress
  loop h out

def main : IO Unit := do
  let stdin ← IO.getStdin
  let stdout ← IO.getStdout
  loop stdin stdout

/-
JSON-lines driver for the engine "Scalar" (C01/C05).  Run with
  lake env lean --run Drv/Scalar.lean < cases.jsonl
Strings travel as arrays of code points (no dependence on either JSON library's escaping).
  {"op":"resolve","s":[..]}  -> {"d":dumperTagCode,"l":loaderTagCode,"img":imageBits,"state":jointState}
  {"op":"escape","s":[..]}   -> {"r":[..]}                       json.dumps escaping (between the quotes)
  {"op":"dq","s":[..]}       -> {"r":[..]} | {"r":null}          YAML double-quoted scanning of that text
  {"op":"rt","s":[..]}       -> {"r":[..]} | {"r":null}          dq (escape s)
  {"op":"emit","s":[..],"col":n} -> {"plainOK","allowSingle","multiline","styleV","styleK","textV":[..],"textK":[..],"emitV":[..]|null,"emitK":[..]|null}
  {"op":"loadline","s":[..],"col0":bool} -> {"r":null} | {"tag":code,"v":[..],"rest":[..]}
  {"op":"emitdoc","v":V}     -> {"r":[..]|null,"ok":bool}       block-style text of a nested value; ok = VOK
  {"op":"loaddoc","s":[..]}  -> {"r":V|null}                    the loader model on a whole text
     V ::= {"sc":[tagCode,[codes]]} | {"list":[V..]} | {"dict":[[[tagCode,[codes]],V]..]}
  {"op":"jdump","v":V,"indented":bool} -> {"r":[..],"ok":bool}  json.dumps text (compact / indent 2 + LF); ok = JOK
  {"op":"jload","s":[..]}    -> {"r":V|null}                    the YAML loader model on a JSON text
  {"op":"skipdef","sch":S,"cfg":V,"dflt":V} -> {"dumped":V|null,"reduced":V,"reparsed":V,"stable":bool,"conf":bool}
     S ::= "leaf" | {"group":[[[tagCode,[codes]],S]..]};  reduced = delKV of the two top-level dicts
  {"op":"info"}              -> table sizes and names
-/
import Lean.Data.Json
import Jap.Core.JsonDoc
import Jap.Core.SkipDefault

open Lean Jap.Scalar

def charsOf (j : Json) : List Char :=
  match j.getObjVal? "s" with
  | .ok (.arr xs) => xs.toList.map fun x => match x with
    | .num n => Char.ofNat n.mantissa.toNat
    | _ => 'x'
  | _ => []

def codes (s : List Char) : Json := .arr (s.map fun c => Json.num (JsonNumber.fromNat c.toNat)).toArray

def optCodes : Option (List Char) → Json
  | some s => codes s
  | none => .null

def scOfJson (j : Json) : Sc :=
  match j with
  | .arr #[.num t, .arr xs] => ⟨Tag.ofNat t.mantissa.toNat, xs.toList.map fun x => match x with
      | .num n => Char.ofNat n.mantissa.toNat
      | _ => 'x'⟩
  | _ => ⟨.str, []⟩

instance : Inhabited V := ⟨.sc ⟨.str, []⟩⟩

partial def vOfJson (j : Json) : V :=
  match j.getObjVal? "sc" with
  | .ok s => .sc (scOfJson s)
  | _ =>
    match j.getObjVal? "list" with
    | .ok (.arr xs) => .list (xs.toList.foldr (fun x acc => .cons (vOfJson x) acc) .nil)
    | _ =>
      match j.getObjVal? "dict" with
      | .ok (.arr kvs) => .dict (kvs.toList.foldr (fun kv acc => match kv with
          | .arr #[k, v] => .cons (scOfJson k) (vOfJson v) acc
          | _ => acc) .nil)
      | _ => .sc ⟨.str, []⟩

def scToJson (s : Sc) : Json := .arr #[.num (JsonNumber.fromNat s.tag.code), codes s.text]

mutual
partial def vToJson : V → Json
  | .sc s => Json.mkObj [("sc", scToJson s)]
  | .list xs => Json.mkObj [("list", .arr (vlToJson xs).toArray)]
  | .dict kvs => Json.mkObj [("dict", .arr (kvlToJson kvs).toArray)]
partial def vlToJson : VL → List Json
  | .nil => []
  | .cons x xs => vToJson x :: vlToJson xs
partial def kvlToJson : KVL → List Json
  | .nil => []
  | .cons k v r => .arr #[scToJson k, vToJson v] :: kvlToJson r
end

instance : Inhabited Sch := ⟨.leaf⟩

partial def schOfJson (j : Json) : Sch :=
  match j.getObjVal? "group" with
  | .ok (.arr fs) => .group (fs.toList.foldr (fun f acc => match f with
      | .arr #[k, s] => .cons (scOfJson k) (schOfJson s) acc
      | _ => acc) .nil)
  | _ => .leaf

def getStr (j : Json) (k : String) : String :=
  match j.getObjVal? k with
  | .ok (.str s) => s
  | _ => ""

def step (j : Json) : Json :=
  let s := charsOf j
  match getStr j "op" with
  | "resolve" =>
    let q := jrun 0 (classes s)
    Json.mkObj [("d", .num (JsonNumber.fromNat (tagD q))), ("l", .num (JsonNumber.fromNat (tagL q))),
      ("img", .num (JsonNumber.fromNat (Jap.Dfa.fld Jap.Gen.Resolvers.jimg Jap.Gen.Resolvers.nimg q))),
      ("state", .num (JsonNumber.fromNat q))]
  | "escape" => Json.mkObj [("r", codes (jsonEscape s))]
  | "dq" => Json.mkObj [("r", optCodes (yamlDqUnescape s))]
  | "rt" => Json.mkObj [("r", optCodes (jsonStringRoundTrip s))]
  | "emit" =>
    let col := match j.getObjVal? "col" with
      | .ok (.num n) => n.mantissa.toNat
      | _ => 0
    let sty (x : Style) : Json := match x with
      | .plain => "plain" | .single => "single" | .double => "double"
    Json.mkObj [("plainOK", .bool (allowBlockPlain allowUnicodeCfg s)), ("allowSingle", .bool (allowSingle allowUnicodeCfg s)),
      ("multiline", .bool (isMultiline s)), ("styleV", sty (styleOf false s)), ("styleK", sty (styleOf true s)),
      ("textV", codes (textOf false s)), ("textK", codes (textOf true s)),
      ("emitV", optCodes (emitScalar col s)), ("emitK", optCodes (emitKey s))]
  | "loadline" =>
    match loadLine s with
    | none => Json.mkObj [("r", .null)]
    | some (t, v, r) => Json.mkObj [("tag", .num (JsonNumber.fromNat t.code)), ("v", codes v), ("rest", codes r)]
  | "emitdoc" =>
    let v := vOfJson (j.getObjValD "v")
    Json.mkObj [("r", optCodes (emitDoc v)), ("ok", .bool (VOK v))]
  | "loaddoc" =>
    match loadDoc s with
    | none => Json.mkObj [("r", .null)]
    | some v => Json.mkObj [("r", vToJson v)]
  | "jdump" =>
    let v := vOfJson (j.getObjValD "v")
    let ind := match j.getObjVal? "indented" with
      | .ok (.bool b) => b
      | _ => false
    Json.mkObj [("r", codes (if ind then jsonIndentedDump v else jsonDump v)), ("ok", .bool (JOK v))]
  | "jload" =>
    match jsonLoad s with
    | none => Json.mkObj [("r", .null)]
    | some v => Json.mkObj [("r", vToJson v)]
  | "skipdef" =>
    let sch := schOfJson (j.getObjValD "sch")
    let cfg := vOfJson (j.getObjValD "cfg")
    let dflt := vOfJson (j.getObjValD "dflt")
    let dumped := dumpedNode cfg dflt
    Json.mkObj [("dumped", match dumped with | some v => vToJson v | none => .null),
      ("reduced", vToJson (.dict (delKV (fieldsOf cfg) (fieldsOf dflt)))),
      ("reparsed", vToJson (reparse sch dflt dumped)), ("stable", .bool (leafStable sch cfg dflt)),
      ("conf", .bool (conf sch cfg && conf sch dflt && nodupS sch))]
  | "info" => Json.mkObj [("K", .num (JsonNumber.fromNat Jap.Gen.Resolvers.K)), ("nstates", .num (JsonNumber.fromNat Jap.Gen.Resolvers.nstates)),
      ("tags", .arr (Jap.Gen.Resolvers.tagNames.map Json.str).toArray), ("images", .arr (Jap.Gen.Resolvers.imgNames.map Json.str).toArray),
      ("ensure_ascii", .bool Jap.Gen.DumpCfg.jsonEnsureAscii)]
  | op => Json.mkObj [("bad-op", .str op)]

partial def loop (h : IO.FS.Stream) (out : IO.FS.Stream) : IO Unit := do
  let line ← h.getLine
  if line.isEmpty then return ()
  match Json.parse line with
  | .error e => out.putStrLn (Json.mkObj [("bad-json", .str e)]).compress
  | .ok j => out.putStrLn (step j).compress
  loop h out

def main : IO Unit := do
  let stdin ← IO.getStdin
  let stdout ← IO.getStdout
  loop stdin stdout

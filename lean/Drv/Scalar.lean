/-
JSON-lines driver for the engine "Scalar" (C01/C05).  Run with
  lake env lean --run Drv/Scalar.lean < cases.jsonl
Strings travel as arrays of code points (no dependence on either JSON library's escaping).
  {"op":"resolve","s":[..]}  -> {"d":dumperTagCode,"l":loaderTagCode,"img":imageBits,"state":jointState}
  {"op":"escape","s":[..]}   -> {"r":[..]}                       json.dumps escaping (between the quotes)
  {"op":"dq","s":[..]}       -> {"r":[..]} | {"r":null}          YAML double-quoted scanning of that text
  {"op":"rt","s":[..]}       -> {"r":[..]} | {"r":null}          dq (escape s)
  {"op":"emit","s":[..],"col":n} -> {"plainOK","allowSingle","multiline","styleV","styleK","textV":[..],"textK":[..],"emitV":[..]|null,"emitK":[..]|null}
  {"op":"loadline","s":[..],"col0":bool} -> {"r":null} | {"tag":code,"v":[..],"rest":[..]}
  {"op":"info"}              -> table sizes and names
-/
import Lean.Data.Json
import Jap.Core.Emitter

open Lean Jap.Scalar

def charsOf (j : Json) : List Char :=
  match j.getObjVal? "s" with
  | .ok (.arr xs) => xs.toList.map fun x => match x with
    | .num n => Char.ofNat n.mantissa.toNat
    | _ => 'x'
  | _ => []

def codes (s : List Char) : Json := .arr (s.map fun c => Json.num (JsonNumber.fromNat c.toNat)).toArray

def optCodes : Option (List Char) → Json
  | some s => codes s
  | none => .null

def getStr (j : Json) (k : String) : String :=
  match j.getObjVal? k with
  | .ok (.str s) => s
  | _ => ""

def step (j : Json) : Json :=
  let s := charsOf j
  match getStr j "op" with
  | "resolve" =>
    let q := jrun 0 (classes s)
    Json.mkObj [("d", .num (JsonNumber.fromNat (tagD q))), ("l", .num (JsonNumber.fromNat (tagL q))),
      ("img", .num (JsonNumber.fromNat (Jap.Dfa.fld Jap.Gen.Resolvers.jimg Jap.Gen.Resolvers.nimg q))),
      ("state", .num (JsonNumber.fromNat q))]
  | "escape" => Json.mkObj [("r", codes (jsonEscape s))]
  | "dq" => Json.mkObj [("r", optCodes (yamlDqUnescape s))]
  | "rt" => Json.mkObj [("r", optCodes (jsonStringRoundTrip s))]
  | "emit" =>
    let col := match j.getObjVal? "col" with
      | .ok (.num n) => n.mantissa.toNat
      | _ => 0
    let sty (x : Style) : Json := match x with
      | .plain => "plain" | .single => "single" | .double => "double"
    Json.mkObj [("plainOK", .bool (allowBlockPlain allowUnicodeCfg s)), ("allowSingle", .bool (allowSingle allowUnicodeCfg s)),
      ("multiline", .bool (isMultiline s)), ("styleV", sty (styleOf false s)), ("styleK", sty (styleOf true s)),
      ("textV", codes (textOf false s)), ("textK", codes (textOf true s)),
      ("emitV", optCodes (emitScalar col s)), ("emitK", optCodes (emitKey s))]
  | "loadline" =>
    match loadLine s with
    | none => Json.mkObj [("r", .null)]
    | some (t, v, r) => Json.mkObj [("tag", .num (JsonNumber.fromNat t.code)), ("v", codes v), ("rest", codes r)]
  | "info" => Json.mkObj [("K", .num (JsonNumber.fromNat Jap.Gen.Resolvers.K)), ("nstates", .num (JsonNumber.fromNat Jap.Gen.Resolvers.nstates)),
      ("tags", .arr (Jap.Gen.Resolvers.tagNames.map Json.str).toArray), ("images", .arr (Jap.Gen.Resolvers.imgNames.map Json.str).toArray),
      ("ensure_ascii", .bool Jap.Gen.DumpCfg.jsonEnsureAscii)]
  | op => Json.mkObj [("bad-op", .str op)]

partial def loop (h : IO.FS.Stream) (out : IO.FS.Stream) : IO Unit := do
  let line ← h.getLine
  if line.isEmpty then return ()
  match Json.parse line with
  | .error e => out.putStrLn (Json.mkObj [("bad-json", .str e)]).compress
  | .ok j => out.putStrLn (step j).compress
  loop h out

def main : IO Unit := do
  let stdin ← IO.getStdin
  let stdout ← IO.getStdout
  loop stdin stdout

/-
JSON-lines driver for E3 (adapter model).  Run with
  lake env lean --run Drv/Adapt.lean < cases.jsonl
One JSON object per input line:
  {"t": <type>, "v": <value>, "o": <oracle tables>, "want": ["adapt","check","parseObj","parseArg","ser","conf",...]}
and one JSON object per output line with one entry per requested item.

values: null | true/false | <int> | {"f": repr} | "str" | [..] | {"t":[..]} | {"s":[..]} | {"d":[[k,v],..]} | {"e":[cls,name]}
types : "str"|"int"|"float"|"bool"|"none"|"any" | {"u":[..]} | {"l":t} | {"d":["str"|"int",t]} | {"t":[..]} | {"tv":t}
        | {"s":t} | {"lit":[..]} | {"e":[cls,[names]]}
types also: {"rn":["int"|"float"|"str", k]} restricted type k, {"reg": k} registered type k; values also {"o":[k, repr]}.
oracle also: "numstr"/"baseof": [[base, value, value | null]], "rnumok": [[k, value, true|false]],
             "regdeser"/"regser": [[k, value, value | null]] (tags as strings; null = the function raises)
oracle also: "rspec": [[k, {"re": <Re>} | {"num": {"or": bool, "rs": [[">"|">="|"<"|"<="|"=="|"!=", <int> | {"f": repr}]]}}]]
             specification of the restricted type k: its predicate is then COMPUTED by the model (Core/AdaptRestr.lean) and
             "rnumok" is not consulted for k.  <Re>: {"k":"eps"|"bol"|"eol"|"mbol"|"meol"} | {"k":"cls","neg":b,"r":[[lo,hi]]}
             | {"k":"cat"|"alt","a":[..]} | {"k":"star","a":[x]}
oracle: {"yaml":[[s, value | {"x":1}]], "any":[[s, value | {"x":1}]], "bigflt":[[i, repr | null (= OverflowError)]], "intof":[[s, i | null]]}
        ({"x":1} = the loader raised).  A string that the model could look up but that has no table entry is
        reported as {"miss": s} instead of guessing.
-/
import Lean.Data.Json
import Jap.Core.Adapt
import Jap.Core.AdaptRestr
import Jap.Gen.AdaptTables

open Lean Jap.Adapt

def intOfJson? : Json → Option Int
  | .num n => if n.exponent == 0 then some n.mantissa else none
  | _ => none

partial def valOfJson : Json → Except String Val
  | .null => .ok .null
  | .bool b => .ok (.bool b)
  | .num n => if n.exponent == 0 then .ok (.int n.mantissa) else .error "non-integer number"
  | .str s => .ok (.str s)
  | .arr xs => do
    let ys ← xs.toList.mapM valOfJson
    pure (.list ys)
  | j@(.obj _) => do
    if let .ok (.str r) := j.getObjVal? "f" then pure (.flt r)
    else if let .ok (.arr xs) := j.getObjVal? "t" then
      let ys ← xs.toList.mapM valOfJson
      pure (.tuple ys)
    else if let .ok (.arr xs) := j.getObjVal? "s" then
      let ys ← xs.toList.mapM valOfJson
      pure (.set ys)
    else if let .ok (.arr xs) := j.getObjVal? "d" then
      let ys ← xs.toList.mapM kv
      pure (.dict ys)
    else if let .ok (.arr #[.num c, .str n]) := j.getObjVal? "e" then
      pure (.enum c.mantissa.toNat n)
    else if let .ok (.arr #[.num k, .str r]) := j.getObjVal? "o" then
      pure (.obj k.mantissa.toNat r)
    else .error "bad value object"
where
  kv : Json → Except String (DKey × Val)
    | .arr #[.str k, v] => do
      let v' ← valOfJson v
      pure (.str k, v')
    | .arr #[.num k, v] => do
      let v' ← valOfJson v
      pure (.int k.mantissa, v')
    | _ => .error "bad kv"

partial def valToJson : Val → Json
  | .null => .null
  | .bool b => .bool b
  | .int i => .num (JsonNumber.fromInt i)
  | .flt r => Json.mkObj [("f", .str r)]
  | .str s => .str s
  | .list xs => .arr (xs.map valToJson).toArray
  | .tuple xs => Json.mkObj [("t", .arr (xs.map valToJson).toArray)]
  | .set xs => Json.mkObj [("s", .arr (xs.map valToJson).toArray)]
  | .dict kvs => Json.mkObj [("d", .arr (kvs.map fun kv =>
      Json.arr #[(match kv.1 with | .str s => Json.str s | .int i => .num (JsonNumber.fromInt i)), valToJson kv.2]).toArray)]
  | .enum c n => Json.mkObj [("e", .arr #[.num (JsonNumber.fromNat c), .str n])]
  | .obj k r => Json.mkObj [("o", .arr #[.num (JsonNumber.fromNat k), .str r])]

def litOfJson : Json → Except String Lit
  | .str s => .ok (.str s)
  | .bool b => .ok (.bool b)
  | .num n => .ok (.int n.mantissa)
  | _ => .error "bad literal member"

partial def tyOfJson : Json → Except String Ty
  | .str "str" => .ok .str
  | .str "int" => .ok .int
  | .str "float" => .ok .float
  | .str "bool" => .ok .bool
  | .str "none" => .ok .none
  | .str "any" => .ok .any
  | j@(.obj _) => do
    if let .ok (.arr xs) := j.getObjVal? "u" then
      let ts ← xs.toList.mapM tyOfJson
      pure (.union ts)
    else if let .ok t := j.getObjVal? "l" then
      pure (.list (← tyOfJson t))
    else if let .ok (.arr #[.str k, t]) := j.getObjVal? "d" then
      pure (.dict (if k == "int" then .int else .str) (← tyOfJson t))
    else if let .ok (.arr xs) := j.getObjVal? "t" then
      let ts ← xs.toList.mapM tyOfJson
      pure (.tuple ts)
    else if let .ok t := j.getObjVal? "tv" then
      pure (.tupleVar (← tyOfJson t))
    else if let .ok t := j.getObjVal? "s" then
      pure (.set (← tyOfJson t))
    else if let .ok (.arr xs) := j.getObjVal? "lit" then
      let ls ← xs.toList.mapM litOfJson
      pure (.literal ls)
    else if let .ok (.arr #[.str b, .num k]) := j.getObjVal? "rn" then
      pure (.rnum (if b == "int" then .int else if b == "float" then .float else .str) k.mantissa.toNat)
    else if let .ok (.num k) := j.getObjVal? "reg" then
      pure (.reg k.mantissa.toNat)
    else if let .ok (.arr #[.num c, .arr ns]) := j.getObjVal? "e" then
      let names := ns.toList.filterMap fun | .str s => some s | _ => none
      pure (.enum c.mantissa.toNat names)
    else .error "bad type object"
  | _ => .error "bad type"

/-! ### oracle tables -/

structure Tables where
  yaml : List (String × Option Val) := []
  any : List (String × Option Val) := []
  bigflt : List (Int × Option String) := []
  intof : List (String × Option Int) := []
  -- keyed tables for the registered / restricted leaves: key = "<tag>|<compressed JSON of the value>"
  keyed : List (String × Option Val) := []
  rspec : List (Nat × Restr) := []


/-! ### specifications of restricted types -/

partial def reOfJson (j : Json) : Re :=
  let kids : List Re := match j.getObjVal? "a" with | .ok (.arr xs) => xs.toList.map reOfJson | _ => []
  match j.getObjVal? "k" with
  | .ok (.str "cls") =>
    let neg := match j.getObjVal? "neg" with | .ok (.bool b) => b | _ => false
    let rs := match j.getObjVal? "r" with
      | .ok (.arr ps) => ps.toList.filterMap fun p => match p with
        | .arr #[.num a, .num b] => some (a.mantissa.toNat, b.mantissa.toNat)
        | _ => none
      | _ => []
    .cls neg rs
  | .ok (.str "cat") => kids.foldr (fun a b => .cat a b) .eps
  | .ok (.str "alt") => (match kids with | [] => .eps | k :: ks => ks.foldl (fun a b => .alt a b) k)
  | .ok (.str "star") => (match kids with | k :: _ => .star k | [] => .eps)
  | .ok (.str "bol") => .bol
  | .ok (.str "eol") => .eol
  | .ok (.str "mbol") => .mbol
  | .ok (.str "meol") => .meol
  | _ => .eps

def cmpOfSym : String → Option Cmp
  | ">" => some .gt | ">=" => some .ge | "<" => some .lt | "<=" => some .le | "==" => some .eq | "!=" => some .ne
  | _ => none

def numOfJson (j : Json) : Except String Num :=
  match j with
  | .num n => if n.exponent == 0 then .ok (.dec n.mantissa 0) else .error "non-integer reference"
  | j => match j.getObjVal? "f" with
    | .ok (.str r) => .ok (fltNum r)
    | _ => .error "bad reference"

def restrOfJson (j : Json) : Except String Restr :=
  match j.getObjVal? "re" with
  | .ok r => .ok (.re (reOfJson r))
  | .error _ =>
    match j.getObjVal? "num" with
    | .ok n => do
      let isOr := match n.getObjVal? "or" with | .ok (.bool b) => b | _ => false
      let items : List Json := match n.getObjVal? "rs" with | .ok (.arr xs) => xs.toList | _ => []
      let rs ← items.mapM fun (p : Json) =>
        match p with
        | Json.arr #[Json.str op, ref] => do
          let c ← (match cmpOfSym op with | some c => pure c | none => throw "bad comparison")
          let x ← numOfJson ref
          pure (c, x)
        | _ => throw "bad restriction"
      pure (.num isOr rs)
    | .error _ => .error "bad restriction spec"

def loadEntry (j : Json) : Except String (String × Option Val) :=
  match j with
  | .arr #[.str s, r] =>
    match r.getObjVal? "x" with
    | .ok _ => .ok (s, none)
    | .error _ => do
      let v ← valOfJson r
      pure (s, some v)
  | _ => .error "bad oracle entry"

def tablesOfJson (j : Json) : Except String Tables := do
  let arr (k : String) : List Json := match j.getObjVal? k with | .ok (.arr xs) => xs.toList | _ => []
  let yaml ← (arr "yaml").mapM loadEntry
  let any ← (arr "any").mapM loadEntry
  let bigflt := (arr "bigflt").filterMap fun
    | .arr #[.num i, .str r] => some (i.mantissa, some r)
    | .arr #[.num i, .null] => some (i.mantissa, none)
    | _ => none
  let intof := (arr "intof").filterMap fun
    | .arr #[.str s, .num i] => some (s, some i.mantissa)
    | .arr #[.str s, .null] => some (s, none)
    | _ => none
  let keyedOf (name : String) : Except String (List (String × Option Val)) :=
    (arr name).mapM fun e => match e with
      | .arr #[.str tag, v, r] => do
        let v' ← valOfJson v
        let r' ← (match r with | .null => pure none | r => (valOfJson r).map some)
        pure (name ++ "|" ++ tag ++ "|" ++ (valToJson v').compress, r')
      | _ => .error "bad keyed oracle entry"
  let k1 ← keyedOf "numstr"
  let k2 ← keyedOf "rnumok"
  let k3 ← keyedOf "baseof"
  let k4 ← keyedOf "regdeser"
  let k5 ← keyedOf "regser"
  let rspec ← (arr "rspec").mapM fun (e : Json) => match e with
    | Json.arr #[Json.num k, sp] => do
      let r ← restrOfJson sp
      pure (k.mantissa.toNat, r)
    | _ => .error "bad rspec entry"
  pure { yaml, any, bigflt, intof, keyed := k1 ++ k2 ++ k3 ++ k4 ++ k5, rspec }

def rbaseTag : RBase → String | .int => "int" | .float => "float" | .str => "str"

def Tables.baseOracle (T : Tables) : Oracle where
  yaml s := match T.yaml.lookup s with | some r => r | none => none
  loadAny s := match T.any.lookup s with | some r => r | none => none
  bigFlt i := match T.bigflt.lookup i with | some r => r | none => none
  intOf s := match T.intof.lookup s with | some r => r | none => none
  numStr b s := (T.keyed.lookup ("numstr|" ++ rbaseTag b ++ "|" ++ (Json.str s).compress)).join
  rnumOk k v := match (T.keyed.lookup ("rnumok|" ++ toString k ++ "|" ++ (valToJson v).compress)).join with
    | some (.bool true) => true
    | _ => false
  baseOf b v := (T.keyed.lookup ("baseof|" ++ rbaseTag b ++ "|" ++ (valToJson v).compress)).join
  regDeser k v := (T.keyed.lookup ("regdeser|" ++ toString k ++ "|" ++ (valToJson v).compress)).join
  regSer k v := (T.keyed.lookup ("regser|" ++ toString k ++ "|" ++ (valToJson v).compress)).join

/-- restrictions with a specification are computed by the model, the others looked up -/
def Tables.oracle (T : Tables) : Oracle := T.baseOracle.withRestr (fun k => T.rspec.lookup k)

/-- strings (values and dict keys) occurring in a value -/
partial def stringsOf : Val → List String
  | .str s => [s]
  | .list xs | .tuple xs | .set xs => xs.flatMap stringsOf
  | .dict kvs => kvs.flatMap fun kv => (match kv.1 with | .str s => [s] | _ => []) ++ stringsOf kv.2
  | _ => []

partial def intsOf : Val → List Int
  | .int i => [i]
  | .list xs | .tuple xs | .set xs => xs.flatMap intsOf
  | .dict kvs => kvs.flatMap fun kv => intsOf kv.2
  | _ => []

/-- first string / big int the model could look up that has no table entry -/
def findMiss (T : Tables) (v : Val) : Option String :=
  let results : List Val := v :: (T.yaml.filterMap (·.2)) ++ (T.any.filterMap (·.2))
  let strs := results.flatMap stringsOf
  let ints := results.flatMap intsOf
  let needNum := !T.rspec.isEmpty
  let numMiss (s : String) : Bool := needNum &&
    ((T.keyed.lookup ("numstr|int|" ++ (Json.str s).compress)).isNone || (T.keyed.lookup ("numstr|float|" ++ (Json.str s).compress)).isNone)
  match strs.find? (fun s => (T.yaml.lookup s).isNone || (T.any.lookup s).isNone || (T.intof.lookup s).isNone || numMiss s) with
  | some s => some s
  | none =>
    match ints.find? (fun i => i.natAbs > 2 ^ 53 && (T.bigflt.lookup i).isNone) with
    | some i => some (toString i)
    | none => none

def resToJson : Except Err Val → Json
  | .ok v => Json.mkObj [("ok", valToJson v)]
  | .error .value => Json.mkObj [("err", "value")]
  | .error .type => Json.mkObj [("err", "type")]

def strOfVal : Val → String | .str s => s | _ => ""

/-- one requested item -/
def item (O : Oracle) (t : Ty) (dflt : Option Val) (v : Val) (w : String) : Json :=
  match w with
  | "parseObjD" => resToJson (parseObjD O t dflt v)
  | "parseArgD" => resToJson (parseArgD O t dflt (strOfVal v))
  | "adapt" => resToJson (adapt O false none t v)
  | "check" => resToJson (checkType O t v)
  | "parseObj" => resToJson (parseObj O t v)
  | "parseArg" => resToJson (parseArg O t (strOfVal v))
  | "adaptStr" => resToJson (adaptStr O t (strOfVal v))
  | "ser" => resToJson (ser O t v)
  | "conf" => .bool (conf O.rnumOk t v)
  | "confLit" => .bool (confL O.rnumOk true false t v)
  | "confKey" => .bool (confL O.rnumOk false true t v)
  | "confLoose" => .bool (confL O.rnumOk true true t v)
  | "confBase" => .bool (conf (fun _ _ => true) t v)           -- the validator without the restrictions
  | "rnumOk" => (match t with | .rnum _ k => .bool (O.rnumOk k v) | _ => .null)
  | "hashable" => .bool (hashable v)
  | "branch" => .str (branchOf t)
  -- second pass on the result of a parse (C10)
  | "objAgain" => (match parseObj O t v with | .ok r => resToJson (parseObj O t r) | .error _ => .null)
  | "argAgain" => (match parseArg O t (strOfVal v) with | .ok r => resToJson (parseObj O t r) | .error _ => .null)
  | "objConf" => (match parseObj O t v with | .ok r => .bool (conf O.rnumOk t r) | .error _ => .null)
  | "argConf" => (match parseArg O t (strOfVal v) with | .ok r => .bool (conf O.rnumOk t r) | .error _ => .null)
  | _ => Json.mkObj [("bad-want", .str w)]

def handle (j : Json) : Json :=
  match j.getObjVal? "tables" with
  | .ok _ =>
    -- the regenerated constants, so that the harness can show what the model was built against
    Json.mkObj [("branches", .arr (Jap.Gen.adaptBranches.map Json.str).toArray), ("model", .arr (branchOrder.map Json.str).toArray)]
  | .error _ =>
  let r : Except String Json := do
    let t ← tyOfJson (j.getObjValD "t")
    let v ← valOfJson (j.getObjValD "v")
    let T ← tablesOfJson (j.getObjValD "o")
    let pureItem := match j.getObjVal? "pure" with | .ok (.bool true) => true | _ => false
    match (if pureItem then none else findMiss T v) with
    | some s => pure (Json.mkObj [("miss", .str s)])
    | none =>
      let O := T.oracle
      let wants := match j.getObjVal? "want" with
        | .ok (.arr xs) => xs.toList.filterMap fun (x : Json) => match x with | Json.str s => some s | _ => none
        | _ => []
      let dflt : Option Val := match j.getObjVal? "dflt" with
        | .ok d => (match valOfJson d with | .ok x => some x | .error _ => none)
        | .error _ => none
      pure (Json.mkObj (wants.map fun w => (w, item O t dflt v w)))
  match r with
  | .ok j => j
  | .error e => Json.mkObj [("bad-input", .str e)]

partial def loop (h : IO.FS.Stream) (out : IO.FS.Stream) : IO Unit := do
  let line ← h.getLine
  if line.isEmpty then return ()
  match Json.parse line with
  | .error e => out.putStrLn (Json.mkObj [("bad-json", .str e)]).compress
  | .ok j => out.putStrLn (handle j).compress
  loop h out

def main : IO Unit := do
  let stdin ← IO.getStdin
  let stdout ← IO.getStdout
  loop stdin stdout

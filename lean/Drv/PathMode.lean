/-
JSON-lines driver for E6 (PathMode).  Run with
  lake env lean --run Drv/PathMode.lean < ops.jsonl
One JSON object per input line, one per output line.

  {"op":"checkMode","modes":[s,…]}                       → {"r":[bool,…]}
  {"op":"checkPath","facts":{…},"modes":[s,…],"path":p}  → {"wf":bool,"r":[o,…],"sat":[bool,…]}
        o = "ok" | "pe<k>" | "os"; `path` optional ("-" = standard io)
  {"op":"mk","path":p,"expanded":e,"cwd":c}              → {"relative","absolute","cwd"}
  {"op":"load","cwd":c,"cpd":null|d,"ref":r,"items":[…]} → {"ok","trace":[{"rel","abs","base"}],"spec":[…],"cwd","cpd"}
        item = {"path":rel} | {"sub":ref,"items":[…]} | {"list":ref,"rels":[rel,…]} | {"fail":true}
               | {"obj":ref,"rem":dir,"dirmode":bool,"items":[…]}   (a config / directory given as a Path object)
  {"op":"run","cwd":c,"cpd":null|d,"items":[…]}           → the same for `runItems` (a command line), plus "nofail", "stable"
  {"op":"runfs","names":[p,…],"edges":[[from,seg,to],…],"cwd":k,"cpd":null|d,"items":[…]}
        → `runItemsF` over the file system given by the table (directory 0 = "/"): {"ok","trace","spec","exist","oldok" (the bracket before 6e92c59),"nofail","cwd":phys,"cpd"}
  {"op":"checktype","sat":bool,"v":s,"default":null|s} → {"r":"path"|"str"|"reject"}   (`checkTypePath`)
  {"op":"mkarg","obj":{"relative","absolute","cwd"}|null,"path":p,"expanded":e,"cwdarg":null|c,"oscwd":c} → mkPathArg
-/
import Lean.Data.Json
import Jap.Core.PathMode
import Jap.Gen.PathFlags
import Jap.Lemmas.PathMode
import Jap.Core.PathModeFS

open Lean Jap.PathMode

def getStr (j : Json) (k : String) : String :=
  match j.getObjVal? k with
  | .ok (.str s) => s
  | _ => ""

def getStrOpt (j : Json) (k : String) : Option String :=
  match j.getObjVal? k with
  | .ok (.str s) => some s
  | _ => none

def getBool (j : Json) (k : String) : Bool :=
  match j.getObjVal? k with
  | .ok (.bool b) => b
  | _ => false

def getStrs (j : Json) (k : String) : List String :=
  match j.getObjVal? k with
  | .ok (.arr xs) => xs.toList.filterMap fun x => match x with | .str s => some s | _ => none
  | _ => []

def factsOf (j : Json) : Facts :=
  { ex := getBool j "ex", statOk := getBool j "statOk", isDir := getBool j "isDir", isFile := getBool j "isFile",
    isFifo := getBool j "isFifo", r := getBool j "r", w := getBool j "w", x := getBool j "x",
    parDir := getBool j "parDir", parW := getBool j "parW",
    nearDir := getBool j "nearDir", nearW := getBool j "nearW" }

def outToJson : Out → Json
  | .ok => "ok"
  | .pathError k => .str ("pe" ++ toString k)
  | .osError => "os"

partial def itemsOf (j : Json) : List Item :=
  match j with
  | .arr xs => xs.toList.map fun x =>
      match x.getObjVal? "path", x.getObjVal? "sub", x.getObjVal? "list" with
      | _, _, _ =>
      if let .ok (.str r) := x.getObjVal? "obj" then
        Item.subObj r.toList (getStr x "rem").toList (getBool x "dirmode") (itemsOf ((x.getObjVal? "items").toOption.getD (.arr #[])))
      else match x.getObjVal? "path", x.getObjVal? "sub", x.getObjVal? "list" with
      | .ok (.str p), _, _ => Item.path p.toList
      | _, .ok (.str r), _ => Item.sub r.toList (itemsOf ((x.getObjVal? "items").toOption.getD (.arr #[])))
      | _, _, .ok (.str r) => Item.listFile r.toList ((getStrs x "rels").map String.toList)
      | _, _, _ => Item.fail
  | _ => []

def resolvedToJson (r : Resolved) : Json :=
  Json.mkObj [("rel", .str (String.ofList r.rel)), ("abs", .str (String.ofList r.abs)), ("base", .str (String.ofList r.base))]

def step (j : Json) : Json :=
  match getStr j "op" with
  | "checkMode" =>
    Json.mkObj [("r", .arr ((getStrs j "modes").map fun s => Json.bool (checkMode table s)).toArray)]
  | "checkPath" =>
    let a := factsOf ((j.getObjVal? "facts").toOption.getD .null)
    let stdio := getStrOpt j "path" == some "-"
    let modes := (getStrs j "modes").map Mode.ofString
    Json.mkObj [
      ("wf", .bool (decide a.wf)),
      ("r", .arr (modes.map fun m => outToJson (if stdio then .ok else checkPath m a)).toArray),
      ("sat", .arr (modes.map fun m => Json.bool (satAllDoc m a)).toArray)]
  | "mk" =>
    let p := mkPath (getStr j "path").toList (getStr j "expanded").toList (getStr j "cwd").toList
    Json.mkObj [("relative", .str (String.ofList p.relative)), ("absolute", .str (String.ofList p.absolute)), ("cwd", .str (String.ofList p.cwd))]
  | "load" =>
    let s : St := ⟨(getStr j "cwd").toList, (getStrOpt j "cpd").map String.toList⟩
    let l : Load := ⟨(getStr j "ref").toList, itemsOf ((j.getObjVal? "items").toOption.getD (.arr #[]))⟩
    let r := runLoad l s
    let spec := resolve l.ref s.cwd :: specItems (normAbs (cfgDir s.cwd l.ref)) l.items
    Json.mkObj [("ok", .bool r.ok), ("trace", .arr (r.trace.map resolvedToJson).toArray), ("spec", .arr (spec.map resolvedToJson).toArray),
      ("cwd", .str (String.ofList r.st.cwd)),
      ("cpd", match r.st.cpd with | some d => .str (String.ofList d) | none => .null)]
  | "run" =>
    let s : St := ⟨(getStr j "cwd").toList, (getStrOpt j "cpd").map String.toList⟩
    let items := itemsOf ((j.getObjVal? "items").toOption.getD (.arr #[]))
    let r := runItems items s
    Json.mkObj [("ok", .bool r.ok), ("trace", .arr (r.trace.map resolvedToJson).toArray),
      ("spec", .arr ((specItems s.cwd items).map resolvedToJson).toArray),
      ("nofail", .bool (noFailItems items)), ("stable", .bool (stableItems s.cwd items)),
      ("cwd", .str (String.ofList r.st.cwd)),
      ("cpd", match r.st.cpd with | some d => .str (String.ofList d) | none => .null)]
  | "runfs" =>
    let names := (getStrs j "names").map String.toList
    let edges : List (Nat × P × Nat) := match j.getObjVal? "edges" with
      | .ok (.arr xs) => xs.toList.filterMap fun e => match e with
        | .arr #[a, .str sg, b] => match a.getNat?, b.getNat? with
          | .ok a, .ok b => some (a, sg.toList, b)
          | _, _ => none
        | _ => none
      | _ => []
    let fs := TableFS.toFS ⟨names, edges⟩
    let cwd := match j.getObjVal? "cwd" with | .ok v => (v.getNat?.toOption.getD 0) | _ => 0
    let s : StF Nat := ⟨cwd, (getStrOpt j "cpd").map String.toList⟩
    let items := itemsOf ((j.getObjVal? "items").toOption.getD (.arr #[]))
    let r := runItemsF fs items s
    Json.mkObj [("ok", .bool r.ok), ("trace", .arr (r.trace.map resolvedToJson).toArray),
      ("spec", .arr ((specItemsF fs cwd items).map resolvedToJson).toArray),
      ("exist", .bool (existItemsF fs cwd items)),
      ("oldok", .bool (runItemsG oldBracket fs items s).ok),
      ("nofail", .bool (noFailItems items)),
      ("cwd", .str (String.ofList (fs.phys r.st.cwd))),
      ("cpd", match r.st.cpd with | some d => .str (String.ofList d) | none => .null)]
  | "mkarg" =>
    let arg : PathArg := match j.getObjVal? "obj" with
      | .ok (.obj _) =>
        let o := (j.getObjVal? "obj").toOption.getD .null
        .obj ⟨(getStr o "relative").toList, (getStr o "absolute").toList, (getStr o "cwd").toList⟩
      | _ => .spelling (getStr j "path").toList (getStr j "expanded").toList
    let p := mkPathArg arg ((getStrOpt j "cwdarg").map String.toList) (getStr j "oscwd").toList
    Json.mkObj [("relative", .str (String.ofList p.relative)), ("absolute", .str (String.ofList p.absolute)), ("cwd", .str (String.ofList p.cwd))]
  | "checktype" =>
    let o := checkTypePath (getBool j "sat") (getStr j "v").toList ((getStrOpt j "default").map String.toList)
    Json.mkObj [("r", .str (match o with | .path => "path" | .str => "str" | .reject => "reject"))]
  | op => Json.mkObj [("bad-op", .str op)]

partial def loop (h : IO.FS.Stream) (out : IO.FS.Stream) : IO Unit := do
  let line ← h.getLine
  if line.isEmpty then return ()
  match Json.parse line with
  | .error e => out.putStrLn (Json.mkObj [("bad-json", .str e)]).compress
  | .ok j => out.putStrLn (step j).compress
  loop h out

def main : IO Unit := do
  let stdin ← IO.getStdin
  let stdout ← IO.getStdout
  loop stdin stdout

/-
JSON-lines driver for E11 "Heap" (C08).  Run with
  lake env lean --run Drv/Heap.lean < cases.jsonl
One JSON object per input line, one per output line.

Trees:  atom = a number;  container = {"k": kind, "i": identity, "c": [[key, tree], …]}  (key "" in sequences).
Input:  {"op": …, "t": tree, "t2": tree?, "ds": [[dest, tree], …]?, "known": [str]?, "skip": [str]?, "k": next fresh identity}
Output: {"val": tree, "writes": [ids], "objs": [ids], "next": n, "shared": [ids], "chg": [ids]}
  shared = sharedMut pol of the argument(s) (the writable containers a clone still shares),
  chg    = chgIds pol t (containers whose content changes when every atom changes under the adaptation).
The policy and the copy sites are the regenerated ones (Gen/HeapSites).
-/
import Lean.Data.Json
import Jap.Core.Heap
import Jap.Core.HeapHist
import Jap.Gen.HeapSites
import Jap.Gen.NsTables

open Lean Jap.Heap

def pol : Policy :=
  policyOfTable Jap.Gen.HeapSites.kindTable Jap.Gen.HeapSites.stripMetaCopiesEmpty Jap.Gen.HeapSites.dictSubclassContentKept
def cs : Sites := sitesOfTable Jap.Gen.HeapSites.copySites
def metaKeys : List String := Jap.Gen.metaKeys

partial def tOfJson : Json → Except String T
  | .num n => .ok (.atom n.mantissa.toNat)
  | .obj o => do
    let j := Json.obj o
    let kd ← match j.getObjVal? "k" with
      | .ok (.str s) => match Kind.ofName s with
        | some k => pure k
        | none => throw ("bad kind " ++ s)
      | _ => throw "no kind"
    let i ← match j.getObjVal? "i" with
      | .ok (.num n) => pure n.mantissa.toNat
      | _ => throw "no id"
    let kids ← match j.getObjVal? "c" with
      | .ok (.arr xs) => xs.toList.mapM kvOfJson
      | _ => throw "no kids"
    pure (.node kd i kids)
  | _ => .error "bad tree"
where
  kvOfJson : Json → Except String (String × T)
    | .arr #[.str k, v] => do
      let v' ← tOfJson v
      pure (k, v')
    | _ => .error "bad kv"

partial def tToJson : T → Json
  | .atom n => .num (JsonNumber.fromNat n)
  | .node kd i kids =>
    Json.mkObj [("k", .str kd.name), ("i", .num (JsonNumber.fromNat i)),
      ("c", .arr (kids.map fun kv => Json.arr #[.str kv.1, tToJson kv.2]).toArray)]

def natsToJson (xs : List Nat) : Json := .arr (xs.map fun n => Json.num (JsonNumber.fromNat n)).toArray

def getT (j : Json) (key : String) : Except String T :=
  match j.getObjVal? key with
  | .ok v => tOfJson v
  | .error _ => .error ("missing " ++ key)

def getOptT (j : Json) (key : String) : Except String (Option T) :=
  match j.getObjVal? key with
  | .ok .null => .ok none
  | .ok v => (tOfJson v).map some
  | .error _ => .ok none

def getKids (j : Json) (key : String) : Except String Kids :=
  match j.getObjVal? key with
  | .ok (.arr xs) => xs.toList.mapM fun x => match x with
    | .arr #[.str k, v] => (tOfJson v).map fun t => (k, t)
    | _ => .error "bad kv"
  | _ => .ok []

def getStrs (j : Json) (key : String) : List String :=
  match j.getObjVal? key with
  | .ok (.arr xs) => xs.toList.filterMap fun x => match x with
    | .str s => some s
    | _ => none
  | _ => []

def getNat (j : Json) (key : String) (dflt : Nat) : Nat :=
  match j.getObjVal? key with
  | .ok (.num n) => n.mantissa.toNat
  | _ => dflt

def getStr (j : Json) (k : String) : String :=
  match j.getObjVal? k with
  | .ok (.str s) => s
  | _ => ""

def outM (m : M T) (shared chg : List Nat) : Json :=
  Json.mkObj [("val", tToJson m.val), ("writes", natsToJson m.writes), ("objs", natsToJson m.objs),
    ("next", .num (JsonNumber.fromNat m.next)), ("shared", natsToJson shared), ("chg", natsToJson chg)]

def outR (r : R T) (shared : List Nat) : Json := outM ⟨r.val, [], [], r.next⟩ shared []

def optNat (j : Json) (key : String) : Option Nat :=
  match j.getObjVal? key with
  | .ok (.num n) => some n.mantissa.toNat
  | _ => none

def opOfJson (j : Json) : Except String Op := do
  let a := getNat j "a" 0
  match getStr j "o" with
  | "dump" => pure (.dump a)
  | "validate" => pure (.validate a)
  | "validate_branch" => pure (.validateBranch (getStr j "s") a)
  | "merge" => pure (.merge a (getNat j "b" 0))
  | "strip_unknown" => pure (.stripUnknown (getStrs j "known") a)
  | "instantiate" => pure (.instantiate a)
  | "parse_object" => pure (.parseObject a (optNat j "b"))
  | "parse_args" => pure (.parseArgs a (optNat j "b"))
  | "parse_text" =>
    let sh ← getT j "shape"
    pure (.parseText sh)
  | "save" => pure (.save (match j.getObjVal? "multifile" with | .ok (.bool b) => b | _ => false) a)
  | "get_defaults" => pure .getDefaults
  | "set_default" => pure (.setDefault (getStr j "s") a)
  | o => throw ("bad history op " ++ o)

def step (j : Json) : Except String Json := do
  let op := getStr j "op"
  let k := getNat j "k" 1000
  match op with
  | "recreate" =>
    let t ← getT j "t"
    pure (outR (recreate pol (getStrs j "skip") t k) (sharedMut pol t))
  | "clone" =>
    let t ← getT j "t"
    pure (outR (clone pol t k) (sharedMut pol t))
  | "strip_meta" =>
    let t ← getT j "t"
    pure (outR (stripMeta pol metaKeys t k) (sharedMut pol t))
  | "ser" =>
    let t ← getT j "t"
    pure (outM (serMut pol t k) (mutIds pol t) (chgIds pol t))
  | "adapt" =>
    let t ← getT j "t"
    pure (outM (adaptMut pol t k) (mutIds pol t) (chgIds pol t))
  | "dump" =>
    let t ← getT j "t"
    pure (outM (dump pol cs metaKeys t k) (sharedMut pol t) [])
  | "validate" =>
    let t ← getT j "t"
    pure (outM (validate pol cs t k) (sharedMut pol t) [])
  | "merge" =>
    let src ← getT j "t"
    let to ← getT j "t2"
    pure (outM (mergeConfig pol cs src to k) (sharedMut pol src ++ sharedMut pol to) [])
  | "strip_unknown" =>
    let t ← getT j "t"
    pure (outM (stripUnknown pol cs (getStrs j "known") t k) (sharedMut pol t) [])
  | "get_defaults" =>
    let ds ← getKids j "ds"
    pure (outM (getDefaults pol cs ds k) (sharedMutK pol ds) [])
  | "parse_object" =>
    let ds ← getKids j "ds"
    let base ← getOptT j "t2"
    let obj ← getT j "t"
    let sh := sharedMutK pol ds ++ (match base with | some b => sharedMut pol b | none => []) ++ sharedMut pol obj
    pure (outM (parseObject pol cs ds base obj k) sh [])
  | "instantiate" =>
    let t ← getT j "t"
    pure (outM (instantiate pol cs metaKeys t k) (stripShared pol t) [])
  | "parse_args" =>
    -- t = the argv list, t2 = the namespace handed in (optional), ds = declared defaults
    let ds ← getKids j "ds"
    let ns ← getOptT j "t2"
    let argv ← getT j "t"
    let sh := sharedMutK pol ds ++ (match ns with | some n => sharedMut pol n | none => [])
    pure (outM (parseArgs pol cs ds ns argv k) sh [])
  | "validate_branch" =>
    let t ← getT j "t"
    pure (outM (validateBranch pol cs (getStr j "branch") t k) (sharedMut pol t) [])
  | "save" =>
    let t ← getT j "t"
    let mf := match j.getObjVal? "multifile" with | .ok (.bool b) => b | _ => false
    pure (outM (save pol cs metaKeys mf t k) (sharedMut pol t) [])
  | "history" =>
    -- env = [tree], ds, ops = [{"o": name, "a": n, "b": n?, "s": str?, "known": [..]?, "shape": tree?}]
    let ds ← getKids j "ds"
    let env ← match j.getObjVal? "env" with
      | .ok (.arr xs) => xs.toList.mapM tOfJson
      | _ => pure []
    let ops ← match j.getObjVal? "ops" with
      | .ok (.arr xs) => xs.toList.mapM opOfJson
      | _ => pure []
    let s : St := { defaults := ds, env := env, k := k }
    let ws := runHist pol cs metaKeys ops s
    pure (Json.mkObj [("steps", .arr (ws.map natsToJson).toArray), ("shared", natsToJson (s.shared pol)),
      ("ids", natsToJson s.ids), ("val", .num 0), ("writes", natsToJson ws.flatten), ("objs", natsToJson []), ("chg", natsToJson [])])
  | _ => throw ("bad-op " ++ op)

partial def loop (h : IO.FS.Stream) (out : IO.FS.Stream) : IO Unit := do
  let line ← h.getLine
  if line.isEmpty then return ()
  match Json.parse line with
  | .error e =>
    out.putStrLn (Json.mkObj [("error", .str ("bad-json " ++ e))]).compress
    loop h out
  | .ok j =>
    match step j with
    | .ok r => out.putStrLn r.compress
    | .error e => out.putStrLn (Json.mkObj [("error", .str e)]).compress
    loop h out

def main : IO Unit := do
  let stdin ← IO.getStdin
  let stdout ← IO.getStdout
  loop stdin stdout

/-
JSON-lines driver for the engine "Subcmd" (C17).  Run with
  lake env lean --run Drv/Subcmd.lean < requests.jsonl
One JSON object per input line, one JSON object per output line.

wire format
  value   : null | integer | "string" | {"s": [[key, value], ...]}          (a namespace keeps its key order)
  parser  : {"dflt": ns, "envc": ns, "sub": null | {"dest": str, "required": bool}, "choices": [[name, parser], ...]}
  argv    : {"items": [[isConfigArgument, ns], ...], "sub": null | [name, argv]}
  error   : {"err": "nosub" | "reqkey" | "crash", "key": "dotted.key"}
-/
import Lean.Data.Json
import Jap.Core.Subcmd
import Jap.Lemmas.SubcmdSources

open Lean Jap.Subcmd

partial def valOfJson : Json → Except String Val
  | .null => .ok .none
  | .num n => .ok (.int n.mantissa)
  | .str s => .ok (.str s)
  | .obj o => do
    match (Json.obj o).getObjVal? "s" with
    | .ok (.arr xs) =>
      let ys ← xs.toList.mapM kvOfJson
      pure (.sec ys)
    | _ => .error "bad namespace object"
  | _ => .error "bad value"
where
  kvOfJson : Json → Except String (String × Val)
    | .arr #[.str k, v] => do
      let v' ← valOfJson v
      pure (k, v')
    | _ => .error "bad kv"

def cfgOfJson (j : Json) : Except String Cfg :=
  match valOfJson j with
  | .ok (.sec kvs) => .ok kvs
  | .ok _ => .error "namespace expected"
  | .error e => .error e

partial def valToJson : Val → Json
  | .none => .null
  | .int i => .num (JsonNumber.fromInt i)
  | .str s => .str s
  | .sec kvs => Json.mkObj [("s", .arr (kvs.map fun kv => Json.arr #[.str kv.1, valToJson kv.2]).toArray)]

def cfgToJson (c : Cfg) : Json := valToJson (.sec c)

def getBool (j : Json) (k : String) (d : Bool := false) : Bool :=
  match j.getObjVal? k with
  | .ok (.bool b) => b
  | _ => d

def getStr (j : Json) (k : String) : String :=
  match j.getObjVal? k with
  | .ok (.str s) => s
  | _ => ""

def getStrList (j : Json) (k : String) : List String :=
  match j.getObjVal? k with
  | .ok (.arr xs) => xs.toList.filterMap fun x => match x with | .str s => some s | _ => none
  | _ => []

def getCfg (j : Json) (k : String) : Except String Cfg :=
  match j.getObjVal? k with
  | .ok v => cfgOfJson v
  | .error _ => .ok []

def hdrOfJson (j : Json) : Option SubHdr :=
  match j with
  | .null => none
  | _ => some ⟨getStr j "dest", getBool j "required"⟩

def getCfgList (j : Json) (k : String) : Except String (List Cfg) :=
  match j.getObjVal? k with
  | .ok (.arr xs) => xs.toList.mapM cfgOfJson
  | _ => .ok []

partial def pOfJson (j : Json) : Except String P := do
  let dflt ← getCfg j "dflt"
  let envc ← getCfg j "envc"
  let opts ← getCfg j "opts"
  let dcfs ← getCfgList j "dcfs"
  let pdcfs ← getCfgList j "pdcfs"
  let cfgKey := match j.getObjVal? "cfgKey" with
    | .ok (.str s) => some s
    | _ => none
  let sub := match j.getObjVal? "sub" with
    | .ok s => hdrOfJson s
    | .error _ => none
  let choices ← match j.getObjVal? "choices" with
    | .ok (.arr xs) => xs.toList.mapM fun x => match x with
      | .arr #[.str n, q] => do
        let q' ← pOfJson q
        pure (n, q')
      | _ => .error "bad choice"
    | _ => pure []
  pure (.node { dflt := dflt, envc := envc, path := getStrList j "path", opts := opts, options := getStrList j "options",
                cfgKey := cfgKey, dcfs := dcfs, pdcfs := pdcfs } sub choices)

partial def argvOfJson (j : Json) : Except String Argv := do
  let items ← match j.getObjVal? "items" with
    | .ok (.arr xs) => xs.toList.mapM fun x => match x with
      | .arr #[.bool b, t] => do
        let t' ← cfgOfJson t
        pure (b, t')
      | _ => .error "bad item"
    | _ => pure []
  let sub ← match j.getObjVal? "sub" with
    | .ok (.arr #[.str n, rest]) => do
      let r ← argvOfJson rest
      pure (some (n, r))
    | _ => pure none
  pure (.mk items sub)

def envOfJson (j : Json) : Except String Env := do
  let vals ← match j.getObjVal? "vals" with
    | .ok (.arr xs) => xs.toList.mapM fun x => match x with
      | .arr #[.str n, v] => do
        let v' ← valOfJson v
        pure (codes n, v')
      | _ => .error "bad env value"
    | _ => pure []
  let cfgs ← match j.getObjVal? "cfgs" with
    | .ok (.arr xs) => xs.toList.mapM fun x => match x with
      | .arr #[.str n, t] => do
        let t' ← cfgOfJson t
        pure (codes n, t')
      | _ => .error "bad env config"
    | _ => pure []
  pure ⟨codes (getStr j "root"), vals, cfgs⟩

def ctxOfJson (j : Json) : Except String Ctx :=
  match j with
  | .arr xs => xs.toList.mapM fun x => match x with
    | .arr #[.str k, .arr ts] => do
      let ts' ← ts.toList.mapM cfgOfJson
      pure (k, ts')
    | _ => .error "bad ctx entry"
  | _ => .ok []

def nodeAt : P → List String → Option P
  | p, [] => some p
  | p, n :: rest => match findP n p.choices with
    | some q => nodeAt q rest
    | none => none

def ofCodes (l : List Nat) : String := String.ofList (l.map Char.ofNat)

def modeOfJson (j : Json) : Mode :=
  match getStr j "mode" with
  | "env" => .env
  | "dflt" => .dflt
  | _ => .none

def flagsOfJson (j : Json) : Flags := ⟨getBool j "fail", getBool j "single" true, modeOfJson j⟩

def errToJson : Err → Json
  | .nosub k => Json.mkObj [("err", "nosub"), ("key", .str (".".intercalate k))]
  | .reqkey k => Json.mkObj [("err", "reqkey"), ("key", .str (".".intercalate k))]
  | .badname k => Json.mkObj [("err", "badname"), ("key", .str (".".intercalate k))]
  | .badsec k => Json.mkObj [("err", "badsec"), ("key", .str (".".intercalate k))]
  | .crash => Json.mkObj [("err", "crash")]

def resCfg : Except Err Cfg → Json
  | .ok c => Json.mkObj [("ok", cfgToJson c)]
  | .error e => errToJson e

def fuel : Nat := 64

def step (j : Json) : Except String Json := do
  let op := getStr j "op"
  let fl := flagsOfJson j
  let lay := layFuel fuel fl.single
  match op with
  | "get" =>
    let cfg ← getCfg j "cfg"
    let h := (match j.getObjVal? "h" with | .ok x => hdrOfJson x | _ => none).getD ⟨"subcommand", true⟩
    match getSub h (getStrList j "names") fl (getStrList j "pre") cfg with
    | .ok r => pure (Json.mkObj [("ok", Json.mkObj [
        ("cfg", cfgToJson r.cfg),
        ("sub", match r.sub with | some v => Json.arr #[valToJson v] | none => .null),
        ("todo", .arr (r.todo.map valToJson).toArray),
        ("warn", .bool r.warn)])])
    | .error e => pure (errToJson e)
  | "handle" =>
    let p ← pOfJson (j.getObjValD "p")
    let cfg ← getCfg j "cfg"
    pure (resCfg (handle lay fl (getStrList j "pre") p cfg))
  | "sweep" =>
    let p ← pOfJson (j.getObjValD "p")
    let cfg ← getCfg j "cfg"
    pure (resCfg (sweep fl.single p cfg))
  | "common" =>
    let p ← pOfJson (j.getObjValD "p")
    let cfg ← getCfg j "cfg"
    pure (resCfg (parseCommon lay fl (getBool j "links" true) (getBool j "validate" true) p cfg))
  | "layer" =>
    let p ← pOfJson (j.getObjValD "p")
    pure (Json.mkObj [("ok", cfgToJson (lay fl.mode p))])
  | "args" =>
    let p ← pOfJson (j.getObjValD "p")
    let av ← argvOfJson (j.getObjValD "argv")
    let ns ← getCfg j "ns"
    pure (resCfg (parseArgs lay fl.single fl.mode (getBool j "validate" true) p av ns))
  | "loadcfg" =>
    let p ← pOfJson (j.getObjValD "p")
    let t ← getCfg j "tree"
    pure (resCfg (loadCfgArg p t))
  | "losses" =>
    -- the predicates of the session-2 theorems on a source `tree` for the parser `p`: which sections `loadCfgArg` loses
    -- (C17_early_selection_exact), whether the source is verbatim at every depth (C17_quiet_source_verbatim), and the loader itself
    let p ← pOfJson (j.getObjValD "p")
    let t ← getCfg j "tree"
    let ns := names p.choices
    let lost := match p.sub with
      | some h => ns.filter (fun k => isSecAt k t && loses h ns t k)
      | none => []
    let lostSingle := match p.sub with
      | some h => ns.filter (fun k => isSecAt k t && losesSingle h ns t k)
      | none => []
    pure (Json.mkObj [("lost", .arr (lost.map Json.str).toArray), ("lostSingle", .arr (lostSingle.map Json.str).toArray),
      ("quietDeep", .bool (quietDeep p t)), ("loaded", resCfg (loadCfgArg p t))])
  | "fold" =>
    let items ← match j.getObjVal? "items" with
      | .ok (.arr xs) => xs.toList.mapM fun x => match x with
        | .arr #[.bool b, t] => do
          let t' ← cfgOfJson t
          pure (b, t')
        | _ => .error "bad item"
      | _ => pure []
    let c ← getCfg j "cfg"
    pure (Json.mkObj [("ok", cfgToJson (foldItems items c))])
  | "defaultcfg" =>
    let p ← pOfJson (j.getObjValD "p")
    let t ← getCfg j "tree"
    let cfg ← getCfg j "cfg"
    pure (resCfg (applyDefaultCfg fl.single p t cfg))
  | "layerc" =>
    let p ← pOfJson (j.getObjValD "p")
    let E ← envOfJson (j.getObjValD "E")
    let ctx ← ctxOfJson (j.getObjValD "ctx")
    match nodeAt p (getStrList j "node") with
    | some q => pure (Json.mkObj [("ok", cfgToJson (layerC E fuel fl.single ctx fl.mode q))])
    | none => pure (Json.mkObj [("bad-node", .null)])
  | "layereo" =>
    let p ← pOfJson (j.getObjValD "p")
    let E ← envOfJson (j.getObjValD "E")
    match nodeAt p (getStrList j "node") with
    | some q => pure (Json.mkObj [("ok", cfgToJson (layerEO E fuel fl.single q))])
    | none => pure (Json.mkObj [("bad-node", .null)])
  | "envvar" =>
    pure (Json.mkObj [("ok", .str (ofCodes (envVarAt (codes (getStr j "root")) ((getStrList j "path").map codes) (codes (getStr j "dest")))))])
  | "merge" =>
    let a ← getCfg j "from"
    let b ← getCfg j "to"
    pure (Json.mkObj [("ok", cfgToJson (merge a b))])
  | _ => pure (Json.mkObj [("bad-op", .str op)])

partial def loop (h : IO.FS.Stream) (out : IO.FS.Stream) : IO Unit := do
  let line ← h.getLine
  if line.isEmpty then return ()
  match Json.parse line with
  | .error e =>
    out.putStrLn (Json.mkObj [("bad-json", .str e)]).compress
    loop h out
  | .ok j =>
    match step j with
    | .ok r => out.putStrLn r.compress
    | .error e => out.putStrLn (Json.mkObj [("bad-request", .str e)]).compress
    loop h out

def main : IO Unit := do
  let stdin ← IO.getStdin
  let stdout ← IO.getStdout
  loop stdin stdout

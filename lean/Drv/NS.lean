/-
JSON-lines driver for E1 (Namespace model).  Run with
  lake env lean --run Drv/NS.lean < ops.jsonl
One JSON object per input line, one JSON object per output line.
The driver keeps a register file of namespaces: register `cur` is the working
namespace; `clone` copies into a named register.
-/
import Lean.Data.Json
import Jap.Core.Namespace
import Jap.Core.NamespaceMeta
import Jap.Gen.NsTables
import Jap.Core.NamespaceKeys
import Jap.Lemmas.NamespaceThru

open Lean Jap.NS

def markChar : Char := Char.ofNat 0x200b

def keyOfString (s : String) : SKey :=
  match s.toList with
  | c :: r => if c = markChar then ⟨true, String.ofList r⟩ else ⟨false, s⟩
  | [] => ⟨false, s⟩

def keyToString (k : SKey) : String :=
  if k.marked then String.singleton markChar ++ k.name else k.name

partial def vOfJson : Json → Except String V
  | .null => .ok .none
  | .num n => .ok (.atom n.mantissa)
  | .arr xs => do
    let ys ← xs.toList.mapM vOfJson
    pure (.lst ys)
  | .obj o => do
    let j := Json.obj o
    if let .ok (.arr xs) := j.getObjVal? "t" then
      let ys ← xs.toList.mapM vOfJson
      pure (.tup ys)
    else if let .ok (.arr xs) := j.getObjVal? "d" then
      let ys ← xs.toList.mapM kvOfJson
      pure (.dct ys)
    else if let .ok (.arr xs) := j.getObjVal? "D" then   -- a dict subclass: a dict like any other
      let ys ← xs.toList.mapM kvOfJson
      pure (.dct ys)
    else if let .ok (.arr xs) := j.getObjVal? "n" then
      let ys ← xs.toList.mapM kvOfJson
      pure (.ns ys)
    else .error "bad object"
  | _ => .error "bad value"
where
  kvOfJson : Json → Except String (SKey × V)
    | .arr #[.str k, v] => do
      let v' ← vOfJson v
      pure (keyOfString k, v')
    | _ => .error "bad kv"

partial def vToJson : V → Json
  | .none => .null
  | .atom a => .num (JsonNumber.fromInt a)
  | .lst xs => .arr (xs.map vToJson).toArray
  | .tup xs => Json.mkObj [("t", .arr (xs.map vToJson).toArray)]
  | .dct kvs => Json.mkObj [("d", .arr (kvs.map fun kv => Json.arr #[.str (keyToString kv.1), vToJson kv.2]).toArray)]
  | .ns kvs => Json.mkObj [("n", .arr (kvs.map fun kv => Json.arr #[.str (keyToString kv.1), vToJson kv.2]).toArray)]

/-- Wire atoms >= 1000 stand for Python scalars of another type that compare `==` to a plain int atom
(1000 False, 1001 True, 1002 0.0, 1003 1.0, 1006 2.0; 1004 "0" and 1005 "" have no twin).  Python's `==`
on namespaces is structural with `==` on the leaves, so the `eq` observations compare `pyEqNorm`-images. -/
partial def pyEqNorm : V → V
  | .atom a => .atom (if a = 1000 then 0 else if a = 1001 then 1 else if a = 1002 then 0 else if a = 1003 then 1
                      else if a = 1006 then 2 else a)
  | .lst xs => .lst (xs.map pyEqNorm)
  | .tup xs => .tup (xs.map pyEqNorm)
  | .dct kvs => .dct (kvs.map fun kv => (kv.1, pyEqNorm kv.2))
  | .ns kvs => .ns (kvs.map fun kv => (kv.1, pyEqNorm kv.2))
  | .none => .none

def errToJson : Err → Json
  | .key => Json.mkObj [("err", "KeyError")]
  | .attr => Json.mkObj [("err", "AttributeError")]
  | .type => Json.mkObj [("err", "TypeError")]
  | .value => Json.mkObj [("err", "ValueError")]

def clash : List String := Jap.Gen.clashNames

structure St where
  cur : KV := []

def getStr (j : Json) (k : String) : String :=
  match j.getObjVal? k with
  | .ok (.str s) => s
  | _ => ""

def getBool (j : Json) (k : String) : Bool :=
  match j.getObjVal? k with
  | .ok (.bool b) => b
  | _ => false

def getV (j : Json) (k : String) : V :=
  match j.getObjVal? k with
  | .ok v => match vOfJson v with
    | .ok x => x
    | .error _ => .none
  | _ => .none

def strItems (v : V) : List (String × V) :=
  match v with
  | .dct kvs => kvs.map fun kv => (keyToString kv.1, kv.2)
  | _ => []

/-- `x["zz_poke"] = 1` on every namespace held directly in a list leaf; returns the count -/
def pokeV : V → V × Nat
  | .lst xs =>
    let r := xs.map fun x => match x with
      | .ns kvs => (V.ns (insert ⟨false, "zz_poke"⟩ (.atom 1) kvs), 1)
      | v => (v, 0)
    (.lst (r.map (·.1)), (r.map (·.2)).foldl (· + ·) 0)
  | v => (v, 0)

partial def pokeKV : KV → KV × Nat
  | [] => ([], 0)
  | (k, .ns sub) :: r =>
    let (s', n) := pokeKV sub
    let (r', m) := pokeKV r
    ((k, .ns s') :: r', n + m)
  | (k, v) :: r =>
    let (v', n) := pokeV v
    let (r', m) := pokeKV r
    ((k, v') :: r', n + m)

def pokeOut (st : St) : Json × St :=
  let (s', n) := pokeKV st.cur
  (Json.mkObj [("r", .num (JsonNumber.fromNat n)), ("s", vToJson (.ns s'))], { st with cur := s' })

/-- returns (result json, new state) -/
def step (st : St) (j : Json) : Json × St :=
  let op := getStr j "op"
  let k := getStr j "k"
  let outState (r : Json) (s : KV) : Json × St :=
    (Json.mkObj [("r", r), ("s", vToJson (.ns s))], { st with cur := s })
  let liftKV (x : Except Err KV) : Json × St :=
    match x with
    | .ok s => outState .null s
    | .error e => outState (errToJson e) st.cur
  match op with
  | "new" => outState .null []
  | "set" => liftKV (setItem clash k (getV j "v") st.cur)
  | "setattr" => liftKV (setAttr clash k (getV j "v") st.cur)
  | "get" =>
    match getItem clash k st.cur with
    | .ok v => outState (Json.mkObj [("v", vToJson v)]) st.cur
    | .error e => outState (errToJson e) st.cur
  | "getdef" => outState (Json.mkObj [("v", vToJson (get clash k (getV j "v") st.cur))]) st.cur
  | "del" => liftKV (delItem clash k st.cur)
  | "pop" =>
    match pop clash k (getV j "v") st.cur with
    | .ok (v, s) => outState (Json.mkObj [("v", vToJson v)]) s
    | .error e => outState (errToJson e) st.cur
  | "contains" => outState (.bool (contains clash k st.cur)) st.cur
  | "update" =>
    let key := match j.getObjVal? "k" with
      | .ok (.str s) => some s
      | _ => none
    liftKV (update2 clash (getV j "v") key (getBool j "only_unset") st.cur)
  | "items" =>
    let b := getBool j "branches"
    outState (.arr ((items b st.cur).map fun kv => Json.arr #[.str kv.1, vToJson kv.2]).toArray) st.cur
  | "keys" => outState (.arr ((keys (getBool j "branches") st.cur).map Json.str).toArray) st.cur
  | "values" => outState (.arr ((values (getBool j "branches") st.cur).map vToJson).toArray) st.cur
  | "bool" => outState (.bool (nonEmpty st.cur)) st.cur
  | "as_flat" => outState (.arr ((asFlat st.cur).map fun kv => Json.arr #[.str kv.1, vToJson kv.2]).toArray) st.cur
  | "sorted_keys" =>
    outState (.arr ((getSortedKeys Jap.Gen.metaKeys (getBool j "branches") st.cur).map Json.str).toArray) st.cur
  | "strip_meta" => outState (vToJson (.ns (stripMeta Jap.Gen.metaKeys st.cur))) st.cur
  | "as_dict" => outState (vToJson (.dct (asDict st.cur))) st.cur
  | "clone_eq" => outState (.bool (veq (.ns (clone st.cur)) (.ns st.cur))) st.cur
  | "clone_swap" => outState .null (clone st.cur)
  | "poke_lists" => pokeOut st
  | "eq" => outState (.bool (veq (pyEqNorm (.ns st.cur)) (pyEqNorm (getV j "v")))) st.cur
  | "from_dict" =>
    match fromDict clash (strItems (getV j "v")) with
    | .ok s => outState .null s
    | .error e => outState (errToJson e) st.cur
  | "dict_to_namespace" =>
    match getV j "v" with
    | .dct kvs =>
      match expandDict clash 64 kvs with
      | .ok s => outState .null s
      | .error e => outState (errToJson e) st.cur
    | _ => outState (errToJson .type) st.cur
  | "init_kwargs" =>
    match initKwargs clash (strItems (getV j "v")) with
    | .ok s => outState .null s
    | .error e => outState (errToJson e) st.cur
  | "from_ns" =>
    match getV j "v" with
    | .ns kvs => outState .null (fromNs kvs)
    | _ => outState (errToJson .value) st.cur
  | "init_bad" => outState (errToJson .value) st.cur
  | "namespace_to_dict" => outState (vToJson (.dct (namespaceToDict st.cur))) st.cur
  | "value_and_parent" =>
    match valueAndParent clash k st.cur with
    | .ok (v, p, l) =>
      outState (Json.mkObj [("v", vToJson v), ("p", vToJson (.ns p)), ("l", .str (keyToString l))]) st.cur
    | .error e => outState (errToJson e) st.cur
  | "getattr" =>
    match getSegs [] (mark clash k) st.cur with
    | .ok v => outState (Json.mkObj [("v", vToJson v)]) st.cur
    | .error _ => outState (errToJson .attr) st.cur
  | "hasattr" => outState (.bool (clash.contains k || containsSegs [] (mark clash k) st.cur)) st.cur
  | "delattr" =>
    if clash.contains k then outState (errToJson .attr) st.cur
    else match delSegs [] (mark clash k) st.cur with
      | .ok s => outState .null s
      | .error _ => outState (errToJson .attr) st.cur
  | "eq_other" => outState (.bool false) st.cur
  | "split_key" =>
    let r := (Keys.splitDot k.toList).map String.ofList
    if r = k.splitOn "." then outState (.arr (r.map Json.str).toArray) st.cur
    else outState (Json.mkObj [("splitOn-differs", .str k)]) st.cur
  | "split_key_root" => outState (.arr (((Keys.splitRoot k.toList).map String.ofList).map Json.str).toArray) st.cur
  | "split_key_leaf" => outState (.arr (((Keys.splitLeaf k.toList).map String.ofList).map Json.str).toArray) st.cur
  | "is_meta_key" =>
    let a := Keys.isMetaKeyC (Jap.Gen.metaKeys.map String.toList) k.toList
    if a = isMetaKey Jap.Gen.metaKeys k then outState (.bool a) st.cur
    else outState (Json.mkObj [("isMetaKey-differs", .str k)]) st.cur
  | "add_clash_mark" =>
    let a := String.ofList (Keys.addMark (clash.map String.toList) k.toList)
    if a = keyToString (mark clash k) then outState (.str a) st.cur
    else outState (Json.mkObj [("mark-differs", .str k)]) st.cur
  | "del_clash_mark" =>
    match Keys.delMark k.toList with
    | some r => outState (.str (String.ofList r)) st.cur
    | none => outState (Json.mkObj [("err", "Other:IndexError")]) st.cur
  | _ => (Json.mkObj [("bad-op", .str op)], st)

/-- a key that is not a string (int, float, None on the wire: anything but a JSON string): `" " in key` raises
    `TypeError`, which `get` maps to the default and `__contains__` never reaches (`isinstance(key, str)`) -/
def stepNonStr (st : St) (j : Json) : Json × St :=
  let op := getStr j "op"
  let out (r : Json) : Json × St := (Json.mkObj [("r", r), ("s", vToJson (.ns st.cur))], st)
  match op with
  | "getdef" => out (Json.mkObj [("v", vToJson (getV j "v"))])
  | "contains" => out (.bool false)
  | _ => out (errToJson .type)

def keyedOps : List String := ["set", "setattr", "get", "getdef", "del", "pop", "contains", "value_and_parent"]

/-- membership of the operation's key in the deviating classes (finding C11-through-dict), on the state BEFORE it -/
def devJson (root : KV) (k : String) : Json :=
  match parseKey clash k with
  | .error _ => .arr #[.bool false, .bool false, .bool false]
  | .ok segs =>
    match splitLast segs with
    | .none => .arr #[.bool false, .bool false, .bool false]
    | some (p, l) => .arr #[.bool (thruDict p root), .bool (devGet p l root), .bool (devPop p l root)]

def stepAll (st : St) (j : Json) : Json × St :=
  let op := getStr j "op"
  match j.getObjVal? "k" with
  | .ok (.str k) =>
    let (r, st') := step st j
    if keyedOps.contains op then (r.setObjVal! "dev" (devJson st.cur k), st') else (r, st')
  | .ok .null => step st j
  | .ok _ => if keyedOps.contains op then stepNonStr st j else step st j
  | .error _ => step st j

partial def loop (h : IO.FS.Stream) (out : IO.FS.Stream) (st : St) : IO Unit := do
  let line ← h.getLine
  if line.isEmpty then return ()
  match Json.parse line with
  | .error e =>
    out.putStrLn (Json.mkObj [("bad-json", .str e)]).compress
    loop h out st
  | .ok j =>
    let (r, st') := stepAll st j
    out.putStrLn r.compress
    loop h out st'

def main : IO Unit := do
  let stdin ← IO.getStdin
  let stdout ← IO.getStdout
  loop stdin stdout {}

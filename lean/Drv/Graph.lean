/-
JSON-lines driver for E5 (Graph model).  Run with
  lake env lean --run Drv/Graph.lean < cases.jsonl
One JSON object per input line, one JSON object per output line.

  {"op":"topo","edges":[[s,t],...]}                         edges in add_edge order
      -> {"nodes":[...],"edges":[[i,[j,...]],...],"ok":[...]} | {...,"cycle":[u,v]} | {...,"internal":true}
         (nodes / edges = `self.nodes` / `self.edges_dict.items()` after the add_edge calls)
  {"op":"reorder","order":[k,...],"dests":[d,...]}
      -> {"perm":[i,...]}      indices into dests, in the order `ActionLink.reorder` returns the components
  {"op":"target_node","key":k} -> {"node":n}
  {"op":"inst_order","links":[{"sources":[..],"target":k},...],"set_order":[t,...]}
      -> {"edges":[[s,t],...],"ok":[...]} | {"edges":...,"cycle":[u,v]}
  {"op":"components","links":[...],"set_order":[...],"dests":[...]}
      -> {"ok":[dest,...],"schedule":[[dest,[link index,...]],...],
          "nested_ok":bool,"containment_covered":bool,"sources_top_level":bool} | {"cycle":[u,v]}     (the decidable classes of Core/Graph)
  {"op":"flow","links":[{"sources":[[dest,attr|null],...],"target":k,"fn":name|null,
                         "tdest":target_action.dest,"tsub":bool,"parent":{"single":[key,...]}|{"list":[[key,...]|null,...]}|{"gone":true}},...],
               "order":[...],"comps":[[dest,isClass],...]}          (tdest/tsub/parent omitted = a class-group parameter)
  {"op":"slots","links":[...as for flow...]} -> {"slots":[[position,...],...]}   `set_target_value`: positions written per link
      -> {"log":[[dest,[[key,val],...]],...],"ready":bool,"applied_end":[...]}      one instantiate_classes call on a parsed cfg;
         val = {"raw":s}|{"ns":dest}|{"obj":dest}|{"attr":[val,name]}|{"app":[fn,[val,...]]}   (compute_fn table = symbolic application)
-/
import Lean.Data.Json
import Jap.Core.Graph
import Jap.Core.GraphFlow

open Lean Jap.Graph

def strList (j : Json) (k : String) : List String :=
  match j.getObjVal? k with
  | .ok (.arr xs) => xs.toList.filterMap fun x => match x with
    | .str s => some s
    | _ => none
  | _ => []

def edgeList (j : Json) (k : String) : List (String × String) :=
  match j.getObjVal? k with
  | .ok (.arr xs) => xs.toList.filterMap fun x => match x with
    | .arr #[.str a, .str b] => some (a, b)
    | _ => none
  | _ => []

def linkList (j : Json) : List Link :=
  match j.getObjVal? "links" with
  | .ok (.arr xs) => xs.toList.map fun x =>
    { sources := strList x "sources",
      target := match x.getObjVal? "target" with
        | .ok (.str s) => s
        | _ => "" }
  | _ => []

def strArr (xs : List String) : Json := .arr (xs.map Json.str).toArray

def edgeArr (es : List (String × String)) : Json := .arr (es.map fun e => Json.arr #[.str e.1, .str e.2]).toArray

def topoFields (r : Except (TopoErr String) (List String)) : List (String × Json) :=
  match r with
  | .ok o => [("ok", strArr o)]
  | .error (.cycle u v) => [("cycle", Json.arr #[.str u, .str v])]
  | .error .internal => [("internal", .bool true)]

partial def valToJson : Val → Json
  | .raw s => Json.mkObj [("raw", .str s)]
  | .ns d => Json.mkObj [("ns", .str d)]
  | .obj d => Json.mkObj [("obj", .str d)]
  | .attr v a => Json.mkObj [("attr", Json.arr #[valToJson v, .str a])]
  | .app f args => Json.mkObj [("app", Json.arr #[.str f, .arr (args.map valToJson).toArray])]

/-- {"single":[key,...]} | {"list":[[key,...]|null,...]} | anything else = gone -/
def parentOf (p : Json) : Parent :=
  match p.getObjVal? "single" with
  | .ok (.arr _) => .single (strList p "single")
  | _ =>
    match p.getObjVal? "list" with
    | .ok (.arr items) => .list (items.toList.map fun it => match it with
      | .arr ks => some (ks.toList.filterMap fun k => match k with
        | .str s => some s
        | _ => none)
      | _ => none)
    | _ => .gone

def flinkList (j : Json) : List FLink :=
  match j.getObjVal? "links" with
  | .ok (.arr xs) => xs.toList.map fun x =>
    { sources := match x.getObjVal? "sources" with
        | .ok (.arr ss) => ss.toList.filterMap fun p => match p with
          | .arr #[.str d, .str a] => some (d, some a)
          | .arr #[.str d, _] => some (d, none)
          | _ => none
        | _ => [],
      target := match x.getObjVal? "target" with
        | .ok (.str t) => t
        | _ => "",
      fn := match x.getObjVal? "fn" with
        | .ok (.str f) => some f
        | _ => none,
      tdest := match x.getObjVal? "tdest" with
        | .ok (.str t) => t
        | _ => "",
      tsub := match x.getObjVal? "tsub" with
        | .ok (.bool b) => b
        | _ => false,
      parent := match x.getObjVal? "parent" with
        | .ok p => parentOf p
        | _ => .gone }
  | _ => []

def compList (j : Json) : List (String × Bool) :=
  match j.getObjVal? "comps" with
  | .ok (.arr xs) => xs.toList.filterMap fun p => match p with
    | .arr #[.str d, .bool b] => some (d, b)
    | _ => none
  | _ => []

def step (j : Json) : Json :=
  let op := match j.getObjVal? "op" with
    | .ok (.str s) => s
    | _ => ""
  match op with
  | "topo" =>
    let es := edgeList j "edges"
    let g := build es
    Json.mkObj ([("nodes", strArr g.nodes),
      ("edges", .arr (g.edges.map fun p => Json.arr #[Json.num (JsonNumber.fromNat p.1),
        .arr (p.2.map fun i => Json.num (JsonNumber.fromNat i)).toArray]).toArray)] ++ topoFields (topo es))
  | "reorder" =>
    let dests := strList j "dests"
    let comps : List (Nat × String) := (List.range dests.length).zip dests
    let r := reorder (fun c : Nat × String => c.2) (strList j "order") comps
    Json.mkObj [("perm", .arr (r.map fun c => Json.num (JsonNumber.fromNat c.1)).toArray)]
  | "target_node" =>
    let k := match j.getObjVal? "key" with
      | .ok (.str s) => s
      | _ => ""
    Json.mkObj [("node", .str (targetNode k))]
  | "inst_order" =>
    let links := linkList j
    let so := strList j "set_order"
    Json.mkObj ([("edges", edgeArr (if links.isEmpty then [] else instantiationEdges links so))]
      ++ topoFields (instantiationOrder links so))
  | "components" =>
    let links := linkList j
    let so := strList j "set_order"
    let dests := strList j "dests"
    match componentOrder links so dests with
    | .ok comps =>
      Json.mkObj [("ok", strArr comps),
        ("schedule", .arr ((schedule links comps).map fun p =>
          Json.arr #[.str p.1, .arr (p.2.map fun i => Json.num (JsonNumber.fromNat i)).toArray]).toArray),
        ("nested_ok", .bool (decide (NestedKeysOK links so dests))),
        ("containment_covered", .bool (decide (ContainmentCovered links so))),
        ("sources_top_level", .bool (decide (SourcesTopLevel links dests)))]
    | .error e => Json.mkObj (topoFields (.error e))
  | "flow" =>
    let links := flinkList j
    let comps := compList j
    let r := instantiateClasses Val.app links (strList j "order") comps Cfg.parsed
    Json.mkObj [("log", .arr (r.log.map fun e => Json.arr #[.str e.1,
        .arr (e.2.map fun kv => Json.arr #[.str kv.1, valToJson kv.2]).toArray]).toArray),
      ("ready", .bool (decide (SourcesReady links [] comps))),
      ("applied_end", .arr (r.applied.map fun i => Json.num (JsonNumber.fromNat i)).toArray)]
  | "slots" =>
    Json.mkObj [("slots", .arr ((flinkList j).map fun l => strArr (targetSlots l)).toArray)]
  | _ => Json.mkObj [("bad-op", .str op)]

partial def loop (h : IO.FS.Stream) (out : IO.FS.Stream) : IO Unit := do
  let line ← h.getLine
  if line.isEmpty then return ()
  match Json.parse line with
  | .error e =>
    out.putStrLn (Json.mkObj [("bad-json", .str e)]).compress
    loop h out
  | .ok j =>
    out.putStrLn (step j).compress
    loop h out

def main : IO Unit := do
  let stdin ← IO.getStdin
  let stdout ← IO.getStdout
  loop stdin stdout

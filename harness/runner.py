"""./check <ID> [--tier quick|thorough] [--replay file]"""
from __future__ import annotations

import argparse
import importlib
import json
import os
import sys
import traceback

from .lib.common import Ctx, MachineryError, finish


def main(argv=None):
    ap = argparse.ArgumentParser(prog="check")
    ap.add_argument("prop")
    ap.add_argument("--tier", default=os.environ.get("VERIF_TIER", "quick"), choices=["quick", "thorough"])
    ap.add_argument("--replay", default=None)
    a = ap.parse_args(argv)
    prop = a.prop.upper()
    seed = int(os.environ.get("VERIF_SEED", "0") or 0)
    try:
        mod = importlib.import_module("harness.props.%s" % prop.lower())
    except ImportError as ex:
        print("no check for %s: %s" % (prop, ex))
        return 2
    ctx = Ctx(prop, a.tier, seed)
    try:
        if a.replay:
            with open(a.replay) as f:
                body = json.load(f)
            return mod.replay(ctx, body)
        mod.run(ctx)
        return finish(ctx, getattr(mod, "LEVEL", "proof"))
    except MachineryError as ex:
        print("MACHINERY-ERROR property=%s %s" % (prop, ex))
        return 2
    except Exception:  # noqa: BLE001
        traceback.print_exc()
        print("MACHINERY-ERROR property=%s unexpected exception in the harness" % prop)
        return 2


if __name__ == "__main__":
    sys.exit(main())

"""Gen/LinkBookkeeping.lean (C16): where the "already applied instantiation links" set lives.

AST of `ActionLink.apply_instantiation_links` (jsonargparse/_link_arguments.py) and of
`ArgumentParser.instantiate_classes` (jsonargparse/_core.py):
  * appliedKey            the string bound to `applied_key`
  * linkStateWrites       every write that could make the set outlive the per-call cfg copy: attribute stores
                          (`x.attr = ...`, augmented, annotated, `del x.attr`), `setattr(...)`/`x.__dict__[...] = ...`/
                          `x.__setattr__(...)` calls, `global`/`nonlocal` statements — in both functions.  Expected: none.
  * appliedPoppedFromCfg  `cfg.pop(applied_key)` guarded by `applied_key in cfg`
  * appliedStoredInCfg    `cfg[applied_key] = applied_links` directly under `if target:`
  * cfgCopiedFirst        instantiate_classes rebinds `cfg = strip_meta(cfg)` before the component loop
The model's session function carries the applied set from one instantiate_classes call to the next exactly when
linkStateWrites is non-empty; `C16_bookkeeping_fresh` is proved for the generated (empty) table.
"""
from __future__ import annotations

import ast
import os

from ..extract import lean_str, lean_str_list, write_if_changed
from ..lib.common import REPO


def _func(tree, cls, name):
    for node in ast.walk(tree):
        if isinstance(node, ast.ClassDef) and node.name == cls:
            for f in node.body:
                if isinstance(f, ast.FunctionDef) and f.name == name:
                    return f
    return None


def _writes(fn, label):
    out = []
    for node in ast.walk(fn):
        targets = []
        if isinstance(node, ast.Assign):
            targets = node.targets
        elif isinstance(node, (ast.AugAssign, ast.AnnAssign)):
            targets = [node.target]
        elif isinstance(node, ast.Delete):
            targets = node.targets
        elif isinstance(node, (ast.Global, ast.Nonlocal)):
            out.append("%s: %s %s" % (label, type(node).__name__.lower(), ",".join(node.names)))
        elif isinstance(node, ast.Call):
            f = node.func
            if isinstance(f, ast.Name) and f.id in ("setattr", "delattr"):
                out.append("%s: %s(%s)" % (label, f.id, ast.unparse(node.args[0]) if node.args else ""))
            elif isinstance(f, ast.Attribute) and f.attr in ("__setattr__", "__delattr__"):
                out.append("%s: %s" % (label, ast.unparse(f)))
        for t in targets:
            for sub in ast.walk(t):
                if isinstance(sub, ast.Attribute) and isinstance(sub.ctx, (ast.Store, ast.Del)):
                    out.append("%s: %s" % (label, ast.unparse(sub)))
                elif isinstance(sub, ast.Subscript) and isinstance(sub.value, ast.Attribute) and sub.value.attr == "__dict__":
                    out.append("%s: %s" % (label, ast.unparse(sub)))
    return sorted(set(out))


def model(problems=None):
    problems = problems if problems is not None else []
    src = open(os.path.join(REPO, "jsonargparse", "_link_arguments.py")).read()
    core = open(os.path.join(REPO, "jsonargparse", "_core.py")).read()
    fa = _func(ast.parse(src), "ActionLink", "apply_instantiation_links")
    fi = _func(ast.parse(core), "ArgumentParser", "instantiate_classes")
    if fa is None or fi is None:
        problems.append("LinkBookkeeping: apply_instantiation_links / instantiate_classes not found")
        return None
    key = None
    popped = stored = False
    for node in ast.walk(fa):
        if isinstance(node, ast.Assign) and len(node.targets) == 1 and isinstance(node.targets[0], ast.Name):
            if node.targets[0].id == "applied_key" and isinstance(node.value, ast.Constant) and isinstance(node.value.value, str):
                key = node.value.value
            if node.targets[0].id == "applied_links" and isinstance(node.value, ast.IfExp):
                popped = ast.unparse(node.value).replace('"', "'") == "cfg.pop(applied_key) if applied_key in cfg else set()"
        if isinstance(node, ast.If) and ast.unparse(node.test) == "target" and not node.orelse:
            stored = [ast.unparse(x) for x in node.body] == ["cfg[applied_key] = applied_links"]
    if key is None:
        problems.append("LinkBookkeeping: applied_key is no longer a string constant")
        key = ""
    copied = False
    for stmt in fi.body:
        if isinstance(stmt, ast.Assign) and ast.unparse(stmt) == "cfg = strip_meta(cfg)":
            copied = True
        if isinstance(stmt, ast.For) and ast.unparse(stmt.iter) == "components":
            break  # the component loop: the copy must have happened before it
    writes = _writes(fa, "apply_instantiation_links") + _writes(fi, "instantiate_classes")
    return {"appliedKey": key, "linkStateWrites": writes, "appliedPoppedFromCfg": popped, "appliedStoredInCfg": stored, "cfgCopiedFirst": copied}


def generate(problems):
    m = model(problems)
    if m is None:
        return
    b = lambda x: "true" if x else "false"  # noqa: E731
    body = "namespace Jap.Gen\n"
    body += "def appliedKey : String := %s\n" % lean_str(m["appliedKey"])
    body += "def linkStateWrites : List String := %s\n" % lean_str_list(m["linkStateWrites"])
    body += "def appliedPoppedFromCfg : Bool := %s\n" % b(m["appliedPoppedFromCfg"])
    body += "def appliedStoredInCfg : Bool := %s\n" % b(m["appliedStoredInCfg"])
    body += "def cfgCopiedFirst : Bool := %s\n" % b(m["cfgCopiedFirst"])
    body += "end Jap.Gen\n"
    write_if_changed("LinkBookkeeping.lean", body)

"""Gen/LenientBrackets.lean (C06): where the package switches the lenient mode on and what reads it.

Read off the AST of every module of the jsonargparse package under test:
* `lenientBrackets`: every `with parser_context(..., lenient_check=<const>)`: (module, function, value, calls in the body)
* `lenientReads`: every `lenient_check.get()`: (module, function)
* `lenientOther`: any other use of the name `lenient_check` that sets it (`.set(`), as (module, function)
* `validateSteps`: the calls of the final `try` of `ArgumentParser.validate` with their guards
* `knownArgsGuard`: the test and the exception of the first `if` of `parse_known_args`
* `unrecognized`: the statement following `parse_known_args` in `parse_args` that rejects leftovers
* `parseCommonValidate`: guards around `self.validate(` in `_parse_common`
"""
import ast
import os

from ..extract import lean_str, lean_str_list, write_if_changed


def _src(node):
    return ast.unparse(node)


def _call_names(nodes):
    out = []
    for n in nodes:
        for c in ast.walk(n):
            if isinstance(c, ast.Call):
                f = c.func
                if isinstance(f, ast.Attribute):
                    out.append(f.attr)
                elif isinstance(f, ast.Name):
                    out.append(f.id)
    return sorted(set(out))


class V(ast.NodeVisitor):
    def __init__(self, mod):
        self.mod = mod
        self.stack = []
        self.brackets = []
        self.reads = []
        self.other = []

    def fn(self):
        return ".".join(self.stack) or "<module>"

    def visit_ClassDef(self, node):
        self.stack.append(node.name)
        self.generic_visit(node)
        self.stack.pop()

    def visit_FunctionDef(self, node):
        self.stack.append(node.name)
        self.generic_visit(node)
        self.stack.pop()

    visit_AsyncFunctionDef = visit_FunctionDef

    def visit_With(self, node):
        for item in node.items:
            for c in ast.walk(item.context_expr):
                if isinstance(c, ast.Call) and getattr(c.func, "id", getattr(c.func, "attr", None)) == "parser_context":
                    for kw in c.keywords:
                        if kw.arg == "lenient_check":
                            self.brackets.append((self.mod, self.fn(), _src(kw.value), _call_names(node.body)))
        self.generic_visit(node)

    def visit_Call(self, node):
        f = node.func
        if isinstance(f, ast.Attribute) and isinstance(f.value, ast.Name) and f.value.id == "lenient_check":
            if f.attr == "get":
                self.reads.append((self.mod, self.fn()))
            else:
                self.other.append((self.mod, self.fn() + ":" + f.attr))
        self.generic_visit(node)


def _find_def(tree, cls, name):
    for n in ast.walk(tree):
        if isinstance(n, ast.ClassDef) and n.name == cls:
            for m in n.body:
                if isinstance(m, ast.FunctionDef) and m.name == name:
                    return m
    return None


def generate(problems):
    import jsonargparse

    pkg = os.path.dirname(os.path.abspath(jsonargparse.__file__))
    brackets, reads, other = [], [], []
    core_tree = None
    for fn in sorted(os.listdir(pkg)):
        if not fn.endswith(".py"):
            continue
        tree = ast.parse(open(os.path.join(pkg, fn)).read())
        if fn == "_core.py":
            core_tree = tree
        v = V(fn[:-3])
        v.visit(tree)
        brackets += v.brackets
        reads += v.reads
        other += v.other
    if core_tree is None:
        problems.append("LenientBrackets: _core.py not found")
        return

    # --- validate: the final try block
    steps = []
    val = _find_def(core_tree, "ArgumentParser", "validate")
    if val is None:
        problems.append("LenientBrackets: ArgumentParser.validate not found")
    else:
        tries = [s for s in val.body if isinstance(s, ast.Try)]
        if not tries:
            problems.append("LenientBrackets: validate has no try block")
        else:
            def walk(stmts, guard):
                for s in stmts:
                    if isinstance(s, ast.With):
                        walk(s.body, guard)
                    elif isinstance(s, ast.If):
                        walk(s.body, (guard + " and " if guard else "") + _src(s.test))
                        if s.orelse:
                            walk(s.orelse, (guard + " and " if guard else "") + "not (" + _src(s.test) + ")")
                    elif isinstance(s, ast.Expr) and isinstance(s.value, ast.Call):
                        steps.append(_src(s.value.func) + " | " + guard)
                    else:
                        steps.append("<" + type(s).__name__ + "> | " + guard)
            walk(tries[-1].body, "")
        # the guards inside check_values / check_required
        inner = {n.name: n for n in val.body if isinstance(n, ast.FunctionDef)}
        for need in ("check_required", "check_values"):
            if need not in inner:
                problems.append("LenientBrackets: validate." + need + " not found")
    # --- parse_known_args guard
    guard = []
    pka = _find_def(core_tree, "ArgumentParser", "parse_known_args")
    if pka is None:
        problems.append("LenientBrackets: parse_known_args not found")
    else:
        ifs = [s for s in pka.body if isinstance(s, ast.If)]
        if ifs and ifs[0].body and isinstance(ifs[0].body[0], ast.Raise):
            guard = [_src(ifs[0].test), _src(ifs[0].body[0].exc.func) if isinstance(ifs[0].body[0].exc, ast.Call) else _src(ifs[0].body[0].exc)]
            before = [s for s in pka.body[: pka.body.index(ifs[0])] if not (isinstance(s, ast.Expr) and isinstance(s.value, ast.Constant))]
            guard.append("; ".join(_src(s) for s in before))
        else:
            problems.append("LenientBrackets: parse_known_args no longer starts with a raising guard")
    # --- parse_args: leftovers
    unrec = []
    pa = _find_def(core_tree, "ArgumentParser", "parse_args")
    if pa is None:
        problems.append("LenientBrackets: parse_args not found")
    else:
        for n in ast.walk(pa):
            if isinstance(n, ast.If) and "unk" in _src(n.test) and n.body and isinstance(n.body[0], ast.Expr):
                unrec = [_src(n.test), _src(n.body[0].value.func) if isinstance(n.body[0].value, ast.Call) else _src(n.body[0].value)]
                for c in ast.walk(n.body[0]):
                    if isinstance(c, ast.Constant) and isinstance(c.value, str) and c.value.strip():
                        unrec.append(c.value.strip())
                        break
        if not unrec:
            problems.append("LenientBrackets: parse_args no longer rejects leftover arguments")
    # --- _parse_common: guards around self.validate
    pcv = []
    pc = _find_def(core_tree, "ArgumentParser", "_parse_common")
    if pc is None:
        problems.append("LenientBrackets: _parse_common not found")
    else:
        def walk2(stmts, guard):
            for s in stmts:
                if isinstance(s, ast.With):
                    ctxs = [_src(i.context_expr) for i in s.items]
                    walk2(s.body, guard + ["with " + c for c in ctxs if "lenient" in c])
                elif isinstance(s, ast.If):
                    walk2(s.body, guard + [_src(s.test)])
                    walk2(s.orelse, guard + ["not (" + _src(s.test) + ")"])
                elif isinstance(s, ast.Try):
                    walk2(s.body, guard)
                elif isinstance(s, ast.Expr) and isinstance(s.value, ast.Call) and _src(s.value.func) == "self.validate":
                    pcv.append(" && ".join(guard) + " => " + _src(s.value))
        walk2(pc.body, [])
        if not pcv:
            problems.append("LenientBrackets: _parse_common no longer calls self.validate")

    body = "namespace Jap.Gen.LenientBrackets\n"
    body += "def lenientBrackets : List (String × String × String × List String) := [\n"
    body += ",\n".join("  (%s, %s, %s, %s)" % (lean_str(m), lean_str(f), lean_str(val_), lean_str_list(calls)) for m, f, val_, calls in sorted(brackets))
    body += "]\n"
    body += "def lenientReads : List (String × String) := [%s]\n" % ", ".join("(%s, %s)" % (lean_str(m), lean_str(f)) for m, f in sorted(reads))
    body += "def lenientOther : List (String × String) := [%s]\n" % ", ".join("(%s, %s)" % (lean_str(m), lean_str(f)) for m, f in sorted(other))
    body += "def validateSteps : List String := %s\n" % lean_str_list(steps)
    body += "def knownArgsGuard : List String := %s\n" % lean_str_list(guard)
    body += "def unrecognized : List String := %s\n" % lean_str_list(unrec)
    body += "def parseCommonValidate : List String := %s\n" % lean_str_list(pcv)
    body += "end Jap.Gen.LenientBrackets\n"
    write_if_changed("LenientBrackets.lean", body)

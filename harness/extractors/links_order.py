"""Gen/LinksOrder.lean: the order of the calls made by `_parse_common`, `dump` and `save` (jsonargparse/_core.py)
and the names tested by `_initial_input_checks`, read from the source with ast."""
import ast
import os

from ..extract import lean_str_list, write_if_changed
from ..lib.common import REPO

WATCH = {"handle_subcommands", "add_sub_defaults", "print_config_if_requested", "apply_parsing_links", "validate", "strip_meta",
         "strip_link_target_keys", "_dump_cleanup_actions", "dump_using_format", "dump", "open", "clone", "as_dict"}


def calls_in_order(fn):
    """attribute / name calls of a function body in source order (nested defs excluded)"""
    out = []

    class V(ast.NodeVisitor):
        def visit_FunctionDef(self, node):
            if node is fn:
                self.generic_visit(node)

        def visit_Call(self, node):
            f = node.func
            name = f.attr if isinstance(f, ast.Attribute) else f.id if isinstance(f, ast.Name) else None
            if name in WATCH:
                out.append((node.lineno, node.col_offset, name))
            self.generic_visit(node)

    V().visit(fn)
    return [n for _, _, n in sorted(out)]


def find_method(tree, cls, name):
    for node in ast.walk(tree):
        if isinstance(node, ast.ClassDef) and node.name == cls:
            for f in node.body:
                if isinstance(f, ast.FunctionDef) and f.name == name:
                    return f
    return None


def generate(problems):
    with open(os.path.join(REPO, "jsonargparse", "_core.py")) as f:
        core = ast.parse(f.read())
    with open(os.path.join(REPO, "jsonargparse", "_link_arguments.py")) as f:
        links = ast.parse(f.read())
    body = "namespace Jap.Gen.LinksOrder\n"
    for meth in ("_parse_common", "dump", "save"):
        fn = find_method(core, "ArgumentParser", meth)
        if fn is None:
            problems.append("LinksOrder: ArgumentParser.%s not found" % meth)
            calls = []
        else:
            calls = calls_in_order(fn)
        body += "def %s : List String := %s\n" % ({"_parse_common": "parseCommon", "dump": "dump", "save": "save"}[meth], lean_str_list(calls))
    chk = find_method(links, "ActionLink", "_initial_input_checks")
    raised = []
    if chk is None:
        problems.append("LinksOrder: ActionLink._initial_input_checks not found")
    else:
        for node in ast.walk(chk):
            if isinstance(node, ast.Raise) and isinstance(node.exc, ast.Call) and node.exc.args:
                a = node.exc.args[0]
                text = "".join(v.value for v in a.values if isinstance(v, ast.Constant)) if isinstance(a, ast.JoinedStr) else getattr(a, "value", "")
                raised.append((node.lineno, str(text)))
    body += "def initialChecks : List String := %s\n" % lean_str_list([t for _, t in sorted(raised)])
    # --- apply_parsing_links: the guards (early returns, recursion, loop) in source order
    apl = find_method(links, "ActionLink", "apply_parsing_links")
    guards, steps = [], []
    if apl is None:
        problems.append("LinksOrder: ActionLink.apply_parsing_links not found")
    else:
        def names_in(node):
            return {n.attr if isinstance(n, ast.Attribute) else n.id for n in ast.walk(node) if isinstance(n, (ast.Attribute, ast.Name))}

        def returns(node):
            return any(isinstance(x, ast.Return) for x in node.body)

        loop = None
        for st in apl.body:
            if isinstance(st, ast.If):
                nm = names_in(st.test)
                if returns(st) and ("apply_config_skip" in nm or "is_print_config_requested" in nm):
                    parts = [x for x in ("apply_config_skip", "is_print_config_requested") if x in nm]
                    guards.append("return if " + " or ".join(parts))
                elif returns(st) and "hasattr" in nm and any(isinstance(c, ast.Constant) and c.value == "_links_group" for c in ast.walk(st.test)):
                    guards.append("return if no _links_group")
                elif "apply_parsing_links" in names_in(ast.Module(body=st.body, type_ignores=[])):
                    guards.append("recurse into subcommand" + (" if subcommand in cfg" if "subcommand" in nm and any(isinstance(c, ast.In) for c in ast.walk(st.test)) else ""))
                else:
                    guards.append("if ?")
            elif isinstance(st, ast.Assign) and "get_subcommand" in names_in(st.value):
                kw = [k.arg + "=" + repr(getattr(k.value, "value", "?")) for k in st.value.keywords] if isinstance(st.value, ast.Call) else []
                guards.append("get_subcommand " + " ".join(kw))
            elif isinstance(st, ast.For):
                guards.append("loop over links")
                loop = st
            elif isinstance(st, ast.Return):
                guards.append("return")
        # inside the loop: what happens per source, in order
        if loop is not None:
            for st in ast.walk(loop):
                if isinstance(st, ast.For) and isinstance(st.target, ast.Tuple) and "source" in names_in(st.iter):
                    for x in st.body:
                        nm = names_in(x)
                        if isinstance(x, ast.If) and "is_subclass_typehint" in nm:
                            steps.append("skip link if subclass source absent")
                        elif isinstance(x, ast.For) and "_check_value_key" in nm:
                            steps.append("check source values")
                        elif isinstance(x, ast.Expr) and "append" in nm:
                            steps.append("read source")
                    break
    # --- set_target_value: the statements that write the target (source text, in order)
    stv = find_method(links, "ActionLink", "set_target_value")
    writes = []
    if stv is None:
        problems.append("LinksOrder: ActionLink.set_target_value not found")
    else:
        for node in ast.walk(stv):
            if isinstance(node, ast.Assign) and any(isinstance(t, ast.Subscript) for t in node.targets):
                writes.append((node.lineno, ast.unparse(node)))
            elif isinstance(node, ast.Expr) and isinstance(node.value, ast.Call) and isinstance(node.value.func, ast.Attribute) \
                    and node.value.func.attr in ("update", "__setitem__", "setdefault", "pop", "__setattr__"):
                writes.append((node.lineno, ast.unparse(node)))
    body += "def setTargetWrites : List String := %s\n" % lean_str_list([t for _, t in sorted(writes)])
    # --- __init__: how the option strings of the target are redirected; strip: which actions are visited
    init = find_method(links, "ActionLink", "__init__")
    redirect = []
    if init is None:
        problems.append("LinksOrder: ActionLink.__init__ not found")
    else:
        def is_osa(t):
            return isinstance(t, ast.Subscript) and isinstance(t.value, ast.Attribute) and t.value.attr == "_option_string_actions"

        for node in ast.walk(init):
            if isinstance(node, ast.For) and any(isinstance(x, ast.Assign) and any(is_osa(t) for t in x.targets) for x in node.body):
                redirect.append((node.lineno, "for %s in %s" % (ast.unparse(node.target), ast.unparse(node.iter))))
            if isinstance(node, ast.Assign) and any(is_osa(t) for t in node.targets):
                redirect.append((node.lineno, ast.unparse(node)))
    body += "def optionRedirect : List String := %s\n" % lean_str_list([t for _, t in sorted(redirect)])
    strip = find_method(links, "ActionLink", "strip_link_target_keys")
    filters = []
    if strip is None:
        problems.append("LinksOrder: ActionLink.strip_link_target_keys not found")
    else:
        for node in ast.walk(strip):
            if isinstance(node, ast.For) and isinstance(node.iter, ast.ListComp) and "_actions" in ast.unparse(node.iter):
                filters.append((node.lineno, " and ".join(ast.unparse(c) for g in node.iter.generators for c in g.ifs)))
    body += "def stripFilter : List String := %s\n" % lean_str_list([t for _, t in sorted(filters)])
    body += "def applyGuards : List String := %s\n" % lean_str_list(guards)
    body += "def applySourceSteps : List String := %s\n" % lean_str_list(steps)
    body += "end Jap.Gen.LinksOrder\n"
    write_if_changed("LinksOrder.lean", body)

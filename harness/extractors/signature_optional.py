"""Gen/SignatureOptional.lean (C07): the "Optional without default" rule of SignatureArguments._add_signature_parameter.

AST of jsonargparse/_signatures.py: inside `if default == inspect_empty:` (twice nested: the explicit default, then the
signature's) the test `is_optional(annotation)` - its argument list must be exactly the annotation (a second, reference
argument restricts which Optional[...] annotations count) - guards `default = None`."""
import ast
import os

from ..extract import lean_str_list, write_if_changed


def generate(problems):
    import jsonargparse

    path = os.path.join(os.path.dirname(os.path.abspath(jsonargparse.__file__)), "_signatures.py")
    tree = ast.parse(open(path).read())
    fn = None
    for n in ast.walk(tree):
        if isinstance(n, ast.FunctionDef) and n.name == "_add_signature_parameter":
            fn = n
    if fn is None:
        problems.append("SignatureOptional: _add_signature_parameter not found")
        return
    found = None
    guarded = False
    for outer in ast.walk(fn):
        if isinstance(outer, ast.If) and ast.unparse(outer.test).replace(" ", "") == "default==inspect_empty":
            for inner in ast.walk(outer):
                if isinstance(inner, ast.If) and isinstance(inner.test, ast.Call) and ast.unparse(inner.test.func) == "is_optional":
                    sets_none = any(isinstance(s, ast.Assign) and ast.unparse(s.targets[0]) == "default" and ast.unparse(s.value) == "None" for s in inner.body)
                    if sets_none and found is None:
                        found = inner
                        guarded = True
    if found is None:
        problems.append("SignatureOptional: the `if is_optional(annotation): default = None` rule was not found in the no-default branch")
        return
    args = [ast.unparse(a) for a in found.test.args] + ["%s=%s" % (k.arg, ast.unparse(k.value)) for k in found.test.keywords]
    body = "namespace Jap.Gen.SignatureOptional\n"
    body += "def isOptionalArgs : List String := %s\n" % lean_str_list(args)
    body += "def setsDefaultNone : Bool := true\n"
    body += "def guardedByNoDefault : Bool := %s\n" % ("true" if guarded else "false")
    body += "end Jap.Gen.SignatureOptional\n"
    write_if_changed("SignatureOptional.lean", body)

"""Gen/LinkFlowSrc.lean (C16): normalised statements of the functions the Graph / GraphFlow models transcribe.

Read off the AST (jsonargparse/_link_arguments.py, jsonargparse/_core.py), one string per statement, nesting shown by
two-space indentation, compound statements as their header line (`if <test>:`, `for <target> in <iter>:`, `else:` ...):
  * setTargetValue           ActionLink.set_target_value                      (model: targetSlots)
  * applyInstantiationLinks  ActionLink.apply_instantiation_links             (model: applyLinks / applyOne / wanted)
  * instantiationOrder       ActionLink.instantiation_order                   (model: instantiationEdges / instantiationOrder)
  * reorder                  ActionLink.reorder                               (model: reorderLoop)
  * addEdge, getTopologicalOrder, topologicalSort   DirectedGraph.*           (model: addEdge / topoIdx / visit)
  * componentLoop            ArgumentParser.instantiate_classes from `components.sort(...)` to the final
                             `apply_instantiation_links(self, cfg, order=order)`  (model: componentOrder / icLoop)
Docstrings, imports and `...logger.debug(...)` calls are dropped (no effect on the value flow).  `tie_*` theorems in
Props/C16.lean state the lists the models were written against: an edit of any of these statements breaks the build
(broken tie -> boosted failing-input search)."""
from __future__ import annotations

import ast
import os

from ..extract import lean_str, write_if_changed
from ..lib.common import REPO


def _is_debug(stmt):
    return (isinstance(stmt, ast.Expr) and isinstance(stmt.value, ast.Call) and isinstance(stmt.value.func, ast.Attribute)
            and stmt.value.func.attr == "debug" and "logger" in ast.unparse(stmt.value.func.value))


def _flat(body, depth, out):
    pad = "  " * depth
    for i, st in enumerate(body):
        if i == 0 and isinstance(st, ast.Expr) and isinstance(st.value, ast.Constant) and isinstance(st.value.value, str):
            continue  # docstring
        if isinstance(st, (ast.Import, ast.ImportFrom)) or _is_debug(st):
            continue
        if isinstance(st, ast.If):
            out.append(pad + "if %s:" % ast.unparse(st.test))
            _flat(st.body, depth + 1, out)
            if st.orelse:
                out.append(pad + "else:")
                _flat(st.orelse, depth + 1, out)
        elif isinstance(st, (ast.For, ast.AsyncFor)):
            out.append(pad + "for %s in %s:" % (ast.unparse(st.target), ast.unparse(st.iter)))
            _flat(st.body, depth + 1, out)
            if st.orelse:
                out.append(pad + "else:")
                _flat(st.orelse, depth + 1, out)
        elif isinstance(st, ast.While):
            out.append(pad + "while %s:" % ast.unparse(st.test))
            _flat(st.body, depth + 1, out)
        elif isinstance(st, (ast.With, ast.AsyncWith)):
            out.append(pad + "with %s:" % ", ".join(ast.unparse(i) for i in st.items))
            _flat(st.body, depth + 1, out)
        elif isinstance(st, ast.Try):
            out.append(pad + "try:")
            _flat(st.body, depth + 1, out)
            for h in st.handlers:
                out.append(pad + "except %s:" % (ast.unparse(h.type) if h.type else ""))
                _flat(h.body, depth + 1, out)
            if st.orelse:
                out.append(pad + "else:")
                _flat(st.orelse, depth + 1, out)
            if st.finalbody:
                out.append(pad + "finally:")
                _flat(st.finalbody, depth + 1, out)
        elif isinstance(st, (ast.FunctionDef, ast.AsyncFunctionDef)):
            out.append(pad + "def %s(%s):" % (st.name, ast.unparse(st.args)))
            _flat(st.body, depth + 1, out)
        else:
            out.append(pad + ast.unparse(st))
    return out


def _method(tree, cls, name):
    for node in ast.walk(tree):
        if isinstance(node, ast.ClassDef) and node.name == cls:
            for f in node.body:
                if isinstance(f, ast.FunctionDef) and f.name == name:
                    return f
    return None


def model(problems=None):
    problems = problems if problems is not None else []
    links = ast.parse(open(os.path.join(REPO, "jsonargparse", "_link_arguments.py")).read())
    core = ast.parse(open(os.path.join(REPO, "jsonargparse", "_core.py")).read())
    out = {}
    for key, tree, cls, name in [
        ("setTargetValue", links, "ActionLink", "set_target_value"),
        ("applyInstantiationLinks", links, "ActionLink", "apply_instantiation_links"),
        ("instantiationOrder", links, "ActionLink", "instantiation_order"),
        ("reorder", links, "ActionLink", "reorder"),
        ("addEdge", links, "DirectedGraph", "add_edge"),
        ("getTopologicalOrder", links, "DirectedGraph", "get_topological_order"),
        ("topologicalSort", links, "DirectedGraph", "topological_sort"),
    ]:
        fn = _method(tree, cls, name)
        if fn is None:
            problems.append("LinkFlowSrc: %s.%s not found" % (cls, name))
            out[key] = []
            continue
        out[key] = ["def %s(%s):" % (fn.name, ast.unparse(fn.args))] + _flat(fn.body, 1, [])
    fi = _method(core, "ArgumentParser", "instantiate_classes")
    loop = []
    if fi is None:
        problems.append("LinkFlowSrc: ArgumentParser.instantiate_classes not found")
    else:
        flat_top = []
        on = False
        for st in fi.body:
            text = ast.unparse(st)
            if text.startswith("components.sort("):
                on = True
            if on:
                flat_top.append(st)
            if on and text.startswith("ActionLink.apply_instantiation_links(") and "order=" in text:
                break
        if not flat_top or "order=" not in ast.unparse(flat_top[-1]):
            problems.append("LinkFlowSrc: the component loop of instantiate_classes (components.sort ... final apply_instantiation_links) not found")
        loop = _flat(flat_top, 0, [])
    out["componentLoop"] = loop
    return out


def generate(problems):
    m = model(problems)
    body = "namespace Jap.Gen.LinkFlowSrc\n"
    for key in ("setTargetValue", "applyInstantiationLinks", "instantiationOrder", "reorder", "addEdge", "getTopologicalOrder",
                "topologicalSort", "componentLoop"):
        body += "def %s : List String := [\n%s]\n" % (key, ",\n".join("  " + lean_str(x) for x in m[key]))
    body += "end Jap.Gen.LinkFlowSrc\n"
    write_if_changed("LinkFlowSrc.lean", body)

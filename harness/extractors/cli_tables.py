"""Gen/CliTables.lean: the literals of jsonargparse/_cli.py the auto_cli model (E10a, C12) is tied to.

* `runComponentPops` — every `X.pop(key, ...)` of `_run_component` in source order as (receiver, key); a key that is a
  variable is written `$name`
* `autoCliBaseDests` — the dests of the parser `auto_cli` has built just before the component's arguments are added
  (`parser_class(default_meta=False)` + `add_argument("--config", action=ActionConfigFile)`), read from a live parser
* `enablePathExpr`, `autoCliSubConfigs`, `enablePathByType` — the expression that decides `enable_path` of a signature
  parameter (ast), the `sub_configs` value auto_cli passes, and a live table annotation -> enable_path of the action
* `methodConfigGuard` — the parameter name tested by `has_parameter(method_object, ...)` before a method's subparser gets `--config`
"""
from __future__ import annotations

import ast
import contextlib
import io
import os

from ..extract import lean_str, lean_str_list, write_if_changed
from ..lib.common import REPO


def generate(problems):
    src = open(os.path.join(REPO, "jsonargparse", "_cli.py")).read()
    tree = ast.parse(src)
    fn = [n for n in ast.walk(tree) if isinstance(n, ast.FunctionDef) and n.name == "_run_component"]
    pops = []
    if not fn:
        problems.append("CliTables: _cli._run_component not found")
    else:
        calls = [n for n in ast.walk(fn[0]) if isinstance(n, ast.Call) and isinstance(n.func, ast.Attribute) and n.func.attr == "pop"
                 and isinstance(n.func.value, ast.Name) and n.args]
        calls.sort(key=lambda n: (n.lineno, n.col_offset))
        for c in calls:
            k = c.args[0]
            if isinstance(k, ast.Constant) and isinstance(k.value, str):
                pops.append((c.func.value.id, k.value))
            elif isinstance(k, ast.Name):
                pops.append((c.func.value.id, "$" + k.id))
            else:
                problems.append("CliTables: unexpected pop key in _run_component: " + ast.dump(k)[:80])
    guard = []
    for n in ast.walk(tree):
        if isinstance(n, ast.Call) and isinstance(n.func, ast.Name) and n.func.id == "has_parameter" and len(n.args) == 2 \
                and isinstance(n.args[1], ast.Constant):
            guard.append(n.args[1].value)
    from jsonargparse import ActionConfigFile, ArgumentParser

    parser = ArgumentParser(default_meta=False)
    parser.add_argument("--config", action=ActionConfigFile)
    dests = [a.dest for a in parser._actions]
    # --- enable_path of signature parameters -------------------------------------------------------------------
    sig_src = open(os.path.join(REPO, "jsonargparse", "_signatures.py")).read()
    sig_tree = ast.parse(sig_src)
    fn2 = [n for n in ast.walk(sig_tree) if isinstance(n, ast.FunctionDef) and n.name == "_add_signature_parameter"]
    ep_exprs = []
    if not fn2:
        problems.append("CliTables: _signatures._add_signature_parameter not found")
    else:
        for n in ast.walk(fn2[0]):
            if isinstance(n, ast.Assign) and len(n.targets) == 1 and isinstance(n.targets[0], ast.Name) and n.targets[0].id == "enable_path":
                ep_exprs.append(ast.unparse(n.value))
        if len(ep_exprs) != 1:
            problems.append("CliTables: expected one assignment to enable_path in _add_signature_parameter, found %d" % len(ep_exprs))
    # the `is_optional(...)` calls of _add_signature_parameter in source order, as numbers of arguments: the first one decides
    # "no default + Optional[...] => default None" and must test the bare annotation (Optional of ANYTHING)
    opt_calls = []
    if fn2:
        calls = [n for n in ast.walk(fn2[0]) if isinstance(n, ast.Call) and isinstance(n.func, ast.Name) and n.func.id == "is_optional"]
        calls.sort(key=lambda n: (n.lineno, n.col_offset))
        opt_calls = [ast.unparse(c) for c in calls]
    # sub_configs as auto_cli passes it (the kwargs dict of _add_component_to_parser)
    sub_cfg = []
    for n in ast.walk(tree):
        if isinstance(n, ast.keyword) and n.arg == "sub_configs" and isinstance(n.value, ast.Constant):
            sub_cfg.append(bool(n.value.value))
    # live: which required positional / defaulted parameters of auto_cli end up with enable_path, by annotation
    import enum
    import typing

    from jsonargparse import auto_cli
    from jsonargparse._typehints import ActionTypeHint

    class _Color(enum.Enum):
        red = 1

    class _Base:
        def __init__(self, a: int = 1):
            pass

    anns = [("int", int), ("str", str), ("float", float), ("bool", bool), ("Optional[int]", typing.Optional[int]), ("List[int]", typing.List[int]),
            ("Literal", typing.Literal["u", "v"]), ("Enum", _Color), ("Union[int, str]", typing.Union[int, str]), ("Any", typing.Any),
            ("Union[str, List[str]]", typing.Union[str, typing.List[str]]), ("Class", _Base), ("Optional[Class]", typing.Optional[_Base]),
            ("Callable[[int], Class]", typing.Callable[[int], _Base])]
    rows = []
    for label, ann in anns:
        if ann in (str, int, float, bool):
            tyclass = "fastPath"
        elif ActionTypeHint.is_subclass_typehint(ann, all_subtypes=False):
            tyclass = "subclass"
        elif ActionTypeHint.is_return_subclass_typehint(ann):
            tyclass = "returnsSubclass"
        else:
            tyclass = "other"
        flags = []
        for required in (True, False):
            made = []

            class _Rec(ArgumentParser):
                def __init__(self, *a, **k):
                    super().__init__(*a, **k)
                    made.append(self)

            def f(x):
                return x

            f.__annotations__ = {"x": ann}
            if not required:
                f.__defaults__ = (None,)
            try:
                with contextlib.redirect_stdout(io.StringIO()), contextlib.redirect_stderr(io.StringIO()):
                    auto_cli(f, args=["--help"], parser_class=_Rec)
            except SystemExit:
                pass
            except Exception as ex:  # noqa: BLE001
                problems.append("CliTables: auto_cli could not build a parser for %s: %r" % (label, ex))
                continue
            acts = [a for a in made[0]._actions if a.dest == "x"]
            flags.append(bool(getattr(acts[0], "_enable_path", False)) if acts else False)
        rows.append((label, tyclass, flags[0] if flags else False, flags[1] if len(flags) > 1 else False))
    # --- the statements of _run_component and the parser-building calls of _add_component_to_parser, as they stand -----------
    def norm(n):
        return ast.unparse(n).replace('"', "'")

    run_stmts = [norm(st) for st in fn[0].body] if fn else []
    add_fn = [n for n in ast.walk(tree) if isinstance(n, ast.FunctionDef) and n.name == "_add_component_to_parser"]
    add_calls = []
    if not add_fn:
        problems.append("CliTables: _cli._add_component_to_parser not found")
    else:
        wanted = {"add_class_arguments", "add_method_arguments", "add_function_arguments", "add_subcommands", "add_subcommand", "add_argument"}
        calls = [n for n in ast.walk(add_fn[0]) if isinstance(n, ast.Call) and isinstance(n.func, ast.Attribute) and n.func.attr in wanted]
        calls.sort(key=lambda n: (n.lineno, n.col_offset))
        add_calls = [norm(c) for c in calls]
        kw = [norm(n) for n in ast.walk(add_fn[0]) if isinstance(n, (ast.Assign, ast.AnnAssign)) and "kwargs" in norm(n).split("=")[0]]
        add_calls = kw + add_calls
    body = "namespace Jap.Gen\n"
    body += "def runComponentStmts : List String := %s\n" % lean_str_list(run_stmts)
    body += "def addComponentCalls : List String := %s\n" % lean_str_list(add_calls)
    body += "def enablePathExpr : List String := %s\n" % lean_str_list(ep_exprs)
    body += "def isOptionalCalls : List String := %s\n" % lean_str_list(opt_calls)
    body += "def autoCliSubConfigs : List Bool := [%s]\n" % ", ".join("true" if b else "false" for b in sub_cfg)
    body += "/-- (annotation, how _add_signature_parameter classifies it, enable_path of a required positional, of a defaulted option) -/\n"
    body += "def enablePathByType : List (String × String × Bool × Bool) := [%s]\n" % ", ".join(
        "(%s, %s, %s, %s)" % (lean_str(a), lean_str(b), "true" if c else "false", "true" if d else "false") for a, b, c, d in rows)
    body += "def runComponentPops : List (String × String) := [%s]\n" % ", ".join("(%s, %s)" % (lean_str(a), lean_str(b)) for a, b in pops)
    body += "def autoCliBaseDests : List String := %s\n" % lean_str_list(dests)
    body += "def methodConfigGuard : List String := %s\n" % lean_str_list(guard)
    body += "end Jap.Gen\n"
    write_if_changed("CliTables.lean", body)

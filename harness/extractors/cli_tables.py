"""Gen/CliTables.lean: the literals of jsonargparse/_cli.py the auto_cli model (E10a, C12) is tied to.

* `runComponentPops` — every `X.pop(key, ...)` of `_run_component` in source order as (receiver, key); a key that is a
  variable is written `$name`
* `autoCliBaseDests` — the dests of the parser `auto_cli` has built just before the component's arguments are added
  (`parser_class(default_meta=False)` + `add_argument("--config", action=ActionConfigFile)`), read from a live parser
* `methodConfigGuard` — the parameter name tested by `has_parameter(method_object, ...)` before a method's subparser gets `--config`
"""
from __future__ import annotations

import ast
import os

from ..extract import lean_str, lean_str_list, write_if_changed
from ..lib.common import REPO


def generate(problems):
    src = open(os.path.join(REPO, "jsonargparse", "_cli.py")).read()
    tree = ast.parse(src)
    fn = [n for n in ast.walk(tree) if isinstance(n, ast.FunctionDef) and n.name == "_run_component"]
    pops = []
    if not fn:
        problems.append("CliTables: _cli._run_component not found")
    else:
        calls = [n for n in ast.walk(fn[0]) if isinstance(n, ast.Call) and isinstance(n.func, ast.Attribute) and n.func.attr == "pop"
                 and isinstance(n.func.value, ast.Name) and n.args]
        calls.sort(key=lambda n: (n.lineno, n.col_offset))
        for c in calls:
            k = c.args[0]
            if isinstance(k, ast.Constant) and isinstance(k.value, str):
                pops.append((c.func.value.id, k.value))
            elif isinstance(k, ast.Name):
                pops.append((c.func.value.id, "$" + k.id))
            else:
                problems.append("CliTables: unexpected pop key in _run_component: " + ast.dump(k)[:80])
    guard = []
    for n in ast.walk(tree):
        if isinstance(n, ast.Call) and isinstance(n.func, ast.Name) and n.func.id == "has_parameter" and len(n.args) == 2 \
                and isinstance(n.args[1], ast.Constant):
            guard.append(n.args[1].value)
    from jsonargparse import ActionConfigFile, ArgumentParser

    parser = ArgumentParser(default_meta=False)
    parser.add_argument("--config", action=ActionConfigFile)
    dests = [a.dest for a in parser._actions]
    body = "namespace Jap.Gen\n"
    body += "def runComponentPops : List (String × String) := [%s]\n" % ", ".join("(%s, %s)" % (lean_str(a), lean_str(b)) for a, b in pops)
    body += "def autoCliBaseDests : List String := %s\n" % lean_str_list(dests)
    body += "def methodConfigGuard : List String := %s\n" % lean_str_list(guard)
    body += "end Jap.Gen\n"
    write_if_changed("CliTables.lean", body)

"""Gen/AdaptTables.lean: what the adapter model (Core/Adapt.lean) was written against.

* leaf_types and the origin-type sets (sequence / mapping / tuple_set), and for the typing constructors the
  harness uses, the set each falls in;
* the ORDER and the TESTS of the if/elif chain of adapt_typehints (from the ast);
* the sort key of sort_subtypes_for_union: source of the key lambdas and the order it produces on a probe list;
* the source of the statements the model transcribes literally (Union result selection, tuple arity test,
  bool-for-int guard), normalised with ast.unparse;
* (session 2) EVERY statement of the branches the model transcribes: prologue (default early-out, adapt_kwargs),
  Any, registered, Tuple/Set, Sequence, Mapping (without its TypedDict part), the whole of `_check_type`,
  `parse_value_or_config`, `load_value`, `load_basic`, and from typing.py the two `validation_fn`s of the restricted
  types, `TypeCore.__new__`, `RegisteredType.is_value_of_type` / `deserializer`, the `register_type` call of
  `add_type` and the comparison operator table.

Props/C02.lean compares every constant with the value the model was written against (`decide`), so an edit
of these places breaks a proof obligation.
"""
import ast
import inspect
import textwrap

from ..extract import lean_str, lean_str_list, write_if_changed

# (label, test source) -- label = first matching substring
BRANCH_LABELS = [
    ("typehint == Any", "Any"),
    ("typehint_origin in literal_types", "Literal"),
    ("typehint in leaf_types", "leaf"),
    ("is_annotated(typehint)", "Annotated"),
    ("get_registered_type(typehint)", "registered"),
    ("is_subclass(typehint, Enum)", "Enum"),
    ("typehint in {Type, type}", "Type"),
    ("typehint_origin == Union", "Union"),
    ("typehint_origin in tuple_set_origin_types", "TupleSet"),
    ("typehint_origin in sequence_origin_types", "Sequence"),
    ("typehint_origin in mapping_origin_types", "Mapping"),
    ("typehint_origin in not_required_required_types", "NotRequired"),
    ("typehint_origin in callable_origin_types", "Callable"),
    ("is_dataclass_like(typehint)", "Dataclass"),
    ("inspect.isclass(typehint)", "Subclass"),
    ("is_alias_type(typehint)", "Alias"),
]


def _name(x):
    mod = getattr(x, "__module__", "")
    n = getattr(x, "__qualname__", None) or getattr(x, "_name", None) or str(x)
    return "%s.%s" % (mod, n)


def _find_chain(fn_node):
    """the top-level if/elif chain of adapt_typehints that starts with `typehint == Any`"""
    for st in fn_node.body:
        if isinstance(st, ast.If) and "typehint == Any" in ast.unparse(st.test):
            out = []
            cur = st
            while True:
                out.append(cur)
                if len(cur.orelse) == 1 and isinstance(cur.orelse[0], ast.If):
                    cur = cur.orelse[0]
                else:
                    if cur.orelse:
                        out.append(None)  # a final else
                    break
            return out
    return None


def _stmt_sources(node, needle):
    """below `node`: the tests of the `if` statements and the simple statements whose source contains `needle`"""
    out = []
    for sub in ast.walk(node):
        if isinstance(sub, ast.If):
            t = ast.unparse(sub.test)
            if needle in t:
                out.append("if " + t)
        elif isinstance(sub, ast.stmt) and not hasattr(sub, "body"):
            src = ast.unparse(sub)
            if needle in src:
                out.append(src)
    return out


def generate(problems):
    from typing import Dict, List, Set, Tuple, Union  # noqa: F401

    from jsonargparse import _typehints as m

    NoneType = type(None)
    body = "namespace Jap.Gen\n"
    body += "def leafTypes : List String := %s\n" % lean_str_list(sorted(t.__name__ for t in m.leaf_types))

    sets = [("sequence", m.sequence_origin_types), ("mapping", m.mapping_origin_types), ("tuple_set", m.tuple_set_origin_types)]
    for nm, s in sets:
        body += "def %sOrigins : List String := %s\n" % (nm.replace("_s", "S"), lean_str_list(sorted(_name(x) for x in s)))
    probes = [("List", List), ("list", list), ("Dict", Dict), ("dict", dict), ("Tuple", Tuple), ("tuple", tuple), ("Set", Set), ("set", set)]
    cls = []
    for pn, p in probes:
        inn = [nm for nm, s in sets if p in s]
        cls.append("(%s, %s)" % (lean_str(pn), lean_str("+".join(inn) if inn else "none")))
    body += "def originClass : List (String × String) := [%s]\n" % ", ".join(cls)
    body += "def seqOrMapProbe : List (String × Bool) := [%s]\n" % ", ".join(
        "(%s, %s)" % (lean_str(pn), "true" if p in m.sequence_or_mapping_origin_types else "false") for pn, p in probes)

    # ---- branch order of adapt_typehints ------------------------------------------------------------------
    src = textwrap.dedent(inspect.getsource(m.adapt_typehints))
    fn = ast.parse(src).body[0]
    chain = _find_chain(fn)
    labels, tests = [], []
    if chain is None:
        problems.append("AdaptTables: if/elif chain of adapt_typehints not found")
    else:
        for node in chain:
            if node is None:
                labels.append("else")
                tests.append("else")
                continue
            t = ast.unparse(node.test)
            tests.append(t)
            lab = next((l for needle, l in BRANCH_LABELS if needle in t), None)
            labels.append(lab if lab else "?" + t)
    body += "def adaptBranches : List String := %s\n" % lean_str_list(labels)
    body += "def adaptBranchTests : List String := %s\n" % lean_str_list(tests)

    # ---- statements transcribed literally -------------------------------------------------------------------
    by_label = {l: n for l, n in zip(labels, chain or []) if n is not None}

    def stmts(label, needle):
        node = by_label.get(label)
        if node is None:
            problems.append("AdaptTables: branch %s not found" % label)
            return []
        r = []
        for st in node.body:
            r.extend(_stmt_sources(st, needle))
        if not r:
            problems.append("AdaptTables: no statement with %r in branch %s" % (needle, label))
        return r

    union_node = by_label.get("Union")
    body += "def unionBranchSrc : List String := %s\n" % lean_str_list([ast.unparse(s) for s in union_node.body] if union_node else [])
    body += "def tupleArityTest : List String := %s\n" % lean_str_list(stmts("TupleSet", "len(val) != len(subtypehints)") + stmts("TupleSet", "isinstance(val, (list, tuple, set))"))
    body += "def tupleElemSrc : List String := %s\n" % lean_str_list(stmts("TupleSet", "val[n] ="))
    leaf_node = by_label.get("leaf")
    body += "def leafBranchSrc : List String := %s\n" % lean_str_list([ast.unparse(s) for s in leaf_node.body] if leaf_node else [])
    lit_node = by_label.get("Literal")
    body += "def literalBranchSrc : List String := %s\n" % lean_str_list([ast.unparse(s) for s in lit_node.body] if lit_node else [])
    enum_node = by_label.get("Enum")
    body += "def enumBranchSrc : List String := %s\n" % lean_str_list([ast.unparse(s) for s in enum_node.body] if enum_node else [])
    body += "def seqElemSrc : List String := %s\n" % lean_str_list(stmts("Sequence", "adapt_kwargs_n['orig_val']") + stmts("Sequence", "isinstance(val, list)") + stmts("Sequence", "isinstance(val, Iterable)"))
    body += "def mapElemSrc : List String := %s\n" % lean_str_list(stmts("Mapping", "kwargs['orig_val']") + stmts("Mapping", "cast = "))

    # ---- sort_subtypes_for_union ----------------------------------------------------------------------------
    ssrc = textwrap.dedent(inspect.getsource(m.sort_subtypes_for_union))
    sfn = ast.parse(ssrc).body[0]
    body += "def sortSrc : List String := %s\n" % lean_str_list([ast.unparse(s) for s in sfn.body])
    probe = [int, List[int], NoneType, Dict[str, int], str, Tuple[int], Set[int], NoneType, List[str]]
    for nm, val in (("sortProbeStr", "x"), ("sortProbeNonStr", 1)):
        got = m.sort_subtypes_for_union(tuple(probe), val, False)
        idx, used = [], set()
        for g in got:
            i = next(i for i, p in enumerate(probe) if p is g and i not in used) if any(p is g for p in probe) else \
                next(i for i, p in enumerate(probe) if p == g and i not in used)
            used.add(i)
            idx.append(i)
        body += "def %s : List Nat := [%s]\n" % (nm, ", ".join(map(str, idx)))

    # ---- _check_type: the retry / fallback skeleton ---------------------------------------------------------
    csrc = textwrap.dedent(inspect.getsource(m.ActionTypeHint._check_type))
    cfn = ast.parse(csrc).body[0]
    keep = []
    for sub in ast.walk(cfn):
        if isinstance(sub, ast.ExceptHandler):
            keep.append("except " + (ast.unparse(sub.type) if sub.type is not None else ""))
        elif isinstance(sub, ast.Call) and "adapt_typehints" in ast.unparse(sub.func):
            keep.append(ast.unparse(sub))
        elif isinstance(sub, ast.Call) and "_is_valid_string" in ast.unparse(sub.func):
            keep.append(ast.unparse(sub))
    body += "def checkTypeSkeleton : List String := %s\n" % lean_str_list(keep)
    vsrc = textwrap.dedent(inspect.getsource(m.ActionTypeHint._is_valid_string))
    body += "def isValidStringSrc : List String := %s\n" % lean_str_list([ast.unparse(s) for s in ast.parse(vsrc).body[0].body])

    # ---- every statement of the branches the model transcribes (session 2) ------------------------------------------
    def fn_body(f, skip_doc=True):
        node = ast.parse(textwrap.dedent(inspect.getsource(f))).body[0]
        sts = node.body
        if skip_doc and sts and isinstance(sts[0], ast.Expr) and isinstance(getattr(sts[0], "value", None), ast.Constant) and isinstance(sts[0].value.value, str):
            sts = sts[1:]
        return [ast.unparse(x) for x in sts]

    def branch_body(label, drop=None):
        node = by_label.get(label)
        if node is None:
            problems.append("AdaptTables: branch %s not found" % label)
            return []
        return [ast.unparse(x) for x in node.body if not (drop and drop in ast.unparse(x).split("\n")[0])]

    pro, epi, seen_chain = [], [], False
    for st in fn.body:
        if chain and st is chain[0]:
            seen_chain = True
            continue
        (epi if seen_chain else pro).append(ast.unparse(st))
    body += "def adaptPrologueSrc : List String := %s\n" % lean_str_list(pro)
    body += "def adaptEpilogueSrc : List String := %s\n" % lean_str_list(epi)
    body += "def adaptSignature : List String := %s\n" % lean_str_list([ast.unparse(fn.args)])
    body += "def anyBranchSrc : List String := %s\n" % lean_str_list(branch_body("Any"))
    body += "def registeredBranchSrc : List String := %s\n" % lean_str_list(branch_body("registered"))
    body += "def tupleSetBranchSrc : List String := %s\n" % lean_str_list(branch_body("TupleSet"))
    body += "def sequenceBranchSrc : List String := %s\n" % lean_str_list(branch_body("Sequence"))
    # the Mapping branch without its TypedDict part (required / extra keys: outside the model)
    body += "def mappingBranchSrc : List String := %s\n" % lean_str_list(branch_body("Mapping", drop="if type(typehint) in typed_dict_meta_types"))
    body += "def checkTypeSrc : List String := %s\n" % lean_str_list(fn_body(m.ActionTypeHint._check_type))

    # ---- what the model transcribes outside _typehints.py: the loader front end and the restricted / registered types ---
    from jsonargparse import _loaders_dumpers as ld
    from jsonargparse import _util as ut
    from jsonargparse import typing as ty

    body += "def parseValueOrConfigSrc : List String := %s\n" % lean_str_list(fn_body(ut.parse_value_or_config))
    body += "def loadValueSrc : List String := %s\n" % lean_str_list(fn_body(ld.load_value))
    body += "def loadBasicSrc : List String := %s\n" % lean_str_list(fn_body(ld.load_basic))

    def nested_fn(outer, name):
        node = ast.parse(textwrap.dedent(inspect.getsource(outer))).body[0]
        for sub in ast.walk(node):
            if isinstance(sub, ast.FunctionDef) and sub.name == name and sub is not node:
                return [ast.unparse(sub)]
        problems.append("AdaptTables: %s not found in %s" % (name, outer.__name__))
        return []

    body += "def restrictedNumberValidationSrc : List String := %s\n" % lean_str_list(nested_fn(ty.restricted_number_type, "validation_fn"))
    body += "def restrictedStringValidationSrc : List String := %s\n" % lean_str_list(nested_fn(ty.restricted_string_type, "validation_fn"))
    body += "def typeCoreNewSrc : List String := %s\n" % lean_str_list(nested_fn(ty.extend_base_type, "__new__"))
    body += "def registeredTypeSrc : List String := %s\n" % lean_str_list(
        fn_body(ty.RegisteredType.is_value_of_type) + fn_body(ty.RegisteredType.deserializer))
    reg_call = [ast.unparse(x) for x in ast.walk(ast.parse(textwrap.dedent(inspect.getsource(ty.add_type)))) if isinstance(x, ast.Call) and ast.unparse(x.func) == "register_type"]
    body += "def addTypeRegisterSrc : List String := %s\n" % lean_str_list(reg_call)
    ops1 = getattr(ty, "_operators1", {})
    body += "def restrictedOperators : List (String × String) := [%s]\n" % ", ".join(
        "(%s, %s)" % (lean_str(getattr(k, "__name__", str(k))), lean_str(v)) for k, v in ops1.items())
    body += "end Jap.Gen\n"
    write_if_changed("AdaptTables.lean", body)

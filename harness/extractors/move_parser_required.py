"""Gen/MoveParserRequired.lean (C07): where ActionParser._move_parser_actions takes the moved required keys from.

AST of jsonargparse/_actions.py: the keys handed to `parser.required_args.update(...)` must be the inner parser's
`required_args` SET with the prefix (`{prefix + "." + x for x in subparser.required_args}`): that set also holds keys made
required without any flag on an action (`add_subclass_arguments(..., required=True)` writes the key into `required_args`
through `_create_group_if_requested`; link targets are removed from it).  Deriving the keys from the actions' `_required`
flags instead loses / resurrects such keys for the inner-parser style only."""
import ast
import os

from ..extract import lean_str_list, write_if_changed


def generate(problems):
    import jsonargparse

    path = os.path.join(os.path.dirname(os.path.abspath(jsonargparse.__file__)), "_actions.py")
    tree = ast.parse(open(path).read())
    fn = None
    for n in ast.walk(tree):
        if isinstance(n, ast.ClassDef) and n.name == "ActionParser":
            for m in n.body:
                if isinstance(m, ast.FunctionDef) and m.name == "_move_parser_actions":
                    fn = m
    if fn is None:
        problems.append("MoveParserRequired: ActionParser._move_parser_actions not found")
        return
    assigns = []
    comp_ok = False
    for n in ast.walk(fn):
        if isinstance(n, (ast.Assign, ast.AugAssign, ast.AnnAssign)):
            targets = n.targets if isinstance(n, ast.Assign) else [n.target]
            if any(ast.unparse(t) == "required_args" for t in targets) and n.value is not None:
                assigns.append(ast.unparse(n.value))
                v = n.value
                if isinstance(v, ast.SetComp) and len(v.generators) == 1:
                    g = v.generators[0]
                    comp_ok = (ast.unparse(g.iter) == "subparser.required_args" and not g.ifs and isinstance(g.target, ast.Name)
                               and ast.unparse(v.elt).replace('"', "'") == "prefix + '.' + " + g.target.id)
    updates = [ast.unparse(c.args[0]) if c.args else "" for c in ast.walk(fn)
               if isinstance(c, ast.Call) and ast.unparse(c.func) == "parser.required_args.update"]
    other_writes = [ast.unparse(c) for c in ast.walk(fn) if isinstance(c, ast.Call) and ast.unparse(c.func).startswith("parser.required_args.")
                    and ast.unparse(c.func) != "parser.required_args.update"]
    reads_flag = any((isinstance(x, ast.Attribute) and x.attr == "_required") or (isinstance(x, ast.Constant) and x.value == "_required")
                     for x in ast.walk(fn))
    body = "namespace Jap.Gen.MoveParserRequired\n"
    body += "def requiredArgsAssigned : List String := %s\n" % lean_str_list([a.replace('"', "'") for a in assigns])
    body += "def prefixedInnerRequiredSet : Bool := %s\n" % ("true" if comp_ok and len(assigns) == 1 else "false")
    body += "def outerUpdates : List String := %s\n" % lean_str_list(updates)
    body += "def otherWritesToOuterRequired : List String := %s\n" % lean_str_list(other_writes)
    body += "def readsRequiredFlag : Bool := %s\n" % ("true" if reads_flag else "false")
    body += "end Jap.Gen.MoveParserRequired\n"
    write_if_changed("MoveParserRequired.lean", body)

"""Gen/ChannelSrc.lean (C05): normalised statements of the functions the channel layer and its typed part transcribe,
plus the facts the typed model CONSUMES.

Pinned (one string per statement, nesting by two-space indentation, docstrings dropped, `raise X(<message>)` -> `raise X`,
same normal form as Gen/NsSrc of C11):
  _core.py            ArgumentParser._load_env_vars, ._check_value_key, ._apply_actions
  _typehints.py       ActionTypeHint.parse_argv_item, ._check_type, ._is_valid_string, sort_subtypes_for_union and, of
                      adapt_typehints, the head (early return, adapt_kwargs) and the branches the typed model transcribes:
                      Literal, basic types, Enum, Union, Tuple/Set, List, Dict (with its TypedDict part)
  _loaders_dumpers.py load_basic, load_list_or_dict, load_value, json_or_yaml_load
  _util.py            parse_value_or_config
  _actions.py         _is_action_value_list, _ActionConfigLoad.__call__ / ._load_config / .check_type
  _formatters.py      get_env_var
`tie_src_*` theorems in Props/C05.lean state the lists the model was written against: an edit of any of these
statements breaks the build (broken tie -> boosted failing-input search).

Consumed by the model (Core/ChannelsTyped.lean): for every container branch of adapt_typehints, whether EVERY per-item
call `adapt_typehints(v, <item type>, ...)` receives `orig_val=None`:
  origResetTupleSet, origResetList, origResetDict, origResetTypedDict.
Read off the AST: the call's `**` argument is a dict display holding the constant key 'orig_val' with value None, or it
is `**name` and `name['orig_val'] = None` is assigned earlier in the same branch; `**adapt_kwargs` itself keeps orig_val.
"""
from __future__ import annotations

import ast
import os

from ..extract import lean_str_list, write_if_changed
from ..lib.common import REPO


def _flat(body, depth, out):
    pad = "  " * depth
    for i, st in enumerate(body):
        if i == 0 and isinstance(st, ast.Expr) and isinstance(st.value, ast.Constant) and isinstance(st.value.value, str):
            continue  # docstring
        if isinstance(st, ast.If):
            out.append(pad + "if %s:" % ast.unparse(st.test))
            _flat(st.body, depth + 1, out)
            if st.orelse:
                out.append(pad + "else:")
                _flat(st.orelse, depth + 1, out)
        elif isinstance(st, (ast.For, ast.AsyncFor)):
            out.append(pad + "for %s in %s:" % (ast.unparse(st.target), ast.unparse(st.iter)))
            _flat(st.body, depth + 1, out)
            if st.orelse:
                out.append(pad + "else:")
                _flat(st.orelse, depth + 1, out)
        elif isinstance(st, ast.While):
            out.append(pad + "while %s:" % ast.unparse(st.test))
            _flat(st.body, depth + 1, out)
        elif isinstance(st, (ast.With, ast.AsyncWith)):
            out.append(pad + "with %s:" % ", ".join(ast.unparse(i) for i in st.items))
            _flat(st.body, depth + 1, out)
        elif isinstance(st, ast.Try):
            out.append(pad + "try:")
            _flat(st.body, depth + 1, out)
            for h in st.handlers:
                out.append(pad + "except %s:" % (ast.unparse(h.type) if h.type else ""))
                _flat(h.body, depth + 1, out)
            if st.orelse:
                out.append(pad + "else:")
                _flat(st.orelse, depth + 1, out)
            if st.finalbody:
                out.append(pad + "finally:")
                _flat(st.finalbody, depth + 1, out)
        elif isinstance(st, (ast.FunctionDef, ast.AsyncFunctionDef)):
            out.append(pad + "def %s(%s):" % (st.name, ast.unparse(st.args)))
            _flat(st.body, depth + 1, out)
        elif isinstance(st, ast.Raise) and isinstance(st.exc, ast.Call):
            out.append(pad + "raise %s" % ast.unparse(st.exc.func))
        else:
            out.append(pad + ast.unparse(st))
    return out


def _fn_lines(fn):
    decos = ["@" + ast.unparse(d) for d in fn.decorator_list]
    return decos + ["def %s(%s):" % (fn.name, ast.unparse(fn.args))] + _flat(fn.body, 1, [])


def _find(tree, qual):
    cls, _, name = qual.rpartition(".")
    scope = tree.body
    if cls:
        scope = next((n.body for n in tree.body if isinstance(n, ast.ClassDef) and n.name == cls), [])
    return next((n for n in scope if isinstance(n, (ast.FunctionDef, ast.AsyncFunctionDef)) and n.name == name), None)


PINNED = [
    # (file, qualified name, Lean name)
    ("_core.py", "ArgumentParser._load_env_vars", "loadEnvVars"),
    ("_core.py", "ArgumentParser._check_value_key", "checkValueKey"),
    ("_core.py", "ArgumentParser._apply_actions", "applyActions"),
    ("_typehints.py", "ActionTypeHint.parse_argv_item", "parseArgvItem"),
    ("_typehints.py", "ActionTypeHint._check_type", "checkType"),
    ("_typehints.py", "ActionTypeHint._is_valid_string", "isValidString"),
    ("_typehints.py", "sort_subtypes_for_union", "sortSubtypesForUnion"),
    ("_loaders_dumpers.py", "load_basic", "loadBasic"),
    ("_loaders_dumpers.py", "load_list_or_dict", "loadListOrDict"),
    ("_loaders_dumpers.py", "load_value", "loadValue"),
    ("_loaders_dumpers.py", "json_or_yaml_load", "jsonOrYamlLoad"),
    ("_util.py", "parse_value_or_config", "parseValueOrConfig"),
    ("_actions.py", "_is_action_value_list", "isActionValueList"),
    ("_actions.py", "_ActionConfigLoad.__call__", "configLoadCall"),
    ("_actions.py", "_ActionConfigLoad._load_config", "configLoadLoad"),
    ("_actions.py", "_ActionConfigLoad.check_type", "configLoadCheckType"),
    ("_formatters.py", "get_env_var", "getEnvVar"),
]

# branches of adapt_typehints, by the text of their test
BRANCHES = [
    ("typehint_origin in literal_types", "adaptLiteral"),
    ("typehint in leaf_types", "adaptLeaf"),
    ("is_subclass(typehint, Enum)", "adaptEnum"),
    ("typehint_origin == Union", "adaptUnion"),
    ("typehint_origin in tuple_set_origin_types", "adaptTupleSet"),
    ("typehint_origin in sequence_origin_types", "adaptList"),
    ("typehint_origin in mapping_origin_types", "adaptDict"),
]


def _chain(fn):
    """the top-level if/elif chain of adapt_typehints: [(test text, If node)], and the statements before it"""
    head, first = [], None
    for st in fn.body:
        if isinstance(st, ast.If) and "typehint" in ast.unparse(st.test) and "Any" in ast.unparse(st.test):
            first = st
            break
        head.append(st)
    out = []
    cur = first
    while cur is not None:
        out.append((ast.unparse(cur.test), cur))
        cur = cur.orelse[0] if len(cur.orelse) == 1 and isinstance(cur.orelse[0], ast.If) else None
    return head, out


def _is_none(node):
    return isinstance(node, ast.Constant) and node.value is None


def _dict_resets(d):
    return any(isinstance(k, ast.Constant) and k.value == "orig_val" and _is_none(v) for k, v in zip(d.keys, d.values) if k is not None)


def _item_calls(nodes):
    """calls adapt_typehints(v, ...) (the per-item calls: first argument is the loop variable `v`) in statement order"""
    out = []
    for st in nodes:
        for n in ast.walk(st):
            if (isinstance(n, ast.Call) and isinstance(n.func, ast.Name) and n.func.id == "adapt_typehints" and n.args
                    and isinstance(n.args[0], ast.Name) and n.args[0].id == "v"):
                out.append(n)
    return out


def _reset_names(nodes):
    """names `x` with an assignment `x['orig_val'] = None` somewhere in the statements"""
    out = set()
    for st in nodes:
        for n in ast.walk(st):
            if isinstance(n, ast.Assign) and _is_none(n.value):
                for t in n.targets:
                    if (isinstance(t, ast.Subscript) and isinstance(t.value, ast.Name) and isinstance(t.slice, ast.Constant)
                            and t.slice.value == "orig_val"):
                        out.add(t.value.id)
    return out


def _all_reset(nodes):
    calls = _item_calls(nodes)
    if not calls:
        return None
    names = _reset_names(nodes)
    for c in calls:
        ok = False
        for kw in c.keywords:
            if kw.arg == "orig_val" and _is_none(kw.value):
                ok = True
            if kw.arg is None:
                if isinstance(kw.value, ast.Dict) and _dict_resets(kw.value):
                    ok = True
                if isinstance(kw.value, ast.Name) and kw.value.id in names:
                    ok = True
        if not ok:
            return False
    return True


def tie_text():
    """the Lean source of lean/Jap/Lemmas/ChannelsSrcTie.lean for the CURRENT tree: run
         python -c "from harness.extractors import channel_src as c; print(c.tie_text())" > lean/Jap/Lemmas/ChannelsSrcTie.lean
    after a reviewed change of a pinned function (and after the model has been brought in line with it)"""
    import re

    cap = {}
    problems = []
    _emit(problems, lambda name, body: cap.setdefault(name, body))
    if problems:
        raise RuntimeError("; ".join(problems))
    out = ["import Jap.Gen.ChannelSrc",
           "/-!",
           "C05 source ties: the normalised statements (Gen/ChannelSrc.lean, regenerated from /repo on every run) of the functions the",
           "Channels model and its typed part transcribe, as they were when the model was written.  An edit of any of these statements",
           "makes the corresponding `rfl` fail: the tie is broken and the check searches harder for a failing input.",
           "Regenerate with harness/extractors/channel_src.py:tie_text() after bringing the model in line with the change.",
           "-/",
           "namespace Jap.Channels.SrcTie", ""]
    for m in re.finditer(r"^def (\w+) : List String := \[(.*)\]$", cap["ChannelSrc.lean"], re.M):
        name, items = m.group(1), m.group(2)
        # one string per line (split at the separators between string literals)
        lines = re.findall(r'"(?:[^"\\]|\\.)*"', items)
        out.append("theorem tie_src_%s : Jap.Gen.ChannelSrc.%s = [" % (name, name))
        out.append(",\n".join("  " + l for l in lines) + "] := rfl")
        out.append("")
    out.append("end Jap.Channels.SrcTie")
    return "\n".join(out) + "\n"


def generate(problems):
    _emit(problems, write_if_changed)


def _emit(problems, write_if_changed):
    trees = {}
    body = "namespace Jap.Gen.ChannelSrc\n"
    for fname, qual, lean in PINNED:
        if fname not in trees:
            trees[fname] = ast.parse(open(os.path.join(REPO, "jsonargparse", fname)).read())
        fn = _find(trees[fname], qual)
        if fn is None:
            problems.append("ChannelSrc: %s not found in %s" % (qual, fname))
            return
        body += "def %s : List String := %s\n" % (lean, lean_str_list(_fn_lines(fn)))
    fn = _find(trees["_typehints.py"], "adapt_typehints")
    if fn is None:
        problems.append("ChannelSrc: adapt_typehints not found")
        return
    head, chain = _chain(fn)
    body += "def adaptHead : List String := %s\n" % lean_str_list(
        ["def %s(%s):" % (fn.name, ast.unparse(fn.args))] + _flat(head, 1, []))
    body += "def adaptBranchTests : List String := %s\n" % lean_str_list([t for t, _ in chain])
    by_test = dict(chain)
    for test, lean in BRANCHES:
        node = by_test.get(test)
        if node is None:
            problems.append("ChannelSrc: adapt_typehints has no branch `%s`" % test)
            return
        body += "def %s : List String := %s\n" % (lean, lean_str_list(["if %s:" % test] + _flat(node.body, 1, [])))
    # --- consumed facts: do the per-item calls reset orig_val?
    tset = _all_reset(by_test["typehint_origin in tuple_set_origin_types"].body)
    lst = _all_reset(by_test["typehint_origin in sequence_origin_types"].body)
    dnode = by_test["typehint_origin in mapping_origin_types"]
    td_nodes = [st for st in dnode.body if isinstance(st, ast.If) and "typed_dict_meta_types" in ast.unparse(st.test)]
    plain_nodes = [st for st in dnode.body if st not in td_nodes]
    dct = _all_reset(plain_nodes)
    tdict = _all_reset(td_nodes)
    facts = {"origResetTupleSet": tset, "origResetList": lst, "origResetDict": dct, "origResetTypedDict": tdict}
    missing = [k for k, v in facts.items() if v is None]
    if missing:
        problems.append("ChannelSrc: no per-item call adapt_typehints(v, ...) found for %s" % ", ".join(missing))
        return
    for k, v in facts.items():
        body += "/-- every per-item call of this container branch of adapt_typehints passes orig_val=None -/\n"
        body += "def %s : Bool := %s\n" % (k, "true" if v else "false")
    body += "end Jap.Gen.ChannelSrc\n"
    write_if_changed("ChannelSrc.lean", body)

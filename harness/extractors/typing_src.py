"""Gen/TypingSrc.lean (C20): normalised statements of the functions of jsonargparse/typing.py (and of the
registered-type branch of `adapt_typehints` in _typehints.py) that the `Jap.Typing` model transcribes.

Read off the AST, one string per statement, nesting shown by two-space indentation, compound statements as
their header line.  Docstrings, comments and imports are dropped, type annotations of parameters are dropped,
the arguments of `raise X(...)` are dropped (messages are not modelled).
  * extendBaseType        extend_base_type (+ TypeCore.__new__)      model: `createNum`/`createStr` (registry part), `validateNum`, `validateStr`
  * restrictedNumberType  restricted_number_type (+ validation_fn)   model: `numKey`, `NumCls` (private copy of the list), `validationFn`, `autoName`, `exprText`
  * restrictedStringType  restricted_string_type (+ validation_fn)   model: `createStr` key, `validateStr`
  * registeredTypeClass   RegisteredType.{__init__,__eq__,is_value_of_type,deserializer}   model: `HandlerId.eq3`, `Handler.deserializer`
  * registerType          register_type                              model: `registerWith`, `storeH`, `noKey`
  * registerOnFirstUse    register_type_on_first_use                 model: `Pending`
  * getRegisteredType     get_registered_type                        model: `getRegistered`
  * addType               add_type                                   model: name clash of `createNum`
  * timedeltaDeserializer / bytesSerializer / bytesDeserializer / bytearrayDeserializer / rangeSerializer /
    rangeDeserializer / secretStr                                    model: the codecs of Core/Typing.lean
  * moduleRegistrations   the module-level statements that register or predefine types, in source order
  * adaptRegisteredBranch the `elif get_registered_type(typehint):` branch of adapt_typehints   model: `adaptReg`
`C20_src_*_tie` theorems in Props/C20.lean state the lists the model was written against: an edit of any of these
statements breaks the build (broken tie -> boosted failing-input search)."""
from __future__ import annotations

import ast
import copy
import os

from ..extract import lean_str, write_if_changed
from ..lib.common import REPO


def _strip_args(args: ast.arguments) -> str:
    a = copy.deepcopy(args)
    for x in a.posonlyargs + a.args + a.kwonlyargs + ([a.vararg] if a.vararg else []) + ([a.kwarg] if a.kwarg else []):
        x.annotation = None
    return ast.unparse(a)


def _flat(body, depth, out):
    pad = "  " * depth
    for i, st in enumerate(body):
        if i == 0 and isinstance(st, ast.Expr) and isinstance(st.value, ast.Constant) and isinstance(st.value.value, str):
            continue  # docstring
        if isinstance(st, (ast.Import, ast.ImportFrom)):
            continue
        if isinstance(st, ast.If):
            out.append(pad + "if %s:" % ast.unparse(st.test))
            _flat(st.body, depth + 1, out)
            if st.orelse:
                out.append(pad + "else:")
                _flat(st.orelse, depth + 1, out)
        elif isinstance(st, ast.For):
            out.append(pad + "for %s in %s:" % (ast.unparse(st.target), ast.unparse(st.iter)))
            _flat(st.body, depth + 1, out)
        elif isinstance(st, ast.While):
            out.append(pad + "while %s:" % ast.unparse(st.test))
            _flat(st.body, depth + 1, out)
        elif isinstance(st, ast.With):
            out.append(pad + "with %s:" % ", ".join(ast.unparse(i) for i in st.items))
            _flat(st.body, depth + 1, out)
        elif isinstance(st, ast.Try):
            out.append(pad + "try:")
            _flat(st.body, depth + 1, out)
            for h in st.handlers:
                out.append(pad + "except %s%s:" % (ast.unparse(h.type) if h.type else "", (" as " + h.name) if h.name else ""))
                _flat(h.body, depth + 1, out)
            if st.orelse:
                out.append(pad + "else:")
                _flat(st.orelse, depth + 1, out)
            if st.finalbody:
                out.append(pad + "finally:")
                _flat(st.finalbody, depth + 1, out)
        elif isinstance(st, ast.FunctionDef):
            out.append(pad + "def %s(%s):" % (st.name, _strip_args(st.args)))
            _flat(st.body, depth + 1, out)
        elif isinstance(st, ast.ClassDef):
            out.append(pad + "class %s(%s):" % (st.name, ", ".join(ast.unparse(b) for b in st.bases)))
            _flat(st.body, depth + 1, out)
        elif isinstance(st, ast.Raise):
            exc = st.exc
            if isinstance(exc, ast.Call):
                out.append(pad + "raise %s(...)%s" % (ast.unparse(exc.func), " from " + ast.unparse(st.cause) if st.cause else ""))
            else:
                out.append(pad + ast.unparse(st))
        elif isinstance(st, ast.AnnAssign):
            out.append(pad + "%s = %s" % (ast.unparse(st.target), ast.unparse(st.value) if st.value else "<none>"))
        else:
            out.append(pad + ast.unparse(st))
    return out


def _fn(tree, name, cls=None):
    scope = tree.body
    if cls is not None:
        scope = next((n.body for n in tree.body if isinstance(n, ast.ClassDef) and n.name == cls), [])
    return next((n for n in scope if isinstance(n, ast.FunctionDef) and n.name == name), None)


def _render_fn(fn):
    return ["def %s(%s):" % (fn.name, _strip_args(fn.args))] + _flat(fn.body, 1, [])


FUNCS = [
    ("extendBaseType", None, ["extend_base_type"]),
    ("restrictedNumberType", None, ["restricted_number_type"]),
    ("restrictedStringType", None, ["restricted_string_type"]),
    ("registeredTypeClass", "RegisteredType", ["__init__", "__eq__", "is_value_of_type", "deserializer"]),
    ("registerType", None, ["register_type"]),
    ("registerOnFirstUse", None, ["register_type_on_first_use"]),
    ("getRegisteredType", None, ["get_registered_type"]),
    ("addType", None, ["add_type"]),
    ("timedeltaDeserializer", None, ["timedelta_deserializer"]),
    ("bytesSerializer", None, ["bytes_serializer"]),
    ("bytesDeserializer", None, ["bytes_deserializer"]),
    ("bytearrayDeserializer", None, ["bytearray_deserializer"]),
    ("rangeSerializer", None, ["range_serializer"]),
    ("rangeDeserializer", None, ["range_deserializer"]),
    ("secretStr", "SecretStr", ["__init__", "__str__", "__len__", "__eq__", "__hash__", "get_secret_value"]),
]

MODULE_CALLS = {"register_type", "register_type_on_first_use", "restricted_number_type", "restricted_string_type", "path_type"}
MODULE_NAMES = {"_fail_already_registered", "re_range_stop", "re_range_start_stop", "re_range_start_stop_step", "_operators1", "_operators2",
                "registered_types", "registered_type_handlers", "registration_pending", "arithmetic_deserializer_exceptions"}


def _mentions(node, names):
    for n in ast.walk(node):
        if isinstance(n, ast.Call) and isinstance(n.func, ast.Name) and n.func.id in names:
            return True
    return False


def _strip_docstring_kw(st):
    """predefined types: the `docstring=` keyword is documentation"""
    st = copy.deepcopy(st)
    for n in ast.walk(st):
        if isinstance(n, ast.Call):
            n.keywords = [k for k in n.keywords if k.arg != "docstring"]
    return st


def module_registrations(tree):
    out = []
    for st in tree.body:
        keep = False
        if isinstance(st, (ast.Assign, ast.AnnAssign)):
            targets = st.targets if isinstance(st, ast.Assign) else [st.target]
            if any(isinstance(t, ast.Name) and t.id in MODULE_NAMES for t in targets) or (st.value is not None and _mentions(st.value, MODULE_CALLS)):
                keep = True
        elif isinstance(st, ast.Delete):
            keep = any(isinstance(t, ast.Name) and t.id in MODULE_NAMES for t in st.targets)
        elif isinstance(st, (ast.Expr, ast.For, ast.If)):
            keep = _mentions(st, MODULE_CALLS)
        if keep:
            _flat([_strip_docstring_kw(st)], 0, out)
    return out


def adapt_registered_branch(problems):
    with open(os.path.join(REPO, "jsonargparse", "_typehints.py")) as f:
        tree = ast.parse(f.read())
    fn = _fn(tree, "adapt_typehints")
    if fn is None:
        problems.append("TypingSrc: adapt_typehints not found")
        return []
    for node in ast.walk(fn):
        if isinstance(node, ast.If) and ast.unparse(node.test) == "get_registered_type(typehint)":
            return ["elif %s:" % ast.unparse(node.test)] + _flat(node.body, 1, [])
    problems.append("TypingSrc: registered-type branch of adapt_typehints not found")
    return []


def model(problems=None):
    problems = problems if problems is not None else []
    with open(os.path.join(REPO, "jsonargparse", "typing.py")) as f:
        tree = ast.parse(f.read())
    out = {}
    for key, cls, names in FUNCS:
        lines = []
        for name in names:
            fn = _fn(tree, name, cls)
            if fn is None:
                problems.append("TypingSrc: %s%s not found" % ((cls + ".") if cls else "", name))
                continue
            lines += _render_fn(fn)
        out[key] = lines
    out["moduleRegistrations"] = module_registrations(tree)
    out["adaptRegisteredBranch"] = adapt_registered_branch(problems)
    return out


def generate(problems):
    m = model(problems)
    body = "namespace Jap.Gen.TypingSrc\n"
    for key in [k for k, _, _ in FUNCS] + ["moduleRegistrations", "adaptRegisteredBranch"]:
        body += "def %s : List String := [\n%s]\n" % (key, ",\n".join("  " + lean_str(x) for x in m[key]))
    body += "end Jap.Gen.TypingSrc\n"
    write_if_changed("TypingSrc.lean", body)

"""Gen/NsSrc.lean (C11): normalised statements of every function of jsonargparse/_namespace.py that the E1 model
transcribes, plus the module-level constants.

Read off the AST, one string per statement, nesting shown by two-space indentation, compound statements as their
header line.  Docstrings are dropped, `raise X(<message>)` is normalised to `raise X` (messages are not behaviour the
model covers), `@overload` stubs are skipped.  `tie_src_*` theorems in Props/C11.lean state the lists the model was
written against: an edit of any of these statements breaks the build (broken tie -> boosted failing-input search).

Also checked here: the *surface* of the module.  Every function/class defined in `_namespace.py` and every attribute
that `Namespace` (or its argparse bases) defines must be classified in SURFACE_MODELLED or SURFACE_NOT_MODELLED; a new
public attribute that is in neither list is a broken tie (the model's operation list no longer covers the class).
"""
from __future__ import annotations

import ast
import os

from ..extract import lean_str, lean_str_list, write_if_changed
from ..lib.common import REPO

# name -> where it lives in the model (Lean definition; driver op of Drv/NS.lean)
SURFACE_MODELLED = {
    # module level
    "NSKeyError": "Err.key (a KeyError subclass; only the class is observed)",
    "split_key": "Keys.splitDot / String.splitOn; op split_key",
    "split_key_root": "Keys.splitRoot; op split_key_root",
    "split_key_leaf": "Keys.splitLeaf; op split_key_leaf",
    "is_meta_key": "isMetaKey / Keys.isMetaKeyC; op is_meta_key",
    "strip_meta": "stripMeta; op strip_meta",
    "recreate_branches": "stripV/stripKV/stripL (skip_keys) and clone (no skip_keys); ops strip_meta, clone_eq, clone_swap",
    "Namespace": "the model",
    "add_clash_mark": "mark / Keys.addMark; op add_clash_mark",
    "del_clash_mark": "unmark / Keys.delMark; op del_clash_mark",
    "namespace_to_dict": "namespaceToDict; op namespace_to_dict",
    "expand_dict": "expandDict/expandVal; op dict_to_namespace",
    "dict_to_namespace": "expandDict; op dict_to_namespace",
    "meta_keys": "Gen.metaKeys",
    "clash_names": "Gen.clashNames",
    "clash_mark": "Gen.clashMark",
    # Namespace
    "Namespace.__init__": "fromDict / fromNs / initKwargs; ops from_dict, from_ns, init_kwargs, init_bad",
    "Namespace._parse_key": "parseKey + walk",
    "Namespace._parse_required_key": "getSegs (walk + lookup)",
    "Namespace._create_nested_namespace": "createNested",
    "Namespace.__setattr__": "setAttr; op setattr",
    "Namespace.__setitem__": "setItem/setSegs; op set",
    "Namespace.__getitem__": "getItem/getSegs; op get",
    "Namespace.__delitem__": "delItem/delSegs; op del",
    "Namespace.__contains__": "contains/containsSegs (+ non-str keys in the driver); op contains",
    "Namespace.__bool__": "nonEmpty; op bool",
    "Namespace.as_dict": "asDict; op as_dict",
    "Namespace.as_flat": "asFlat; op as_flat",
    "Namespace.items": "items/itemsSegs; op items",
    "Namespace.keys": "keys; op keys",
    "Namespace.values": "values; op values",
    "Namespace.get_sorted_keys": "getSortedKeys; op sorted_keys",
    "Namespace.clone": "clone; ops clone_eq, clone_swap",
    "Namespace.update": "update/update2/updateSegs; op update",
    "Namespace.get": "get; op getdef",
    "Namespace.get_value_and_parent": "valueAndParent; op value_and_parent",
    "Namespace.pop": "pop/popSegs; op pop",
    "Namespace.__eq__": "veq (argparse: vars(self) == vars(other), NotImplemented for other types); ops eq, clone_eq, eq_other",
}
SURFACE_NOT_MODELLED = {
    "patch_namespace": "context manager that swaps argparse.Namespace; no Namespace state involved (oracle-only check: swapped inside, restored after, also on exception)",
    "Namespace.__repr__": "argparse._AttributeHolder.__repr__: text rendering (depends on repr of the values), not part of the mapping behaviour",
    "Namespace._get_kwargs": "argparse helper of __repr__",
    "Namespace._get_args": "argparse helper of __repr__",
    "Namespace.__dict__": "the storage itself (state of the model)",
    "Namespace.__weakref__": "slot descriptor",
    "Namespace.__module__": "bookkeeping", "Namespace.__doc__": "bookkeeping", "Namespace.__qualname__": "bookkeeping",
    "Namespace.__firstlineno__": "bookkeeping", "Namespace.__static_attributes__": "bookkeeping",
    "Namespace.__annotations__": "bookkeeping", "Namespace.__hash__": "set to None by argparse's __eq__ (unhashable)",
    "Namespace.__parameters__": "bookkeeping", "Namespace.__orig_bases__": "bookkeeping",
}


def _flat(body, depth, out):
    pad = "  " * depth
    for i, st in enumerate(body):
        if i == 0 and isinstance(st, ast.Expr) and isinstance(st.value, ast.Constant) and isinstance(st.value.value, str):
            continue  # docstring
        if isinstance(st, ast.If):
            out.append(pad + "if %s:" % ast.unparse(st.test))
            _flat(st.body, depth + 1, out)
            if st.orelse:
                out.append(pad + "else:")
                _flat(st.orelse, depth + 1, out)
        elif isinstance(st, (ast.For, ast.AsyncFor)):
            out.append(pad + "for %s in %s:" % (ast.unparse(st.target), ast.unparse(st.iter)))
            _flat(st.body, depth + 1, out)
            if st.orelse:
                out.append(pad + "else:")
                _flat(st.orelse, depth + 1, out)
        elif isinstance(st, ast.While):
            out.append(pad + "while %s:" % ast.unparse(st.test))
            _flat(st.body, depth + 1, out)
        elif isinstance(st, (ast.With, ast.AsyncWith)):
            out.append(pad + "with %s:" % ", ".join(ast.unparse(i) for i in st.items))
            _flat(st.body, depth + 1, out)
        elif isinstance(st, ast.Try):
            out.append(pad + "try:")
            _flat(st.body, depth + 1, out)
            for h in st.handlers:
                out.append(pad + "except %s:" % (ast.unparse(h.type) if h.type else ""))
                _flat(h.body, depth + 1, out)
            if st.orelse:
                out.append(pad + "else:")
                _flat(st.orelse, depth + 1, out)
            if st.finalbody:
                out.append(pad + "finally:")
                _flat(st.finalbody, depth + 1, out)
        elif isinstance(st, (ast.FunctionDef, ast.AsyncFunctionDef)):
            out.append(pad + "def %s(%s):" % (st.name, ast.unparse(st.args)))
            _flat(st.body, depth + 1, out)
        elif isinstance(st, ast.Raise) and isinstance(st.exc, ast.Call):
            out.append(pad + "raise %s" % ast.unparse(st.exc.func))
        else:
            out.append(pad + ast.unparse(st))
    return out


def _is_overload(fn):
    return any(ast.unparse(d).endswith("overload") for d in fn.decorator_list)


def _fn_lines(fn):
    decos = ["@" + ast.unparse(d) for d in fn.decorator_list]
    return decos + ["def %s(%s):" % (fn.name, ast.unparse(fn.args))] + _flat(fn.body, 1, [])


def lean_name(qual):
    cls, _, name = qual.rpartition(".")
    parts = name.strip("_").split("_")
    camel = parts[0] + "".join(p.capitalize() for p in parts[1:])
    if name.startswith("__"):
        camel = "dunder" + camel[0].upper() + camel[1:]
    elif name.startswith("_"):
        camel = "priv" + camel[0].upper() + camel[1:]
    return ("ns" + camel[0].upper() + camel[1:]) if cls else camel


def model(problems=None):
    problems = problems if problems is not None else []
    tree = ast.parse(open(os.path.join(REPO, "jsonargparse", "_namespace.py")).read())
    out = {}
    consts = []
    for st in tree.body:
        if isinstance(st, (ast.FunctionDef, ast.AsyncFunctionDef)):
            if not _is_overload(st):
                out[st.name] = _fn_lines(st)
        elif isinstance(st, ast.ClassDef):
            for f in st.body:
                if isinstance(f, (ast.FunctionDef, ast.AsyncFunctionDef)):
                    out[st.name + "." + f.name] = _fn_lines(f)
                elif not (isinstance(f, ast.Expr) and isinstance(f.value, ast.Constant)):
                    consts.append("%s: %s" % (st.name, ast.unparse(f)))
            consts.append("class %s(%s)" % (st.name, ", ".join(ast.unparse(b) for b in st.bases)))
        elif isinstance(st, (ast.Assign, ast.AnnAssign)):
            text = ast.unparse(st)
            if not text.startswith("__all__"):
                consts.append(text)
    out["<consts>"] = consts
    return out


def surface(problems):
    """classify the module's and the class's attributes; unknown ones are a broken tie"""
    import argparse
    import inspect

    from jsonargparse import _namespace as m

    names = []
    for n, v in vars(m).items():
        if (inspect.isfunction(v) or inspect.isclass(v)) and getattr(v, "__module__", None) == m.__name__:
            names.append(n)
    names += [n for n in ("meta_keys", "clash_names", "clash_mark") if hasattr(m, n)]
    for cls in (m.Namespace, argparse.Namespace, argparse._AttributeHolder):
        for n in vars(cls):
            q = "Namespace." + n
            if q not in names:
                names.append(q)
    unknown = [n for n in names if n not in SURFACE_MODELLED and n not in SURFACE_NOT_MODELLED]
    if unknown:
        problems.append("NsSrc: public surface of _namespace.py grew: %s is neither modelled nor on the not-modelled list" % ", ".join(sorted(unknown)))
    gone = [n for n in SURFACE_MODELLED if n not in names]
    if gone:
        problems.append("NsSrc: modelled attribute(s) no longer exist: %s" % ", ".join(sorted(gone)))
    # interpreter bookkeeping (varies with the Python version) is classified but not emitted
    quiet = ("bookkeeping", "slot descriptor", "the storage itself")
    return (sorted(n for n in names if n in SURFACE_MODELLED),
            sorted(n for n in names if n in SURFACE_NOT_MODELLED and not SURFACE_NOT_MODELLED[n].startswith(quiet)))


PINNED = [
    "split_key", "split_key_root", "split_key_leaf", "is_meta_key", "strip_meta", "recreate_branches", "patch_namespace",
    "Namespace.__init__", "Namespace._parse_key", "Namespace._parse_required_key", "Namespace._create_nested_namespace",
    "Namespace.__setattr__", "Namespace.__setitem__", "Namespace.__getitem__", "Namespace.__delitem__",
    "Namespace.__contains__", "Namespace.__bool__", "Namespace.as_dict", "Namespace.as_flat", "Namespace.items",
    "Namespace.keys", "Namespace.values", "Namespace.get_sorted_keys", "Namespace.clone", "Namespace.update",
    "Namespace.get", "Namespace.get_value_and_parent", "Namespace.pop", "add_clash_mark", "del_clash_mark",
    "namespace_to_dict", "expand_dict", "dict_to_namespace",
]


def generate(problems):
    m = model(problems)
    modelled, not_modelled = surface(problems)
    body = "namespace Jap.Gen.NsSrc\n"
    for q in PINNED:
        if q not in m:
            problems.append("NsSrc: %s not found in _namespace.py" % q)
        body += "def %s : List String := [\n%s]\n" % (lean_name(q), ",\n".join("  " + lean_str(x) for x in m.get(q, [])))
    extra = sorted(k for k in m if k not in PINNED and k not in ("<consts>", "NSKeyError.__str__"))
    body += "def unpinnedFunctions : List String := %s\n" % lean_str_list(extra)
    body += "def consts : List String := [\n%s]\n" % ",\n".join("  " + lean_str(x) for x in m["<consts>"])
    body += "def surfaceModelled : List String := %s\n" % lean_str_list(modelled)
    body += "def surfaceNotModelled : List String := %s\n" % lean_str_list(not_modelled)
    body += "end Jap.Gen.NsSrc\n"
    write_if_changed("NsSrc.lean", body)

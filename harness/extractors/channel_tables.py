"""Gen/ChannelTables.lean: two facts of _actions.py the channel layer depends on, read off the source with ast:
 * _is_branch_key tests `action.dest.startswith(key + ".")` (the dot boundary),
 * ActionParser._move_parser_actions registers the group-level `--inner CONFIG` action BEFORE it extends
   parser._actions with the group's leaf actions (so _load_env_vars applies the group variable first)."""
import ast
import os

from ..extract import write_if_changed
from ..lib.common import REPO


def _is_key_plus_dot(node):
    return (isinstance(node, ast.BinOp) and isinstance(node.op, ast.Add) and isinstance(node.left, ast.Name) and node.left.id == "key"
            and isinstance(node.right, ast.Constant) and node.right.value == ".")


def generate(problems):
    src = open(os.path.join(REPO, "jsonargparse", "_actions.py")).read()
    tree = ast.parse(src)
    branch = move = None
    for node in ast.walk(tree):
        if isinstance(node, ast.FunctionDef) and node.name == "_is_branch_key":
            branch = node
        if isinstance(node, ast.ClassDef) and node.name == "ActionParser":
            for sub in node.body:
                if isinstance(sub, ast.FunctionDef) and sub.name == "_move_parser_actions":
                    move = sub
    if branch is None or move is None:
        problems.append("ChannelTables: _is_branch_key / ActionParser._move_parser_actions not found")
        return
    # --- the dot boundary
    tests = []
    for node in ast.walk(branch):
        if (isinstance(node, ast.Call) and isinstance(node.func, ast.Attribute) and node.func.attr == "startswith"
                and isinstance(node.func.value, ast.Attribute) and node.func.value.attr == "dest" and len(node.args) == 1):
            tests.append(node.args[0])
    if len(tests) != 1:
        problems.append("ChannelTables: expected one action.dest.startswith(...) test in _is_branch_key, found %d" % len(tests))
        return
    if _is_key_plus_dot(tests[0]):
        dot = True
    elif isinstance(tests[0], ast.Name) and tests[0].id == "key":
        dot = False
    else:
        problems.append("ChannelTables: the startswith argument of _is_branch_key is neither key nor key + '.'")
        return
    # --- order of registration
    i_add = i_ext = None
    for i, st in enumerate(move.body):
        if not (isinstance(st, ast.Expr) and isinstance(st.value, ast.Call) and isinstance(st.value.func, ast.Attribute)):
            continue
        f = st.value.func
        if f.attr == "add_argument" and isinstance(f.value, ast.Name) and f.value.id == "parser" and any(
                kw.arg == "action" and isinstance(kw.value, ast.Name) and kw.value.id == "_ActionConfigLoad" for kw in st.value.keywords):
            i_add = i
        if f.attr == "extend" and isinstance(f.value, ast.Attribute) and f.value.attr == "_actions" and isinstance(f.value.value, ast.Name) \
                and f.value.value.id == "parser":
            i_ext = i
    if i_add is None or i_ext is None:
        problems.append("ChannelTables: parser.add_argument(.., action=_ActionConfigLoad) / parser._actions.extend(actions) not found in _move_parser_actions")
        return
    body = "namespace Jap.Gen\n"
    body += "/-- `_is_branch_key`: `action.dest.startswith(key + \".\")` -/\n"
    body += "def branchKeyDotBoundary : Bool := %s\n" % ("true" if dot else "false")
    body += "/-- `ActionParser._move_parser_actions`: the group-level config action is registered before the group's leaf actions -/\n"
    body += "def groupActionFirst : Bool := %s\n" % ("true" if i_add < i_ext else "false")
    body += "end Jap.Gen\n"
    write_if_changed("ChannelTables.lean", body)

"""Gen/Brackets.lean: every @contextmanager of the package, the variable(s) it sets and where the reset sits.

Read off the ast of /repo/jsonargparse/*.py.  For every function decorated with
`contextmanager` one row per variable it sets before the `yield`:

* `X.set(...)` on a name `X`  -> context variable `X`  (for `parser_context`, whose `X` is the loop
  variable over `parser_context_vars[...]`, one row per key of that dict, read from the ast as well);
* `mod.attr = ...`            -> the module attribute `mod.attr`   (`argparse.Namespace`);
* `os.chdir(...)`             -> the process working directory `os.cwd`.

The reset of a variable is the matching `X.reset(...)`, the second assignment to `mod.attr`, the second
`os.chdir`.  Its place is
  "finally" : inside the `finally` block of a `try` whose body contains the `yield`,
  "after"   : somewhere else after the `yield` (skipped when the body raises),
  "none"    : there is no reset at all.
A fifth column says WHAT is restored:
  "self"  : the value the variable itself had before it was set — `X.reset(tok)` with `tok = X.set(...)`,
            `mod.attr = saved` with `saved = mod.attr`, `os.chdir(saved)` with `saved = os.getcwd()`
            (every non-constant assignment to `saved` before the yield must be of that form),
  "other" : anything else (e.g. a directory recorded elsewhere), "-" when there is no reset.
Removing a try/finally, moving the reset out of it, or restoring a value that was not read from the
variable changes the table.  Context managers that set nothing are listed with the variable "-".
"""
from __future__ import annotations

import ast
import glob
import os

from ..extract import lean_str, write_if_changed
from ..lib.common import REPO


def _is_cm(fn):
    for d in fn.decorator_list:
        if isinstance(d, ast.Name) and d.id == "contextmanager":
            return True
        if isinstance(d, ast.Attribute) and d.attr == "contextmanager":
            return True
    return False


def _functions(tree):
    """(qualified name, FunctionDef) for every function, class-qualified"""
    out = []

    def rec(node, prefix):
        for ch in ast.iter_child_nodes(node):
            if isinstance(ch, ast.ClassDef):
                rec(ch, prefix + ch.name + ".")
            elif isinstance(ch, (ast.FunctionDef, ast.AsyncFunctionDef)):
                out.append((prefix + ch.name, ch))
                rec(ch, prefix + ch.name + ".")
            else:
                rec(ch, prefix)

    rec(tree, "")
    return out


def _own_nodes(fn):
    """nodes of fn's body without nested function/class definitions"""
    out = []

    def rec(node):
        for ch in ast.iter_child_nodes(node):
            if isinstance(ch, (ast.FunctionDef, ast.AsyncFunctionDef, ast.ClassDef, ast.Lambda)):
                continue
            out.append(ch)
            rec(ch)

    for st in fn.body:
        out.append(st)
        rec(st)
    return out


def _effects(node):
    """(variable, kind) if `node` sets or resets a variable; kind in {'set','reset','assign','chdir'}"""
    if isinstance(node, ast.Call) and isinstance(node.func, ast.Attribute):
        f = node.func
        if f.attr in ("set", "reset") and isinstance(f.value, ast.Name):
            return f.value.id, f.attr
        if f.attr == "chdir" and isinstance(f.value, ast.Name) and f.value.id == "os":
            return "os.cwd", "chdir"
    if isinstance(node, ast.Assign) and len(node.targets) == 1:
        t = node.targets[0]
        if isinstance(t, ast.Attribute) and isinstance(t.value, ast.Name) and t.value.id not in ("self", "cls"):
            return "%s.%s" % (t.value.id, t.attr), "assign"
    return None


def _saved_from_self(nodes, first_yield, var, name):
    """is every non-constant assignment to `name` before the yield a read of `var` itself?"""
    found = False
    for n in nodes:
        if not isinstance(n, (ast.Assign, ast.AnnAssign)) or n.lineno >= first_yield:
            continue
        value = None
        if isinstance(n, ast.Assign) and any(isinstance(t, ast.Name) and t.id == name for t in n.targets):
            value = n.value
        elif isinstance(n, ast.AnnAssign) and isinstance(n.target, ast.Name) and n.target.id == name and n.value is not None:
            value = n.value
        if value is None or isinstance(value, ast.Constant):
            continue
        src = ast.unparse(value)
        if var == "os.cwd":
            ok = src == "os.getcwd()"
        elif "." in var:
            ok = src == var
        else:
            ok = isinstance(value, ast.Call) and isinstance(value.func, ast.Attribute) and value.func.attr == "set" and ast.unparse(value.func.value) == var
        if not ok:
            return False
        found = True
    return found


def _restored_value(node):
    """the Name whose value a reset node writes back, or None"""
    if isinstance(node, ast.Call) and node.args and isinstance(node.args[0], ast.Name):
        return node.args[0].id
    if isinstance(node, ast.Assign) and isinstance(node.value, ast.Name):
        return node.value.id
    return None


def analyse(fn):
    """[(variable, reset place, what is restored)] of one context manager"""
    nodes = _own_nodes(fn)
    yields = [n for n in nodes if isinstance(n, (ast.Yield, ast.YieldFrom))]
    if not yields:
        return None
    first_yield = min(n.lineno for n in yields)
    in_finally = set()
    for n in nodes:
        if isinstance(n, ast.Try) and n.finalbody:
            body_nodes = []
            for st in n.body:
                body_nodes.append(st)
                body_nodes.extend(ast.walk(st))
            if any(isinstance(b, (ast.Yield, ast.YieldFrom)) for b in body_nodes):
                for st in n.finalbody:
                    in_finally.add(id(st))
                    for sub in ast.walk(st):
                        in_finally.add(id(sub))
    sets, resets, sources = [], {}, {}
    for n in nodes:
        e = _effects(n)
        if e is None:
            continue
        var, kind = e
        before = n.lineno < first_yield and id(n) not in in_finally
        if kind == "set" or (kind in ("assign", "chdir") and before):
            if before and var not in sets:
                sets.append(var)
        elif kind == "reset" or kind in ("assign", "chdir"):
            place = "finally" if id(n) in in_finally else "after"
            # the weakest place wins: one reset outside `finally` is enough to lose the guarantee
            if resets.get(var) != "after":
                resets[var] = place
            name = _restored_value(n)
            src = "self" if name is not None and _saved_from_self(nodes, first_yield, var, name) else "other"
            if sources.get(var) != "other":
                sources[var] = src
    return [(v, resets.get(v, "none"), sources.get(v, "-")) for v in sets]


def _parser_context_keys(tree):
    for n in ast.walk(tree):
        if isinstance(n, ast.Assign) and len(n.targets) == 1 and isinstance(n.targets[0], ast.Name) and n.targets[0].id == "parser_context_vars":
            v = n.value
            if isinstance(v, ast.Call) and getattr(v.func, "id", None) == "dict":
                return [k.arg for k in v.keywords]
            if isinstance(v, ast.Dict):
                return [k.value for k in v.keys]
    return None


def rows(repo=REPO):
    out, names, problems = [], [], []
    for path in sorted(glob.glob(os.path.join(repo, "jsonargparse", "*.py"))):
        fname = os.path.basename(path)
        tree = ast.parse(open(path).read())
        for qual, fn in _functions(tree):
            if not _is_cm(fn):
                continue
            names.append("%s:%s" % (fname, qual))
            res = analyse(fn)
            if res is None:
                problems.append("Brackets: context manager %s:%s has no yield" % (fname, qual))
                continue
            if not res:
                out.append((fname, qual, "-", "none", "-"))
            for var, place, src in res:
                if qual == "parser_context" and var == "context_var":
                    keys = _parser_context_keys(tree)
                    if not keys:
                        problems.append("Brackets: parser_context_vars not found")
                        continue
                    for k in keys:
                        out.append((fname, qual, k, place, src))
                else:
                    out.append((fname, qual, var, place, src))
    return out, names, problems


def generate(problems):
    table, names, probs = rows()
    problems.extend(probs)
    for needed in ("_util.py:change_to_path_dir", "_namespace.py:patch_namespace", "_common.py:parser_context"):
        if needed not in names:
            problems.append("Brackets: context manager %s not found" % needed)
    body = "namespace Jap.Gen.Brackets\n"
    body += "/-- (file, context manager, variable it sets, place of the reset: \"finally\" | \"after\" | \"none\",\n"
    body += "    what is restored: \"self\" (the variable's own earlier value) | \"other\" | \"-\") -/\n"
    body += "def brackets : List (String × String × String × String × String) := [\n"
    body += ",\n".join("  (%s, %s, %s, %s, %s)" % tuple(lean_str(x) for x in r) for r in table)
    body += "]\n"
    body += "end Jap.Gen.Brackets\n"
    write_if_changed("Brackets.lean", body)

"""Gen/PositionalOptionals.lean (C06): the statements that decide what happens to command-line tokens no action consumed,
and the statements of the per-class parser of a dataclass-typed value.

AST of jsonargparse/_core.py, _common.py and _typehints.py (statements re-printed by ast.unparse, docstrings and logger calls dropped):
* `positionalOptionals`: the body of `ArgumentParser._positional_optionals` - the loop that hands leftover tokens to the optionals one by
  one (`unk.pop(0)` per optional action, `break` on a missing positional / when nothing is left) and returns the REST;
  the model `Jap.Validate.posLoop` is a transcription of it
* `eligibleActions`: the body of `get_optionals_as_positionals_actions` (which actions take part)
* `supports`: the expression of `supports_optionals_as_positionals`
* `parseArgsLeftover`: in `parse_args`, the statements from `parse_known_args` to the "Unrecognized arguments" error
* `dataclassBranch`: the statements of the branch `elif is_dataclass_like(typehint):` of `adapt_typehints` - the value the per-class parser
  gets as `default` must be passed in a NEW dict (`{**sub_add_kwargs, "default": prev_val}`): `sub_add_kwargs` is the dict stored on the
  action, writing into it would make a later parse of the same parser see the values of an earlier one
* `checkRequired` / `checkValues`: the statements of the two closures of `ArgumentParser.validate` that the model `reqFields` / `walk` transcribe"""
import ast
import os

from ..extract import lean_str, lean_str_list, write_if_changed


def _stmts(body):
    out = []
    for s in body:
        if isinstance(s, ast.Expr) and isinstance(s.value, ast.Constant):
            continue                       # docstring
        txt = ast.unparse(s)
        if "_logger.debug" in txt and isinstance(s, ast.Expr):
            continue
        out.append(txt)
    return out


def _flat(body, depth=0):
    """statements with their nesting depth, compound statements by their header line"""
    out = []
    for s in body:
        if isinstance(s, ast.Expr) and isinstance(s.value, ast.Constant):
            continue
        if isinstance(s, ast.Expr) and "_logger.debug" in ast.unparse(s):
            continue
        pre = "%d: " % depth
        if isinstance(s, (ast.For, ast.While)):
            out.append(pre + ast.unparse(s).split("\n")[0])
            out.extend(_flat(s.body, depth + 1))
            if s.orelse:
                out.append(pre + "else:")
                out.extend(_flat(s.orelse, depth + 1))
        elif isinstance(s, ast.If):
            out.append(pre + "if %s:" % ast.unparse(s.test))
            out.extend(_flat(s.body, depth + 1))
            if s.orelse:
                out.append(pre + "else:")
                out.extend(_flat(s.orelse, depth + 1))
        elif isinstance(s, ast.With):
            out.append(pre + ast.unparse(s).split("\n")[0])
            out.extend(_flat(s.body, depth + 1))
        elif isinstance(s, ast.Try):
            out.append(pre + "try:")
            out.extend(_flat(s.body, depth + 1))
            for h in s.handlers:
                out.append(pre + "except %s:" % (ast.unparse(h.type) if h.type else ""))
                out.extend(_flat(h.body, depth + 1))
            if s.finalbody:
                out.append(pre + "finally:")
                out.extend(_flat(s.finalbody, depth + 1))
        elif isinstance(s, (ast.FunctionDef, ast.ClassDef)):
            out.append(pre + "def %s" % s.name)
        else:
            out.append(pre + ast.unparse(s))
    return out


def _find(tree, name, cls=None):
    for n in ast.walk(tree):
        if cls is not None:
            if isinstance(n, ast.ClassDef) and n.name == cls:
                for m in n.body:
                    if isinstance(m, ast.FunctionDef) and m.name == name:
                        return m
        elif isinstance(n, ast.FunctionDef) and n.name == name:
            return n
    return None


def generate(problems):
    import jsonargparse

    pkg = os.path.dirname(os.path.abspath(jsonargparse.__file__))
    core = ast.parse(open(os.path.join(pkg, "_core.py")).read())
    common = ast.parse(open(os.path.join(pkg, "_common.py")).read())
    th = ast.parse(open(os.path.join(pkg, "_typehints.py")).read())

    po = _find(core, "_positional_optionals", "ArgumentParser")
    el = _find(common, "get_optionals_as_positionals_actions")
    su = _find(common, "supports_optionals_as_positionals")
    pa = _find(core, "parse_args", "ArgumentParser")
    va = _find(core, "validate", "ArgumentParser")
    at = _find(th, "adapt_typehints")
    for nm, x in (("_positional_optionals", po), ("get_optionals_as_positionals_actions", el), ("supports_optionals_as_positionals", su),
                  ("parse_args", pa), ("validate", va), ("adapt_typehints", at)):
        if x is None:
            problems.append("PositionalOptionals: %s not found" % nm)
            return
    # parse_args: from the `with` holding parse_known_args to the `if unk:` after it
    leftover = []
    for n in ast.walk(pa):
        if isinstance(n, ast.Try):
            for i, s in enumerate(n.body):
                if isinstance(s, ast.With) and "parse_known_args" in ast.unparse(s):
                    leftover = _flat(s.body) + _flat(n.body[i + 1:i + 2])
    if not leftover:
        problems.append("PositionalOptionals: parse_args no longer calls parse_known_args inside a with block of its try")
        return
    # adapt_typehints: the branch whose test is is_dataclass_like(typehint)
    branch = None
    for n in ast.walk(at):
        if isinstance(n, ast.If) and ast.unparse(n.test) == "is_dataclass_like(typehint)":
            branch = _flat(n.body)
    if branch is None:
        problems.append("PositionalOptionals: adapt_typehints has no branch `is_dataclass_like(typehint)`")
        return
    cr = cv = None
    for m in va.body:
        if isinstance(m, ast.FunctionDef) and m.name == "check_required":
            cr = _flat(m.body)
        if isinstance(m, ast.FunctionDef) and m.name == "check_values":
            cv = _flat(m.body)
    if cr is None or cv is None:
        problems.append("PositionalOptionals: validate has no closures check_required / check_values")
        return
    body = "namespace Jap.Gen.PositionalOptionals\n"
    body += "def positionalOptionals : List String := %s\n" % lean_str_list(_flat(po.body))
    body += "def eligibleActions : List String := %s\n" % lean_str_list(_flat([s for s in el.body if not isinstance(s, ast.ImportFrom)]))
    body += "def supports : List String := %s\n" % lean_str_list(_stmts(su.body))
    body += "def parseArgsLeftover : List String := %s\n" % lean_str_list(leftover)
    body += "def dataclassBranch : List String := %s\n" % lean_str_list(branch)
    body += "def checkRequired : List String := %s\n" % lean_str_list(cr)
    body += "def checkValues : List String := %s\n" % lean_str_list(cv)
    body += "end Jap.Gen.PositionalOptionals\n"
    write_if_changed("PositionalOptionals.lean", body)

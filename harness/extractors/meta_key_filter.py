"""Gen/MetaKeyFilter.lean (C06): which keys `check_values` never sees.

AST of jsonargparse/_namespace.py, _core.py and _typehints.py:
* `metaKeys`: the set `meta_keys` (imported value, sorted)
* `isMetaKeyBody`: the statements of `is_meta_key` - the test must be MEMBERSHIP of the leaf name in `meta_keys`
  (a spelling test such as "starts and ends with __" would hide every foreign key written `__comment__` from validation)
* `sortedKeysFilterDefault` / `sortedKeysSelect`: the default of `key_filter` in `Namespace.get_sorted_keys` and the comprehension that applies it
* `checkValuesKeys`: the call whose result `check_values` iterates
* `subclassSpecKeys`: the keys `is_subclass_spec` allows in a class specification"""
import ast
import os

from ..extract import lean_str, lean_str_list, write_if_changed


def generate(problems):
    import jsonargparse
    import jsonargparse._namespace as nsmod

    pkg = os.path.dirname(os.path.abspath(jsonargparse.__file__))
    ns_tree = ast.parse(open(os.path.join(pkg, "_namespace.py")).read())
    core_tree = ast.parse(open(os.path.join(pkg, "_core.py")).read())
    th_tree = ast.parse(open(os.path.join(pkg, "_typehints.py")).read())

    body_meta = None
    for n in ns_tree.body:
        if isinstance(n, ast.FunctionDef) and n.name == "is_meta_key":
            body_meta = [ast.unparse(s) for s in n.body if not (isinstance(s, ast.Expr) and isinstance(s.value, ast.Constant))]
    if body_meta is None:
        problems.append("MetaKeyFilter: is_meta_key not found")
        return
    default, select = None, None
    for n in ast.walk(ns_tree):
        if isinstance(n, ast.FunctionDef) and n.name == "get_sorted_keys":
            names = [a.arg for a in n.args.args]
            if "key_filter" in names:
                i = names.index("key_filter") - (len(names) - len(n.args.defaults))
                if i >= 0:
                    default = ast.unparse(n.args.defaults[i])
            for s in n.body:
                if isinstance(s, ast.Assign) and ast.unparse(s.targets[0]) == "keys" and select is None:
                    select = ast.unparse(s.value)
    if default is None or select is None:
        problems.append("MetaKeyFilter: Namespace.get_sorted_keys(key_filter=...) not found")
        return
    cv_keys = []
    for n in ast.walk(core_tree):
        if isinstance(n, ast.FunctionDef) and n.name == "check_values":
            for c in ast.walk(n):
                if isinstance(c, ast.Call) and isinstance(c.func, ast.Attribute) and c.func.attr in ("get_sorted_keys", "keys", "items") \
                        and ast.unparse(c.func.value) == "cfg":
                    cv_keys.append(ast.unparse(c))
    if not cv_keys:
        problems.append("MetaKeyFilter: check_values no longer iterates cfg.get_sorted_keys()")
        return
    spec_keys = []
    for n in th_tree.body:
        if isinstance(n, ast.FunctionDef) and n.name == "is_subclass_spec":
            for c in ast.walk(n):
                if isinstance(c, ast.Set) and all(isinstance(e, ast.Constant) and isinstance(e.value, str) for e in c.elts):
                    spec_keys = sorted(e.value for e in c.elts)
    if not spec_keys:
        problems.append("MetaKeyFilter: the key set of is_subclass_spec was not found")
        return
    body = "namespace Jap.Gen.MetaKeyFilter\n"
    body += "def metaKeys : List String := %s\n" % lean_str_list(sorted(nsmod.meta_keys))
    body += "def isMetaKeyBody : List String := %s\n" % lean_str_list(body_meta)
    body += "def sortedKeysFilterDefault : String := %s\n" % lean_str(default)
    body += "def sortedKeysSelect : String := %s\n" % lean_str(select)
    body += "def checkValuesKeys : List String := %s\n" % lean_str_list(sorted(set(cv_keys)))
    body += "def subclassSpecKeys : List String := %s\n" % lean_str_list(spec_keys)
    body += "end Jap.Gen.MetaKeyFilter\n"
    write_if_changed("MetaKeyFilter.lean", body)

"""Gen/Resolvers.lean + Gen/DumpCfg.lean (C01, C05).

Reads the LIVE objects: the Loader class that `yaml_load` hands to `yaml.load`, the Dumper class and keyword
arguments that `yaml_dump` hands to `yaml.dump_all`, the keyword arguments the json dumpers hand to
`json.dumps` (all captured by patching during one call, so that a refactor cannot blind the extractor), and
`yaml_implicit_resolvers` of both classes.  Every resolver regex (and a handful of fixed "image languages":
what the representers can write for int/float/bool/null, and the JSON number grammar) becomes a DFA over a
common character-class partition; the joint automaton J (first-character class + state of every DFA) is
written as bit-packed Nat literals together with its tag columns (PyYAML's rule: first matching regex in the
list registered for the first character, else str; '' uses the list registered for '').

`model()` returns the same data as Python objects for the harness (validation against `re`, generators).
"""
from __future__ import annotations

import re
import sys

from ..extract import lean_str, lean_str_list, write_if_changed
from ..lib import regex2dfa as R

TAG_PREFIX = "tag:yaml.org,2002:"
CORE_TAGS = ["str", "null", "bool", "int", "float"]   # fixed codes 0..4; other tags follow in sorted order

# ---- image languages (fixed; the correspondence checks that every real output is a member) ----------------------
IMAGES = [
    # name, regex, tag the text must load with
    ("imgInt", r"^(?:0|-?[1-9][0-9]*)\Z", "int"),                                      # str(int)
    ("imgBool", r"^(?:true|false)\Z", "bool"),                                          # represent_bool / json
    ("imgNull", r"^null\Z", "null"),                                                    # represent_none / json
    ("imgFloatYaml", r"^(?:-?[0-9]+\.[0-9]+(?:e[-+][0-9]+)?|-?\.inf|\.nan)\Z", "float"),  # SafeRepresenter.represent_float
    ("jsonInt", r"^-?(?:0|[1-9][0-9]*)\Z", "int"),                                      # RFC 8259 number without frac/exp
    ("jsonFloat", r"^-?(?:0|[1-9][0-9]*)(?:\.[0-9]+(?:[eE][-+]?[0-9]+)?|[eE][-+]?[0-9]+)\Z", "float"),  # with frac and/or exp
    ("imgFloatJson", r"^-?(?:[0-9]+\.[0-9]+|[0-9](?:\.[0-9]+)?e[-+][0-9]+)\Z", "float"),  # float.__repr__ of finite floats
]
JSON_NONFINITE = ["Infinity", "-Infinity", "NaN"]   # what json.dumps writes for inf/-inf/nan (allow_nan default)


# ---------------------------------------------------------------- live capture
def capture(problems):
    """classes and keyword arguments actually used by the dump/load functions of the yaml/json formats"""
    import json

    import yaml
    from jsonargparse import _loaders_dumpers as ld

    cap = {}
    orig_dump_all, orig_load, orig_dumps = yaml.dump_all, yaml.load, json.dumps

    def fake_dump_all(documents, stream=None, Dumper=yaml.Dumper, **kw):
        cap["Dumper"], cap["yaml_kwargs"] = Dumper, dict(kw)
        return orig_dump_all(documents, stream, Dumper=Dumper, **kw)

    def fake_load(stream, Loader=None, **kw):
        cap["Loader"] = Loader
        return orig_load(stream, Loader=Loader, **kw)

    def fake_dumps(obj, **kw):
        cap.setdefault("json_kwargs", {})[cap["_fmt"]] = dict(kw)
        return orig_dumps(obj, **kw)

    yaml.dump_all, yaml.load, json.dumps = fake_dump_all, fake_load, fake_dumps
    try:
        ld.dumpers["yaml"]({"k": 1})
        ld.loaders["yaml"]("k: 1")
        for fmt in ("json", "json_indented"):
            cap["_fmt"] = fmt
            ld.dumpers[fmt]({"k": 1})
    finally:
        yaml.dump_all, yaml.load, json.dumps = orig_dump_all, orig_load, orig_dumps
    cap.pop("_fmt", None)
    for need in ("Dumper", "Loader", "json_kwargs"):
        if need not in cap:
            problems.append("Resolvers: could not capture the %s used by jsonargparse._loaders_dumpers" % need)
    get_d = getattr(ld, "get_yaml_default_dumper", None)
    cap["dumper_is_default"] = bool(get_d) and cap.get("Dumper") is get_d()
    cap["loader_is_default"] = cap.get("Loader") is ld.get_yaml_default_loader()
    if not cap["loader_is_default"]:
        problems.append("Resolvers: yaml_load no longer uses get_yaml_default_loader()")
    return cap


def reader_printable(problems):
    """ranges of code points the YAML reader accepts, from the live regex yaml.reader.Reader.NON_PRINTABLE"""
    import yaml.reader

    rx = yaml.reader.Reader.NON_PRINTABLE
    tree = list(R.sre_parse.parse(rx.pattern, rx.flags))
    if len(tree) != 1 or tree[0][0] is not R.sc.IN:
        problems.append("DumpCfg: yaml.reader.Reader.NON_PRINTABLE is no longer a single character class")
        return []
    cs = R.charset_of(tree[0][1], rx.flags)
    out, start = [], None
    bounds = sorted({0, R.MAXCP} | {lo for lo, _ in cs[1]} | {hi + 1 for _, hi in cs[1]})
    for i in range(len(bounds) - 1):
        lo, hi = bounds[i], bounds[i + 1] - 1
        if not R.in_set(lo, cs):          # not NON_PRINTABLE = printable
            if out and out[-1][1] + 1 == lo:
                out[-1] = (out[-1][0], hi)
            else:
                out.append((lo, hi))
    _ = start
    return out


def tag_short(tag):
    return tag[len(TAG_PREFIX):] if tag.startswith(TAG_PREFIX) else tag


_cache = {}


def model(problems=None):
    """build (and cache per process) the whole extracted model"""
    if "m" in _cache:
        if problems is not None:
            problems.extend(_cache["problems"])
        return _cache["m"]
    probs = []
    cap = capture(probs)
    sides = {"L": cap["Loader"], "D": cap["Dumper"]}
    # distinct regexes -> component patterns
    comp_names, comp_rx, by_key = [], {}, {}
    lists = {}                                   # side -> {first char or '' or None: [(tagname, comp name)]}
    tagset = set()
    for side, cls in sides.items():
        lists[side] = {}
        for ch, lst in cls.yaml_implicit_resolvers.items():
            out = []
            for tag, rx in lst:
                key = (rx.pattern, rx.flags)
                if key not in by_key:
                    name = "r%d_%s" % (len(comp_names), re.sub(r"\W", "_", tag_short(tag)))
                    by_key[key] = name
                    comp_names.append(name)
                    comp_rx[name] = rx
                out.append((tag_short(tag), by_key[key]))
                tagset.add(tag_short(tag))
            lists[side][ch] = out
    for name, pat, _ in IMAGES:
        comp_names.append(name)
        comp_rx[name] = re.compile(pat)
    tags = CORE_TAGS + sorted(tagset - set(CORE_TAGS))
    first_keys = sorted({ord(ch) for side in lists for ch in lists[side] if isinstance(ch, str) and len(ch) == 1})
    for side in lists:
        for ch in lists[side]:
            if not (ch is None or ch == "" or (isinstance(ch, str) and len(ch) == 1)):
                probs.append("Resolvers: implicit resolver registered for the non-character key %r" % (ch,))

    def key_sig(cp):
        ch = chr(cp)
        sig = tuple(tuple(lists[s].get(ch, ())) for s in ("L", "D"))
        return sig if any(sig) else None

    part, dfas = R.compile_patterns(comp_rx, singletons=[R.NL] + first_keys, extra_key=key_sig)
    J = R.Joint(part, comp_names, dfas)

    def tag_of(j, side):
        first, qs = J.states[j]
        if first is None:
            lst = lists[side].get("", [])
        else:
            lst = lists[side].get(chr(part.reps[first]), [])
        lst = list(lst) + list(lists[side].get(None, []))
        for tag, comp in lst:
            i = J.names.index(comp)
            if J.dfas[i]["acc"][qs[i]]:
                return tags.index(tag)
        return 0

    tagL = [tag_of(j, "L") for j in range(J.n)]
    tagD = [tag_of(j, "D") for j in range(J.n)]
    img = []
    for j in range(J.n):
        bits = 0
        for b, (name, _, _) in enumerate(IMAGES):
            if J.accepts(j, name):
                bits |= 1 << b
        img.append(bits)
    m = {
        "cap": cap, "part": part, "dfas": dfas, "comp_names": comp_names, "comp_rx": comp_rx, "J": J, "tags": tags,
        "tagL": tagL, "tagD": tagD, "img": img, "lists": lists, "sides": sides,
    }
    _cache["m"], _cache["problems"] = m, probs
    if problems is not None:
        problems.extend(probs)
    return m


def pack(values, width):
    n = 0
    for i, v in enumerate(values):
        assert 0 <= v < (1 << width), (v, width)
        n |= v << (width * i)
    return n


def hexlit(n):
    return "0x%x" % n


def word_to_str(part, w):
    return "".join(chr(part.reps[c]) for c in w)


def obligations(m):
    """name -> predicate on joint states that must hold everywhere (mirrors the Booleans of Props/C01.lean)"""
    tags = m["tags"]
    tagL, tagD, img = m["tagL"], m["tagD"], m["img"]
    ob = {"agreement": lambda j: tagD[j] != 0 or tagL[j] == 0}
    for b, (name, _, tag) in enumerate(IMAGES):
        t = tags.index(tag)
        ob[name] = (lambda j, b=b, t=t: not (img[j] >> b) & 1 or tagL[j] == t)
    return ob


def failing_words(m, limit=6):
    """for every obligation that is false on the current tables: shortest strings reaching a bad state"""
    out = {}
    J, part = m["J"], m["part"]
    for name, pred in obligations(m).items():
        ws = J.shortest_words(lambda j: not pred(j), limit)
        if ws:
            out[name] = [word_to_str(part, w) for w in ws]
    return out


def generate(problems):
    sys.set_int_max_str_digits(0) if hasattr(sys, "set_int_max_str_digits") else None
    m = model(problems)
    J, part, tags = m["J"], m["part"], m["tags"]
    K, n = J.K, J.n
    W = max(4, (max(n, K + 1, len(tags)) - 1).bit_length())
    ncomp = len(m["comp_names"])
    nimg = len(IMAGES)
    BS = 32
    body = "namespace Jap.Gen.Resolvers\n"
    body += "/-- number of character classes -/\ndef K : Nat := %d\n" % K
    body += "/-- bits per packed field -/\ndef W : Nat := %d\n" % W
    body += "def nstates : Nat := %d\n" % n
    body += "def ncomp : Nat := %d\n" % ncomp
    body += "def cnstates : List Nat := [%s]\n" % ", ".join(str(d["n"]) for d in J.dfas)
    body += "def nimg : Nat := %d\n" % nimg
    body += "def tagNames : List String := %s\n" % lean_str_list(tags)
    body += "def compNames : List String := %s\n" % lean_str_list(m["comp_names"])
    body += "def compPatterns : List String := %s\n" % lean_str_list([m["comp_rx"][c].pattern for c in m["comp_names"]])
    body += "def imgNames : List String := %s\n" % lean_str_list([x[0] for x in IMAGES])
    body += "def imgTags : List Nat := [%s]\n" % ", ".join(str(tags.index(x[2])) for x in IMAGES)
    for i, (name, _, _) in enumerate(IMAGES):
        body += "def %s : Nat := %d\n" % (name, i)
    body += "/-- (first code point of an interval, class); the class of a code point is that of the last entry whose first component is ≤ it -/\n"
    body += "def classTable : List (Nat × Nat) := [%s]\n" % ", ".join("(%d, %d)" % (lo, c) for lo, c in part.table)
    body += "def classReps : List Nat := [%s]\n" % ", ".join(str(r) for r in part.reps)
    body += "/-- joint states per block of the blocked tables -/\ndef BS : Nat := %d\n" % BS
    body += "/-- joint transition table in blocks of BS states: block j/BS, field (j%%BS)*K + c -/\ndef jdelta : List Nat := [%s]\n" % ", ".join(
        hexlit(pack([t for row in J.delta[b0:b0 + BS] for t in row], W)) for b0 in range(0, n, BS))
    body += "def jtagL : Nat := %s\n" % hexlit(pack(m["tagL"], W))
    body += "def jtagD : Nat := %s\n" % hexlit(pack(m["tagD"], W))
    body += "/-- image-language membership, nimg bits per state -/\ndef jimg : Nat := %s\n" % hexlit(pack(m["img"], nimg))
    def lists_lean(side):
        rows = []
        for ch, lst in sorted(m["lists"][side].items(), key=lambda kv: (-1 if kv[0] is None else (-2 if kv[0] == "" else ord(kv[0])))):
            if ch is None:
                cls = K + 1          # wildcard list
            elif ch == "":
                cls = K              # list used for the empty scalar
            else:
                cls = part.cls(ord(ch))
            rows.append("(%d, [%s])" % (cls, ", ".join("(%d, %d)" % (tags.index(t), m["comp_names"].index(c)) for t, c in lst)))
        return "[%s]" % ", ".join(rows)

    body += "/-- loader: first-character class (K = empty scalar, K+1 = wildcard) ↦ ordered (tag, component) list -/\n"
    body += "def listsL : List (Nat × List (Nat × Nat)) := %s\n" % lists_lean("L")
    body += "def listsD : List (Nat × List (Nat × Nat)) := %s\n" % lists_lean("D")
    body += "end Jap.Gen.Resolvers\n"
    write_if_changed("Resolvers.lean", body)

    # ------------------------------------------------------------ DumpCfg
    from jsonargparse import _loaders_dumpers as ld

    cap = m["cap"]
    yk = cap.get("yaml_kwargs", {})
    jk = cap.get("json_kwargs", {})
    if yk != dict(ld.dump_yaml_kwargs):
        problems.append("DumpCfg: yaml_dump does not pass dump_yaml_kwargs (%r vs %r)" % (yk, ld.dump_yaml_kwargs))
    ea = {fmt: bool(kw.get("ensure_ascii", True)) for fmt, kw in jk.items()}
    if len(set(ea.values())) > 1:
        problems.append("DumpCfg: json formats disagree on ensure_ascii: %r" % ea)

    def b(x):
        return "true" if x else "false"

    import yaml

    body = "namespace Jap.Gen.DumpCfg\n"
    body += "def yamlDefaultFlowStyle : Bool := %s\n" % b(yk.get("default_flow_style", False))
    body += "def yamlAllowUnicode : Bool := %s\n" % b(yk.get("allow_unicode", False))
    body += "def yamlSortKeys : Bool := %s\n" % b(yk.get("sort_keys", True))
    body += "def yamlDefaultStyle : String := %s\n" % lean_str(yk.get("default_style") or "")
    body += "def yamlKwargs : List String := %s\n" % lean_str_list(sorted("%s=%r" % kv for kv in yk.items()))
    # emitter settings of the live Dumper class instantiated with the captured kwargs
    import io

    try:
        inst = cap["Dumper"](io.StringIO(), **yk)
        body += "/-- Emitter.best_width: plain/quoted scalars are folded at spaces beyond this column -/\ndef yamlBestWidth : Nat := %d\n" % int(inst.best_width)
        body += "def yamlBestIndent : Nat := %d\n" % int(inst.best_indent)
        body += "def yamlCanonical : Bool := %s\n" % b(inst.canonical)
        body += "def yamlEmitterAllowUnicode : Bool := %s\n" % b(inst.allow_unicode)
        body += "/-- SafeRepresenter.default_style (non-empty forces a scalar style) -/\ndef yamlRepresenterDefaultStyle : String := %s\n" % lean_str(inst.default_style or "")
    except Exception as ex:  # noqa: BLE001
        problems.append("DumpCfg: cannot instantiate the Dumper with the captured kwargs: %r" % (ex,))
    body += "/-- json.dumps(ensure_ascii=…) as actually passed by the json dumpers (true if any of them escapes) -/\n"
    body += "def jsonEnsureAscii : Bool := %s\n" % b(any(ea.values()) if ea else True)
    body += "def jsonKwargs : List String := %s\n" % lean_str_list(
        sorted("%s:%s=%r" % (fmt, k, v) for fmt, kw in jk.items() for k, v in kw.items()))
    body += "def dumpYamlKwargsDict : List String := %s\n" % lean_str_list(sorted("%s=%r" % kv for kv in ld.dump_yaml_kwargs.items()))
    body += "def dumpJsonKwargsDict : List String := %s\n" % lean_str_list(sorted("%s=%r" % kv for kv in ld.dump_json_kwargs.items()))
    body += "def dumperTable : List (String × String) := [%s]\n" % ", ".join(
        "(%s, %s)" % (lean_str(k), lean_str(getattr(v, "__name__", repr(v)))) for k, v in sorted(ld.dumpers.items()))
    body += "def loaderTable : List (String × String) := [%s]\n" % ", ".join(
        "(%s, %s)" % (lean_str(k), lean_str(getattr(v, "__name__", repr(v)))) for k, v in sorted(ld.loaders.items()))
    body += "def loaderJsonSuperset : List (String × Bool) := [%s]\n" % ", ".join(
        "(%s, %s)" % (lean_str(k), b(v)) for k, v in sorted(ld.loader_json_superset.items()))
    body += "def commentPrefix : List (String × String) := [%s]\n" % ", ".join(
        "(%s, %s)" % (lean_str(k), lean_str(v)) for k, v in sorted(ld.comment_prefix.items()))
    body += "def dumperBases : List String := %s\n" % lean_str_list([c.__module__ + "." + c.__name__ for c in cap["Dumper"].__mro__[1:]])
    body += "def loaderBases : List String := %s\n" % lean_str_list([c.__module__ + "." + c.__name__ for c in cap["Loader"].__mro__[1:]])
    body += "/-- the loader scans with libyaml (CParser) rather than the pure Python scanner -/\n"
    body += "def loaderIsC : Bool := %s\n" % b(any(c.__name__ == "CParser" for c in cap["Loader"].__mro__))
    body += "def dumperIsDefaultDumper : Bool := %s\n" % b(cap["dumper_is_default"])
    body += "/-- code point ranges accepted by PyYAML's reader (complement of yaml.reader.Reader.NON_PRINTABLE; libyaml has the same check) -/\n"
    body += "def readerPrintable : List (Nat × Nat) := [%s]\n" % ", ".join("(%d, %d)" % r for r in reader_printable(problems))
    body += "end Jap.Gen.DumpCfg\n"
    write_if_changed("DumpCfg.lean", body)
    _ = yaml

"""Gen/ExcFlowRaises.lean: the "raises" side of the C03 routing table, computed from the SOURCE.

For every leaf function of the parse pipeline listed in LEAVES (validation functions of the restricted types, the deserializers of the
registered types, the loaders, import_object, ActionYesNo._boolean_type) an over-approximation of the exception classes that can escape it:

  * explicit `raise C(..)` (also through nested helper functions that only raise), `raise` / `raise ex` inside a handler;
  * calls of builtins / library callables with a known failure table (KNOWN: int()/float() -> ValueError, TypeError, OverflowError;
    timedelta(..) -> TypeError, OverflowError; Decimal(..) -> ArithmeticError, ..; json.loads -> JSONDecodeError, ValueError, RecursionError ...);
    a call of anything else is `Exception` ("unknown call");
  * attribute access / subscripts on parameters that are not declared well-typed -> AttributeError / KeyError, IndexError, TypeError;
    f-string formatting -> ValueError (int -> str digit limit); `/ // %` -> ZeroDivisionError;
  * minus what the function's own try/except and `suppress(..)` absorb (live issubclass), plus what the handler bodies raise.

Each origin is emitted with the tests of the `if .. raise/return` statements that PRECEDE it in its block and of the `if`s that enclose
it (`guards`): Core/ExcFlowRaises.lean may excuse an origin only by naming a guard that is really in that list (seed C03-5B moved the
integrality test behind the conversion: the guard disappears from the origin `int(v)` and the proof obligation fails).

Registered types whose deserializer is a library class (complex, decimal.Decimal, uuid.UUID ...) become pseudo-leaves `registered:<path>`
whose origins are the failure table of the constructor; every registered leaf carries the handler's OWN deserializer_exceptions.

The KNOWN table is trusted library knowledge; `_selftest` attacks it on every run (each callable on a pool of extreme arguments: an observed
class outside the table is a problem = broken tie).
"""
from __future__ import annotations

import ast
import copy
import types

from ..extract import lean_str, write_if_changed
from .excflow import Ex, _func, _parse, _type_entries

V, T, O, A, L = "ValueError", "TypeError", "OverflowError", "AttributeError", "LookupError"
KNOWN = {
    "int": (V, T, O), "float": (V, T, O), "complex": (V, T, O), "str": (), "bool": (), "isinstance": (), "all": (), "any": (), "repr": (),
    "len": (), "set": (), "iter": (), "super": (), "next": ("StopIteration",), "range": (T, V), "bytearray": (T, V), "getattr": (A,),
    "__import__": ("ImportError", V), "timedelta": (T, O), "b64decode": (V, T), "re.match": (T,), "float.is_integer": (),
    "decimal.Decimal": ("ArithmeticError", T, V), "uuid.UUID": (V, T, A), "os.PathLike": (), "jsonargparse.typing.SecretStr": (), "pathlib.Path": (T,), "pathlib.PosixPath": (T,),
    "json.loads": ("JSONDecodeError", V, "RecursionError"), "yaml.load": ("YAMLError", V, "RecursionError"),
    "get_yaml_default_loader": (), "toml_loads": ("TOMLDecodeError", V, "RecursionError"), "import_toml_loads": ("ImportError",),
}
# (len / set / iter / super: only ever applied to containers the function built or checked itself)
KNOWN_STR_ARG = {"int": (V,), "float": (V,), "complex": (V,)}  # the sole argument is known to be a str (declared in the leaf's `strs`)
STR_METHODS = {"strip", "startswith", "endswith", "replace", "isdigit", "lower", "split", "rsplit", "isidentifier", "keys", "values", "items",
               "match", "groupdict", "decode"}

# name, file, qualname, region (of Core/ExcFlow.lean), modes, substitutions, names assumed well-typed, per-leaf callees, registered handler key
LEAVES = [
    dict(name="typing.restricted_number_type.validation_fn[int]", file="typing.py", qual="restricted_number_type.validation_fn", region="registered",
         subst={"cls._type": "int"}, typed=["cls", "v"], calls={"comparison": ()}, handler="PositiveInt"),
    dict(name="typing.restricted_number_type.validation_fn[float]", file="typing.py", qual="restricted_number_type.validation_fn", region="registered",
         subst={"cls._type": "float"}, typed=["cls", "v"], calls={"comparison": ()}, handler="PositiveFloat"),
    dict(name="typing.restricted_string_type.validation_fn", file="typing.py", qual="restricted_string_type.validation_fn", region="registered",
         typed=["cls"], calls={"cls._regex.match": (T,)}, handler="Email"),
    dict(name="typing.extend_base_type.TypeCore.__new__[int]", file="typing.py", qual="extend_base_type.TypeCore.__new__", region="registered",
         subst={"cls._type": "int"}, typed=["cls", "v"], calls={"cls._validation_fn": (), "super().__new__": ()}, handler="PositiveInt"),
    dict(name="typing.extend_base_type.TypeCore.__new__[float]", file="typing.py", qual="extend_base_type.TypeCore.__new__", region="registered",
         subst={"cls._type": "float"}, typed=["cls", "v"], calls={"cls._validation_fn": (), "super().__new__": ()}, handler="PositiveFloat"),
    dict(name="typing.timedelta_deserializer", file="typing.py", qual="timedelta_deserializer", region="registered", typed=["value", "match"],
         strs=["val"], handler="timedelta_deserializer"),
    dict(name="typing.bytes_deserializer", file="typing.py", qual="bytes_deserializer", region="registered", typed=["value"], handler="bytes_deserializer"),
    dict(name="typing.bytearray_deserializer", file="typing.py", qual="bytearray_deserializer", region="registered", typed=["value"],
         handler="bytearray_deserializer"),
    dict(name="typing.range_deserializer", file="typing.py", qual="range_deserializer", region="registered", typed=["match"], strs=["match"],
         calls={"re_range_stop.match": (T,), "re_range_start_stop.match": (T,), "re_range_start_stop_step.match": (T,)}, handler="range_deserializer"),
    dict(name="_loaders_dumpers.load_basic", file="_loaders_dumpers.py", qual="load_basic", region="loadValue", typed=["value"], strs=["value"]),
    dict(name="_loaders_dumpers.yaml_load", file="_loaders_dumpers.py", qual="yaml_load", region="yamlConstruct", modes=["yaml", "jsonnet"],
         typed=["stream", "value", "key"]),
    dict(name="_loaders_dumpers.json_load", file="_loaders_dumpers.py", qual="json_load", region="loadValue", modes=["json"], typed=["value"]),
    dict(name="_loaders_dumpers.toml_load", file="_loaders_dumpers.py", qual="toml_load", region="loadValue", modes=["toml"], typed=["value"]),
    dict(name="_util.import_object", file="_util.py", qual="import_object", region="typeImport", typed=["name", "x"]),
    dict(name="_actions.ActionYesNo._boolean_type", file="_actions.py", qual="ActionYesNo._boolean_type", region="checkValueKey", typed=["x"]),  # via ActionYesNo._check_type: no handler of its own there
]
ALL_MODES = ["yaml", "json", "toml", "jsonnet"]


def _walk(node):
    """ast.walk without nested function / class definitions and lambdas"""
    todo = [node]
    while todo:
        n = todo.pop()
        yield n
        for c in ast.iter_child_nodes(n):
            if not isinstance(c, (ast.FunctionDef, ast.AsyncFunctionDef, ast.ClassDef, ast.Lambda)):
                todo.append(c)


class Subst(ast.NodeTransformer):
    def __init__(self, table):
        self.table = table

    def visit_Attribute(self, node):
        src = ast.unparse(node)
        if src in self.table:
            return ast.copy_location(ast.Name(id=self.table[src], ctx=ast.Load()), node)
        return self.generic_visit(node)


class Analyzer:
    def __init__(self, ex: Ex, spec, fn, problems):
        self.ex, self.spec, self.fn, self.problems = ex, spec, fn, problems
        self.params = {a.arg for a in fn.args.args + fn.args.kwonlyargs} | ({fn.args.vararg.arg} if fn.args.vararg else set())
        self.typed = set(spec.get("typed") or [])
        self.local_fns = {n.name: n for n in fn.body if isinstance(n, ast.FunctionDef)}
        self.env = dict(vars(ex.mods[spec["file"]]))
        import builtins

        self.env.update({k: getattr(builtins, k) for k in dir(builtins)})
        for extra in ("yaml", "json", "argparse"):
            try:
                self.env.setdefault(extra, __import__(extra))
            except ImportError:
                pass
        self.assigned_exc = {}

    # ---- helpers
    def live(self, name):
        return self.ex.live[name]

    def uname(self, cls):
        for c in cls.__mro__:
            if c in self.ex.by_obj:
                return self.ex.by_obj[c]
        return "BaseException"

    def resolve_classes(self, type_node):
        out = []
        for src in _type_entries(type_node):
            try:
                obj = eval(src, self.env)  # noqa: S307 - Name/Attribute expressions of the repo
            except Exception as e:  # noqa: BLE001
                self.problems.append("ExcFlowRaises: %s: cannot resolve handler class %r (%r)" % (self.spec["name"], src, e))
                continue
            out.extend(obj if isinstance(obj, tuple) else [obj])
        return tuple(out)

    def always_terminates(self, stmts):
        if not stmts:
            return False
        last = stmts[-1]
        if isinstance(last, (ast.Raise, ast.Return)):
            return True
        if isinstance(last, ast.Expr) and isinstance(last.value, ast.Call) and isinstance(last.value.func, ast.Name) \
                and last.value.func.id in self.local_fns and self.always_terminates(self.local_fns[last.value.func.id].body):
            return True
        return False

    # ---- expressions
    def expr(self, node, guards, skip_call=None):
        out = []
        receivers = set()
        for n in _walk(node):
            if isinstance(n, ast.Call) and n is not skip_call:
                callee = ast.unparse(n.func)
                text = ast.unparse(n)[:90]
                calls = self.spec.get("calls") or {}
                if isinstance(n.func, ast.Attribute):
                    receivers.add(id(n.func))
                arg0 = n.args[0] if len(n.args) == 1 and not n.keywords else None
                while isinstance(arg0, ast.Subscript):
                    arg0 = arg0.value
                if callee in calls:
                    out += [(c, text, guards) for c in calls[callee]]
                elif callee in KNOWN_STR_ARG and isinstance(arg0, ast.Name) and arg0.id in (self.spec.get("strs") or []):
                    out += [(c, text, guards) for c in KNOWN_STR_ARG[callee]]
                elif callee in KNOWN:
                    out += [(c, text, guards) for c in KNOWN[callee]]
                elif isinstance(n.func, ast.Name) and callee in self.local_fns:
                    out += self.block(self.local_fns[callee].body, guards)
                elif isinstance(n.func, ast.Attribute) and n.func.attr in STR_METHODS:
                    base = n.func.value
                    while isinstance(base, (ast.Call, ast.Attribute, ast.Subscript)):
                        base = base.func if isinstance(base, ast.Call) else base.value
                    if isinstance(base, ast.Name) and base.id in self.params and base.id not in self.typed:
                        out.append((A, text, guards))
                else:
                    try:
                        obj = eval(callee, self.env)  # noqa: S307
                    except Exception:  # noqa: BLE001
                        obj = None
                    if isinstance(obj, type) and issubclass(obj, BaseException):
                        continue  # constructing an exception
                    out.append(("Exception", "unknown call: " + text, guards))
            elif isinstance(n, ast.Subscript) and isinstance(n.ctx, ast.Load) and not isinstance(n.slice, ast.Slice):
                if isinstance(n.value, ast.Name) and n.value.id in self.params and n.value.id not in self.typed:
                    out += [(c, ast.unparse(n)[:90], guards) for c in ("KeyError", "IndexError", T)]
            elif isinstance(n, ast.Attribute) and isinstance(n.ctx, ast.Load) and id(n) not in receivers:
                if isinstance(n.value, ast.Name) and n.value.id in self.params and n.value.id not in self.typed:
                    out.append((A, ast.unparse(n)[:90], guards))
            elif isinstance(n, ast.FormattedValue):
                out.append((V, "f-string {%s}" % ast.unparse(n.value)[:60], guards))
            elif isinstance(n, ast.BinOp) and isinstance(n.op, (ast.Div, ast.FloorDiv, ast.Mod)):
                out.append(("ZeroDivisionError", ast.unparse(n)[:90], guards))
        return out

    # ---- statements
    def block(self, stmts, guards, bound=None, caught=None):
        out = []
        guards = tuple(guards)
        for st in stmts:
            if isinstance(st, (ast.FunctionDef, ast.AsyncFunctionDef, ast.ClassDef, ast.Import, ast.ImportFrom, ast.Global, ast.Pass)):
                continue
            if isinstance(st, ast.Raise):
                if st.exc is None or (isinstance(st.exc, ast.Name) and st.exc.id == bound):
                    # re-raised: the origin keeps its own guards and gains those of the handler around the `raise`
                    out += [(c, t, tuple(g) + tuple(x for x in guards if x not in g)) for c, t, g in (caught or [])]
                elif isinstance(st.exc, ast.Name) and st.exc.id in self.assigned_exc:
                    out.append((self.assigned_exc[st.exc.id], "raise " + st.exc.id, guards))
                else:
                    f = st.exc.func if isinstance(st.exc, ast.Call) else st.exc
                    try:
                        obj = eval(ast.unparse(f), self.env)  # noqa: S307
                    except Exception:  # noqa: BLE001
                        obj = None
                    if isinstance(obj, type) and issubclass(obj, BaseException):
                        out.append((self.uname(obj), "raise " + ast.unparse(f), guards))
                    else:
                        out.append(("Exception", "raise " + ast.unparse(st.exc)[:60], guards))
                    out += self.expr(st.exc, guards, skip_call=st.exc if isinstance(st.exc, ast.Call) else None)
                continue
            if isinstance(st, ast.Assign) and len(st.targets) == 1 and isinstance(st.targets[0], ast.Name) and isinstance(st.value, ast.Call):
                try:
                    obj = eval(ast.unparse(st.value.func), self.env)  # noqa: S307
                except Exception:  # noqa: BLE001
                    obj = None
                if isinstance(obj, type) and issubclass(obj, BaseException):
                    self.assigned_exc[st.targets[0].id] = self.uname(obj)
            if isinstance(st, ast.If):
                test = ast.unparse(st.test)
                out += self.expr(st.test, guards)
                out += self.block(st.body, guards + ("in: " + test,), bound, caught)
                out += self.block(st.orelse, guards + ("else: " + test,), bound, caught)
                if self.always_terminates(st.body):
                    guards = guards + ("passed: " + test,)
                continue
            if isinstance(st, ast.Try):
                body = self.block(st.body, guards, bound, caught)
                for h in st.handlers:
                    classes = self.resolve_classes(h.type)
                    mine = [o for o in body if issubclass(self.live(o[0]), classes)]
                    body = [o for o in body if o not in mine]
                    out += self.block(h.body, guards, h.name, mine)
                out += body
                out += self.block(st.orelse, guards, bound, caught)
                out += self.block(st.finalbody, guards, bound, caught)
                continue
            if isinstance(st, ast.With):
                sup = ()
                for it in st.items:
                    c = it.context_expr
                    if isinstance(c, ast.Call) and isinstance(c.func, ast.Name) and c.func.id == "suppress":
                        for a in c.args:
                            sup += self.resolve_classes(a)
                    else:
                        out += self.expr(c, guards)
                body = self.block(st.body, guards, bound, caught)
                out += [o for o in body if not (sup and issubclass(self.live(o[0]), sup))]
                continue
            if isinstance(st, (ast.For, ast.While)):
                out += self.expr(st.iter if isinstance(st, ast.For) else st.test, guards)
                out += self.block(st.body, guards, bound, caught)
                out += self.block(st.orelse, guards, bound, caught)
                continue
            out += self.expr(st, guards)
        return out


def _selftest(ex, problems):
    """attack the trusted failure table: every callable on a pool of extreme arguments"""
    import base64
    import datetime
    import decimal
    import json
    import uuid

    inf = float("inf")
    pool = [inf, -inf, float("nan"), 10 ** 400, 10 ** 5000, -(10 ** 400), "x", "", " ", None, [], {}, b"x", "9" * 5000, "9" * 400, 1.5, True, "1e999", "\x00",
            "1_0", "٣", 2 ** 63, -0.0, (1, 2, 3)]
    strs = [x for x in pool if isinstance(x, str)] + ['{"a": %s}' % ("9" * 5000), "[1, 2", "{", "NaN", "1e999"]
    tests = {
        "int": (int, pool), "float": (float, pool), "complex": (complex, pool), "range": (range, pool), "decimal.Decimal": (decimal.Decimal, pool),
        "uuid.UUID": (uuid.UUID, pool), "b64decode": (base64.b64decode, pool),
        "timedelta": (lambda x: datetime.timedelta(days=x) and datetime.timedelta(hours=x), [x for x in pool if isinstance(x, (int, float)) and x == x]),
        "json.loads": (json.loads, strs + ["[" * 100000]),  # (not for yaml: the C loader overflows the C stack)
    }
    try:
        import yaml

        from jsonargparse._loaders_dumpers import get_yaml_default_loader

        tests["yaml.load"] = (lambda s: yaml.load(s, Loader=get_yaml_default_loader()), strs + ["0x_", "&a [*a]", "!!binary x", "? [1]\n: 1", "a: b: c"])
    except ImportError:
        pass
    by_obj = ex.by_obj
    for name, (fn, args) in tests.items():
        allowed = tuple(ex.live[c] for c in KNOWN[name])
        for a in args:
            try:
                fn(a)
            except Exception as e:  # noqa: BLE001 - the class is the observation
                if not isinstance(e, allowed):
                    cls = next((by_obj[c] for c in type(e).__mro__ if c in by_obj), "BaseException")
                    problems.append("ExcFlowRaises: the failure table of %s lacks %s (argument %.40r)" % (name, cls, a))
                    break


def _registered(ex, problems):
    """live registered types: handler -> (deserializer, its own deserializer_exceptions)"""
    from jsonargparse import typing as jt

    from .excflow import force_pending_registrations

    force_pending_registrations()
    out = {}
    for k, h in jt.registered_type_handlers.items():
        tup = h.deserializer_exceptions
        tup = tup if isinstance(tup, tuple) else (tup,)
        names = [n for n in (ex.name_of(c, "deserializer_exceptions of %r" % (k,)) for c in tup) if n]
        out[k] = (h.base_deserializer, names)
    return out


def generate(problems):
    ex = Ex(problems)
    _selftest(ex, problems)
    reg = _registered(ex, problems)
    by_fn_name = {}
    for k, (deser, names) in reg.items():
        by_fn_name.setdefault(getattr(deser, "__name__", None), names)
        by_fn_name.setdefault(getattr(k, "__name__", None), names)
    trees = {}
    leaves = []
    for spec in LEAVES:
        tree = trees.setdefault(spec["file"], _parse(spec["file"]))
        fn = _func(tree, spec["qual"])
        if fn is None:
            problems.append("ExcFlowRaises: leaf %s not found" % spec["name"])
            continue
        fn = copy.deepcopy(fn)
        if spec.get("subst"):
            fn = ast.fix_missing_locations(Subst(spec["subst"]).visit(fn))
        an = Analyzer(ex, spec, fn, problems)
        origins = an.block(fn.body, ())
        local = []
        if spec.get("handler"):
            if spec["handler"] not in by_fn_name:
                problems.append("ExcFlowRaises: no registered type uses %s" % spec["handler"])
            local = by_fn_name.get(spec["handler"], [])
        leaves.append((spec["name"], spec["region"], spec.get("modes") or ALL_MODES, local, origins))
    # registered types whose deserializer is a library class
    others = []
    for k, (deser, names) in sorted(reg.items(), key=lambda kv: repr(kv[0])):
        if isinstance(deser, types.FunctionType) and deser.__module__ == "jsonargparse.typing":
            continue  # analysed above (or listed as not analysed)
        if hasattr(deser, "_validation_fn") or hasattr(deser, "_check_mode"):
            continue  # restricted types (validation_fn leaves) and path types (Path.__init__: see the path regions)
        path = "%s.%s" % (getattr(deser, "__module__", "?"), getattr(deser, "__qualname__", repr(deser)))
        path = path.replace("builtins.", "")
        path = {"pathlib._local.Path": "pathlib.Path", "pathlib._local.PosixPath": "pathlib.PosixPath", "pathlib._local.WindowsPath": None,
                "pathlib.WindowsPath": None, "abc.PathLike": "os.PathLike", "os.PathLike": "os.PathLike"}.get(path, path)
        if path is None:
            continue
        if path not in KNOWN:
            others.append(path)
            problems.append("ExcFlowRaises: registered type %r uses deserializer %s which has no failure table" % (k, path))
            continue
        tkey = "%s.%s" % (getattr(k, "__module__", "?"), getattr(k, "__qualname__", repr(k)))
        leaves.append(("registered:" + tkey.replace("builtins.", ""), "registered", ALL_MODES, names,
                       [(c, "%s(value)" % path, ()) for c in KNOWN[path]]))

    out = ["import Jap.Core.ExcFlowRaises", "namespace Jap.Gen.ExcFlowRaises", "open Jap.ExcFlow", ""]
    out.append("/-- static over-approximation of what escapes each leaf function of the parse pipeline (harness/extractors/excflow_raises.py) -/")
    out.append("def leaves : List Leaf := [")
    rows = []
    for name, region, modes, local, origins in leaves:
        seen, os_ = set(), []
        for c, text, guards in origins:
            key = (c, text, guards)
            if key in seen:
                continue
            seen.add(key)
            os_.append("      ⟨.%s, %s, [%s]⟩" % (c, lean_str(text), ", ".join(lean_str(g) for g in guards)))
        rows.append("  { name := %s, region := .%s, modes := [%s], localCatch := [%s],\n    escapes := [\n%s] }"
                    % (lean_str(name), region, ", ".join("." + m for m in modes), ", ".join("." + n for n in local), ",\n".join(os_)))
    out.append(",\n".join(rows))
    out.append("]")
    out += ["", "end Jap.Gen.ExcFlowRaises"]
    write_if_changed("ExcFlowRaises.lean", "\n".join(out) + "\n")

"""Gen/YesNoWords.lean: the word table of ActionYesNo._boolean_type (accepted words, truthy words, and whether each
membership test lower-cases the word), read off the source with ast."""
import ast
import os

from ..extract import lean_str_list, write_if_changed
from ..lib.common import REPO


def generate(problems):
    src = open(os.path.join(REPO, "jsonargparse", "_actions.py")).read()
    tree = ast.parse(src)
    fn = None
    for node in ast.walk(tree):
        if isinstance(node, ast.ClassDef) and node.name == "ActionYesNo":
            for sub in node.body:
                if isinstance(sub, ast.FunctionDef) and sub.name == "_boolean_type":
                    fn = sub
    if fn is None:
        problems.append("YesNoWords: ActionYesNo._boolean_type not found")
        return
    tests = []
    for node in ast.walk(fn):
        if isinstance(node, ast.Compare) and len(node.ops) == 1 and isinstance(node.ops[0], ast.In) and isinstance(node.comparators[0], ast.Set):
            words = [e.value for e in node.comparators[0].elts if isinstance(e, ast.Constant) and isinstance(e.value, str)]
            if len(words) != len(node.comparators[0].elts):
                problems.append("YesNoWords: a word set holds something that is not a string literal")
                return
            left = node.left
            lowered = isinstance(left, ast.Call) and isinstance(left.func, ast.Attribute) and left.func.attr == "lower" and not left.args
            plain = isinstance(left, ast.Name)
            if not (lowered or plain):
                problems.append("YesNoWords: membership test on an expression that is neither x nor x.lower()")
                return
            tests.append((node.lineno, node.col_offset, sorted(words), lowered))
    tests.sort()
    if len(tests) != 2:
        problems.append("YesNoWords: expected two word-set membership tests in _boolean_type, found %d" % len(tests))
        return
    (_, _, accepted, acc_low), (_, _, truthy, true_low) = tests
    if not set(truthy) <= set(accepted):
        problems.append("YesNoWords: the truthy words are not among the accepted words")
    body = "namespace Jap.Gen\n"
    body += "/-- `x.lower() in {...}`: the words ActionYesNo._boolean_type accepts -/\n"
    body += "def ynAccepted : List String := %s\n" % lean_str_list(accepted)
    body += "def ynAcceptedLowered : Bool := %s\n" % ("true" if acc_low else "false")
    body += "/-- the words that mean True -/\n"
    body += "def ynTrue : List String := %s\n" % lean_str_list(truthy)
    body += "def ynTrueLowered : Bool := %s\n" % ("true" if true_low else "false")
    body += "end Jap.Gen\n"
    write_if_changed("YesNoWords.lean", body)

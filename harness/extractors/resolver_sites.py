"""Gen/ResolverSites.lean (C13): the statements of the functions of jsonargparse/_parameter_resolvers.py that the
Resolver model (lean/Jap/Core/Resolver.lean, ResolverMod.lean) transcribes.

Read off the AST of the file: for every site its signature and the `ast.unparse` of each top-level statement of its
body (docstrings dropped, so comments / layout / docstrings are free to change).  `lean/Jap/Lemmas/ResolverTie.lean`
holds the statements the model was written against and which model definition transcribes them; the `tie_*`
theorems of Props/C13.lean state that both agree, so an edited statement breaks a proof obligation (-> broken tie ->
the harness widens its search for a failing program)."""
import ast
import os

from ..extract import lean_str_list, write_if_changed

# (lean name, class or None, function)
SITES = [
    ("getSignatureParameters", None, "get_signature_parameters"),
    ("getParameterOrigins", None, "get_parameter_origins"),
    ("removeGivenParameters", None, "remove_given_parameters"),
    ("getMroParameters", None, "get_mro_parameters"),
    ("mroContext", None, "mro_context"),
    ("astIsSuperCall", None, "ast_is_super_call"),
    ("astIsSupportedSuperCall", None, "ast_is_supported_super_call"),
    ("astIsKwargsPopOrGet", None, "ast_is_kwargs_pop_or_get"),
    ("astGetCallKwargWithValue", None, "ast_get_call_kwarg_with_value"),
    ("astGetCallPositionalIndexes", None, "ast_get_call_positional_indexes"),
    ("astGetCallKeywordNames", None, "ast_get_call_keyword_names"),
    ("groupParameters", None, "group_parameters"),
    ("replaceArgsAndKwargs", None, "replace_args_and_kwargs"),
    ("splitArgsAndKwargs", None, "split_args_and_kwargs"),
    ("getComponentAndParent", None, "get_component_and_parent"),
    ("isClassmethod", None, "is_classmethod"),
    ("getSignatureParametersAndIndexes", None, "get_signature_parameters_and_indexes"),
    ("pvInit", "ParametersVisitor", "__init__"),
    ("pvVisitAssign", "ParametersVisitor", "visit_Assign"),
    ("pvVisitCall", "ParametersVisitor", "visit_Call"),
    ("pvVisitIf", "ParametersVisitor", "visit_If"),
    ("pvAddValue", "ParametersVisitor", "add_value"),
    ("pvFindValuesUsage", "ParametersVisitor", "find_values_usage"),
    ("pvGetComponentGlobals", "ParametersVisitor", "get_component_globals"),
    ("pvGetNodeComponent", "ParametersVisitor", "get_node_component"),
    ("pvMatchCallThatUsesAttr", "ParametersVisitor", "match_call_that_uses_attr"),
    ("pvGetKwargsPopOrGetParameter", "ParametersVisitor", "get_kwargs_pop_or_get_parameter"),
    ("pvGetParametersArgsAndKwargs", "ParametersVisitor", "get_parameters_args_and_kwargs"),
    ("pvGetParametersAttrUseInMembers", "ParametersVisitor", "get_parameters_attr_use_in_members"),
    ("pvGetParametersCallAttr", "ParametersVisitor", "get_parameters_call_attr"),
    ("pvGetParameters", "ParametersVisitor", "get_parameters"),
]


def statements(fn):
    body = list(fn.body)
    if body and isinstance(body[0], ast.Expr) and isinstance(getattr(body[0], "value", None), ast.Constant) and isinstance(body[0].value.value, str):
        body = body[1:]
    head = "def %s(%s)" % (fn.name, ast.unparse(fn.args))
    decos = ["@" + ast.unparse(d) for d in fn.decorator_list]
    return decos + [head] + [ast.unparse(s) for s in body]


def read_sites(path):
    """{lean name: [statement, ...]} and the list of sites that were not found"""
    tree = ast.parse(open(path).read())
    top = {n.name: n for n in tree.body if isinstance(n, (ast.FunctionDef, ast.ClassDef))}
    out, missing = {}, []
    for lean_name, cls, fname in SITES:
        fn = None
        if cls is None:
            fn = top.get(fname)
        elif isinstance(top.get(cls), ast.ClassDef):
            fn = next((m for m in top[cls].body if isinstance(m, ast.FunctionDef) and m.name == fname), None)
        if not isinstance(fn, ast.FunctionDef):
            missing.append("%s%s" % (cls + "." if cls else "", fname))
            out[lean_name] = []
        else:
            out[lean_name] = statements(fn)
    return out, missing


def lean_defs(sites, namespace):
    body = "namespace %s\n" % namespace
    for lean_name, _, _ in SITES:
        body += "def %s : List String := %s\n" % (lean_name, lean_str_list(sites[lean_name]))
    body += "end %s\n" % namespace
    return body


def generate(problems):
    import jsonargparse

    path = os.path.join(os.path.dirname(os.path.abspath(jsonargparse.__file__)), "_parameter_resolvers.py")
    sites, missing = read_sites(path)
    for m in missing:
        problems.append("ResolverSites: %s not found in _parameter_resolvers.py" % m)
    write_if_changed("ResolverSites.lean", lean_defs(sites, "Jap.Gen.ResolverSites"))

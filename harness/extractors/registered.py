"""Gen/Registered.lean: the data of jsonargparse/typing.py the Typing model (E8, C20) is tied to.

* `_operators1` as [(operator.__name__, symbol)]
* the predefined restricted number types (name, base, [(symbol, ref)], join) and string types (name, pattern,
  pattern translated to the model's `Re`)
* for every built-in registered type the names of serializer / deserializer / type_check
* the literals of `timedelta_deserializer` (patterns, the "day" trigger, the `re` function, the conversion),
  of `range_deserializer` (prefix, suffix, slice, replace, the three compiled patterns) and of
  `range_serializer` (f-string templates), the constant returned by `SecretStr.__str__`

Also exports `regex_to_re` / `re_to_lean` (Python regex -> model `Re`), used by harness/props/c20.py.
"""
from __future__ import annotations

import ast
import inspect
import textwrap
from fractions import Fraction

from ..extract import lean_str, lean_str_list, write_if_changed

DIGIT = [[48, 57]]
SPACE = [[9, 13], [32, 32]]  # ASCII part of \s (str patterns also match U+001C..U+001F: added below)
WORD = [[48, 57], [65, 90], [95, 95], [97, 122]]


class Unsupported(Exception):
    pass


def _supported_flags():
    import re

    return re.UNICODE | re.IGNORECASE | re.VERBOSE | re.DOTALL | re.MULTILINE | re.ASCII


SUPPORTED_FLAGS = _supported_flags()


# ------------------------------------------------------------------ regex -> Re (JSON form)
def _cls(neg, ranges):
    return {"k": "cls", "neg": bool(neg), "r": [[int(a), int(b)] for a, b in ranges]}


def _cat(items):
    items = [x for x in items if x["k"] != "eps"]
    if not items:
        return {"k": "eps"}
    if len(items) == 1:
        return items[0]
    return {"k": "cat", "a": items}


def _fold(ranges, flags):
    """re.IGNORECASE on ASCII subjects: add the other case of every ASCII letter of the set"""
    import re

    if not flags & re.IGNORECASE:
        return ranges
    out = list(ranges)
    for lo, hi in ranges:
        for a, b, d in ((65, 90, 32), (97, 122, -32)):
            x, y = max(lo, a), min(hi, b)
            if x <= y:
                out.append((x + d, y + d))
    return out


def _seq(sub, flags=0):
    import re

    c = re._constants
    out = []
    for op, av in sub:
        if op is c.LITERAL:
            out.append(_cls(False, _fold([(av, av)], flags)))
        elif op is c.NOT_LITERAL:
            out.append(_cls(True, _fold([(av, av)], flags)))
        elif op is c.ANY:
            out.append(_cls(True, [] if flags & re.DOTALL else [(10, 10)]))
        elif op is c.IN:
            neg, ranges = False, []
            for iop, iav in av:
                if iop is c.NEGATE:
                    neg = True
                elif iop is c.LITERAL:
                    ranges.append((iav, iav))
                elif iop is c.RANGE:
                    ranges.append(iav)
                elif iop is c.CATEGORY and iav is c.CATEGORY_DIGIT:
                    ranges.extend(DIGIT)
                elif iop is c.CATEGORY and iav is c.CATEGORY_SPACE:
                    ranges.extend(SPACE if flags & re.ASCII else SPACE + [[28, 31]])
                elif iop is c.CATEGORY and iav is c.CATEGORY_WORD:
                    ranges.extend(WORD)
                else:
                    raise Unsupported("class item %r" % ((iop, iav),))
            out.append(_cls(neg, _fold([tuple(r) for r in ranges], flags)))
        elif op in (c.MAX_REPEAT, c.MIN_REPEAT):
            lo, hi, body = av
            b = _cat(_seq(body, flags))
            if lo > 8 or (hi is not c.MAXREPEAT and hi > 8):
                raise Unsupported("large counted repeat")
            items = [b] * lo
            if hi is c.MAXREPEAT:
                items.append({"k": "star", "a": [b]})
            else:
                opt = {"k": "alt", "a": [b, {"k": "eps"}]}
                items.extend([opt] * (hi - lo))
            out.append(_cat(items) if items else {"k": "eps"})
        elif op is c.SUBPATTERN:
            _, add_flags, del_flags, body = av
            if add_flags or del_flags:
                raise Unsupported("inline flags")
            out.append(_cat(_seq(body, flags)))
        elif op is c.BRANCH:
            out.append({"k": "alt", "a": [_cat(_seq(x, flags)) for x in av[1]]})
        elif op is c.AT and av is c.AT_BEGINNING:
            out.append({"k": "mbol" if flags & re.MULTILINE else "bol"})
        elif op is c.AT and av is c.AT_BEGINNING_STRING:
            out.append({"k": "bol"})
        elif op is c.AT and av is c.AT_END:
            out.append({"k": "meol" if flags & re.MULTILINE else "eol"})
        else:
            raise Unsupported("regex node %r" % ((op, av),))
    return out


def regex_to_re(pattern: str, flags: int = 0):
    """model `Re` (JSON form) of a Python str pattern of the supported fragment, ASCII subjects"""
    import re

    parsed = re._parser.parse(pattern, flags)  # re.VERBOSE is resolved here
    flags = parsed.state.flags  # includes global inline flags
    if flags & ~SUPPORTED_FLAGS:
        raise Unsupported("flags %d" % (flags & ~SUPPORTED_FLAGS))
    return _cat(_seq(parsed, flags))


def re_to_lean(j) -> str:
    k = j["k"]
    if k == "eps":
        return "Re.eps"
    if k == "bol":
        return "Re.bol"
    if k == "eol":
        return "Re.eol"
    if k in ("meol", "mbol"):
        return "Re." + k
    if k == "cls":
        return "(Re.cls %s [%s])" % ("true" if j["neg"] else "false", ", ".join("(%d, %d)" % (a, b) for a, b in j["r"]))
    if k == "star":
        return "(Re.star %s)" % re_to_lean(j["a"][0])
    if k == "cat":
        out = "Re.eps"
        for x in reversed(j["a"]):
            out = "(Re.cat %s %s)" % (re_to_lean(x), out)
        return out
    if k == "alt":
        items = j["a"]
        out = re_to_lean(items[0])
        for x in items[1:]:
            out = "(Re.alt %s %s)" % (out, re_to_lean(x))
        return out
    raise Unsupported(k)


# ------------------------------------------------------------------ helpers
def _fn_ast(fn):
    return ast.parse(textwrap.dedent(inspect.getsource(fn))).body[0]


def _name_of(obj):
    return getattr(obj, "__qualname__", None) or getattr(obj, "__name__", None) or repr(obj)


def _const_str(node):
    return node.value if isinstance(node, ast.Constant) and isinstance(node.value, str) else None


def _frac(x):
    f = Fraction(x)
    return "(%d, %d)" % (f.numerator, f.denominator)


PREDEFINED_NUM = ["PositiveInt", "NonNegativeInt", "PositiveFloat", "NonNegativeFloat", "ClosedUnitInterval", "OpenUnitInterval"]
PREDEFINED_STR = ["NotEmptyStr", "Email"]
BUILTIN_REGISTERED = [
    "os.PathLike", "builtins.complex", "decimal.Decimal", "uuid.UUID", "pathlib.Path", "pathlib.PosixPath",
    "pathlib.WindowsPath", "datetime.timedelta", "builtins.bytes", "builtins.bytearray", "builtins.range",
    "jsonargparse.typing.SecretStr",
]


def timedelta_literals(m, problems):
    f = _fn_ast(m.timedelta_deserializer)
    pattern = prefix = trigger = refn = conv = None
    for node in ast.walk(f):
        if isinstance(node, ast.Assign) and len(node.targets) == 1 and isinstance(node.targets[0], ast.Name) and node.targets[0].id == "pattern":
            if _const_str(node.value) is not None:
                pattern = node.value.value
            elif (isinstance(node.value, ast.BinOp) and isinstance(node.value.op, ast.Add) and _const_str(node.value.left) is not None
                  and isinstance(node.value.right, ast.Name) and node.value.right.id == "pattern"):
                prefix = node.value.left.value
            else:
                problems.append("Registered: assignment to `pattern` in timedelta_deserializer has an unknown shape")
        if isinstance(node, ast.If) and isinstance(node.test, ast.Compare) and len(node.test.ops) == 1 and isinstance(node.test.ops[0], ast.In):
            if _const_str(node.test.left) is not None and isinstance(node.test.comparators[0], ast.Name):
                trigger = node.test.left.value
        if isinstance(node, ast.Call) and isinstance(node.func, ast.Attribute) and isinstance(node.func.value, ast.Name) and node.func.value.id == "re":
            refn = node.func.attr
        if isinstance(node, ast.DictComp) and isinstance(node.value, ast.Call) and isinstance(node.value.func, ast.Name):
            conv = node.value.func.id
    for nm, v in (("pattern", pattern), ("days prefix", prefix), ("trigger", trigger), ("re function", refn), ("conversion", conv)):
        if v is None:
            problems.append("Registered: timedelta_deserializer %s not found" % nm)
    return pattern or "", prefix or "", trigger or "", refn or "", conv or ""


def range_literals(m, problems):
    f = _fn_ast(m.range_deserializer)
    prefix = suffix = None
    sl = None
    repl = None
    for node in ast.walk(f):
        if isinstance(node, ast.Call) and isinstance(node.func, ast.Attribute):
            if node.func.attr == "startswith" and node.args and _const_str(node.args[0]) is not None:
                prefix = node.args[0].value
            if node.func.attr == "endswith" and node.args and _const_str(node.args[0]) is not None:
                suffix = node.args[0].value
            if node.func.attr == "replace" and len(node.args) == 2 and all(_const_str(a) is not None for a in node.args):
                repl = (node.args[0].value, node.args[1].value)
        if isinstance(node, ast.Subscript) and isinstance(node.slice, ast.Slice):
            try:
                sl = (ast.literal_eval(node.slice.lower), ast.literal_eval(node.slice.upper))
            except Exception:  # noqa: BLE001
                pass
    for nm, v in (("prefix", prefix), ("suffix", suffix), ("slice", sl), ("replace", repl)):
        if v is None:
            problems.append("Registered: range_deserializer %s not found" % nm)
    g = _fn_ast(m.range_serializer)
    templates = [ast.unparse(n) for n in ast.walk(g) if isinstance(n, ast.JoinedStr)]
    return prefix or "", suffix or "", sl or (0, 0), repl or ("", ""), templates


def secret_constant(m):
    f = _fn_ast(m.SecretStr.__str__)
    body = [n for n in f.body if not (isinstance(n, ast.Expr) and isinstance(n.value, ast.Constant))]
    if len(body) == 1 and isinstance(body[0], ast.Return) and _const_str(body[0].value) is not None:
        return body[0].value.value
    return None


def generate(problems):
    import decimal
    import uuid
    import datetime
    import re

    from jsonargparse import typing as m

    for t in (decimal.Decimal, uuid.UUID, datetime.timedelta, bytes, bytearray):
        m.get_registered_type(t)

    body = "import Jap.Core.Typing\nnamespace Jap.Gen.Registered\nopen Jap.Typing\n"

    # operator table
    ops = [(k.__name__, v) for k, v in m._operators1.items()]
    body += "def operators : List (String × String) := [%s]\n" % ", ".join("(%s, %s)" % (lean_str(a), lean_str(b)) for a, b in ops)

    # predefined restricted numbers: (name, base, [(symbol, (num, den))], join)
    rows = []
    for name in PREDEFINED_NUM:
        t = getattr(m, name)
        rs = ", ".join("(%s, %s)" % (lean_str(m._operators1[op]), _frac(ref)) for op, ref in t._restrictions)
        rows.append("(%s, %s, [%s], %s)" % (lean_str(name), lean_str(t._type.__name__), rs, lean_str(t._join)))
    body += "def predefinedNum : List (String × String × List (String × Int × Nat) × String) := [\n  %s]\n" % ",\n  ".join(rows)

    # predefined restricted strings
    srows, rrows = [], []
    for name in PREDEFINED_STR:
        t = getattr(m, name)
        pat = t._regex.pattern
        srows.append("(%s, %s)" % (lean_str(name), lean_str(pat)))
        try:
            rrows.append("(%s, %s)" % (lean_str(name), re_to_lean(regex_to_re(pat, t._regex.flags))))
        except Unsupported as ex:
            problems.append("Registered: pattern of %s is outside the modelled regex fragment: %s" % (name, ex))
    body += "def predefinedStr : List (String × String) := [%s]\n" % ", ".join(srows)
    body += "def predefinedStrRe : List (String × Re) := [\n  %s]\n" % ",\n  ".join(rrows)

    # registered handlers: (type, serializer, deserializer, type_check)
    by_name = {"%s.%s" % (t.__module__, t.__qualname__): h for t, h in m.registered_type_handlers.items() if hasattr(t, "__qualname__")}
    hrows = []
    for name in BUILTIN_REGISTERED:
        h = by_name.get(name)
        if h is None:
            problems.append("Registered: built-in registered type %s not found" % name)
            continue
        hrows.append("(%s, %s, %s, %s)" % (lean_str(name), lean_str(_name_of(h.serializer)), lean_str(_name_of(h.base_deserializer)), lean_str(_name_of(h.type_check))))
    body += "def registered : List (String × String × String × String) := [\n  %s]\n" % ",\n  ".join(hrows)
    # deserializer_exceptions of every built-in handler (what RegisteredType.deserializer turns into ValueError)
    erows = []
    for name in BUILTIN_REGISTERED:
        h = by_name.get(name)
        if h is None:
            continue
        excs = h.deserializer_exceptions if isinstance(h.deserializer_exceptions, tuple) else (h.deserializer_exceptions,)
        erows.append("(%s, %s)" % (lean_str(name), lean_str_list([e.__name__ for e in excs])))
    body += "def registeredExc : List (String × List String) := [\n  %s]\n" % ",\n  ".join(erows)

    # timedelta deserializer literals
    pattern, prefix, trigger, refn, conv = timedelta_literals(m, problems)
    body += "def tdPattern : String := %s\n" % lean_str(pattern)
    body += "def tdDaysPrefix : String := %s\n" % lean_str(prefix)
    body += "def tdDayTrigger : String := %s\n" % lean_str(trigger)
    body += "def tdReFunction : String := %s\n" % lean_str(refn)
    body += "def tdConversion : String := %s\n" % lean_str(conv)

    # range
    rp, rsuf, sl, repl, templates = range_literals(m, problems)
    body += "def rangePrefix : String := %s\n" % lean_str(rp)
    body += "def rangeSuffix : String := %s\n" % lean_str(rsuf)
    body += "def rangeSlice : Int × Int := (%d, %d)\n" % (sl[0] or 0, sl[1] or 0)
    body += "def rangeReplace : String × String := (%s, %s)\n" % (lean_str(repl[0]), lean_str(repl[1]))
    pats = []
    for nm in ("re_range_stop", "re_range_start_stop", "re_range_start_stop_step"):
        r = getattr(m, nm)
        if r.flags & ~re.UNICODE:
            problems.append("Registered: %s has flags %d" % (nm, r.flags))
        pats.append(r.pattern)
    body += "def rangePatterns : List String := %s\n" % lean_str_list(pats)
    body += "def rangeSerTemplates : List String := %s\n" % lean_str_list(templates)

    # SecretStr
    sc = secret_constant(m)
    body += "def secretStrConstant : Option String := %s\n" % ("none" if sc is None else "some " + lean_str(sc))
    body += "end Jap.Gen.Registered\n"
    write_if_changed("Registered.lean", body)

"""Gen/ArgvItemRoute.lean (C07): which action a command-line item `--a.b.c[=v]` that is not an exact option string is handed to.

AST of jsonargparse/_typehints.py, `ActionTypeHint.parse_argv_item` (called by `ArgumentParser._parse_optional` for every item before argparse's
own lookup): the item goes to the PARENT action found by `_find_parent_action` only when that action carries a type hint
(`typehint_from_action(action)` is truthy: a class-typed / dict-typed argument that owns nested keys).  A parent without type hint - the
`_ActionConfigLoad` loader `--g` that the signature styles and `ActionParser` add for a group - must be ignored, so that argparse's lookup
(exact option, unique abbreviation, else unrecognized) runs the same in the four declaration styles."""
import ast
import os

from ..extract import lean_str_list, write_if_changed
from .positional_optionals import _find, _flat


def generate(problems):
    import jsonargparse

    pkg = os.path.dirname(os.path.abspath(jsonargparse.__file__))
    th = ast.parse(open(os.path.join(pkg, "_typehints.py")).read())
    fn = _find(th, "parse_argv_item", "ActionTypeHint")
    if fn is None:
        problems.append("ArgvItemRoute: ActionTypeHint.parse_argv_item not found")
        return
    # `_add_signature_parameter`: every assignment to `enable_path` and every use of it - a signature-derived member gets path loading
    # (a string value that names an existing file is replaced by the file's content) only for class-typed parameters with sub_configs,
    # never because of its container type; the same member stated with add_argument has enable_path=False
    sig = ast.parse(open(os.path.join(pkg, "_signatures.py")).read())
    sp = _find(sig, "_add_signature_parameter")
    if sp is None:
        problems.append("ArgvItemRoute: _add_signature_parameter not found")
        return
    ep = []
    for n in ast.walk(sp):
        if isinstance(n, (ast.Assign, ast.AugAssign, ast.AnnAssign)) and "enable_path" in ast.unparse(n.targets[0] if isinstance(n, ast.Assign) else n.target):
            ep.append(ast.unparse(n))
        if isinstance(n, ast.keyword) and n.arg == "enable_path":
            ep.append("keyword enable_path=%s" % ast.unparse(n.value))
    body = "namespace Jap.Gen.ArgvItemRoute\n"
    body += "def parseArgvItem : List String := %s\n" % lean_str_list(_flat(fn.body))
    body += "def signatureEnablePath : List String := %s\n" % lean_str_list(ep)
    body += "end Jap.Gen.ArgvItemRoute\n"
    write_if_changed("ArgvItemRoute.lean", body)

"""Gen/SetDefaultsLoop.lean (C07): the whole-group branch of ActionsContainer.set_defaults.

Read off the AST of jsonargparse/_core.py: inside `for dest, default in arg.items()` the branch
`elif isinstance(action, _ActionConfigLoad)` expands the mapping given for a group into dotted keys, calls
set_defaults on them and must then CONTINUE with the remaining entries of the loop (no return / break)."""
import ast
import os

from ..extract import lean_str_list, write_if_changed


def generate(problems):
    import jsonargparse

    path = os.path.join(os.path.dirname(os.path.abspath(jsonargparse.__file__)), "_core.py")
    tree = ast.parse(open(path).read())
    fn = None
    for n in ast.walk(tree):
        if isinstance(n, ast.ClassDef) and n.name == "ActionsContainer":
            for m in n.body:
                if isinstance(m, ast.FunctionDef) and m.name == "set_defaults":
                    fn = m
    if fn is None:
        problems.append("SetDefaultsLoop: ActionsContainer.set_defaults not found")
        return
    loop = None
    for n in ast.walk(fn):
        if isinstance(n, ast.For) and "items" in ast.unparse(n.iter) and isinstance(n.target, ast.Tuple):
            loop = n
            break
    if loop is None:
        problems.append("SetDefaultsLoop: the loop over the entries of the defaults mapping was not found")
        return
    branch = None
    for n in ast.walk(loop):
        if isinstance(n, ast.If) and "_ActionConfigLoad" in ast.unparse(n.test) and "isinstance" in ast.unparse(n.test):
            branch = n
            break
    if branch is None:
        problems.append("SetDefaultsLoop: the _ActionConfigLoad branch of set_defaults was not found")
        return
    stmts = [ast.unparse(s) for s in branch.body]
    leaves = any(isinstance(x, (ast.Return, ast.Break, ast.Raise)) for s in branch.body for x in ast.walk(s))
    ends_continue = bool(branch.body) and isinstance(branch.body[-1], ast.Continue)
    recurses = any(isinstance(x, ast.Call) and ast.unparse(x.func) == "self.set_defaults" for s in branch.body for x in ast.walk(s))
    # what follows the if/elif chain in the loop body must not run for the group entry only if the branch continues; also record a return/break
    # placed directly in the loop body after the chain
    loop_leaves = any(isinstance(s, (ast.Return, ast.Break)) for s in loop.body)
    body = "namespace Jap.Gen.SetDefaultsLoop\n"
    body += "def configLoadBranch : List String := %s\n" % lean_str_list(stmts)
    body += "def branchLeavesLoop : Bool := %s\n" % ("true" if leaves else "false")
    body += "def branchEndsWithContinue : Bool := %s\n" % ("true" if ends_continue else "false")
    body += "def branchRecurses : Bool := %s\n" % ("true" if recurses else "false")
    body += "def loopBodyLeaves : Bool := %s\n" % ("true" if loop_leaves else "false")
    body += "end Jap.Gen.SetDefaultsLoop\n"
    write_if_changed("SetDefaultsLoop.lean", body)

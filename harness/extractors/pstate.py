"""Gen/PState.lean (C09): what the source does to state that outlives a call.

(a) every `<ContextVar>.set(...)` of the package: the function it is in and whether that function resets the
    token in a `finally`;
(b) every write to an attribute / `__dict__` / `sub_add_kwargs[...]` of a parser, action or group object made by a
    function that can run at parse time (name-based call graph from the public entry points, not descending into the
    builder functions), classified by the carrier of the model it belongs to.  A write that is not in the table of
    known writes is a NEW piece of persistent state: reported through `problems` (broken tie);
(c) the facts the model's `step` consults (Jap.PState.Facts), each computed from the AST.
"""
from __future__ import annotations

import ast
import glob
import os

from ..extract import lean_str, write_if_changed
from ..lib.common import REPO

ENTRY = {"parse_args", "parse_object", "parse_string", "parse_path", "parse_env", "get_defaults", "get_default", "dump", "validate",
         "instantiate_classes", "format_help", "format_usage", "print_usage", "print_help", "error", "__call__", "strip_unknown",
         "merge_config", "get_config_files", "check_config"}
# builder functions: what they write is the parser's construction, not parse-time state
BUILDERS = {"__init__", "link_arguments", "set_defaults", "prepare_add_argument", "update_init_kwargs", "_move_parser_actions",
            "lazy_instance", "class_from_function", "normalize_default", "set_parsing_settings", "set_docstring_parse_options",
            "set_loader", "set_dumper", "register_type", "final", "compose_dataclasses", "capture_parser", "auto_cli", "auto_parser", "CLI"}
MUTATORS = {"pop", "setdefault", "update", "add", "append", "remove", "clear", "extend", "insert", "discard", "popitem"}

# ---- table of known writes: (function, target text) -> carrier / reason it is no carrier ---------------------------------
KNOWN_WRITES = {
    ("ArgumentParser.parse_args", "self.args"): "lastArgs",
    ("ArgumentParser.parse_args", "self.__dict__.pop('print_config', None)"): "pending-delete",
    ("_ActionPrintConfig.__call__", "parser.print_config"): "pending",
    ("_ActionPrintConfig.print_config_if_requested", "delattr(parser, 'print_config')"): "pending-delete",
    ("_ActionPrintConfig.print_config_if_requested", "parser.print_config.pop('key')"): "pending-consume",
    ("_ActionPrintConfig.print_config_if_requested", "parser.print_config.pop('subparser')"): "pending-consume",
    ("handle_completions", "parser.add_argument('--print_shtab', action=ShtabAction)"): "shtabAdded",
    ("adapt_class_type", "sub_add_kwargs.setdefault('linked_targets', set())"): "linked",
    ("adapt_class_type", "sub_add_kwargs['linked_targets'].add(key)"): "linked",
    ("adapt_typehints", "sub_add_kwargs['linked_targets']"): "linked",
    ("adapt_typehints", "sub_add_kwargs['default']"): "dcDefault",
    ("ArgumentParser.format_help", "group.description"): "written-before-read:help text of the default-config group",
    ("_ActionHelpClassPath.print_help", "self.sub_add_kwargs['skip']"): "written-before-read:idempotent skip set of the help action",
    ("_ActionHelpClassPath.print_help", "subparser._inner_parser"): "fresh-object",
    ("_ActionHelpClassPath.print_help", "subparser.add_class_arguments(val_class, dest, **self.sub_add_kwargs)"): "fresh-object",
    ("ActionTypeHint.get_class_parser", "parser._inner_parser"): "fresh-object",
    ("ActionTypeHint.get_class_parser", "parser.add_class_arguments(val_class, **kwargs)"): "fresh-object",
    ("ActionTypeHint.get_class_parser", "parser.add_function_arguments(val_class, **kwargs)"): "fresh-object",
    ("ActionTypeHint.get_class_parser", "parser.link_arguments(**link_kwargs)"): "fresh-object",
    ("ActionTypeHint.get_class_parser", "parser.required_args.remove(key)"): "fresh-object",
    ("Action._check_type_", "self._check_type_kwargs"): "memo-of-constant:parameter names of _check_type",
    ("DefaultHelpFormatter._expand_help", "action.default"): "restored:set for the substitution, put back in a finally (fact helpDefaultFinally)",
    ("ActionConfigFile.apply_config", "cfg.__dict__.update(cfg_merged.__dict__)"): "value-object:namespace being built",
    ("ActionYesNo.__call__", "setattr(args[1], self.dest, not value)"): "value-object:namespace being built",
    ("ActionYesNo.__call__", "setattr(args[1], self.dest, value)"): "value-object:namespace being built",
    ("argcomplete_namespace", "namespace.__class__"): "outside:argcomplete",
    ("shtab_prepare_actions", "clone.option_strings"): "outside:--print_shtab",
    ("shtab_prepare_actions", "clone.nargs"): "outside:--print_shtab",
    ("shtab_prepare_action", "action.complete"): "outside:--print_shtab",
    ("shtab_prepare_action", "action.choices"): "outside:--print_shtab",
    ("add_bash_typehint_completion", "action.complete"): "outside:--print_shtab",
    ("add_subactions_and_get_subclass_choices", "action.choices"): "outside:--print_shtab",
    ("get_cached_stdin", "sys.stdin"): "outside:stdin is consumed once by nature",
    ("LazyInitBaseClass._lazy_init", "self._lazy.__call__"): "value-object:lazy instance",
    ("LazyInitBaseClass._lazy_init", "del self.__dict__[name]"): "value-object:lazy instance",
    ("ArgumentParser.add_instantiator", "self._instantiators"): "builder",
    ("ArgumentParser._get_default_config_files", "self._default_config_files"): "builder",
    ("ActionTypeHint.is_init_arg_mapping_typehint", "sub_add_kwargs.pop('linked_targets', None)"): "linked",
    ("ActionJsonnetExtVars.__call__", "action.jsonnet_ext_vars"): "builder:called without arguments by add_argument",
    ("deprecated", "component.__init__"): "builder:decorator applied at import time",
    ("deprecated", "component._original_init"): "builder:decorator applied at import time",
    ("deprecated", "component.__doc__"): "builder:decorator applied at import time",
    ("shtab_prepare_actions", "parser._actions.append(clone)"): "outside:--print_shtab",
}
# writes found once every module and every receiver name is looked at: objects that live for one call
for _f, _ts in {
    "ActionLink.instantiation_order": ["graph.add_edge(source_action.dest, target)", "graph.add_edge(target, target_prefix)"],
    "AssignsVisitor.find": ["self.assigns_found"],
    "BackportTypeHints.backport": ["self.exec_vars"],
    "ImportsVisitor.find": ["self.imports_found", "self.module_path"],
    "MethodsVisitor.find": ["self.method_found", "self.method_name"],
    "NamesVisitor.find": ["self.names_found"],
    "ParametersVisitor.find_values_usage": ["self.dict_assigns", "self.find_values", "self.import_names", "self.values_found"],
    "ParametersVisitor.get_component_from_source": ["ast_exec.body"],
    "ParametersVisitor.get_parameters": ["self.doc_params"],
    "ParametersVisitor.get_parameters_args_and_kwargs": ["self.add_node_origins(params, node)"],
    "ParametersVisitor.get_parameters_call_attr": ["self.add_node_origins(match, node)"],
    "ParametersVisitor.parse_source_tree": ["self.component_node", "self.self_name"],
    "StubsResolver.get_aliases": ["self.add_import_aliases(aliases, imported_info)"],
    "TypeCheckingVisitor.update_aliases": ["self.aliases", "self.logger", "self.module"],
    "get_arg_type": ["type_ast.body", "type_ast.body[0].value"],
}.items():
    for _t in _ts:
        KNOWN_WRITES[(_f, _t)] = "fresh-object:visitor / syntax tree / graph built for this call"
for _f, _ts in {
    "Namespace.as_flat": ["setattr(flat, key, val)"],
    "Namespace.pop": ["parent_ns.__dict__.pop(leaf_key, default)"],
    "ParametersVisitor.replace_param_default_subclass_specs": ["param.default"],
    "evaluate_postponed_annotations": ["param.annotation"],
    "group_parameters": ["gparam.annotation", "gparam.component", "gparam.default", "gparam.doc", "gparam.origin", "gparam.parent", "param.origin",
                         "params_dict[param.name].append(param)"],
    "replace_generic_type_vars": ["param.annotation"],
    "resolve_class_path_by_name": ["subclass_dict[subclass_name].append(subclass)"],
}.items():
    for _t in _ts:
        KNOWN_WRITES[(_f, _t)] = "value-object:namespace / parameter list being computed"
KNOWN_WRITES[("ArgumentParser._parse_common", "ActionTypeHint.add_sub_defaults(self, cfg)")] = "value-object:fills the configuration being returned"
KNOWN_WRITES[("ArgumentParser.get_defaults", "ActionTypeHint.add_sub_defaults(self, cfg)")] = "value-object:fills the configuration being returned"
KNOWN_WRITES[("RegisteredType.deserializer", "ex2.parent")] = "value-object:exception being raised"
KNOWN_WRITES[("get_yaml_default_loader", "DefaultLoader.add_implicit_resolver('tag:yaml.org,2002:float', re.compile('^(?:\\n        [-+]?(?:[0-...")] = \
    "memo-of-constant:the loader class, built once per process"
KNOWN_WRITES[("patch_namespace", "argparse.Namespace")] = "restored:bracket patch_namespace (Gen/Brackets: finally)"
for _t in ["cls.yaml_implicit_resolvers", "cls.yaml_implicit_resolvers[first_letter]"]:
    KNOWN_WRITES[("get_yaml_default_loader", _t)] = "memo-of-constant:the loader class, built once per process"
    KNOWN_WRITES[("get_yaml_default_loader.remove_implicit_resolver", _t)] = "memo-of-constant:the loader class, built once per process"

# ---- process-level state: module globals, module-level containers, class attributes, caching decorators -------------------
# (file, function, kind, target) -> classification
KNOWN_PROC_WRITES = {
    ("_common.py", "set_parsing_settings", "module-object", "parsing_settings['parse_optionals_as_positionals']"): "declaration-time:public settings function",
    ("_completions.py", "add_bash_typehint_completion", "module-object", "shtab_preambles.get().append(fn)"): "outside:--print_shtab (list made by prepare_actions_context)",
    ("_deprecated.py", "deprecation_warning", "module-object", "shown_deprecation_warnings.add(component)"): "outside:each deprecation warning is shown once per process (warnings, not answers)",
    ("_deprecated.py", "instantiate_subclasses_patch", "class-attr", "ArgumentParser.instantiate_subclasses"): "declaration-time:runs at import",
    ("_loaders_dumpers.py", "get_loader_exceptions", "module-object", "loader_exceptions[mode]"): "memo-of-constant:exception classes of a loader",
    ("_loaders_dumpers.py", "get_yaml_default_dumper", "global", "yaml_default_dumper"): "memo-of-constant:the dumper class, built once per process",
    ("_loaders_dumpers.py", "get_yaml_default_loader", "global", "yaml_default_loader"): "memo-of-constant:the loader class, built once per process",
    ("_loaders_dumpers.py", "get_yaml_default_loader", "class-attr", "cls.yaml_implicit_resolvers"): "memo-of-constant:the loader class, built once per process",
    ("_loaders_dumpers.py", "get_yaml_default_loader", "class-attr", "cls.yaml_implicit_resolvers[first_letter]"): "memo-of-constant:the loader class, built once per process",
    ("_loaders_dumpers.py", "get_yaml_default_loader.remove_implicit_resolver", "class-attr", "cls.yaml_implicit_resolvers"): "memo-of-constant:the loader class, built once per process",
    ("_loaders_dumpers.py", "get_yaml_default_loader.remove_implicit_resolver", "class-attr", "cls.yaml_implicit_resolvers[first_letter]"): "memo-of-constant:the loader class, built once per process",
    ("_loaders_dumpers.py", "set_dumper", "module-object", "dumpers[format_name]"): "declaration-time:public settings function",
    ("_loaders_dumpers.py", "set_loader", "module-object", "loader_exceptions[mode]"): "declaration-time:public settings function",
    ("_loaders_dumpers.py", "set_loader", "module-object", "loader_json_superset[mode]"): "declaration-time:public settings function",
    ("_loaders_dumpers.py", "set_loader", "module-object", "loader_params[mode]"): "declaration-time:public settings function",
    ("_loaders_dumpers.py", "set_loader", "module-object", "loaders[mode]"): "declaration-time:public settings function",
    ("_optionals.py", "final", "setattr", "setattr(cls, '__final__', True)"): "declaration-time:class decorator",
    ("_optionals.py", "get_docstring_parse_options", "module-object", "_docstring_parse_options['style']"): "memo-of-constant:default docstring style resolved on first use",
    ("_optionals.py", "set_config_read_mode", "global", "_config_read_mode"): "declaration-time:public settings function",
    ("_optionals.py", "set_config_read_mode.update_mode", "global", "_config_read_mode"): "declaration-time:public settings function",
    ("_optionals.py", "set_docstring_parse_options", "module-object", "_docstring_parse_options['attribute_docstrings']"): "declaration-time:public settings function",
    ("_optionals.py", "set_docstring_parse_options", "module-object", "_docstring_parse_options['style']"): "declaration-time:public settings function",
    ("_stubs_resolver.py", "get_stubs_resolver", "global", "stubs_resolver"): "memo-of-constant:resolver of the installed stub files, built once per process",
    ("_util.py", "register_unresolvable_import_paths", "module-object", "unresolvable_import_paths[val]"): "declaration-time:public settings function",
    ("typing.py", "get_registered_type", "module-object", "registration_pending.pop(import_path)"): "memo-of-constant:a type registered on first use; registering is idempotent",
    ("typing.py", "register_type", "module-object", "registered_type_handlers[type_class]"): "declaration-time:public settings function",
    ("typing.py", "register_type", "module-object", "registered_types[uniqueness_key]"): "declaration-time:public settings function",
    ("typing.py", "register_type_on_first_use", "module-object", "registration_pending[import_path]"): "declaration-time:public settings function",
}
for _t in ["ArgumentParser.__init__", "ArgumentParser._unpatched_dump", "ArgumentParser._unpatched_init", "ArgumentParser._unpatched_instantiate_classes",
           "ArgumentParser._unpatched_save", "ArgumentParser.dump", "ArgumentParser.instantiate_classes", "ArgumentParser.save"]:
    KNOWN_PROC_WRITES[("_deprecated.py", "parse_as_dict_patch", "class-attr", _t)] = "declaration-time:runs at import"
for _f in ["parse_as_dict_patch", "parse_as_dict_patch.patch_parse_method"]:
    for _t in ["setattr(ArgumentParser, method_name, patched_parse)", "setattr(ArgumentParser, unpatched_method_name, getattr(ArgumentParser, method_name))"]:
        KNOWN_PROC_WRITES[("_deprecated.py", _f, "setattr", _t)] = "declaration-time:runs at import"


def proc_writes(src):
    """writes to state that belongs to the PROCESS: names declared `global`, module-level containers mutated inside a
    function, attributes of classes of the package (`cls.x = …`, `ClassName.x = …`, setattr on them) and every caching
    decorator — in EVERY function of EVERY module, whether the call graph reaches it or not"""
    modlevel = set()
    classes = set()
    for tree in src.trees.values():
        for st in tree.body:
            tg = []
            if isinstance(st, ast.Assign):
                tg = st.targets
            elif isinstance(st, ast.AnnAssign):
                tg = [st.target]
            for t in tg:
                if isinstance(t, ast.Name):
                    modlevel.add(t.id)
            if isinstance(st, ast.ClassDef):
                classes.add(st.name)
    mut = MUTATORS | {"sort", "reverse", "appendleft"}
    rows = set()
    for q, (fn, f) in src.funcs.items():
        q = q.split("#")[0]
        for d in f.decorator_list:
            t = ast.unparse(d)
            if "cache" in t.lower() or "memo" in t.lower():
                rows.add((fn, q, "decorator", t[:100]))
        params = {a.arg for a in f.args.args + f.args.kwonlyargs + f.args.posonlyargs}
        for va in (f.args.vararg, f.args.kwarg):
            if va is not None:
                params.add(va.arg)
        own = src.own_nodes(f)
        globs, local = set(), set()
        for n in own:
            if isinstance(n, ast.Global):
                globs |= set(n.names)
            if isinstance(n, ast.Name) and isinstance(n.ctx, ast.Store):
                local.add(n.id)
        local -= globs

        def shared(b):
            return b in modlevel and b not in params and b not in local

        for n in own:
            tg = []
            if isinstance(n, ast.Assign):
                tg = n.targets
            elif isinstance(n, (ast.AugAssign, ast.AnnAssign)):
                tg = [n.target]
            elif isinstance(n, ast.Delete):
                tg = n.targets
            for t in tg:
                for tt in (t.elts if isinstance(t, (ast.Tuple, ast.List)) else [t]):
                    txt = ast.unparse(tt).replace('"', "'")[:100]
                    if isinstance(tt, ast.Name) and tt.id in globs:
                        rows.add((fn, q, "global", txt))
                    elif isinstance(tt, (ast.Attribute, ast.Subscript)):
                        b = base_name(tt)
                        if shared(b):
                            rows.add((fn, q, "module-object", txt))
                        elif b == "cls" or b in classes or txt.startswith(("type(self)", "self.__class__")):
                            rows.add((fn, q, "class-attr", txt))
            if isinstance(n, ast.Call) and isinstance(n.func, ast.Attribute) and n.func.attr in mut:
                b = base_name(n.func.value)
                txt = ast.unparse(n).replace('"', "'")[:100]
                if shared(b):
                    rows.add((fn, q, "module-object", txt))
                elif b == "cls" or (b in classes and not isinstance(n.func.value, ast.Name)) or txt.startswith(("type(self)", "self.__class__")):
                    rows.add((fn, q, "class-attr", txt))
            if isinstance(n, ast.Call) and isinstance(n.func, ast.Name) and n.func.id in ("setattr", "delattr") and n.args:
                b = base_name(n.args[0])
                if shared(b) or b == "cls" or b in classes:
                    rows.add((fn, q, "setattr", ast.unparse(n).replace('"', "'")[:100]))
    return sorted(rows)


# wiring attributes may only be written by these builders
WIRING_ATTRS = {"parent_parser", "subcommand", "_subcommands_action", "_name_parser_map"}
WIRING_BUILDERS = {"_ActionSubCommands.add_subcommand", "ArgumentParser.add_subcommands"}
# context-variable sets without a reset that the model knows (carriers ctxParseKwargs / ctxSubclassArgParser / ctxDumpKwargs;
# current_mro: moved forward inside an enclosing mro_context, which restores it)
KNOWN_UNRESET = {
    ("parse_kwargs", "_ActionSubCommands.parse_kwargs_context"): "ctxParseKwargs",
    ("subclass_arg_parser", "ActionTypeHint.subclass_arg_context"): "ctxSubclassArgParser",
    ("dump_kwargs", "dump_kwargs_context"): "ctxDumpKwargs",
    ("current_mro", "get_mro_parameters"): "enclosed-by:mro_context",
    ("current_mro", "ast_is_supported_super_call"): "enclosed-by:mro_context",
}


# ---------------------------------------------------------------------------------------------------------------------
class Src:
    def __init__(self):
        self.trees = {}
        for path in sorted(glob.glob(os.path.join(REPO, "jsonargparse", "*.py"))):
            name = os.path.basename(path)
            if name == "__init__.py":
                continue
            with open(path) as f:
                self.trees[name] = ast.parse(f.read())
        self.funcs = {}       # qualified name -> (file, node)
        self.by_bare = {}     # bare name -> [qualified]
        self.parents = {}
        for fn, tree in self.trees.items():
            self._index(fn, tree, [])
            for node in ast.walk(tree):
                for ch in ast.iter_child_nodes(node):
                    self.parents[ch] = node

    def _index(self, fn, node, stack):
        for ch in ast.iter_child_nodes(node):
            if isinstance(ch, (ast.FunctionDef, ast.AsyncFunctionDef)):
                q = ".".join(stack + [ch.name])
                # property getter/setter pairs share a name: keep both under distinct keys
                key = q if q not in self.funcs else q + "#2"
                self.funcs[key] = (fn, ch)
                self.by_bare.setdefault(ch.name, []).append(key)
                self._index(fn, ch, stack + [ch.name])
            elif isinstance(ch, ast.ClassDef):
                self._index(fn, ch, stack + [ch.name])
            else:
                self._index(fn, ch, stack)

    def func(self, q):
        if q not in self.funcs:
            raise LookupError("function %s not found" % q)
        return self.funcs[q][1]

    def own_nodes(self, fnode):
        """nodes of a function body without nested function/class definitions"""
        out = []
        stack = list(fnode.body)
        while stack:
            n = stack.pop()
            out.append(n)
            for ch in ast.iter_child_nodes(n):
                if not isinstance(ch, (ast.FunctionDef, ast.AsyncFunctionDef, ast.ClassDef)):
                    stack.append(ch)
        return out

    def enclosing(self, node, kinds):
        out = []
        while node in self.parents:
            node = self.parents[node]
            if isinstance(node, kinds):
                out.append(node)
        return out

    def func_of(self, node):
        names = []
        cur = node
        while cur in self.parents:
            cur = self.parents[cur]
            if isinstance(cur, (ast.FunctionDef, ast.AsyncFunctionDef, ast.ClassDef)):
                names.append(cur.name)
        return ".".join(reversed(names))


def call_name(c):
    f = c.func
    if isinstance(f, ast.Name):
        return f.id
    if isinstance(f, ast.Attribute):
        return f.attr
    return None


def is_call(node, attr=None, recv=None, name=None):
    if not isinstance(node, ast.Call):
        return False
    f = node.func
    if name is not None:
        return isinstance(f, ast.Name) and f.id == name
    if not isinstance(f, ast.Attribute) or f.attr != attr:
        return False
    return recv is None or ast.unparse(f.value) == recv


def contains(node, pred):
    return any(pred(n) for n in ast.walk(node))


# ---------------------------------------------------------------------------------------------------------------------
def context_vars(src):
    names = set()
    for tree in src.trees.values():
        for st in tree.body:
            val = None
            tgt = None
            if isinstance(st, ast.Assign) and len(st.targets) == 1 and isinstance(st.targets[0], ast.Name):
                tgt, val = st.targets[0].id, st.value
            elif isinstance(st, ast.AnnAssign) and isinstance(st.target, ast.Name):
                tgt, val = st.target.id, st.value
            if tgt and isinstance(val, ast.Call) and call_name(val) == "ContextVar":
                names.add(tgt)
    return names


def parser_context_var_names(src):
    for st in src.trees["_common.py"].body:
        if isinstance(st, ast.Assign) and isinstance(st.targets[0], ast.Name) and st.targets[0].id == "parser_context_vars" \
                and isinstance(st.value, ast.Call):
            return sorted(k.arg for k in st.value.keywords)
    raise LookupError("parser_context_vars not found")


def ctx_sets(src, cvars):
    """[(var, function, reset_in_finally)]"""
    out = []
    for q, (fn, node) in sorted(src.funcs.items()):
        params = {a.arg for a in node.args.args + node.args.kwonlyargs}
        own = src.own_nodes(node)
        for n in own:
            if isinstance(n, ast.Call) and isinstance(n.func, ast.Attribute) and n.func.attr == "set" and isinstance(n.func.value, ast.Name):
                var = n.func.value.id
                if var in params:
                    continue
                if var not in cvars and not (q == "parser_context" and var == "context_var"):
                    continue
                # reset of the same variable inside a finally of this function
                fin = False
                for t in own:
                    if isinstance(t, ast.Try) and t.finalbody:
                        for f in t.finalbody:
                            if contains(f, lambda x: is_call(x, "reset") and isinstance(x.func.value, ast.Name) and x.func.value.id == var):
                                fin = True
                # the reset must not also be reachable only outside: a reset anywhere else does not count
                out.append((var, q.split("#")[0], fin))
    return sorted(set(out))


def reachable(src):
    seen = set()
    work = []
    for q, (fn, node) in src.funcs.items():
        # argparse calls the formatter's methods itself: all of them are entry points
        if node.name in ENTRY or fn == "_formatters.py":
            work.append(q)
    while work:
        q = work.pop()
        if q in seen:
            continue
        seen.add(q)
        node = src.funcs[q][1]
        for n in ast.walk(node):
            if isinstance(n, ast.Call):
                nm = call_name(n)
                if nm is None or nm in BUILDERS or nm.startswith("add_") or nm.startswith("_add_"):
                    continue
                for cand in src.by_bare.get(nm, []):
                    if cand not in seen:
                        work.append(cand)
    return seen


# files whose objects are parsers / actions / groups, and the names such objects go by
WRITE_FILES = {"_core.py", "_actions.py", "_typehints.py", "_common.py", "_link_arguments.py", "_completions.py", "_formatters.py",
               "_signatures.py", "_util.py", "_deprecated.py", "_jsonschema.py", "_jsonnet.py"}
OBJ_NAMES = {"self", "parser", "subparser", "action", "group", "container", "subcommands", "help_action", "sub_add_kwargs", "source_action",
             "target_action", "component", "root_parser", "parent_parser", "subparsers", "clone", "sys", "choice_action", "base_action_group",
             "link_action", "a", "namespace_action"}
LOCAL_VALUE_NAMES = {"cfg", "val", "value", "kwargs", "params", "init", "init_args", "namespace", "cfg_dict", "subcfg", "defaults", "ns", "out",
                     "adapt_kwargs", "adapt_kwargs_n", "subclass_spec", "dump_kwargs", "cfg_to", "cfg_from", "meta", "node", "result", "vals",
                     "class_object_val", "dict_kwargs", "del_args", "keys", "ordered", "after", "components", "instantiators", "args",
                     "sorted_keys", "del_keys", "cfg_files", "env_val", "parsers", "subtypes", "errors", "candidates", "unk", "seen", "loaders",
                     "dumpers", "ancestors", "subclass_list", "stack", "cfg_base", "cfg_env", "cfg_apply", "cfg_merged", "cfg_file", "branch_cfg",
                     "parsed_cfg", "pcfg", "subnamespace", "prev_val", "prev_cfg", "sub_cfg", "prev_sub_cfg", "cfg_branch", "cfg_load",
                     "os", "warnings", "sys", "logger", "self._logger", "argcomplete", "shtab", "logging", "re", "yaml", "json", "inspect"}


def base_name(expr):
    while isinstance(expr, (ast.Attribute, ast.Subscript, ast.Call)):
        expr = expr.func if isinstance(expr, ast.Call) else expr.value
    return expr.id if isinstance(expr, ast.Name) else None


def writes_of(src, q):
    """writes of one function to objects that may be parsers / actions / groups: [(target text, how)]"""
    fn, node = src.funcs[q]
    out = []

    def obj(expr):
        # every module of the package, every receiver: anything that is not a name the package uses for the values being
        # computed (LOCAL_VALUE_NAMES) may be a parser / action / group / class / long-lived helper object
        b = base_name(expr)
        return (b is not None and (b not in LOCAL_VALUE_NAMES or b in ("sys", "os"))) or "sub_add_kwargs" in ast.unparse(expr)

    for n in src.own_nodes(node):
        targets = []
        if isinstance(n, ast.Assign):
            targets = n.targets
        elif isinstance(n, (ast.AugAssign, ast.AnnAssign)):
            targets = [n.target]
        for t in targets:
            for tt in (t.elts if isinstance(t, (ast.Tuple, ast.List)) else [t]):
                if isinstance(tt, ast.Attribute) and obj(tt):
                    out.append((ast.unparse(tt), "assign"))
                elif isinstance(tt, ast.Subscript) and obj(tt) and (isinstance(tt.value, (ast.Attribute, ast.Subscript)) or "sub_add_kwargs" in ast.unparse(tt.value)):
                    out.append((ast.unparse(tt), "assign"))
        if isinstance(n, ast.Delete):
            for tt in n.targets:
                if isinstance(tt, (ast.Attribute, ast.Subscript)) and obj(tt) and not isinstance(getattr(tt, "value", None), ast.Name):
                    out.append(("del " + ast.unparse(tt), "delete"))
                elif isinstance(tt, ast.Attribute) and obj(tt):
                    out.append(("del " + ast.unparse(tt), "delete"))
        if isinstance(n, ast.Call):
            nm = call_name(n)
            if isinstance(n.func, ast.Name) and nm in ("setattr", "delattr") and n.args and obj(n.args[0]):
                out.append((ast.unparse(n), "delete" if nm == "delattr" else "assign"))
            elif isinstance(n.func, ast.Attribute) and nm in MUTATORS:
                recv = n.func.value
                txt = ast.unparse(recv)
                if obj(recv) and (isinstance(recv, (ast.Attribute, ast.Subscript)) or "sub_add_kwargs" in txt) \
                        and not txt.startswith(("self._logger", "self.logger", "sys.")):
                    out.append((ast.unparse(n), "mutate"))
            elif isinstance(n.func, ast.Attribute) and nm is not None and (nm.startswith("add_") or nm in ("link_arguments", "set_defaults")) \
                    and obj(n.func.value) and isinstance(n.func.value, ast.Name):
                # a builder called at parse time: on a fresh parser or on the parser itself?
                out.append((ast.unparse(n), "build"))
    return [(t if len(t) <= 100 else t[:100] + "...", h) for t, h in out]


# ---------------------------------------------------------------------------------------------------------------------
def stmt_index_in(body, pred):
    for i, st in enumerate(body):
        if contains(st, pred):
            return i
    return None


def fact_finally_pops(src):
    f = src.func("ArgumentParser.parse_args")
    for n in src.own_nodes(f):
        if isinstance(n, ast.Try) and n.finalbody:
            pops = any(contains(s, lambda x: (is_call(x, "pop", "self.__dict__") and x.args and isinstance(x.args[0], ast.Constant) and x.args[0].value == "print_config")
                                or (is_call(x, name="delattr") and len(x.args) == 2 and ast.unparse(x.args[0]) == "self" and getattr(x.args[1], "value", None) == "print_config"))
                       for s in n.finalbody)
            body = ast.Module(body=n.body, type_ignores=[])
            encloses = contains(body, lambda x: is_call(x, "parse_known_args", "self")) and contains(body, lambda x: is_call(x, "_parse_common", "self"))
            if pops and encloses:
                return True
    return False


def fact_pcir_deletes(src):
    f = src.func("_ActionPrintConfig.print_config_if_requested")
    for n in src.own_nodes(f):
        if isinstance(n, ast.If):
            d = stmt_index_in(n.body, lambda x: is_call(x, name="delattr") and len(x.args) == 2 and getattr(x.args[1], "value", None) == "print_config")
            e = stmt_index_in(n.body, lambda x: is_call(x, "exit", "parser"))
            if d is not None and e is not None and d < e:
                return True
    return False


def fact_args_before_parse(src):
    f = src.func("ArgumentParser.parse_args")
    a = stmt_index_in(f.body, lambda x: isinstance(x, ast.Assign) and any(ast.unparse(t) == "self.args" for t in x.targets))
    p = stmt_index_in(f.body, lambda x: is_call(x, "parse_known_args", "self"))
    # the assignment is a top-level statement of the function (not conditional)
    top = a is not None and isinstance(f.body[a], ast.Assign)
    reads_only_in_help = all(src.func_of(n) == "_ActionHelpClassPath.print_help"
                             for tree in src.trees.values() for n in ast.walk(tree)
                             if isinstance(n, ast.Attribute) and n.attr == "args" and isinstance(n.ctx, ast.Load)
                             and isinstance(n.value, ast.Name) and n.value.id in ("parser", "subparser", "self")
                             and src.func_of(n).split(".")[0] in ("ArgumentParser", "_ActionHelpClassPath", "ActionsContainer"))
    return bool(top and p is not None and a < p and reads_only_in_help)


def sets_before_yield(src, q, var):
    f = src.func(q)
    s = stmt_index_in(f.body, lambda x: is_call(x, "set", var))
    y = stmt_index_in(f.body, lambda x: isinstance(x, (ast.Yield, ast.YieldFrom)))
    return s is not None and y is not None and s < y


def call_inside_with(src, fq, with_call_attr, inner_pred):
    """in function fq: every node matching inner_pred lies in the body of a `with` one of whose items calls *.with_call_attr"""
    f = src.func(fq)
    found = False
    for n in src.own_nodes(f):
        if inner_pred(n):
            found = True
            ok = False
            for w in src.enclosing(n, (ast.With,)):
                if any(isinstance(it.context_expr, ast.Call) and call_name(it.context_expr) == with_call_attr for it in w.items):
                    # n must be in the body, not in the items
                    if any(contains(b, lambda x: x is n) for b in w.body):
                        ok = True
            if not ok:
                return False
    return found


def reads_of_ctxvar(src, var, files=None):
    """functions containing `<var>.get(...)` with at most one argument where var is not a parameter/local of the function"""
    out = []
    for q, (fn, node) in src.funcs.items():
        if files and fn not in files:
            continue
        params = {a.arg for a in node.args.args + node.args.kwonlyargs}
        if var in params:
            continue
        local = any(isinstance(n, ast.Assign) and any(isinstance(t, ast.Name) and t.id == var for t in n.targets) for n in src.own_nodes(node))
        if local:
            continue
        for n in src.own_nodes(node):
            if is_call(n, "get", var) and len(n.args) == 0:
                out.append((q.split("#")[0], n))
    return out


def fact_kw(src):
    ok = sets_before_yield(src, "_ActionSubCommands.parse_kwargs_context", "parse_kwargs")
    ok = ok and call_inside_with(src, "ArgumentParser.parse_args", "parse_kwargs_context", lambda x: is_call(x, "parse_known_args", "self"))
    reads = {q for q, _ in reads_of_ctxvar(src, "parse_kwargs")}
    return bool(ok and reads == {"_ActionSubCommands.__call__"})


def fact_sap(src):
    ok = sets_before_yield(src, "ActionTypeHint.subclass_arg_context", "subclass_arg_parser")
    ok = ok and call_inside_with(src, "ArgumentParser.parse_known_args", "subclass_arg_context", lambda x: is_call(x, "_parse_known_args", "self"))
    reads = {q for q, _ in reads_of_ctxvar(src, "subclass_arg_parser")}
    callers = {src.func_of(n) for tree in src.trees.values() for n in ast.walk(tree) if isinstance(n, ast.Call) and call_name(n) == "parse_argv_item"}
    return bool(ok and reads == {"ActionTypeHint.parse_argv_item"} and callers == {"ArgumentParser._parse_optional"})


def fact_dk(src):
    ok = sets_before_yield(src, "dump_kwargs_context", "dump_kwargs")
    ok = ok and call_inside_with(src, "ActionTypeHint.serialize", "dump_kwargs_context", lambda x: isinstance(x, ast.Call) and call_name(x) == "adapt_typehints")
    # every read sits in a branch taken only when serialising
    for q, n in reads_of_ctxvar(src, "dump_kwargs", files={"_typehints.py"}):
        guarded = False
        for i in src.enclosing(n, (ast.If,)):
            if isinstance(i.test, ast.Name) and i.test.id == "serialize" and any(contains(b, lambda x: x is n) for b in i.body):
                guarded = True
        if not guarded:
            return False
    # the keyword serialize=True is only written inside ActionTypeHint.serialize
    for tree in src.trees.values():
        for n in ast.walk(tree):
            if isinstance(n, ast.keyword) and n.arg == "serialize" and isinstance(n.value, ast.Constant) and n.value.value is True:
                if src.func_of(n) != "ActionTypeHint.serialize":
                    return False
    return bool(ok)


def rebinds_before(src, fnode, store_node, name):
    """is `name` re-bound (plain assignment) earlier in the same block, or in an enclosing block, inside fnode before store_node?"""
    # walk up: for each enclosing block list, look at the statements preceding the one that contains store_node
    cur = store_node
    while cur in src.parents and cur is not fnode:
        par = src.parents[cur]
        for field in ("body", "orelse", "finalbody"):
            blk = getattr(par, field, None)
            if isinstance(blk, list) and cur in blk:
                for st in blk[: blk.index(cur)]:
                    if isinstance(st, ast.Assign) and any(isinstance(t, ast.Name) and t.id == name for t in st.targets):
                        return st
        if par is fnode:
            break
        cur = par
    return None


def fact_dc_default_on_action(src):
    """adapt_typehints: is there a subscript store sub_add_kwargs['default'] = … on the dict that was passed in?"""
    f = src.func("adapt_typehints")
    for n in src.own_nodes(f):
        if isinstance(n, ast.Assign):
            for t in n.targets:
                if isinstance(t, ast.Subscript) and isinstance(t.value, ast.Name) and t.value.id == "sub_add_kwargs" \
                        and isinstance(t.slice, ast.Constant) and t.slice.value == "default":
                    if rebinds_before(src, f, n, "sub_add_kwargs") is None:
                        return True
    return False


def fact_linked_on_fresh_only(src):
    ok = True
    # adapt_class_type: the mutated dict is re-bound from an action of the freshly built class parser
    f = src.func("adapt_class_type")
    parser_fresh = any(isinstance(n, ast.Assign) and any(isinstance(t, ast.Name) and t.id == "parser" for t in n.targets)
                       and isinstance(n.value, ast.Call) and call_name(n.value) == "get_class_parser" for n in f.body)
    muts = [n for n in src.own_nodes(f) if isinstance(n, ast.Call) and isinstance(n.func, ast.Attribute) and n.func.attr in MUTATORS
            and "sub_add_kwargs" in ast.unparse(n.func.value)]
    for m in muts:
        stmt = m
        while stmt in src.parents and not isinstance(stmt, ast.stmt):
            stmt = src.parents[stmt]
        rb = rebinds_before(src, f, stmt, "sub_add_kwargs")
        good = rb is not None and ast.unparse(rb.value).replace('"', "'") == "getattr(action, 'sub_add_kwargs')"
        if good:
            ab = rebinds_before(src, f, rb, "action")
            good = False
            # action = next(a for a in parser._actions if …) inside the try of the same loop body
            for n in src.own_nodes(f):
                if isinstance(n, ast.Assign) and any(isinstance(t, ast.Name) and t.id == "action" for t in n.targets) and "parser._actions" in ast.unparse(n.value):
                    good = True
            del ab
        ok = ok and good
    ok = ok and parser_fresh and bool(muts)
    # adapt_typehints: the subscript stores go to a deep copy
    f = src.func("adapt_typehints")
    for n in src.own_nodes(f):
        if isinstance(n, ast.Assign):
            for t in n.targets:
                if isinstance(t, ast.Subscript) and isinstance(t.value, ast.Name) and t.value.id == "sub_add_kwargs" \
                        and isinstance(t.slice, ast.Constant) and t.slice.value == "linked_targets":
                    rb = rebinds_before(src, f, n, "sub_add_kwargs")
                    if rb is None or ast.unparse(rb.value).replace('"', "'") != "kwargs['sub_add_kwargs']":
                        ok = False
                    else:
                        kb = rebinds_before(src, f, rb, "kwargs")
                        if kb is None or not (isinstance(kb.value, ast.Call) and call_name(kb.value) == "deepcopy"):
                            ok = False
    # get_class_parser: works on a copy of the dict it is given
    f = src.func("ActionTypeHint.get_class_parser")
    copies = any(isinstance(n, ast.Assign) and any(isinstance(t, ast.Name) and t.id == "kwargs" for t in n.targets)
                 and ast.unparse(n.value).startswith("dict(sub_add_kwargs)") for n in f.body)
    uses_orig = any(isinstance(n, ast.Name) and n.id == "sub_add_kwargs" and isinstance(n.ctx, ast.Load) for st in f.body[2:] for n in ast.walk(st)
                    if not (isinstance(st, ast.Assign) and any(isinstance(t, ast.Name) and t.id == "kwargs" for t in st.targets)))
    ok = ok and copies and not uses_orig
    # is_init_arg_mapping_typehint pops from a copy
    f = src.func("ActionTypeHint.is_init_arg_mapping_typehint")
    for n in src.own_nodes(f):
        if is_call(n, "pop", "sub_add_kwargs"):
            stmt = n
            while not isinstance(stmt, ast.stmt):
                stmt = src.parents[stmt]
            rb = rebinds_before(src, f, stmt, "sub_add_kwargs")
            if rb is None or not ast.unparse(rb.value).startswith("dict("):
                ok = False
    return bool(ok)


def fact_help_default_finally(src):
    """DefaultHelpFormatter._expand_help: every write `… = action.default = …` sits in the body of a `try` whose `finally`
    assigns action.default back (from a name bound before the try)"""
    f = src.func("DefaultHelpFormatter._expand_help")
    writes = [n for n in src.own_nodes(f) if isinstance(n, ast.Assign) and any(ast.unparse(t) == "action.default" for t in n.targets)]
    if not writes:
        return False
    restores = []
    for t in src.own_nodes(f):
        if isinstance(t, ast.Try) and t.finalbody:
            for st in t.finalbody:
                if isinstance(st, ast.Assign) and [ast.unparse(x) for x in st.targets] == ["action.default"] and isinstance(st.value, ast.Name):
                    restores.append((t, st))
    if len(restores) != 1:
        return False
    tr, rst = restores[0]
    for w in writes:
        if w is rst:
            continue
        if not any(contains(b, lambda x: x is w) for b in tr.body):
            return False
    # the restored name is bound from action.default before the try
    i = f.body.index(tr) if tr in f.body else None
    if i is None:
        return False
    return any(isinstance(st, ast.Assign) and any(isinstance(t, ast.Name) and t.id == rst.value.id for t in st.targets)
               and ast.unparse(st.value) == "action.default" for st in f.body[:i])


def fact_shtab_guarded(src):
    f = src.func("handle_completions")
    for n in src.own_nodes(f):
        if isinstance(n, ast.If) and "ShtabAction" in ast.unparse(n.test) and isinstance(n.test, ast.UnaryOp) and isinstance(n.test.op, ast.Not):
            if any(contains(b, lambda x: is_call(x, "add_argument", "parser")) for b in n.body):
                # and it is nested in the check that the parser has no parent
                outer = src.enclosing(n, (ast.If,))
                if any("parent_parser" in ast.unparse(o.test) for o in outer):
                    return True
    return False


def fact_wiring(src):
    for tree in src.trees.values():
        for n in ast.walk(tree):
            tg = []
            if isinstance(n, ast.Assign):
                tg = n.targets
            elif isinstance(n, (ast.AugAssign, ast.AnnAssign)) and getattr(n, "value", None) is not None:
                tg = [n.target]
            for t in tg:
                if isinstance(t, ast.Attribute) and t.attr in WIRING_ATTRS:
                    fq = src.func_of(t)
                    if fq not in WIRING_BUILDERS and not fq.endswith("__init__"):
                        return False
            if isinstance(n, ast.Call) and isinstance(n.func, ast.Name) and n.func.id == "setattr" and len(n.args) >= 2 \
                    and isinstance(n.args[1], ast.Constant) and n.args[1].value in WIRING_ATTRS:
                return False
    return True


# ---------------------------------------------------------------------------------------------------------------------
def lbool(b):
    return "true" if b else "false"


def generate(problems):
    src = Src()
    cvars = context_vars(src)
    pcv = parser_context_var_names(src)
    sets = ctx_sets(src, cvars)
    rows = []
    for var, fn, fin in sets:
        if fn == "parser_context" and var == "context_var":
            for v in pcv:
                rows.append((v, fn, fin))
        else:
            rows.append((var, fn, fin))
    rows = sorted(set(rows))
    seen_unreset = set()
    for var, fn, fin in rows:
        if not fin:
            if (var, fn) in KNOWN_UNRESET:
                seen_unreset.add((var, fn))
            elif any(v == var and f == fn for (v, f) in KNOWN_UNRESET):
                pass
            else:
                # a paired manager that lost its finally is a FACT (ctxResetFinally) unless the function has no reset at all
                f = src.funcs.get(fn) or src.funcs.get(fn + "#2")
                has_reset = f is not None and contains(f[1], lambda x: is_call(x, "reset") and isinstance(x.func.value, ast.Name) and x.func.value.id in (var, "context_var"))
                if not has_reset:
                    problems.append("PState: context variable %s is set in %s without any reset (new persistent carrier)" % (var, fn))
    for (var, fn), what in KNOWN_UNRESET.items():
        if what.startswith("ctx") and (var, fn) not in seen_unreset:
            # the model's carrier is now reset (or gone): the model no longer describes the code
            if not any(v == var and f == fn for v, f, _ in rows):
                problems.append("PState: %s is no longer set in %s" % (var, fn))
    paired = [(v, f, fin) for v, f, fin in rows if (v, f) not in KNOWN_UNRESET]
    ctx_reset_finally = all(fin for _, _, fin in paired) and any(f == "parser_context" for _, f, _ in paired)

    reach = reachable(src)
    writes = []
    for q in sorted(reach):
        fn_name = q.split("#")[0]
        for tgt, how in writes_of(src, q):
            tnorm = tgt.replace('"', "'")
            key = (fn_name, tnorm)
            if how == "build" and not (fn_name in ("handle_completions", "ActionTypeHint.get_class_parser", "_ActionHelpClassPath.print_help")):
                # builders reached from other places are on fresh class parsers too, but must be known
                pass
            cls = KNOWN_WRITES.get(key)
            if cls is None:
                problems.append("PState: unknown persistent write in parse-time code: %s: %s" % (fn_name, tnorm))
                cls = "UNKNOWN"
            writes.append((fn_name, tnorm, how, cls))
    # carriers the model knows must still be written where the model says
    must = [("ArgumentParser.parse_args", "self.args"), ("_ActionPrintConfig.__call__", "parser.print_config"),
            ("handle_completions", "parser.add_argument('--print_shtab', action=ShtabAction)")]
    have = {(f, t) for f, t, _, _ in writes}
    for m in must:
        if m not in have:
            problems.append("PState: carrier write %s: %s not found any more" % m)

    facts = {
        "finallyPops": fact_finally_pops(src),
        "pcirDeletes": fact_pcir_deletes(src),
        "ctxResetFinally": ctx_reset_finally,
        "argsBeforeParse": fact_args_before_parse(src),
        "kwSetAroundParse": fact_kw(src),
        "sapSetAroundParse": fact_sap(src),
        "dkSetInSerialize": fact_dk(src),
        "dcDefaultOnAction": fact_dc_default_on_action(src),
        "linkedOnFreshOnly": fact_linked_on_fresh_only(src),
        "shtabGuarded": fact_shtab_guarded(src),
        "wiringAtBuildOnly": fact_wiring(src),
        "helpDefaultFinally": fact_help_default_finally(src),
    }
    pc_deletes = [(f, t) for f, t, _, c in writes if c == "pending-delete"]
    prows = []
    for row in proc_writes(src):
        cls = KNOWN_PROC_WRITES.get(row)
        if cls is None:
            problems.append("PState: unknown process-level write (module global / module-level container / class attribute / caching decorator): "
                            "%s %s: %s %s" % row)
            cls = "UNKNOWN"
        prows.append(row + (cls,))

    body = "namespace Jap.Gen.PState\n"
    body += "/-- (context variable, function that sets it, token reset in a `finally` of that function) -/\n"
    body += "def ctxSets : List (String × String × Bool) := [\n"
    body += ",\n".join("  (%s, %s, %s)" % (lean_str(v), lean_str(f), lbool(fin)) for v, f, fin in rows) + "]\n"
    body += "/-- (function, target, kind of write, carrier or reason it is none, remark) of the writes made by parse-time code -/\n"
    body += "def writes : List (String × String × String × String × String) := [\n"
    body += ",\n".join("  (%s, %s, %s, %s, %s)" % (lean_str(f), lean_str(t), lean_str(h), lean_str(c.split(":", 1)[0]), lean_str(c.split(":", 1)[1] if ":" in c else ""))
                       for f, t, h, c in writes) + "]\n"
    body += "/-- (file, function, kind, target, classification, remark) of the writes to process-level state (names declared `global`,\n"
    body += "    module-level containers, class attributes, caching decorators) in every function of every module -/\n"
    body += "def procWrites : List (String × String × String × String × String × String) := [\n"
    body += ",\n".join("  (%s, %s, %s, %s, %s, %s)" % (lean_str(a), lean_str(b), lean_str(c), lean_str(d), lean_str(e.split(":", 1)[0]),
                                                      lean_str(e.split(":", 1)[1] if ":" in e else "")) for a, b, c, d, e in prows) + "]\n"
    body += "/-- where a pending print_config request is removed -/\n"
    body += "def printConfigDeletes : List (String × String) := [%s]\n" % ", ".join("(%s, %s)" % (lean_str(f), lean_str(t)) for f, t in pc_deletes)
    for k, v in facts.items():
        body += "def %s : Bool := %s\n" % (k, lbool(v))
    body += "end Jap.Gen.PState\n"
    write_if_changed("PState.lean", body)
    return facts

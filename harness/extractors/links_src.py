"""Gen/LinksSrc.lean (C15): normalised statements of the parse-time link functions the `Jap.Links` model transcribes.

Read off the AST of jsonargparse/_link_arguments.py, one string per statement, nesting shown by two-space indentation,
compound statements as their header line.  Docstrings, comments, imports and `...logger.debug(...)` calls are dropped.
  * initialInputChecks   ActionLink._initial_input_checks     (model: the five tests at the head of `addLink`)
  * linkCall             ActionLink.__call__                  (model: `actionCall`)
  * callComputeFn        ActionLink.call_compute_fn           (model: `linkValue`, the `some n` branch: the function is
                                                               applied to THESE args on EVERY call, nothing is remembered)
  * applyParsingLinks    ActionLink.apply_parsing_links       (model: `applyTree` guards, `readSources`, `coerceArg`,
                                                               `linkValue`, `applyLink`, `applyParsingLinks`)
  * setTargetValue       ActionLink.set_target_value          (model: `setTargetValue`)
  * stripLinkTargetKeys  ActionLink.strip_link_target_keys    (model: `delTargetKey`, `stripKeys`, `stripTree`)
  * getLinkActions       get_link_actions                     (model: `Parser.links` filtered by apply_on)
`tie_*` theorems in Props/C15.lean state the lists the model was written against: an edit of any of these statements
breaks the build (broken tie -> boosted failing-input search)."""
from __future__ import annotations

import ast
import os

from ..extract import lean_str, write_if_changed
from ..lib.common import REPO


def _is_debug(stmt):
    return (isinstance(stmt, ast.Expr) and isinstance(stmt.value, ast.Call) and isinstance(stmt.value.func, ast.Attribute)
            and stmt.value.func.attr == "debug" and "logger" in ast.unparse(stmt.value.func.value))


def _flat(body, depth, out):
    pad = "  " * depth
    for i, st in enumerate(body):
        if i == 0 and isinstance(st, ast.Expr) and isinstance(st.value, ast.Constant) and isinstance(st.value.value, str):
            continue  # docstring
        if isinstance(st, (ast.Import, ast.ImportFrom)) or _is_debug(st):
            continue
        if isinstance(st, ast.If):
            out.append(pad + "if %s:" % ast.unparse(st.test))
            _flat(st.body, depth + 1, out)
            if st.orelse:
                out.append(pad + "else:")
                _flat(st.orelse, depth + 1, out)
        elif isinstance(st, (ast.For, ast.AsyncFor)):
            out.append(pad + "for %s in %s:" % (ast.unparse(st.target), ast.unparse(st.iter)))
            _flat(st.body, depth + 1, out)
            if st.orelse:
                out.append(pad + "else:")
                _flat(st.orelse, depth + 1, out)
        elif isinstance(st, ast.While):
            out.append(pad + "while %s:" % ast.unparse(st.test))
            _flat(st.body, depth + 1, out)
        elif isinstance(st, (ast.With, ast.AsyncWith)):
            out.append(pad + "with %s:" % ", ".join(ast.unparse(i) for i in st.items))
            _flat(st.body, depth + 1, out)
        elif isinstance(st, ast.Try):
            out.append(pad + "try:")
            _flat(st.body, depth + 1, out)
            for h in st.handlers:
                out.append(pad + "except %s%s:" % (ast.unparse(h.type) if h.type else "", (" as " + h.name) if h.name else ""))
                _flat(h.body, depth + 1, out)
            if st.orelse:
                out.append(pad + "else:")
                _flat(st.orelse, depth + 1, out)
            if st.finalbody:
                out.append(pad + "finally:")
                _flat(st.finalbody, depth + 1, out)
        elif isinstance(st, (ast.FunctionDef, ast.AsyncFunctionDef)):
            out.append(pad + "def %s(%s):" % (st.name, ast.unparse(st.args)))
            _flat(st.body, depth + 1, out)
        else:
            out.append(pad + ast.unparse(st))
    return out


def _find(tree, cls, name):
    for node in ast.walk(tree):
        if cls is None and isinstance(node, ast.Module):
            for f in node.body:
                if isinstance(f, ast.FunctionDef) and f.name == name:
                    return f
        if cls is not None and isinstance(node, ast.ClassDef) and node.name == cls:
            for f in node.body:
                if isinstance(f, ast.FunctionDef) and f.name == name:
                    return f
    return None


TABLE = [
    ("initialInputChecks", "ActionLink", "_initial_input_checks"),
    ("linkCall", "ActionLink", "__call__"),
    ("callComputeFn", "ActionLink", "call_compute_fn"),
    ("applyParsingLinks", "ActionLink", "apply_parsing_links"),
    ("setTargetValue", "ActionLink", "set_target_value"),
    ("stripLinkTargetKeys", "ActionLink", "strip_link_target_keys"),
    ("getLinkActions", None, "get_link_actions"),
]


def model(problems=None):
    problems = problems if problems is not None else []
    with open(os.path.join(REPO, "jsonargparse", "_link_arguments.py")) as f:
        tree = ast.parse(f.read())
    out = {}
    for key, cls, name in TABLE:
        fn = _find(tree, cls, name)
        if fn is None:
            problems.append("LinksSrc: %s%s not found" % ((cls + ".") if cls else "", name))
            out[key] = []
            continue
        out[key] = ["def %s(%s):" % (fn.name, ast.unparse(fn.args))] + _flat(fn.body, 1, [])
    return out


def generate(problems):
    m = model(problems)
    body = "namespace Jap.Gen.LinksSrc\n"
    for key, _, _ in TABLE:
        body += "def %s : List String := [\n%s]\n" % (key, ",\n".join("  " + lean_str(x) for x in m[key]))
    body += "end Jap.Gen.LinksSrc\n"
    write_if_changed("LinksSrc.lean", body)

"""Gen/ClassPathTables.lean: literals of jsonargparse/_typehints.py the class_path model (E10b, C14) is tied to.

* `subclassSpecKeys` — the keys `is_subclass_spec` allows in a dict that counts as a class spec
* `nestedArgRoots`   — the string literals `subclass_spec_as_namespace` tests / uses as root keys for a dotted sub-option
* `scalarCoercions`  — (declared, given, result) kinds of JSON scalars the live adapter accepts (non-string samples and a plain word)
"""
from __future__ import annotations

import ast
import os

from ..extract import lean_str_list, write_if_changed
from ..lib.common import REPO


def _func(tree, name):
    for n in ast.walk(tree):
        if isinstance(n, ast.FunctionDef) and n.name == name:
            return n
    return None


def generate(problems):
    src = open(os.path.join(REPO, "jsonargparse", "_typehints.py")).read()
    tree = ast.parse(src)
    keys = []
    f = _func(tree, "is_subclass_spec")
    if f is None:
        problems.append("ClassPathTables: is_subclass_spec not found")
    else:
        sets = [n for n in ast.walk(f) if isinstance(n, ast.Set)]
        if len(sets) != 1:
            problems.append("ClassPathTables: expected one set literal in is_subclass_spec, found %d" % len(sets))
        else:
            keys = sorted(e.value for e in sets[0].elts if isinstance(e, ast.Constant))
    roots = []
    g = _func(tree, "subclass_spec_as_namespace")
    if g is None:
        problems.append("ClassPathTables: subclass_spec_as_namespace not found")
    else:
        roots = sorted({n.value for n in ast.walk(g) if isinstance(n, ast.Constant) and isinstance(n.value, str)})
    # live probe of the adapter: which JSON scalar kinds does a parameter of type int / float / bool / str accept, and as what
    from jsonargparse import ArgumentError, ArgumentParser

    samples = {"int": 3, "float": 2.5, "bool": True, "str": "x"}
    rows = []
    for dname, dtype in (("int", int), ("float", float), ("bool", bool), ("str", str)):
        parser = ArgumentParser(exit_on_error=False)
        parser.add_argument("--v", type=dtype)
        for gname, value in samples.items():
            try:
                r = parser.parse_object({"v": value}).v
            except ArgumentError:
                continue
            rows.append((dname, gname, type(r).__name__))
    # the steps of ArgumentParser._get_instantiators that build the lookup order (assignments to / updates of `instantiators`)
    core = ast.parse(open(os.path.join(REPO, "jsonargparse", "_core.py")).read())
    gi = _func(core, "_get_instantiators")
    steps = []
    if gi is None:
        problems.append("ClassPathTables: _get_instantiators not found")
    else:
        nodes = []
        for n in ast.walk(gi):
            if isinstance(n, ast.Assign) and any(isinstance(t, ast.Name) and t.id == "instantiators" for t in n.targets):
                if not (isinstance(n.value, ast.Call) and isinstance(n.value.func, ast.Attribute) and n.value.func.attr == "copy"):
                    nodes.append(n)
            elif isinstance(n, ast.Expr) and isinstance(n.value, ast.Call) and isinstance(n.value.func, ast.Attribute) \
                    and n.value.func.attr == "update" and isinstance(n.value.func.value, ast.Name) and n.value.func.value.id == "instantiators":
                nodes.append(n)
        nodes.sort(key=lambda n: (n.lineno, n.col_offset))
        steps = [ast.unparse(n) for n in nodes]
    body = "namespace Jap.Gen\n"
    body += "def getInstantiatorsSteps : List String := %s\n" % lean_str_list(steps)
    body += "def scalarCoercions : List (String × String × String) := [%s]\n" % ", ".join('("%s", "%s", "%s")' % r for r in rows)
    body += "def subclassSpecKeys : List String := %s\n" % lean_str_list(keys)
    body += "def nestedArgRoots : List String := %s\n" % lean_str_list(roots)
    body += "end Jap.Gen\n"
    write_if_changed("ClassPathTables.lean", body)

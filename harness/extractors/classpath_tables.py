"""Gen/ClassPathTables.lean: literals of jsonargparse/_typehints.py the class_path model (E10b, C14) is tied to.

* `subclassSpecKeys` — the keys `is_subclass_spec` allows in a dict that counts as a class spec
* `nestedArgRoots`   — the string literals `subclass_spec_as_namespace` tests / uses as root keys for a dotted sub-option
* `scalarCoercions`  — (declared, given, result) kinds of JSON scalars the live adapter accepts (non-string samples and a plain word)
"""
from __future__ import annotations

import ast
import os

from ..extract import lean_str, lean_str_list, write_if_changed
from ..lib.common import REPO


def _func(tree, name):
    for n in ast.walk(tree):
        if isinstance(n, ast.FunctionDef) and n.name == name:
            return n
    return None


def generate(problems):
    src = open(os.path.join(REPO, "jsonargparse", "_typehints.py")).read()
    tree = ast.parse(src)
    keys = []
    f = _func(tree, "is_subclass_spec")
    if f is None:
        problems.append("ClassPathTables: is_subclass_spec not found")
    else:
        sets = [n for n in ast.walk(f) if isinstance(n, ast.Set)]
        if len(sets) != 1:
            problems.append("ClassPathTables: expected one set literal in is_subclass_spec, found %d" % len(sets))
        else:
            keys = sorted(e.value for e in sets[0].elts if isinstance(e, ast.Constant))
    roots = []
    g = _func(tree, "subclass_spec_as_namespace")
    if g is None:
        problems.append("ClassPathTables: subclass_spec_as_namespace not found")
    else:
        roots = sorted({n.value for n in ast.walk(g) if isinstance(n, ast.Constant) and isinstance(n.value, str)})
    # live probe of the adapter: which JSON scalar kinds does a parameter of type int / float / bool / str accept, and as what
    from jsonargparse import ArgumentError, ArgumentParser

    samples = {"int": 3, "float": 2.5, "bool": True, "str": "x"}
    rows = []
    for dname, dtype in (("int", int), ("float", float), ("bool", bool), ("str", str)):
        parser = ArgumentParser(exit_on_error=False)
        parser.add_argument("--v", type=dtype)
        for gname, value in samples.items():
            try:
                r = parser.parse_object({"v": value}).v
            except ArgumentError:
                continue
            rows.append((dname, gname, type(r).__name__))
    # the steps of ArgumentParser._get_instantiators that build the lookup order (assignments to / updates of `instantiators`)
    core = ast.parse(open(os.path.join(REPO, "jsonargparse", "_core.py")).read())
    gi = _func(core, "_get_instantiators")
    steps = []
    if gi is None:
        problems.append("ClassPathTables: _get_instantiators not found")
    else:
        nodes = []
        for n in ast.walk(gi):
            if isinstance(n, ast.Assign) and any(isinstance(t, ast.Name) and t.id == "instantiators" for t in n.targets):
                if not (isinstance(n.value, ast.Call) and isinstance(n.value.func, ast.Attribute) and n.value.func.attr == "copy"):
                    nodes.append(n)
            elif isinstance(n, ast.Expr) and isinstance(n.value, ast.Call) and isinstance(n.value.func, ast.Attribute) \
                    and n.value.func.attr == "update" and isinstance(n.value.func.value, ast.Name) and n.value.func.value.id == "instantiators":
                nodes.append(n)
        nodes.sort(key=lambda n: (n.lineno, n.col_offset))
        steps = [ast.unparse(n) for n in nodes]
    # --- statements the walk / discard / resolve-by-name / dataclass models transcribe ------------------------------
    def norm(n):
        return ast.unparse(n).replace('"', "'")

    walk = None
    for n in ast.walk(tree):
        if isinstance(n, ast.ClassDef) and n.name == "ActionTypeHint":
            for m in n.body:
                if isinstance(m, ast.FunctionDef) and m.name == "discard_init_args_on_class_path_change":
                    walk = m
    prune, sep, wguard = [], "", []
    if walk is None:
        problems.append("ClassPathTables: ActionTypeHint.discard_init_args_on_class_path_change not found")
    else:
        for n in ast.walk(walk):
            if isinstance(n, ast.Assign) and len(n.targets) == 1 and isinstance(n.targets[0], ast.Name) and n.targets[0].id == "keys" \
                    and any(isinstance(x, ast.ListComp) for x in ast.walk(n.value)):
                prune.append(norm(n))
                for c in ast.walk(n.value):
                    if isinstance(c, ast.Call) and isinstance(c.func, ast.Attribute) and c.func.attr == "startswith" and c.args:
                        a = c.args[0]
                        if isinstance(a, ast.BinOp) and isinstance(a.op, ast.Add) and isinstance(a.left, ast.Name) and isinstance(a.right, ast.Constant) \
                                and isinstance(a.right.value, str):
                            sep = a.right.value
                        elif isinstance(a, ast.Name):
                            sep = ""
                        else:
                            problems.append("ClassPathTables: unexpected prefix test in the discard walk: " + norm(a))
        ifs = [n for n in ast.walk(walk) if isinstance(n, ast.If)]
        ifs.sort(key=lambda n: (n.lineno, n.col_offset))
        wguard = [norm(n.test) for n in ifs if "isinstance(prev_cfg" not in norm(n.test) and "not isinstance(parser_or_action" not in norm(n.test)]
        if len(prune) != 1:
            problems.append("ClassPathTables: expected one pruning assignment to `keys` in the discard walk, found %d" % len(prune))
    mod_discard = None
    for n in tree.body:
        if isinstance(n, ast.FunctionDef) and n.name == "discard_init_args_on_class_path_change":
            mod_discard = n
    mguard, mdrops = [], []
    if mod_discard is None:
        problems.append("ClassPathTables: module-level discard_init_args_on_class_path_change not found")
    else:
        top_ifs = [n for n in mod_discard.body if isinstance(n, ast.If)]
        mguard = [norm(n.test) for n in top_ifs]
        for n in ast.walk(mod_discard):
            if isinstance(n, ast.If) and norm(n.test) == "not action":
                mdrops.append(norm(n))
    dc_test = []
    at = _func(tree, "adapt_typehints")
    if at is None:
        problems.append("ClassPathTables: adapt_typehints not found")
    else:
        for n in ast.walk(at):
            if isinstance(n, ast.If) and "is_dataclass_like(typehint)" in norm(n.test):
                for m in ast.walk(n):
                    if isinstance(m, ast.If) and "is_subclass_spec(val)" in norm(m.test) and any(
                            isinstance(x, ast.Assign) and norm(x) == "val = val.get('init_args')" for x in m.body):
                        dc_test.append(norm(m.test))
        dc_test = sorted(set(dc_test))
        if len(dc_test) != 1:
            problems.append("ClassPathTables: expected one `val = val.get('init_args')` guard in the Dataclass-like branch, found %d" % len(dc_test))
    rbn = _func(tree, "resolve_class_path_by_name")
    rbn_tests = []
    if rbn is None:
        problems.append("ClassPathTables: resolve_class_path_by_name not found")
    else:
        ifs = [n for n in ast.walk(rbn) if isinstance(n, ast.If)]
        ifs.sort(key=lambda n: (n.lineno, n.col_offset))
        rbn_tests = [norm(n.test) for n in ifs]
    act = _func(tree, "adapt_class_type")
    act_dk = []
    if act is None:
        problems.append("ClassPathTables: adapt_class_type not found")
    else:
        ifs = [n for n in ast.walk(act) if isinstance(n, ast.If)]
        ifs.sort(key=lambda n: (n.lineno, n.col_offset))
        act_dk = [norm(n) for n in ifs if norm(n.test) == "_find_action(parser, key)" or "prev_val.get('dict_kwargs')" in norm(n.test)]
    body = "namespace Jap.Gen\n"
    body += "def discardPruneSep : String := %s\n" % lean_str(sep)
    body += "def discardWalkPrune : List String := %s\n" % lean_str_list(prune)
    body += "def discardWalkGuard : List String := %s\n" % lean_str_list(wguard)
    body += "def discardModuleGuard : List String := %s\n" % lean_str_list(mguard)
    body += "def discardModuleDrops : List String := %s\n" % lean_str_list(mdrops)
    body += "def dataclassSpecTest : List String := %s\n" % lean_str_list(dc_test)
    body += "def resolveByNameTests : List String := %s\n" % lean_str_list(rbn_tests)
    body += "def adaptClassTypeDictKwargs : List String := %s\n" % lean_str_list(act_dk)
    body += "def getInstantiatorsSteps : List String := %s\n" % lean_str_list(steps)
    body += "def scalarCoercions : List (String × String × String) := [%s]\n" % ", ".join('("%s", "%s", "%s")' % r for r in rows)
    body += "def subclassSpecKeys : List String := %s\n" % lean_str_list(keys)
    body += "def nestedArgRoots : List String := %s\n" % lean_str_list(roots)
    body += "end Jap.Gen\n"
    write_if_changed("ClassPathTables.lean", body)

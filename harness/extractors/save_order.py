"""Gen/SaveOrder.lean: the order of the file-system relevant steps of ArgumentParser.save, read off the
AST of /repo/jsonargparse/_core.py (evaluation order: arguments before the call, `with` item before body),
the keyword defaults of save(), the test of check_overwrite and the raising tests of Path(mode='..c..')."""
import ast
import os

from ..extract import lean_str, lean_str_list, write_if_changed


def _call_name(call):
    f = call.func
    if isinstance(f, ast.Name):
        return f.id, None
    if isinstance(f, ast.Attribute):
        base = f.value.id if isinstance(f.value, ast.Name) else None
        return f.attr, base
    return None, None


def _classify(call):
    name, base = _call_name(call)
    if name == "check_valid_dump_format":
        return "format"
    if name == "Path" and base is None:
        for kw in call.keywords:
            if kw.arg == "mode" and isinstance(kw.value, ast.Constant):
                return "path_fc" if kw.value.value == "fc" else "path_" + str(kw.value.value)
        return None
    if name == "check_overwrite":
        return "check_overwrite"
    if name == "dump" and base == "self":
        return "dump"
    if name == "open" and base is None:
        return "open"
    if name == "write":
        return "write"
    if name == "clone":
        return "clone"
    if name == "strip_link_target_keys":
        return "strip_links"
    if name == "validate" and base == "self":
        return "validate"
    if name == "save_paths":
        return "save_paths"
    if name == "dump_using_format":
        return "serialise"
    if name == "get_content":
        return "get_content"
    return None


def expr_events(node):
    """recognised calls inside an expression, in evaluation order (post-order)"""
    out = []
    if node is None:
        return out
    if isinstance(node, ast.Call):
        out += expr_events(node.func)
        for a in node.args:
            out += expr_events(a)
        for k in node.keywords:
            out += expr_events(k.value)
        c = _classify(node)
        if c:
            out.append(c)
        return out
    for ch in ast.iter_child_nodes(node):
        if isinstance(ch, (ast.expr, ast.keyword, ast.comprehension)):
            out += expr_events(ch)
    return out


def stmt_events(stmts):
    out = []
    for st in stmts:
        if isinstance(st, (ast.FunctionDef, ast.AsyncFunctionDef, ast.ClassDef)):
            continue
        if isinstance(st, ast.With):
            for it in st.items:
                out += expr_events(it.context_expr)
            out += stmt_events(st.body)
        elif isinstance(st, ast.If):
            out += expr_events(st.test) + stmt_events(st.body) + stmt_events(st.orelse)
        elif isinstance(st, (ast.For, ast.While)):
            out += expr_events(getattr(st, "iter", None) or getattr(st, "test", None)) + stmt_events(st.body) + stmt_events(st.orelse)
        elif isinstance(st, ast.Try):
            out += stmt_events(st.body)
            for h in st.handlers:
                out += stmt_events(h.body)
            out += stmt_events(st.orelse) + stmt_events(st.finalbody)
        else:
            out += expr_events(st)
    return out


def _fsspec_classify(call):
    name, base = _call_name(call)
    if name == "open" and base == "fsspec":
        return "fsspec_open"
    if name == "open" and base is None:
        return "open"
    return _classify(call)


def _expr_events_with(node, classify):
    out = []
    if node is None:
        return out
    if isinstance(node, ast.Call):
        out += _expr_events_with(node.func, classify)
        for a in node.args:
            out += _expr_events_with(a, classify)
        for k in node.keywords:
            out += _expr_events_with(k.value, classify)
        c = classify(node)
        if c:
            out.append(c)
        return out
    for ch in ast.iter_child_nodes(node):
        if isinstance(ch, (ast.expr, ast.keyword, ast.comprehension)):
            out += _expr_events_with(ch, classify)
    return out


def control_events(stmts):
    """like stmt_events, but the control structure is part of the record: `if:<test>`, `except:<type>`,
    `raise:<exception>`, `return` (used for the fsspec block, whose guards matter)"""
    out = []
    for st in stmts:
        if isinstance(st, (ast.FunctionDef, ast.AsyncFunctionDef, ast.ClassDef)):
            continue
        if isinstance(st, ast.With):
            for it in st.items:
                out += _expr_events_with(it.context_expr, _fsspec_classify)
            out += control_events(st.body)
        elif isinstance(st, ast.If):
            out += _expr_events_with(st.test, _fsspec_classify) + ["if:" + ast.unparse(st.test)] + control_events(st.body)
            if st.orelse:
                out += ["else"] + control_events(st.orelse)
        elif isinstance(st, ast.Try):
            out += control_events(st.body)
            for h in st.handlers:
                out += ["except:" + (ast.unparse(h.type) if h.type is not None else "*")] + control_events(h.body)
            out += control_events(st.orelse) + control_events(st.finalbody)
        elif isinstance(st, ast.Raise):
            exc = st.exc
            if isinstance(exc, ast.Call):
                out += _expr_events_with(exc, _fsspec_classify)
                exc = exc.func
            out.append("raise:" + (ast.unparse(exc) if exc is not None else ""))
        elif isinstance(st, ast.Return):
            out += _expr_events_with(st.value, _fsspec_classify) + ["return"]
        elif isinstance(st, (ast.For, ast.While)):
            out += ["loop"] + control_events(st.body) + control_events(st.orelse)
        else:
            out += _expr_events_with(st, _fsspec_classify)
    return out


def file_exprs(fn):
    """which file does each check / each open look at: the assignments to path_fc / val_path, the argument of every
    check_overwrite(...) and the first argument + mode of every builtin open(...), in source order"""
    out = []
    for node in ast.walk(fn):
        pass
    def visit(stmts):
        for st in stmts:
            if isinstance(st, ast.If) and "fsspec_support" in ast.unparse(st.test):
                continue
            if isinstance(st, ast.Assign) and len(st.targets) == 1 and isinstance(st.targets[0], ast.Name) and st.targets[0].id in ("path_fc", "val_path"):
                out.append(ast.unparse(st))
            for sub in ast.walk(st) if not isinstance(st, (ast.If, ast.For, ast.While, ast.With, ast.Try, ast.FunctionDef)) else []:
                if isinstance(sub, ast.Call):
                    name, base = _call_name(sub)
                    if name == "check_overwrite" and base is None:
                        out.append("check:" + ", ".join(ast.unparse(a) for a in sub.args))
            if isinstance(st, ast.With):
                for it in st.items:
                    for sub in ast.walk(it.context_expr):
                        if isinstance(sub, ast.Call):
                            name, base = _call_name(sub)
                            if name == "open" and base is None:
                                out.append("open:" + ", ".join(ast.unparse(a) for a in sub.args))
                visit(st.body)
            elif isinstance(st, ast.If):
                visit(st.body)
                visit(st.orelse)
            elif isinstance(st, (ast.For, ast.While)):
                visit(st.body)
            elif isinstance(st, ast.Try):
                visit(st.body)
                for h in st.handlers:
                    visit(h.body)
            elif isinstance(st, ast.FunctionDef):
                visit(st.body)
    visit(fn.body)
    return out


def _find(nodes, kind, name):
    for n in nodes:
        if isinstance(n, kind) and getattr(n, "name", None) == name:
            return n
    return None


def _find_if(stmts, needle):
    """first If (searched recursively through for/with/if bodies) whose test source contains `needle`"""
    for st in stmts:
        if isinstance(st, ast.If):
            if needle in ast.unparse(st.test):
                return st
            r = _find_if(st.body, needle) or _find_if(st.orelse, needle)
            if r:
                return r
        elif isinstance(st, (ast.For, ast.While, ast.With)):
            r = _find_if(st.body, needle)
            if r:
                return r
    return None


def generate(problems):
    import jsonargparse

    pkg = os.path.dirname(os.path.abspath(jsonargparse.__file__))
    core = ast.parse(open(os.path.join(pkg, "_core.py")).read())
    cls = _find(core.body, ast.ClassDef, "ArgumentParser")
    save = _find(cls.body, ast.FunctionDef, "save") if cls else None
    if save is None:
        problems.append("SaveOrder: ArgumentParser.save not found")
        return

    # keyword defaults
    names = [a.arg for a in save.args.args]
    defaults = dict(zip(names[len(names) - len(save.args.defaults):], save.args.defaults))
    dflt = {}
    for k in ("overwrite", "multifile"):
        v = defaults.get(k)
        if not (isinstance(v, ast.Constant) and isinstance(v.value, bool)):
            problems.append("SaveOrder: keyword %s of save() has no boolean default" % k)
            return
        dflt[k] = v.value

    # check_overwrite
    co = _find(save.body, ast.FunctionDef, "check_overwrite")
    co_test = ""
    if co and len(co.body) == 1 and isinstance(co.body[0], ast.If) and any(isinstance(x, ast.Raise) for x in co.body[0].body):
        co_test = ast.unparse(co.body[0].test)
    else:
        problems.append("SaveOrder: check_overwrite is no longer a single `if ...: raise`")

    # main flow: statements of save() outside the fsspec block, split at `if not multifile`
    prefix, single, multi, seen_split = [], None, None, False
    for st in save.body:
        if isinstance(st, ast.If) and "fsspec_support" in ast.unparse(st.test):
            continue
        if isinstance(st, ast.If) and ast.unparse(st.test) in ("not multifile", "multifile"):
            neg = ast.unparse(st.test) == "not multifile"
            a, b = stmt_events(st.body), stmt_events(st.orelse)
            single, multi = (a, b) if neg else (b, a)
            seen_split = True
            continue
        ev = stmt_events([st])
        if seen_split:
            single += ev
            multi += ev
        else:
            prefix += ev
    if not seen_split:
        problems.append("SaveOrder: `if not multifile` split not found in save()")
        return
    single = prefix + single
    multi = prefix + multi

    # save_paths: the two kinds of sub-file
    multi_if = [st for st in save.body if isinstance(st, ast.If) and ast.unparse(st.test) in ("not multifile", "multifile")][0]
    multi_body = multi_if.orelse if ast.unparse(multi_if.test) == "not multifile" else multi_if.body
    sp = _find(multi_body, ast.FunctionDef, "save_paths")
    sub_cfg, sub_content = [], []
    if sp is None:
        problems.append("SaveOrder: save_paths not found")
    else:
        outer = _find_if(sp.body, "'__path__' in val")
        if outer is None:
            problems.append("SaveOrder: `'__path__' in val` branch not found in save_paths")
        else:
            inner = _find_if(outer.body, "isinstance(action")
            sub_cfg = stmt_events(inner.body if inner else outer.body)
            cont = _find_if(outer.orelse, "save_path_content")
            if cont is None:
                problems.append("SaveOrder: save_path_content branch not found in save_paths")
            else:
                sub_content = stmt_events(cont.body)

    # Path(mode="..c.."): tests that raise
    util = ast.parse(open(os.path.join(pkg, "_util.py")).read())
    pcls = _find(util.body, ast.ClassDef, "Path")
    init = _find(pcls.body, ast.FunctionDef, "__init__") if pcls else None
    fc_checks = []
    fc_parent = ""
    cif = _find_if(init.body, "'c' in mode") if init else None
    if cif is None or ast.unparse(cif.test) != "'c' in mode":
        problems.append("SaveOrder: `if 'c' in mode` block not found in Path.__init__")
    else:
        for st in cif.body:
            if isinstance(st, ast.If) and any(isinstance(x, ast.Raise) for x in st.body):
                fc_checks.append(ast.unparse(st.test))
        # which directory is "the parent": first assignment to pdir in the block
        for st in cif.body:
            if isinstance(st, ast.Assign) and len(st.targets) == 1 and isinstance(st.targets[0], ast.Name) and st.targets[0].id == "pdir":
                fc_parent = ast.unparse(st.value)
                break
        else:
            problems.append("SaveOrder: assignment to pdir not found in the 'c' block of Path.__init__")

    # the fsspec block of save(): effect steps WITH their guards
    fs_if = [st for st in save.body if isinstance(st, ast.If) and "fsspec_support" in ast.unparse(st.test)]
    fsspec_steps = control_events(fs_if[0].body) if len(fs_if) == 1 else []
    if len(fs_if) != 1:
        problems.append("SaveOrder: `if fsspec_support` block not found in save()")
    # position of the block: after the format check, before Path(mode='fc')
    pos = [("fsspec" if (isinstance(st, ast.If) and "fsspec_support" in ast.unparse(st.test)) else e)
           for st in save.body for e in (["fsspec"] if (isinstance(st, ast.If) and "fsspec_support" in ast.unparse(st.test)) else stmt_events([st]) if not (isinstance(st, ast.If) and ast.unparse(st.test) in ("not multifile", "multifile")) else ["split"])]

    # Path(mode='..s..') on an fsspec path: how it probes the path
    probe = []
    pif = _find_if(init.body, "_skip_check and is_fsspec") if init else None
    if pif is None:
        problems.append("SaveOrder: fsspec block not found in Path.__init__")
    else:
        for sub in ast.walk(ast.Module(body=pif.body, type_ignores=[])):
            if isinstance(sub, ast.Assign) and len(sub.targets) == 1 and isinstance(sub.targets[0], ast.Name) and sub.targets[0].id == "fsspec_mode":
                probe.append(ast.unparse(sub))
        for sub in ast.walk(ast.Module(body=pif.body, type_ignores=[])):
            if isinstance(sub, ast.If) and any(isinstance(x, ast.Try) for x in sub.body):
                probe.append("if " + ast.unparse(sub.test))
        for sub in ast.walk(ast.Module(body=pif.body, type_ignores=[])):
            if isinstance(sub, ast.Try):
                for st in sub.body:
                    v = getattr(st, "value", None)
                    if isinstance(v, ast.Call):
                        probe.append(ast.unparse(v))

    # the fsspec block: which file its overwrite check and its open look at
    fs_files = []
    for sub in (ast.walk(fs_if[0]) if len(fs_if) == 1 else []):
        if isinstance(sub, ast.Assign) and any(n in ast.unparse(sub.targets[0]) for n in ("path_s", "fs_path")):
            fs_files.append(ast.unparse(sub))
    for sub in (ast.walk(fs_if[0]) if len(fs_if) == 1 else []):
        if isinstance(sub, ast.Call) and _call_name(sub) == ("open", "fsspec"):
            fs_files.append("open:" + ", ".join(ast.unparse(a) for a in sub.args))

    # every statement of save() (docstring excluded), normalised by ast.unparse
    stmts = [ast.unparse(st) for st in save.body
             if not (isinstance(st, ast.Expr) and isinstance(st.value, ast.Constant) and isinstance(st.value.value, str))]
    sig = ast.unparse(save.args)

    body = "namespace Jap.Gen.SaveOrder\n"
    body += "def overwriteDefault : Bool := %s\n" % ("true" if dflt["overwrite"] else "false")
    body += "def multifileDefault : Bool := %s\n" % ("true" if dflt["multifile"] else "false")
    body += "def checkOverwriteTest : String := %s\n" % lean_str(co_test)
    body += "def singleSteps : List String := %s\n" % lean_str_list(single)
    body += "def multiSteps : List String := %s\n" % lean_str_list(multi)
    body += "def subCfgSteps : List String := %s\n" % lean_str_list(sub_cfg)
    body += "def subContentSteps : List String := %s\n" % lean_str_list(sub_content)
    body += "def pathCreatableParent : String := %s\n" % lean_str(fc_parent)
    body += "def pathCreatableChecks : List String := %s\n" % lean_str_list(fc_checks)
    body += "def fsspecSteps : List String := %s\n" % lean_str_list(fsspec_steps)
    body += "def saveTopLevel : List String := %s\n" % lean_str_list(pos)
    body += "def pathFsspecProbe : List String := %s\n" % lean_str_list(probe)
    body += "def fsspecFileExprs : List String := %s\n" % lean_str_list(fs_files)
    body += "def fileExprs : List String := %s\n" % lean_str_list(file_exprs(save))
    body += "def saveSignature : String := %s\n" % lean_str(sig)
    body += "def saveStatements : List String :=\n  [%s]\n" % ",\n   ".join(lean_str(x) for x in stmts)
    body += "end Jap.Gen.SaveOrder\n"
    write_if_changed("SaveOrder.lean", body)
